----------------------------- MODULE OrphanPool -----------------------------
(***************************************************************************)
(* The block orphan pool (chain/src/utils/orphan_block_pool.rs).            *)
(*                                                                         *)
(* Mathematical model: `pool`, the set of stored blocks of a block forest   *)
(* (`par` = parent of every block, `ep` = the epoch a block carries).       *)
(*   Leaders          = parents of stored blocks that are themselves absent *)
(*   release of p     = exactly the stored descendants of p, each once;     *)
(*                      exactly the rest is kept                            *)
(* Beside it the three maps the structure keeps incrementally (`blocks`:    *)
(* children grouped by parent, `parents`: key set = stored blocks, `leaders`)*)
(* are updated the way the structure is organised (one action per public    *)
(* operation); the invariants say that the incremental maps always equal    *)
(* what the mathematical model defines.                                     *)
(*                                                                         *)
(*   Insert(b)           OrphanBlockPool::insert (also re-insertion and      *)
(*                       out-of-order insertion: child before parent)        *)
(*   Release(p)          remove_blocks_by_parent(p) for an absent p          *)
(*   ReleaseHeld(p)      remove_blocks_by_parent(p) for a p that is itself   *)
(*                       still an orphan: nothing is released (named        *)
(*                       behaviour of the code: only leaders release)        *)
(*   CleanExpired(t, C)  clean_expired_blocks(t): the sub-forests below the  *)
(*                       leaders C are dropped.  A leader whose stored       *)
(*                       children all carry an expired epoch MUST be in C, a *)
(*                       leader with no expired child MUST NOT; for mixed    *)
(*                       children (cannot happen for honest blocks: siblings *)
(*                       share the epoch) the specification is silent.       *)
(***************************************************************************)
EXTENDS Naturals, Sequences, FiniteSets, SequencesExt, TLC
CONSTANTS Ids,           \* block ids that may be inserted
          Roots,         \* ids of blocks that are never inserted (known to the chain, or never seen)
          ExpiredEpoch   \* EXPIRED_EPOCH (6)

VARIABLES par, ep,       \* the forest and the epochs: fixed by Reset / Init
          pool,          \* mathematical model: set of stored blocks
          blocks,        \* structure: [parent id -> set of stored children]  ({} = key absent)
          parents,       \* structure: key set of the `parents` map
          leaders,       \* structure: the leader set
          out            \* the last operation, its result (sequence) and the result the model demands (set)
vars == <<par, ep, pool, blocks, parents, leaders, out>>

Nodes == Ids \cup Roots

\* stored children of p / stored descendants of p, in the mathematical model
Kids(p, S) == {b \in S : par[b] = p}
RECURSIVE DescFrom(_, _)
DescFrom(F, S) == LET nxt == {b \in S \ F : par[b] \in F} IN IF nxt = {} THEN F ELSE DescFrom(F \cup nxt, S)
Desc(p, S) == IF Kids(p, S) = {} THEN {} ELSE DescFrom(Kids(p, S), S)
\* leader set as the property defines it
Leaders(S) == {par[b] : b \in S} \ S

\* the breadth-first walk of remove_blocks_by_parent over the `blocks` map
RECURSIVE Walk(_, _, _)
Walk(queue, blks, acc) ==
  IF queue = <<>> THEN [blks |-> blks, acc |-> acc]
  ELSE LET h == Head(queue)
           ks == SetToSeq(blks[h])
       IN Walk(Tail(queue) \o ks, [blks EXCEPT ![h] = {}], acc \o ks)

NoOut == [op |-> "none", arg |-> 0, ret |-> <<>>, exp |-> {}]

Empty == /\ pool = {} /\ blocks = [n \in Nodes |-> {}] /\ parents = {} /\ leaders = {} /\ out = NoOut

Insert(b) ==
  /\ b \in Ids
  /\ pool' = pool \cup {b}
  /\ blocks' = [blocks EXCEPT ![par[b]] = @ \cup {b}]
  /\ leaders' = (leaders \ {b}) \cup (IF par[b] \in parents THEN {} ELSE {par[b]})
  /\ parents' = parents \cup {b}
  /\ out' = [op |-> "Insert", arg |-> b, ret |-> <<>>, exp |-> {}]
  /\ UNCHANGED <<par, ep>>

\* the structure's release step from leader p
ReleaseMaps(p, blks, prs, lds) ==
  IF p \notin lds THEN [blocks |-> blks, parents |-> prs, leaders |-> lds, ret |-> <<>>]
  ELSE LET w == Walk(<<p>>, blks, <<>>)
       IN [blocks |-> w.blks, parents |-> prs \ Range(w.acc), leaders |-> lds \ {p}, ret |-> w.acc]

Release(p) ==
  /\ p \in Nodes /\ p \notin pool
  /\ LET r == ReleaseMaps(p, blocks, parents, leaders)
     IN /\ blocks' = r.blocks /\ parents' = r.parents /\ leaders' = r.leaders
        /\ out' = [op |-> "Release", arg |-> p, ret |-> r.ret, exp |-> Desc(p, pool)]
  /\ pool' = pool \ Desc(p, pool)
  /\ UNCHANGED <<par, ep>>

ReleaseHeld(p) ==
  /\ p \in pool
  /\ out' = [op |-> "ReleaseHeld", arg |-> p, ret |-> <<>>, exp |-> {}]
  /\ UNCHANGED <<par, ep, pool, blocks, parents, leaders>>

IsExpired(b, tip) == ep[b] + ExpiredEpoch < tip
MustClean(tip) == {l \in Leaders(pool) : \A b \in Kids(l, pool) : IsExpired(b, tip)}
MayClean(tip)  == {l \in Leaders(pool) : \E b \in Kids(l, pool) : IsExpired(b, tip)}

RECURSIVE ReleaseAll(_, _)
ReleaseAll(ls, st) ==          \* st = [blocks, parents, leaders, ret]
  IF ls = <<>> THEN st
  ELSE LET r == ReleaseMaps(Head(ls), st.blocks, st.parents, st.leaders)
       IN ReleaseAll(Tail(ls), [blocks |-> r.blocks, parents |-> r.parents, leaders |-> r.leaders,
                                ret |-> st.ret \o r.ret])

CleanExpired(tip, C) ==
  /\ MustClean(tip) \subseteq C /\ C \subseteq MayClean(tip)
  /\ LET r == ReleaseAll(SetToSeq(C), [blocks |-> blocks, parents |-> parents, leaders |-> leaders, ret |-> <<>>])
         gone == UNION {Desc(l, pool) : l \in C}
     IN /\ blocks' = r.blocks /\ parents' = r.parents /\ leaders' = r.leaders
        /\ out' = [op |-> "Clean", arg |-> tip, ret |-> r.ret, exp |-> gone]
        /\ pool' = pool \ gone
  /\ UNCHANGED <<par, ep>>

-----------------------------------------------------------------------------
\* C17, orphan pool: what the incremental maps must always satisfy
PoolIsParents == parents = pool
LeadersExact  == leaders = Leaders(pool)
GroupedExact  == \A n \in Nodes : blocks[n] = Kids(n, pool)
\* a release returns exactly the stored descendants, each once
ReturnExact   == /\ Range(out.ret) = out.exp
                 /\ Len(out.ret) = Cardinality(out.exp)
\* ... and keeps exactly the rest (pool' = pool \ exp is how `pool` is defined; the maps must follow)
\* the same as a property of every step (lets an exhaustive run leave `out` out of its VIEW)
ReturnExactStep == /\ Range(out'.ret) = out'.exp
                   /\ Len(out'.ret) = Cardinality(out'.exp)
ReturnExactAlways == [][ReturnExactStep]_vars
StateView == <<par, ep, pool, blocks, parents, leaders>>
=============================================================================
