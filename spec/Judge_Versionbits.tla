-------------------------- MODULE Judge_Versionbits --------------------------
(* Judge: evaluates Versionbits.tla on block trees RECORDED from a real node (g_versionbits node): *)
(* every line of IOEnv.TREES is one tree (parent / signal / epoch of every block + the deployment). *)
(* For each tree of period `Period` TLC prints the same tables as MC_Versionbits (anchor of every    *)
(* block; per period boundary: previous state -> allowed states, answer of the loop as coded).       *)
EXTENDS MC_Versionbits, IOUtils

Recs == ndJsonDeserialize(IOEnv.TREES)

JInit == \E i \in 1..Len(Recs) :
           LET r == Recs[i]
               n == r.n
           IN /\ r.period = Period
              /\ parent = [b \in 0..n |-> IF b = 0 THEN 0 ELSE r.parent[b]]
              /\ sig = [b \in 0..n |-> IF b = 0 THEN FALSE ELSE r.sig[b]]
              /\ en = [b \in 0..n |-> IF b = 0 THEN 0 ELSE r.ep[b][1]]
              /\ ei = [b \in 0..n |-> IF b = 0 THEN 0 ELSE r.ep[b][2]]
              /\ el = [b \in 0..n |-> IF b = 0 THEN r.glen ELSE r.ep[b][3]]
              /\ minted = n /\ forkAt = r.idx          \* forkAt carries the record's index (Mint is not used here)
              /\ start = r.start /\ timeout = r.timeout /\ minact = r.minact /\ thr = <<r.num, r.den>>
              /\ cache = [k \in -1..n |-> "none"] /\ last = <<-1, "none">>
JNext == UNCHANGED vars
JSpec == JInit /\ [][JNext]_vars

JRecord == [ idx |-> forkAt, n |-> minted, anchor |-> [i \in 1..minted |-> AnchorKey(i)],
             keys |-> [i \in 1..Cardinality(AnchorKeys) |-> KeyRec(SetSeq(AnchorKeys)[i])] ]
EmitJudge == PrintT(<<"J", ToJson(JRecord)>>)
\* the recorded tree is well-formed: epochs continue / follow each other as the model's Mint would build them
WellFormed == \A b \in 1..minted :
                 LET p == parent[b] IN
                 /\ p < b
                 /\ IF ei[p] + 1 >= el[p] THEN en[b] = en[p] + 1 /\ ei[b] = 0
                                          ELSE en[b] = en[p] /\ ei[b] = ei[p] + 1 /\ el[b] = el[p]
                 /\ \A x \in 1..minted : (parent[x] = p /\ ei[x] = 0 /\ ei[b] = 0) => el[x] = el[b]
=============================================================================
