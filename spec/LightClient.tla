----------------------------- MODULE LightClient -----------------------------
(***************************************************************************************************)
(* Growth item (DESIGN 3.7 (5)): the light-client protocol server on top of MMR.tla                *)
(* (util/light-client-protocol-server/src/components/{get_blocks_proof, get_transactions_proof,    *)
(* get_last_state_proof}.rs, lib.rs reply_proof / reply_tip_state; RFC 0044).                      *)
(*                                                                                                 *)
(* A client knows a block `last` (its last state) and asks the server to prove things against the  *)
(* chain root that `last` commits to (the root over the ancestors of `last`):                      *)
(*   GetBlocksProof(last, hashes)         headers + one MMR proof, hashes not on the main chain    *)
(*                                        reported as missing                                      *)
(*   GetTransactionsProof(last, txs)      per block a filtered block (header + the transactions +  *)
(*                                        their Merkle proof in the block) + one MMR proof over    *)
(*                                        the headers, transactions not on the main chain missing  *)
(*   GetLastStateProof(last, start, n, boundary, difficulties)   sampled headers + the last n +    *)
(*                                        (when the client's start block was reorganised away) the *)
(*                                        n blocks before the start + one MMR proof                *)
(* When `last` is not on the server's main chain the answer is the server's tip and nothing else.  *)
(*                                                                                                 *)
(* The server is transcribed as coded (the Coded.. operators: partition by is_main_chain, positions, gen_proof    *)
(* and get_root from the stored MMR - stale tail included -, the binary search over total          *)
(* difficulties); what must hold is stated on the REPLY, as a client sees it (..ReplyOK): the        *)
(* reply verifies (MMR.Verify against the root `last` commits to) exactly for the requested items  *)
(* that are main-chain ancestors of `last`; everything else is reported missing; nothing requested *)
(* is silently dropped; after a reorganisation a detached block / transaction is missing; the      *)
(* sampled numbers are the declarative sample (first block reaching each difficulty).  A request   *)
(* the server cannot serve (an item on the main chain but not below `last`) may be refused without *)
(* an answer; no request makes the server panic.  AsCoded = TRUE keeps the two arithmetic          *)
(* underflows of the code as found (last = genesis in reply_proof; start number above `last`).     *)
(***************************************************************************************************)
EXTENDS MMR

CONSTANTS GenesisDiff,    \* difficulty of the genesis block
          DiffUnit,       \* difficulty of a block of work 1 (work w = w * DiffUnit)
          AsCoded         \* TRUE: the arithmetic of the code as found (self-test: must violate NoPanic)

VARIABLES body,           \* block id -> set of transaction ids it commits (besides its cellbase)
          cbn              \* block id -> the name of its cellbase: sibling blocks of one miner at the same height have the
                           \* SAME cellbase transaction (its hash does not cover the witness); the name is the id of the
                           \* first block that carried it
lvars == <<vars, body, cbn>>

Cb(b) == <<"cb", b>>
Ut(k) == <<"u", k>>
TxsOf(b) == {Cb(cbn[b])} \cup {Ut(k) : k \in body[b]}
Known(h) == h \in DOMAIN tree
OnMain(h) == Known(h) /\ \E k \in DOMAIN main : main[k] = h          \* is_main_chain(hash)
NumOf(b) == tree[b].number
MainAt(n) == main[n + 1]
TipNum == Len(main) - 1
Diff(b) == IF b = 0 THEN GenesisDiff ELSE DiffUnit * tree[b].work
RECURSIVE TDm(_)                       \* total difficulty of the main-chain block number n (block ext)
TDm(n) == IF n = 0 THEN Diff(main[1]) ELSE Diff(MainAt(n)) + TDm(n - 1)
\* COLUMN_TRANSACTION_INFO: the main-chain block committing transaction t (the later one when re-committed), or -1
TxBlock(t) == LET bs == {n \in 0..TipNum : t \in TxsOf(MainAt(n))} IN IF bs = {} THEN -1 ELSE MainAt(CHOOSE n \in bs : \A m \in bs : m <= n)

-----------------------------------------------------------------------------
(* replies *)
TipReply == [kind |-> "tip", last |-> Tip]
Ban == [kind |-> "ban"]
NoReply == [kind |-> "none"]
Panic == [kind |-> "panic"]
NoProof == [p \in {} |-> <<>>]
\* reply_proof: root and proof over the ancestors of `last` for the leaf numbers S
ProofReply(last, S, items, missing) ==
  IF NumOf(last) = 0
  THEN IF AsCoded THEN Panic                                         \* last_block.number() - 1
       ELSE IF S = {} THEN [kind |-> "proof", last |-> last, root |-> <<>>, proof |-> NoProof, items |-> items, missing |-> missing]
       ELSE NoReply
  ELSE LET size == MMRSize(NumOf(last) - 1) IN
       IF \E n \in S : n >= NumOf(last) THEN NoReply                 \* gen_proof fails: InternalError, nothing is sent
       ELSE [kind |-> "proof", last |-> last, root |-> Root(mmr, size),
             proof |-> IF S = {} THEN NoProof ELSE GenProof(mmr, size, S), items |-> items, missing |-> missing]

\* GetBlocksProofProcess::execute; hs: set of requested hashes (ids; ids outside the tree are unknown hashes)
CodedBlocks(last, hs) ==
  IF hs = {} THEN Ban
  ELSE IF ~OnMain(last) THEN TipReply
  ELSE IF last \in hs THEN Ban
  ELSE LET found == {h \in hs : OnMain(h)}
       IN ProofReply(last, {NumOf(h) : h \in found}, found, hs \ found)

\* GetTransactionsProofProcess::execute; ts: set of requested transactions. items = the filtered blocks:
\* [b |-> block, txs |-> the requested transactions it commits]
CodedTxs(last, ts) ==
  IF ts = {} THEN Ban
  ELSE IF ~OnMain(last) THEN TipReply
  ELSE LET found == {t \in ts : TxBlock(t) # -1}
           blks  == {TxBlock(t) : t \in found}
       IN ProofReply(last, {NumOf(b) : b \in blks}, {[b |-> b, txs |-> {t \in found : TxBlock(t) = b}] : b \in blks}, ts \ found)

-----------------------------------------------------------------------------
(* GetLastStateProof: sampling by total difficulty *)
\* declarative: the first block in lo..hi whose total difficulty reaches d (-1: none)
FirstReaching(lo, hi, d) == LET c == {n \in lo..hi : TDm(n) >= d} IN IF c = {} THEN -1 ELSE CHOOSE n \in c : \A m \in c : n <= m
\* as coded: get_first_block_total_difficulty_is_not_less_than(start, end, min) over [start, end): binary search
RECURSIVE BSearch(_, _, _)
BSearch(less, greater, d) ==
  IF greater = less + 1 THEN greater
  ELSE LET mid == (less + greater) \div 2 IN
       IF TDm(mid) = d THEN mid ELSE IF TDm(mid) < d THEN BSearch(mid, greater, d) ELSE BSearch(less, mid, d)
CodedFirst(start, end, d) ==
  IF TDm(start) >= d THEN start
  ELSE IF TDm(end - 1) < d THEN -1
  ELSE BSearch(start, end - 1, d)
\* get_block_numbers_via_difficulties
RECURSIVE CodedSample(_, _, _, _, _)
CodedSample(start, end, ds, cur, acc) ==
  IF ds = <<>> THEN acc
  ELSE IF cur >= Head(ds) THEN CodedSample(start, end, Tail(ds), cur, acc)
  ELSE LET n == CodedFirst(start, end, Head(ds)) IN
       IF n = -1 THEN <<-1>>
       ELSE CodedSample(IF n > start THEN n - 1 ELSE start, end, Tail(ds), TDm(n), Append(acc, n))
RECURSIVE DeclSample(_, _, _, _, _)
DeclSample(start, end, ds, cur, acc) ==
  IF ds = <<>> THEN acc
  ELSE IF cur >= Head(ds) THEN DeclSample(start, end, Tail(ds), cur, acc)
  ELSE LET n == FirstReaching(start, end - 1, Head(ds)) IN DeclSample(start, end, Tail(ds), TDm(n), Append(acc, n))
RECURSIVE TakeWhileLe(_, _)
TakeWhileLe(ds, x) == IF ds = <<>> \/ Head(ds) > x THEN <<>> ELSE <<Head(ds)>> \o TakeWhileLe(Tail(ds), x)
Range(a, b) == [i \in 1..(b - a) |-> a + i - 1]                     \* the sequence a, a+1, .., b-1
Min(a, b) == IF a <= b THEN a ELSE b
Increasing(ds) == \A i \in 1..(Len(ds) - 1) : ds[i] < ds[i + 1]

\* req = [last, start (hash), startNum, n, boundary, ds]; the block numbers the reply's headers must have, in order;
\* <<-2>> = the request is invalid (refused), <<-3>> = the arithmetic underflows (as coded)
\* First(..) = CodedFirst or FirstReaching
Numbers(req, First(_, _, _), Sample(_, _, _, _, _)) ==
  LET N  == NumOf(req.last)
      S  == req.startNum
      onChain == S = 0 \/ (S <= N /\ req.start = MainAt(S))         \* get_ancestor(last, S) = start (last is on the main chain)
      reorgPart == IF onChain THEN <<>> ELSE Range(S - Min(S, req.n), S)
  IN IF ~Increasing(req.ds) \/ (req.ds # <<>> /\ req.ds[Len(req.ds)] >= req.boundary) THEN <<-2>>
     ELSE IF req.ds # <<>> /\ S > 0 /\ S - 1 > TipNum THEN <<-4>>    \* total difficulty of the previous block not found: InternalError
     ELSE IF req.ds # <<>> /\ S > 0 /\ TDm(S - 1) >= req.ds[1] THEN <<-2>>
     ELSE IF S > N THEN (IF AsCoded THEN <<-3>> ELSE <<-2>>)          \* last_block_number - start_block_number
     ELSE IF N - S <= req.n THEN reorgPart \o Range(S, N)
     ELSE LET b0 == First(S, N, req.boundary) IN
          IF b0 = -1 THEN <<-2>>                                     \* InvaildDifficultyBoundary
          ELSE LET B == IF N - b0 < req.n THEN N - req.n ELSE b0
                   ds2 == IF B > 0 THEN TakeWhileLe(req.ds, TDm(B - 1)) ELSE <<>>
               IN reorgPart \o (IF B > 0 THEN Sample(S, B, ds2, 0, <<>>) ELSE <<>>) \o Range(B, N)
CodedNumbers(req) == Numbers(req, CodedFirst, CodedSample)
DeclNumbers(req) == Numbers(req, LAMBDA lo, hi, d : FirstReaching(lo, hi - 1, d), DeclSample)
SetOf(s) == {s[i] : i \in DOMAIN s}
CodedLastState(req) ==
  IF Len(req.ds) + 2 * req.n > 1000 THEN Ban
  ELSE IF ~OnMain(req.last) THEN TipReply
  ELSE LET ns == CodedNumbers(req) IN
       IF ns = <<-2>> THEN Ban ELSE IF ns = <<-3>> THEN Panic ELSE IF ns = <<-4>> THEN NoReply
       ELSE IF \E i \in DOMAIN ns : ns[i] > NumOf(req.last) THEN NoReply        \* complete_headers: no such ancestor
       ELSE LET r == ProofReply(req.last, SetOf(ns), [i \in DOMAIN ns |-> MainAt(ns[i])], {})
            IN IF r.kind = "proof" THEN [r EXCEPT !.items = [i \in DOMAIN ns |-> MainAt(ns[i])]] ELSE r

-----------------------------------------------------------------------------
(* what a client checks, and what must hold of a reply *)
\* verify_mmr_proof: the reply's root is the one `last` commits to (VerifiableHeader::is_valid) and the proof leads
\* from the digests of the given headers (block ids at their numbers) to it
ClientVerifies(last, root, proof, blks) ==
  IF NumOf(last) = 0 THEN blks = {} /\ DOMAIN proof = {}
  ELSE /\ tree[last].ext = root
       /\ blks = {} => DOMAIN proof = {}
       /\ blks # {} => Verify(proof, MMRSize(NumOf(last) - 1), [n \in {NumOf(b) : b \in blks} |-> <<CHOOSE b \in blks : NumOf(b) = n>>], root)
Provable(last, b) == OnMain(b) /\ NumOf(b) < NumOf(last)
\* some requested item is on the main chain but not below `last`: the protocol has no answer for it
Unservable(last, blks) == \E b \in blks : OnMain(b) /\ NumOf(b) >= NumOf(last)

BlocksReplyOKv(last, hs, r, verified) ==
  IF hs = {} \/ (OnMain(last) /\ last \in hs) THEN r.kind = "ban"
  ELSE IF ~OnMain(last) THEN r.kind = "tip" /\ r.last = Tip
  ELSE /\ r.kind \in {"proof", "none"}
       /\ r.kind = "none" => Unservable(last, hs)
       /\ r.kind = "proof" =>
            /\ r.last = last
            /\ r.items \cup r.missing = hs /\ r.items \cap r.missing = {}      \* nothing requested is dropped
            /\ \A h \in hs : ~OnMain(h) => h \in r.missing                      \* not on the main chain: reported as such
            /\ \A h \in r.items : Provable(last, h)
            /\ verified

TxsReplyOKv(last, ts, r, verified) ==
  IF ts = {} THEN r.kind = "ban"
  ELSE IF ~OnMain(last) THEN r.kind = "tip" /\ r.last = Tip
  ELSE /\ r.kind \in {"proof", "none"}
       /\ r.kind = "none" => Unservable(last, {TxBlock(t) : t \in {x \in ts : TxBlock(x) # -1}})
       /\ r.kind = "proof" =>
            /\ r.last = last
            /\ (UNION {fb.txs : fb \in r.items}) \cup r.missing = ts
            /\ (UNION {fb.txs : fb \in r.items}) \cap r.missing = {}
            /\ \A t \in ts : TxBlock(t) = -1 => t \in r.missing                 \* not committed on the main chain
            /\ \A fb \in r.items : Provable(last, fb.b) /\ fb.txs # {} /\ fb.txs \subseteq TxsOf(fb.b)   \* the Merkle proof in the block
            /\ \A f1 \in r.items : \A f2 \in r.items : f1.b = f2.b => f1 = f2
            /\ verified

LastStateReplyOKv(req, r, verified) ==
  IF ~OnMain(req.last) THEN r.kind \in {"tip", "ban"} /\ (r.kind = "tip" => r.last = Tip)
  ELSE LET want == DeclNumbers(req) IN
       IF want \in {<<-2>>, <<-3>>} THEN r.kind \in {"ban", "none"}
       ELSE IF want = <<-4>> \/ (\E i \in DOMAIN want : want[i] >= NumOf(req.last)) THEN r.kind \in {"ban", "none"}
       ELSE /\ r.kind = "proof" /\ r.last = req.last
            /\ [i \in DOMAIN r.items |-> NumOf(r.items[i])] = want               \* the declarative sample, in order
            /\ \A i \in DOMAIN r.items : OnMain(r.items[i])
            /\ verified

\* with the model's own verification (MC) - the trace validator passes the verdict of the real client-side verification
BlocksReplyOK(last, hs, r) == BlocksReplyOKv(last, hs, r, IF r.kind = "proof" THEN ClientVerifies(last, r.root, r.proof, r.items) ELSE TRUE)
TxsReplyOK(last, ts, r) == TxsReplyOKv(last, ts, r, IF r.kind = "proof" THEN ClientVerifies(last, r.root, r.proof, {fb.b : fb \in r.items}) ELSE TRUE)
LastStateReplyOK(req, r) == LastStateReplyOKv(req, r, IF r.kind = "proof" THEN ClientVerifies(req.last, r.root, r.proof, SetOf(r.items)) ELSE TRUE)

-----------------------------------------------------------------------------
(* the chain: MMR.Mine with bodies *)
LInit == Init /\ body = [b \in {0} |-> {}] /\ cbn = [b \in {0} |-> 0]
LMine(p, w, honest, txs, cb) ==
  /\ Mine(p, w, honest)
  /\ body' = [b \in DOMAIN body \cup {NextId} |-> IF b \in DOMAIN body THEN body[b] ELSE txs]
  /\ cbn' = [b \in DOMAIN cbn \cup {NextId} |-> IF b \in DOMAIN cbn THEN cbn[b] ELSE cb]
=============================================================================
