SPECIFICATION Spec
CONSTANTS
  None = 0
  Keys = {1, 2, 3, 4, 5, 6}
  Vals = {1, 2, 3}
  Limits = {1, 2, 3}
  Depth = 24
INVARIANT AnswersLikePlainMap
INVARIANT HoldsExactlyPlain
INVARIANT MemOK
INVARIANT EmitBeh
CHECK_DEADLOCK FALSE
