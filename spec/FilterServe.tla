---------------------------- MODULE FilterServe ----------------------------
(***************************************************************************)
(* Growth of BlockFilter.tla: the block-filter protocol server             *)
(* (sync/src/filter/{get_block_filters,get_block_filter_hashes,            *)
(* get_block_filter_check_points}_process.rs) on top of the lagging        *)
(* builder.                                                                *)
(*                                                                         *)
(* The server reads from TWO places (sync/src/types/mod.rs ActiveChain):    *)
(* the main chain (number -> block) and LATEST_BUILT_FILTER_DATA come from  *)
(* the chain snapshot that was published when the chain service last        *)
(* committed a block (`pub`: refreshed by every Mine - store_snapshot on a  *)
(* main-chain change, refresh_snapshot for a side block - NOT by the        *)
(* builder); the filters and filter hashes themselves come from the LIVE    *)
(* store.  Hence the gate "latest built >= start" lags the builder by at    *)
(* least the tip block until the next block arrives, while an admitted      *)
(* request is answered through everything built (GateLags below; an         *)
(* availability observation, not a safety matter).  The first version of    *)
(* this module read everything from the snapshot; the real handler's        *)
(* answers refuted that at once (design.d/C19.md).                          *)
(*                                                                         *)
(* The answers are operators of the snapshot and the live rows             *)
(* (AnsFilters / AnsHashes / AnsCheckPoints); the properties quantify over  *)
(* every start number, so no answer variable is needed.                    *)
(***************************************************************************)
EXTENDS BlockFilter
CONSTANTS Batch,      \* BATCH_SIZE (2000 in the code)
          Interval    \* CHECK_POINT_INTERVAL (2000 in the code)
VARIABLES pub         \* [main, latest]: what the server reads from the published snapshot
svars == <<vars, pub>>

SnapOf(m, l) == [main |-> m, latest |-> l]
\* s with the live rows: what one request sees
View(s) == [main |-> s.main, latest |-> s.latest, filters |-> filters, fhash |-> fhash]
SInit == Init /\ pub = SnapOf(<<0>>, -1)
SMine(p, sp, w) == Mine(p, sp, w) /\ pub' = SnapOf(main', latest)
SBuild == (BStart \/ BStep \/ BFinish) /\ UNCHANGED pub
SNext == (\E p \in DOMAIN tree, sp \in -1..MaxBlocks, w \in Works : SMine(p, sp, w)) \/ SBuild
SSpec == SInit /\ [][SNext]_svars

-----------------------------------------------------------------------------
(* the server, as a function of the snapshot s *)
NoAnswer == [kind |-> "ignored"]
\* get_latest_built_filter_block_number: the number of the latest built block through the hash -> number index, which
\* only knows main-chain blocks; 0 when there is none or it is off the snapshot's main chain
LatestN(s) == IF s.latest # -1 /\ On(s.main, s.latest) THEN tree[s.latest].number ELSE 0
MainAt(s, n) == s.main[n + 1]                    \* defined for n in 0..Len(s.main)-1
Has(s, n, col) == n + 1 \in DOMAIN s.main /\ MainAt(s, n) \in DOMAIN col
\* the blocks start, start + step, ... while they exist on the snapshot's main chain with a row in `col`, at most `cap`
RECURSIVE Run(_, _, _, _, _)
Run(s, n, step, col, cap) == IF cap = 0 \/ ~Has(s, n, col) THEN <<>>
                             ELSE <<MainAt(s, n)>> \o Run(s, n + step, step, col, cap - 1)

\* GetBlockFilters(start): blocks and their filters (the 1.8 MB cut of the code is not reached by the model's filters)
AnsFilters(s, start) ==
  IF LatestN(s) >= start
  THEN LET bs == Run(s, start, 1, s.filters, Batch)
       IN [kind |-> "filters", start |-> start, blocks |-> bs, filters |-> [k \in DOMAIN bs |-> s.filters[bs[k]]]]
  ELSE NoAnswer
\* GetBlockFilterHashes(start): the parent's filter hash (zero for start = 0) and the hashes from start on
AnsHashes(s, start) ==
  IF LatestN(s) >= start
  THEN IF start > 0 /\ ~Has(s, start - 1, s.fhash) THEN NoAnswer
       ELSE LET bs == Run(s, start, 1, s.fhash, Batch)
            IN [kind |-> "hashes", start |-> start,
                parent |-> IF start = 0 THEN <<>> ELSE s.fhash[MainAt(s, start - 1)],
                blocks |-> bs, hashes |-> [k \in DOMAIN bs |-> s.fhash[bs[k]]]]
  ELSE NoAnswer
\* GetBlockFilterCheckPoints(start): every Interval-th filter hash from start on
AnsCheckPoints(s, start) ==
  IF LatestN(s) >= start
  THEN LET bs == Run(s, start, Interval, s.fhash, Batch)
       IN [kind |-> "checkpoints", start |-> start, blocks |-> bs, hashes |-> [k \in DOMAIN bs |-> s.fhash[bs[k]]]]
  ELSE NoAnswer

-----------------------------------------------------------------------------
(* what a light client relies on, for every start number *)
Starts == 0..(MaxBlocks + 1)
\* every block an answer names is the main-chain block of the snapshot at the consecutive number
ServedOnMain ==
  \A st \in Starts :
     /\ LET a == AnsFilters(View(pub), st) IN a.kind # "ignored" => \A k \in DOMAIN a.blocks : a.blocks[k] = pub.main[st + k]
     /\ LET a == AnsHashes(View(pub), st) IN a.kind # "ignored" => \A k \in DOMAIN a.blocks : a.blocks[k] = pub.main[st + k]
     /\ LET a == AnsCheckPoints(View(pub), st) IN a.kind # "ignored" => \A k \in DOMAIN a.blocks : a.blocks[k] = pub.main[st + (k - 1) * Interval + 1]
\* a served filter matches every script of the block's outputs and spent inputs (C19 as seen by a peer)
ServedFiltersComplete ==
  \A st \in Starts : LET a == AnsFilters(View(pub), st) IN
     a.kind # "ignored" => \A k \in DOMAIN a.blocks : a.filters[k] = Need(a.blocks[k])
\* the served hashes chain: the first from the served parent hash, each next one from its predecessor, over the very
\* filters GetBlockFilters serves for those blocks
ServedHashesChain ==
  \A st \in Starts : LET a == AnsHashes(View(pub), st) IN
     a.kind # "ignored" =>
        \A k \in DOMAIN a.blocks :
           a.hashes[k] = (IF k = 1 THEN a.parent ELSE a.hashes[k - 1]) \o <<<<a.blocks[k], filters[a.blocks[k]]>>>>
\* check points are hashes GetBlockFilterHashes serves for the same numbers
CheckPointsAgree ==
  \A st \in Starts : LET a == AnsCheckPoints(View(pub), st) IN
     a.kind # "ignored" => \A k \in DOMAIN a.blocks : a.hashes[k] = fhash[a.blocks[k]]
\* Availability, for the vacuity self-tests: each of these must be VIOLATED by some reachable state.
\* (1) the gate lags: the live marker is ahead of the one the server consults
NeverLags == LatestN(View(pub)) >= LatestN([main |-> main, latest |-> latest])
\* (2) some reachable state serves a non-empty answer for a start above 0
NeverServesAbove0 == \A st \in Starts \ {0} : AnsFilters(View(pub), st).kind = "ignored" \/ AnsFilters(View(pub), st).blocks = <<>>
\* (3) a built main-chain block is not served because the marker of the snapshot is behind or off the main chain
NeverIgnoresBuilt == \A st \in Starts : (st + 1 \in DOMAIN pub.main /\ pub.main[st + 1] \in DOMAIN filters) => AnsFilters(View(pub), st).kind # "ignored"
=============================================================================
