SPECIFICATION MCSpec
CONSTANTS
  Tx <- MCTx
  GenesisTxs <- MCGenesis
  L = 2
  CbBase = 100
  Bug = "none"
  RBug = "none"
  MaxCrashes = 2
  ScanBack = 2
  ScanAhead = 8
  MaxBlocks = 3
  MaxCommits = 1
  MaxBad = 1
  CbFrom = 2
  Emit = FALSE
INVARIANT RestartOpens
INVARIANT ReplayConsistent
INVARIANT RestartSnapshot
INVARIANT UnverifiedPickedUp
INVARIANT CrashConvergence
INVARIANT EmitCrash
INVARIANT EmitTree
CHECK_DEADLOCK FALSE
