------------------------------- MODULE TxPool -------------------------------
(***************************************************************************************************)
(* The transaction pool of a CKB node (tx-pool/src/{pool,process}.rs, component/{pool_map,links,   *)
(* edges,entry}.rs) over a constant universe of transactions.                                      *)
(*                                                                                                 *)
(* What the pool *contains* is the variable `pool` (with the two-phase stage of every entry in     *)
(* `st`).  Everything the implementation maintains incrementally about the contents - parent/child *)
(* links, ancestor/descendant aggregates, the edge indexes, the counters - is *derived* here by    *)
(* declarative operators (Parents, Anc, Desc, DBook, DCnt, DEdges); the variables `book`, `cnt`,   *)
(* `edges` hold what the pool *reports*, and the C11 invariants say: reported = derived.           *)
(*                                                                                                 *)
(* Every operation is a *relation* between the contents before and after (SubmitRel, RemoveRel,    *)
(* ExpireRel, LimitRel, ReorgRel).  Where the properties are silent the relation is loose: which   *)
(* entries a size-limit eviction picks (any descendant-closed set), which expirable entries        *)
(* expire, whether a submission is rejected.  The model checker enumerates all outcomes            *)
(* (MC_TxPool), the trace validator checks the outcome the real pool chose (Trace_TxPool).         *)
(*                                                                                                 *)
(* The bookkeeping step is separate from the contents step (BookIntended = how the aggregates are  *)
(* meant to follow a change of contents, by the difference of the reachability sets; Coded* =      *)
(* the update rules as they were coded before the repairs F10/F11, kept as the oracle self-test).  *)
(***************************************************************************************************)
EXTENDS Naturals, FiniteSets, Sequences, TLC

CONSTANTS Txs,      \* transaction ids
          Ins,      \* Ins[t]   : set of out-points spent by t;  an out-point is <<creator, index>>,
          Deps,     \* Deps[t]  : set of out-points t uses as cell deps     genesis cells are <<"g", i>>
          HDeps,    \* HDeps[t] : set of block ids t names as header deps
          Fee, Size, Cycles,
          Genesis   \* set of genesis out-points

VARIABLES conf,     \* [maxAnc, maxSize, rbf, rbfRate, close, far, mine]
          chain,    \* main chain as the pool sees it: sequence of [id, props, commits] (block 1 ..)
          pool,     \* set of pooled transactions
          st,       \* [pool -> {"pending","gap","proposed"}]
          book,     \* reported per entry: [par, chi, anc, desc]; anc/desc = <<count, size, cycles, fee>>
          cnt,      \* reported counters [pending, gap, proposed, size, cycles]
          edges,    \* reported indexes [ins : set of <<out-point, spender>>, deps : set of <<out-point, user>>, hdrs : set of <<tx, block id>>]
          last      \* the last operation (observation for RbfRule and for the C12 post-conditions)
vars == <<conf, chain, pool, st, book, cnt, edges, last>>

Status == {"pending", "gap", "proposed"}
Creator(o) == o[1]

-----------------------------------------------------------------------------
(* sums *)
RECURSIVE SumF(_, _)
SumF(f, S) == IF S = {} THEN 0 ELSE LET x == CHOOSE y \in S : TRUE IN f[x] + SumF(f, S \ {x})
W(t) == <<1, Size[t], Cycles[t], Fee[t]>>
VAdd(a, b) == <<a[1] + b[1], a[2] + b[2], a[3] + b[3], a[4] + b[4]>>
Monus(x, y) == IF x >= y THEN x - y ELSE 0            \* the code subtracts saturating
VSub(a, b) == <<Monus(a[1], b[1]), Monus(a[2], b[2]), Monus(a[3], b[3]), Monus(a[4], b[4])>>
SumW(S) == <<Cardinality(S), SumF(Size, S), SumF(Cycles, S), SumF(Fee, S)>>
PoolSize(P) == SumF(Size, P)

-----------------------------------------------------------------------------
(* the chain *)
BlockIds(ch) == { ch[i].id : i \in 1..Len(ch) }
Committed(ch) == UNION { ch[i].commits : i \in 1..Len(ch) }
SpentBy(S) == UNION { Ins[t] : t \in S }
OnChain(o, ch) == o \in Genesis \/ Creator(o) \in Committed(ch)
LiveOnChain(o, ch) == OnChain(o, ch) /\ o \notin SpentBy(Committed(ch))

PropsAt(ch, h) == IF h \in 1..Len(ch) THEN ch[h].props ELSE {}
\* ProposalTable::finalize for tip number Len(ch): the candidate block is Len(ch)+1
WindowSet(ch, cf) == LET cand == Len(ch) + 1 IN
    IF cand <= cf.close THEN {}
    ELSE UNION { PropsAt(ch, h) : h \in (IF cand > cf.far THEN cand - cf.far ELSE 0)..(cand - cf.close) }
WindowGap(ch, cf) == LET cand == Len(ch) + 1 IN
    IF cand <= cf.close THEN UNION { PropsAt(ch, h) : h \in 1..Len(ch) }
    ELSE UNION { PropsAt(ch, h) : h \in (cand - cf.close + 1)..Len(ch) }
Stage(t, ch, cf) == IF t \in WindowSet(ch, cf) THEN "proposed" ELSE IF t \in WindowGap(ch, cf) THEN "gap" ELSE "pending"

-----------------------------------------------------------------------------
(* the declarative relations over pool contents P *)
\* p is a parent of t: t spends or deps an output of p, or t spends a cell that p uses as a dep
\* (p must then stay before t in any block)
IsParent(p, t) == \/ \E o \in Ins[t] \cup Deps[t] : Creator(o) = p
                  \/ Deps[p] \cap Ins[t] # {}
Parents(t, P)  == { p \in P \ {t} : IsParent(p, t) }
Children(t, P) == { c \in P \ {t} : IsParent(t, c) }
RECURSIVE Up(_, _, _)
Up(S, P, acc) == LET nxt == (UNION { Parents(x, P) : x \in S }) \ acc
                 IN IF nxt = {} THEN acc ELSE Up(nxt, P, acc \cup nxt)
Anc(t, P) == Up({t}, P, {})
RECURSIVE Down(_, _, _)
Down(S, P, acc) == LET nxt == (UNION { Children(x, P) : x \in S }) \ acc
                   IN IF nxt = {} THEN acc ELSE Down(nxt, P, acc \cup nxt)
Desc(t, P) == Down({t}, P, {})
DescOf(S, P) == S \cup UNION { Desc(x, P) : x \in S }       \* S with all descendants
DescClosed(E, P) == \A e \in E : Desc(e, P) \subseteq E

DEntry(t, P) == [ par  |-> Parents(t, P), chi |-> Children(t, P),
                  anc  |-> VAdd(W(t), SumW(Anc(t, P))),
                  desc |-> VAdd(W(t), SumW(Desc(t, P))) ]
DBook(P) == [ t \in P |-> DEntry(t, P) ]
DCnt(P, s) == [ pending  |-> Cardinality({ t \in P : s[t] = "pending" }),
                gap      |-> Cardinality({ t \in P : s[t] = "gap" }),
                proposed |-> Cardinality({ t \in P : s[t] = "proposed" }),
                size     |-> SumF(Size, P), cycles |-> SumF(Cycles, P) ]
DEdges(P) == [ ins  |-> { x \in SpentBy(P) \X P : x[1] \in Ins[x[2]] },
               deps |-> { x \in (UNION { Deps[t] : t \in P }) \X P : x[1] \in Deps[x[2]] },
               hdrs |-> { x \in P \X (UNION { HDeps[t] : t \in P }) : x[2] \in HDeps[x[1]] } ]

\* resolution of t against chain ch overlaid with pool contents P (PoolCell over the snapshot):
\* every input and dep exists (on chain and unspent there, or created by a pooled tx) and is not spent in the pool
CellOk(o, t, P, ch) == /\ (Creator(o) \in P \/ LiveOnChain(o, ch))
                       /\ o \notin SpentBy(P \ {t})
Resolvable(t, P, ch) == /\ \A o \in Ins[t] \cup Deps[t] : CellOk(o, t, P, ch)
                        /\ HDeps[t] \subseteq BlockIds(ch)
DirectConflicts(t, P) == { c \in P \ {t} : Ins[c] \cap Ins[t] # {} }
RbfExtra(t, cf) == (cf.rbfRate * Size[t]) \div 1000
AncCount(t, P) == Cardinality(Anc(t, P)) + 1

-----------------------------------------------------------------------------
(* operations as relations on the contents: P, ch = before; P2 = after *)

\* submit_local_tx(t).  R = what an accepted replacement removes (direct conflicts with all descendants).
Replaced(t, P) == DescOf(DirectConflicts(t, P), P)
SubmitRel(t, P, ch, cf, P2) ==
  IF t \in P THEN P2 = P ELSE         \* duplicate
     LET R    == Replaced(t, P)
         Base == P \ R
     IN \/ \* accepted
           /\ t \in P2 /\ t \notin Committed(ch)
           /\ (R # {} => cf.rbf)
           /\ Resolvable(t, Base, ch)
           /\ P2 \ {t} \subseteq Base
           /\ LET Lost == Base \ P2 IN
                 \* further evictions only for a reason (pool size, ancestor limit through cell-ref parents),
                 \* always with descendants, never an ancestor of t
                 /\ Lost # {} => (PoolSize(Base \cup {t}) > cf.maxSize \/ AncCount(t, Base \cup {t}) > cf.maxAnc)
                 /\ DescClosed(Lost, Base)
                 /\ Lost \cap Anc(t, Base \cup {t}) = {} \/ AncCount(t, Base \cup {t}) > cf.maxAnc
           /\ AncCount(t, P2) <= cf.maxAnc
        \/ \* rejected; a replacement or an eviction round may already have taken place
           /\ t \notin P2 /\ P2 \subseteq P
           /\ LET Lost == P \ P2 IN
                 /\ DescClosed(Lost, P)
                 /\ Lost # {} => ((R # {} /\ cf.rbf) \/ PoolSize(P \cup {t}) > cf.maxSize)

\* remove_local_tx(t): t with all its descendants
RemoveRel(t, P, P2) == t \in P /\ P2 = P \ DescOf({t}, P)

\* remove_expired: any set X of expirable entries; their descendants may leave with them (the properties do not
\* say whether they do)
ExpireRel(X, P, P2) == X \subseteq P /\ P \ DescOf(X, P) \subseteq P2 /\ P2 \subseteq P \ X

\* limit_size: any descendant-closed eviction of an oversize pool (the properties do not say how far it goes, nor
\* that the pool is under its limit at all times: transactions re-added after a reorg are not counted until the
\* next round)
LimitRel(P, cf, P2) == /\ PoolSize(P) > cf.maxSize /\ P2 \subseteq P /\ DescClosed(P \ P2, P)

\* The chain switched: the last k blocks were detached, blks attached (update_tx_pool_for_reorg).
NewChain(ch, k, blks) == SubSeq(ch, 1, Len(ch) - k) \o blks
DetachedTxs(ch, k) == UNION { ch[i].commits : i \in (Len(ch) - k + 1)..Len(ch) }
DetachedIds(ch, k) == { ch[i].id : i \in (Len(ch) - k + 1)..Len(ch) }
AttachedTxs(blks) == UNION { blks[i].commits : i \in 1..Len(blks) }
\* pooled transactions a committed set makes invalid: they spend, or dep on, a cell the committed ones spend
ConflictsOf(att, P) == { c \in P \ att : (Ins[c] \cup Deps[c]) \cap SpentBy(att) # {} }
\* Each committed transaction is taken out on its own (its pooled descendants stay: their parent is on chain now),
\* then its conflicts go with *their* descendants.
AfterCommit(P, ch, k, blks) ==
  LET att == AttachedTxs(blks)
      P0  == P \ att
      P1  == P0 \ DescOf(ConflictsOf(att, P), P0)                                   \* remove_committed_tx
      P2  == P1 \ DescOf({ t \in P1 : HDeps[t] \cap DetachedIds(ch, k) # {} }, P1)  \* resolve_conflict_header_dep
  IN  P2
\* The block's transactions are processed one after the other: a conflict's descendants are collected while later
\* transactions of the same block are still pooled, so descendants *through* such a transaction (a cell-dep user that
\* conflicts, the committed spender of that cell, and the spender's pooled children) may be dropped as well.
OverRemoved(P, ch, k, blks) ==
  LET att == AttachedTxs(blks) IN (P \ att) \cap DescOf(ConflictsOf(att, P), P)
\* pooled transactions with an input or dep that exists neither on chain ch nor in the pool (repeatedly)
RECURSIVE Purge(_, _)
Purge(P, ch) == LET bad == { t \in P : \E o \in Ins[t] \cup Deps[t] : ~(Creator(o) \in P \/ LiveOnChain(o, ch)) }
                IN IF bad = {} THEN P ELSE Purge(P \ bad, ch)
ReorgRel(k, blks, expirable, P, ch, cf, P2) ==
  LET Base  == AfterCommit(P, ch, k, blks)
      cand  == DetachedTxs(ch, k) \ AttachedTxs(blks)
      Readd == P2 \ Base
      Mid   == Base \cup Readd
      X     == (Mid \ P2) \cap expirable                \* expired
      XD    == (Mid \ P2) \cap DescOf(X, Mid)           \* ... possibly with descendants
      OR    == Mid \ Purge(Mid, NewChain(ch, k, blks))  \* orphaned by the reorg: may (should, C12) be dropped
      OV    == OverRemoved(P, ch, k, blks)
      \* entries over the ancestor limit (a parent came back above them in an earlier reorg) are dropped when a detached
      \* proposal takes them out and puts them back (remove_by_detached_proposal -> add_pending fails)
      OL    == DescOf({ e \in Mid : AncCount(e, Mid) > cf.maxAnc }, Mid)
      E     == ((((Mid \ P2) \ XD) \ OR) \ OV) \ OL     \* evicted by limit_size
  IN  /\ k <= Len(ch) /\ Len(blks) >= 1
      /\ Readd \subseteq cand \ P                      \* only transactions of the abandoned branch come back
      /\ E # {} => PoolSize(Mid \ XD) > cf.maxSize
      /\ DescClosed(E, Mid \ XD)

-----------------------------------------------------------------------------
(* the bookkeeping step *)
\* intended: every aggregate follows the change of its reachability set
BookIntended(b, P, P2) ==
  [ t \in P2 |->
      IF t \in P
      THEN [ par  |-> (b[t].par \ (P \ P2)) \cup (Parents(t, P2) \ Parents(t, P)),
             chi  |-> (b[t].chi \ (P \ P2)) \cup (Children(t, P2) \ Children(t, P)),
             anc  |-> VAdd(VSub(b[t].anc, SumW(Anc(t, P) \ Anc(t, P2))), SumW(Anc(t, P2) \ Anc(t, P))),
             desc |-> VAdd(VSub(b[t].desc, SumW(Desc(t, P) \ Desc(t, P2))), SumW(Desc(t, P2) \ Desc(t, P))) ]
      ELSE DEntry(t, P2) ]

\* as coded before the repairs (oracle self-test only) --------------------------------------------
\* PoolMap::remove_entry: the entry's weight leaves its ancestors' descendant sums and its descendants' ancestor sums
CodedRemoveOne(b, P, t) ==
  [ x \in P \ {t} |-> [ par  |-> b[x].par \ {t}, chi |-> b[x].chi \ {t},
                        anc  |-> IF x \in Desc(t, P) THEN VSub(b[x].anc, W(t)) ELSE b[x].anc,
                        desc |-> IF x \in Anc(t, P) THEN VSub(b[x].desc, W(t)) ELSE b[x].desc ] ]
RECURSIVE CodedRemoveEach(_, _, _)
CodedRemoveEach(b, P, S) == IF S = {} THEN b
                            ELSE LET t == CHOOSE x \in S : Anc(x, P) \cap S = {}     \* parents first
                                 IN CodedRemoveEach(CodedRemoveOne(b, P, t), P \ {t}, S \ {t})
\* PoolMap::remove_entry_and_descendants before F11: the links of all removed ids are cut first, so the
\* surviving ancestors are never updated
CodedRemoveWithDesc(b, P, R) ==
  [ x \in P \ R |-> [ b[x] EXCEPT !.par = @ \ R, !.chi = @ \ R ] ]
\* PoolMap::add_entry before F10: only the new entry's own weight is propagated
CodedAdd(b, P, t) ==
  LET P2 == P \cup {t} IN
  [ x \in P2 |->
      IF x = t THEN [ par |-> Parents(t, P2), chi |-> Children(t, P2),
                      anc |-> VAdd(W(t), SumW(Anc(t, P2))), desc |-> W(t) ]
      ELSE [ par  |-> IF x \in Children(t, P2) THEN b[x].par \cup {t} ELSE b[x].par,
             chi  |-> IF x \in Parents(t, P2) THEN b[x].chi \cup {t} ELSE b[x].chi,
             anc  |-> IF x \in Desc(t, P2) THEN VAdd(b[x].anc, W(t)) ELSE b[x].anc,
             desc |-> IF x \in Anc(t, P2) THEN VAdd(b[x].desc, W(t)) ELSE b[x].desc ] ]
RECURSIVE CodedAddEach(_, _, _)
CodedAddEach(b, P, S) == IF S = {} THEN b
                         ELSE LET t == CHOOSE x \in S : TRUE
                              IN CodedAddEach(CodedAdd(b, P, t), P \cup {t}, S \ {t})
\* a whole change of contents P -> P2 in the order the code works: single removals (Single), removals with
\* descendants (the rest of what left), then additions
CodedStep(b, P, P2, Single) ==
  LET gone == P \ P2
      b1 == CodedRemoveEach(b, P, gone \cap Single)
      P1 == P \ (gone \cap Single)
      b2 == CodedRemoveWithDesc(b1, P1, gone \ Single)
      P3 == P1 \ gone
  IN  CodedAddEach(b2, P3, P2 \ P3)

-----------------------------------------------------------------------------
(* C11: the pool's contents and bookkeeping are mutually consistent *)
NoDoubleSpend == \A a \in pool : \A b \in pool : a # b => Ins[a] \cap Ins[b] = {}
LinksExact == /\ DOMAIN book = pool
              /\ \A t \in pool : book[t].par = Parents(t, pool) /\ book[t].chi = Children(t, pool)
AggregatesExact == \A t \in pool : /\ book[t].anc  = VAdd(W(t), SumW(Anc(t, pool)))
                                   /\ book[t].desc = VAdd(W(t), SumW(Desc(t, pool)))
EdgesExact == edges = DEdges(pool)
CountsExact == DOMAIN st = pool /\ cnt = DCnt(pool, st)
AncestorLimit == \A t \in pool : AncCount(t, pool) <= conf.maxAnc
\* a replacement is admitted only if it pays for everything it replaces plus the increment, and never
\* leaves a replaced transaction in the pool
RbfRule == (last.op = "submit" /\ last.ok /\ last.repl # {}) =>
              /\ conf.rbf
              /\ Fee[last.t] >= SumF(Fee, last.repl) + RbfExtra(last.t, conf)
              /\ last.repl \cap pool = {}
-----------------------------------------------------------------------------
(* C12: after the chain tip changed in any way and the pool has processed the change (the pool's `chain` is the *)
(* new main chain), the pool agrees with it.                                                                   *)
NoCommitted == pool \cap Committed(chain) = {}
\* every input and dep exists: live on the chain, or created by a pooled transaction; no input is spent twice
NoDeadOrUnknown == \A t \in pool : \A o \in Ins[t] \cup Deps[t] : Creator(o) \in pool \/ LiveOnChain(o, chain)
NoDetachedHeaderDep == \A t \in pool : HDeps[t] \subseteq BlockIds(chain)
\* transactions committed only on the abandoned branch that are admissible again: the least set closed under
\* "resolves against the new chain plus the pool (incl. those already re-admitted), within the ancestor limit"
RECURSIVE Readmit(_, _, _, _)
Readmit(cand, P, ch, cf) ==
  LET ok == { d \in cand \ P : Resolvable(d, P \cup {d}, ch) /\ AncCount(d, P \cup {d}) <= cf.maxAnc }
  IN IF ok = {} THEN P ELSE Readmit(cand, P \cup ok, ch, cf)
IntendedAfterReorg(P, ch, k, blks, cf) ==
  Readmit(DetachedTxs(ch, k) \ AttachedTxs(blks), AfterCommit(P, ch, k, blks), NewChain(ch, k, blks), cf)
\* Checked in the state right after the pool processed a reorg (`last` remembers the state before): no transaction of
\* the abandoned branch that is still admissible - resolves against the new chain plus the pool as it is now, within
\* the ancestor limit - was left out.  (Which of two mutually exclusive ones comes back depends on the order of
\* re-admission, which the property does not fix; that the ones that did come back are valid is NoDeadOrUnknown /
\* NoDoubleSpend / NoCommitted.)
DetachedReadmitted ==
  (last.op = "reorg") =>
     LET cand == DetachedTxs(last.chainBefore, last.k) \ AttachedTxs(last.blks)
     IN  \A d \in cand \ pool : ~(Resolvable(d, pool \cup {d}, chain) /\ AncCount(d, pool \cup {d}) <= conf.maxAnc)
\* on a node configured for block assembly every entry's stage is where its id stands in the proposal window
StageMatchesWindow == conf.mine => \A t \in pool : st[t] = Stage(t, chain, conf)
=============================================================================
