SPECIFICATION Spec
CONSTANTS
  L = 3
  WClose = 1
  WFar = 2
  K = 4
  MaxUncles = 2
  MaxProposals = 3
  MaxBytes = 100
  MaxCycles = 19
  TxCycles = 10
  Future = 15000
  Now = 500
  Txs = {1, 2, 3}
  NBlocks = 8
  MaxSides = 6
  Directed = TRUE
  Emit = TRUE
INVARIANT EmitCtx
CHECK_DEADLOCK FALSE
