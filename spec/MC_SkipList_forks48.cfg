SPECIFICATION Spec
CONSTANTS
  OneDay = 8192
  Shape = "forks"
  MaxBlocks = 90
  MaxHeight = 48
  Emit = FALSE
INVARIANT TypeOK
INVARIANT SkipPointsToAncestor
INVARIANT WalkEqualsParentWalk
INVARIANT LocatorEqualsParentWalk
INVARIANT LocatorShape
INVARIANT EmitTree
CHECK_DEADLOCK FALSE
