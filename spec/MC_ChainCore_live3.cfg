SPECIFICATION FairSpec
CONSTANTS
  N = 3
  MaxWork = 2
  MaxDup = 0
  Verdicts = {"ok", "bad_nc", "bad_ctx"}
  Heavy = 0
  PreFix = FALSE
  Emit = FALSE
INVARIANT TypeOK
PROPERTY EventuallyJudged
PROPERTY EventuallyQuiescent
CHECK_DEADLOCK FALSE
