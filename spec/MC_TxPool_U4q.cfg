SPECIFICATION MSpec
CONSTANTS
 Txs <- U4Txs
 Ins <- U4Ins
 Deps <- U4Deps
 Fee <- U4Fee
 Size <- U4Size
 HDeps <- NoHDeps
 Cycles <- UnitCycles
 Genesis <- MGenesis
 Coded = FALSE
 KeepHist = FALSE
 MaxProps = 1
 MaxChain = 3
 MaxOps = 6
 MConf <- MConf_U4
INVARIANT NoDoubleSpend
INVARIANT LinksExact
INVARIANT AggregatesExact
INVARIANT EdgesExact
INVARIANT CountsExact
INVARIANT AncestorLimit
INVARIANT RbfRule
VIEW PoolView
CHECK_DEADLOCK FALSE
