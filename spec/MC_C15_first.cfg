SPECIFICATION Spec
CONSTANTS
 Schema <- CkbSchema
 Types = {"Script", "OutPoint", "CellInput", "CellOutput", "CellDep", "Transaction"}
 DeepTypes = {"Script", "CellOutput", "Transaction", "Header", "UncleBlock", "Block", "BlockV1", "CompactBlock", "CompactBlockV1", "CellbaseWitness", "WitnessArgs", "Alert"}
 Depth = 2
 Shards = 4
 DoEmit = TRUE
INVARIANT EncOK
INVARIANT OlderOK
INVARIANT CommitOK
INVARIANT Emit
CHECK_DEADLOCK FALSE
