---------------------------- MODULE MC ----------------------------
EXTENDS TxPool
\* universe: g1,g2 genesis. a spends g1 (2 outs); b spends a.1; c spends a.2 and b.1 (diamond); x conflicts with a (spends g1); d deps on g2 and spends a.1? ; e spends g2
MCTxs == {"a","b","c","x","e"}
MCIns == [t \in MCTxs |-> CASE t = "a" -> {<<"g",1>>} [] t = "b" -> {<<"a",1>>} [] t = "c" -> {<<"a",2>>, <<"b",1>>} [] t = "x" -> {<<"g",1>>} [] t = "e" -> {<<"g",2>>}]
MCDeps == [t \in MCTxs |-> CASE t = "b" -> {<<"g",2>>} [] OTHER -> {}]
MCNOuts == [t \in MCTxs |-> CASE t = "a" -> 2 [] OTHER -> 1]
MCFee == [t \in MCTxs |-> CASE t = "x" -> 9 [] t = "a" -> 2 [] OTHER -> 1]
MCSize == [t \in MCTxs |-> 1]
MCGenesis == {<<"g",1>>, <<"g",2>>}
PoolView == <<pool, committed>>
=====================================================================
