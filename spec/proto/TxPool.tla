------------------------------ MODULE TxPool ------------------------------
EXTENDS Naturals, FiniteSets, Sequences, TLC
CONSTANTS Txs,        \* transaction ids
          Ins,        \* Ins[t]  : set of out-points spent by t
          Deps,       \* Deps[t] : set of out-points used as cell deps by t
          NOuts,      \* NOuts[t]: number of outputs
          Fee, Size,  \* naturals
          Genesis,    \* set of genesis out-points (live at start)
          MaxAnc, MaxPoolSize, RbfOn, RbfExtra

\* an out-point is either a genesis cell id or <<t, i>>
OutsOf(t) == { <<t, i>> : i \in 1..NOuts[t] }
Creator(o) == IF o \in Genesis THEN "none" ELSE o[1]   \* out-points are uniformly <<creator, index>>; genesis cells are <<"g", i>>

VARIABLES pool,       \* set of pooled txs
          committed,  \* sequence of committed txs (the chain as the pool sees it)
          log         \* last operation and result (observation only)
vars == <<pool, committed, log>>

ChainSet == { committed[i] : i \in 1..Len(committed) }
Spent(S) == UNION { Ins[t] : t \in S }
Created(S) == UNION { OutsOf(t) : t \in S }
ChainLive == (Genesis \cup Created(ChainSet)) \ Spent(ChainSet)

\* ---------- declarative relations (what the implementation maintains incrementally) ----------
Parents(t, P) == { p \in P \ {t} : \/ \E o \in Ins[t] \cup Deps[t] : Creator(o) = p
                                    \/ Deps[p] \cap Ins[t] # {} }
RECURSIVE Anc(_, _, _)
Anc(S, P, acc) == LET nxt == (UNION { Parents(t, P) : t \in S }) \ acc
                  IN IF nxt = {} THEN acc ELSE Anc(nxt, P, acc \cup nxt)
Ancestors(t, P) == Anc({t}, P, {})
Descendants(t, P) == { d \in P \ {t} : t \in Ancestors(d, P) }
RECURSIVE Sum(_, _)
Sum(f, S) == IF S = {} THEN 0 ELSE LET x == CHOOSE y \in S : TRUE IN f[x] + Sum(f, S \ {x})
AncSize(t, P) == Size[t] + Sum(Size, Ancestors(t, P))
DescFee(t, P) == Fee[t] + Sum(Fee, Descendants(t, P))
PoolSize(P) == Sum(Size, P)

\* ---------- admission ----------
InputOk(o, P)  == (o \in ChainLive \/ (Creator(o) \in P)) /\ o \notin Spent(P)
DepOk(o, P)    == (o \in ChainLive \/ (Creator(o) \in P)) /\ o \notin Spent(P)
Resolvable(t, P) == (\A o \in Ins[t] : InputOk(o, P)) /\ (\A o \in Deps[t] : DepOk(o, P))
DirectConflicts(t, P) == { c \in P : Ins[c] \cap Ins[t] # {} }
ConflictClosure(t, P) == DirectConflicts(t, P) \cup UNION { Descendants(c, P) : c \in DirectConflicts(t, P) }

Init == pool = {} /\ committed = <<>> /\ log = <<"init">>

SubmitPlain(t) ==
  /\ t \notin pool /\ t \notin ChainSet
  /\ Resolvable(t, pool)
  /\ Cardinality(Ancestors(t, pool \cup {t})) + 1 <= MaxAnc
  /\ pool' = pool \cup {t} /\ log' = <<"submit", t, "ok">> /\ UNCHANGED committed

SubmitRbf(t) ==
  /\ RbfOn /\ t \notin pool /\ t \notin ChainSet
  /\ DirectConflicts(t, pool) # {}
  /\ LET repl == ConflictClosure(t, pool)
         rest == pool \ repl
     IN /\ Resolvable(t, rest)
        /\ \A o \in Ins[t] : o \in ChainLive \/ o \in Spent(DirectConflicts(t, pool))   \* rule 2: no new unconfirmed inputs
        /\ Ancestors(t, rest \cup {t}) \cap repl = {}
        /\ Fee[t] >= Sum(Fee, repl) + RbfExtra
        /\ Cardinality(Ancestors(t, rest \cup {t})) + 1 <= MaxAnc
        /\ pool' = rest \cup {t} /\ log' = <<"rbf", t, repl>>
  /\ UNCHANGED committed

Remove(t) == /\ t \in pool /\ pool' = pool \ ({t} \cup Descendants(t, pool)) /\ log' = <<"remove", t>> /\ UNCHANGED committed

\* any descendant-closed eviction that brings the size under the limit
LimitSize == /\ PoolSize(pool) > MaxPoolSize
             /\ \E E \in SUBSET pool : /\ E # {} /\ \A e \in E : Descendants(e, pool) \subseteq E
                                       /\ PoolSize(pool \ E) <= MaxPoolSize
                                       /\ pool' = pool \ E /\ log' = <<"evict", E>>
             /\ UNCHANGED committed

\* a block commits one pooled-or-not tx that is valid on chain (parents first by construction)
Commit(t) ==
  /\ t \notin ChainSet /\ \A o \in Ins[t] \cup Deps[t] : o \in ChainLive
  /\ committed' = Append(committed, t)
  /\ LET gone == {t} \cup UNION { {c} \cup Descendants(c, pool) : c \in { c \in pool \ {t} : Ins[c] \cap Ins[t] # {} \/ Deps[c] \cap Ins[t] # {} } }
     IN pool' = pool \ gone
  /\ log' = <<"commit", t>>

Next == \/ \E t \in Txs : SubmitPlain(t) \/ SubmitRbf(t) \/ Remove(t) \/ Commit(t)
        \/ LimitSize
Spec == Init /\ [][Next]_vars

\* ---------- C11 invariants on the declarative model (sanity of the definitions) ----------
NoDoubleSpend == \A a, b \in pool : a # b => Ins[a] \cap Ins[b] = {}
AllResolvable == \A t \in pool : \A o \in Ins[t] : o \in ChainLive \/ Creator(o) \in pool
AncLimit == \A t \in pool : Cardinality(Ancestors(t, pool)) + 1 <= MaxAnc
NoCommittedInPool == pool \cap ChainSet = {}
=============================================================================
