------------------------------ MODULE ChainCore ------------------------------
EXTENDS Naturals, Sequences, FiniteSets, TLC
CONSTANTS N, MaxWork, MaxDeliver
\* blocks are 1..N, genesis is 0. parent[b] < b (minted in order), so trees are enumerated without symmetry waste.
Blocks == 1..N
VARIABLES parent, work, good,      \* scenario (chosen at mint time)
          minted,                  \* number of minted blocks
          delivered,               \* multiset count of deliveries per block
          inbox,                   \* blocks handed to ChainService, not yet processed (a set: channel order is free)
          stored, ext,             \* durable: stored set; ext[b] \in {"none","unv","ok"}
          index, tip,              \* durable main chain as set + tip
          status,                  \* volatile: set of blocks marked INVALID
          orphans, pending, preQ, verQ,
          snapTip
vars == <<parent, work, good, minted, delivered, inbox, stored, ext, index, tip, status, orphans, pending, preQ, verQ, snapTip>>

RECURSIVE TD(_), ChainOf(_)
TD(b) == IF b = 0 THEN 1 ELSE work[b] + TD(parent[b])
ChainOf(b) == IF b = 0 THEN {0} ELSE {b} \cup ChainOf(parent[b])

Init == /\ parent = [b \in Blocks |-> 0] /\ work = [b \in Blocks |-> 1] /\ good = [b \in Blocks |-> TRUE]
        /\ minted = 0 /\ delivered = [b \in Blocks |-> 0] /\ inbox = {}
        /\ stored = {0} /\ ext = [b \in 0..N |-> IF b = 0 THEN "ok" ELSE "none"]
        /\ index = {0} /\ tip = 0 /\ status = {} /\ orphans = {} /\ pending = {} /\ preQ = <<>> /\ verQ = <<>> /\ snapTip = 0

Mint == /\ minted < N
        /\ \E p \in 0..minted, w \in 1..MaxWork, g \in BOOLEAN :
             /\ parent' = [parent EXCEPT ![minted + 1] = p]
             /\ work' = [work EXCEPT ![minted + 1] = w]
             /\ good' = [good EXCEPT ![minted + 1] = g]
        /\ minted' = minted + 1
        /\ UNCHANGED <<delivered, inbox, stored, ext, index, tip, status, orphans, pending, preQ, verQ, snapTip>>

Deliver(b) == /\ b <= minted /\ delivered[b] < MaxDeliver /\ b \notin inbox
              /\ delivered' = [delivered EXCEPT ![b] = @ + 1]
              /\ inbox' = inbox \cup {b}
              /\ UNCHANGED <<parent, work, good, minted, stored, ext, index, tip, status, orphans, pending, preQ, verQ, snapTip>>

RECURSIVE SetToSeqAny(_)
SetToSeqAny(S) == IF S = {} THEN <<>> ELSE LET m == CHOOSE x \in S : \A y \in S : x <= y IN <<m>> \o SetToSeqAny(S \ {m})

Known(p) == p \in pending \/ (p \in stored /\ ext[p] # "none")   \* pending or status contains BLOCK_STORED (ext present)

\* descendants of p inside the orphan pool
RECURSIVE Desc(_, _)
Desc(S, pool) == LET nxt == {c \in pool : parent[c] \in S} \ S IN IF nxt = {} THEN S ELSE Desc(S \cup nxt, pool)
Leaders == {parent[c] : c \in orphans} \ orphans

\* ChainService thread: receive+insert+broker+search leaders (one critical section of the single thread,
\* the verify thread may interleave only between such sections in this calibration model)
Service(b) ==
  /\ b \in inbox /\ inbox' = inbox \ {b}
  /\ LET st1 == stored \cup {b}
         p == parent[b]
     IN IF Known(p)
          THEN \* process_descendant, then release every orphan chain hanging below b or other known leaders
               LET rel == Desc({b}, orphans) \ {b}
               IN /\ stored' = st1 /\ pending' = pending \cup {b} \cup rel
                  /\ preQ' = preQ \o <<b>> \o SetToSeqAny(rel)
                  /\ orphans' = orphans \ rel /\ status' = status
          ELSE IF p \in status
          THEN /\ stored' = stored \ {b} /\ status' = status \cup {b} /\ UNCHANGED <<pending, preQ, orphans>>
          ELSE /\ stored' = st1 /\ orphans' = orphans \cup {b} /\ UNCHANGED <<pending, preQ, status>>
  /\ UNCHANGED <<parent, work, good, minted, delivered, ext, index, tip, verQ, snapTip>>

Preload == /\ preQ # <<>> /\ verQ' = Append(verQ, Head(preQ)) /\ preQ' = Tail(preQ)
           /\ UNCHANGED <<parent, work, good, minted, delivered, inbox, stored, ext, index, tip, status, orphans, pending, snapTip>>

AllGoodUnverified(b) == \A a \in ChainOf(b) : ext[a] = "ok" \/ good[a]

Verify ==
  /\ verQ # <<>>
  /\ LET b == Head(verQ) p == parent[b] IN
     /\ verQ' = Tail(verQ)
     /\ pending' = pending \ {b}
     /\ IF p \in status \/ ext[p] = "none"
          THEN \* fail: delete, mark invalid
               /\ stored' = stored \ {b} /\ status' = status \cup {b} /\ UNCHANGED <<ext, index, tip, snapTip>>
        ELSE IF ext[b] = "ok" THEN UNCHANGED <<stored, status, ext, index, tip, snapTip>>
        ELSE IF TD(b) > TD(snapTip)
          THEN IF AllGoodUnverified(b)
                 THEN /\ ext' = [a \in 0..N |-> IF a \in ChainOf(b) THEN "ok" ELSE ext[a]]
                      /\ index' = ChainOf(b) /\ tip' = b /\ snapTip' = b /\ UNCHANGED <<stored, status>>
                 ELSE /\ stored' = stored \ {b} /\ status' = status \cup {b} /\ UNCHANGED <<ext, index, tip, snapTip>>
          ELSE /\ ext' = [ext EXCEPT ![b] = IF @ = "none" THEN "unv" ELSE @] /\ UNCHANGED <<stored, status, index, tip, snapTip>>
  /\ UNCHANGED <<parent, work, good, minted, delivered, inbox, orphans, preQ>>

Next == Mint \/ (\E b \in Blocks : Deliver(b) \/ Service(b)) \/ Preload \/ Verify
Spec == Init /\ [][Next]_vars

\* ---------------- properties ----------------
Quiescent == inbox = {} /\ preQ = <<>> /\ verQ = <<>>
Received == {b \in 1..minted : delivered[b] > 0}
ValidChainHead(c) == \A a \in ChainOf(c) \ {0} : a \in Received /\ good[a]
BestTD == LET S == {TD(c) : c \in {x \in Received : ValidChainHead(x)} \cup {0}} IN CHOOSE m \in S : \A k \in S : k <= m
TipHeaviestValid == Quiescent => (TD(tip) = BestTD /\ \A a \in ChainOf(tip) \ {0} : good[a])
OnlyValidAttached == \A a \in index \ {0} : good[a]
OrphansConnected == Quiescent => \A c \in orphans : ~Known(parent[c])
NeverLeave == [][tip' # tip => TD(tip') > TD(tip)]_vars
=============================================================================
