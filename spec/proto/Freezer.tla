------------------------------ MODULE Freezer ------------------------------
EXTENDS Naturals, Sequences, FiniteSets, TLC
CONSTANTS MaxSize, Sizes, MaxAppends, Buggy

VARIABLES data,      \* data[f] = bytes currently in data file f (contents are determined by `items`)
          index,     \* index entries <<file, endOffset>>, entry 1 is the sentinel
          torn,      \* TRUE iff a torn (partial) index entry follows the last full one on disk
          items,     \* ground truth: items[i] = [file, start, end]
          sData, sIdx, \* synced lengths: head file bytes / number of index entries at last sync
          sHead,
          open, hif, hf, number,
          fw,        \* number of fully written items at the moment of the last crash
          fwKept     \* min(fw) obligations still standing after reopen
vars == <<data, index, torn, items, sData, sIdx, sHead, open, hif, hf, number, fw, fwKept>>

Files == 0..MaxAppends

Init == /\ data = [f \in Files |-> 0] /\ index = << <<0,0>> >> /\ torn = FALSE /\ items = <<>>
        /\ sData = 0 /\ sIdx = 1 /\ sHead = 0
        /\ open = TRUE /\ hif = 0 /\ hf = 0 /\ number = 1 /\ fw = 0 /\ fwKept = 0

AppendItem(sz) ==
  /\ open /\ Len(items) < MaxAppends
  /\ LET roll == data[hf] + sz > MaxSize
         f    == IF roll THEN hif + 1 ELSE hf      \* open_truncated(next_id): new empty file
         st   == IF roll THEN 0 ELSE data[hf]
     IN /\ data' = [data EXCEPT ![f] = st + sz]
        /\ index' = Append(index, <<f, st + sz>>)
        /\ items' = Append(items, [file |-> f, start |-> st, end |-> st + sz])
        /\ hif' = f /\ hf' = f /\ number' = number + 1
  /\ UNCHANGED <<torn, sData, sIdx, sHead, open, fw>> /\ fwKept' = 0

Sync == /\ open /\ sData' = data[hf] /\ sIdx' = Len(index) /\ sHead' = hf
        /\ UNCHANGED <<data, index, torn, items, open, hif, hf, number, fw, fwKept>>

\* number of items (prefix) whose data and index entry survive entirely
FullPrefix(d, idx) ==
  LET good(i) == i + 1 <= Len(idx) /\ d[items[i].file] >= items[i].end
  IN  IF Len(items) = 0 THEN 0
      ELSE LET S == {k \in 0..Len(items) : \A i \in 1..k : good(i)} IN CHOOSE k \in S : \A j \in S : j <= k

Crash ==
  /\ open
  /\ \E icut \in sIdx..Len(index), t \in BOOLEAN :
       /\ (t => icut < Len(index))
       /\ \E cut \in [ {hf} -> 0..MaxSize ] :
            /\ \A f \in DOMAIN cut : cut[f] <= data[f] /\ (f = sHead => cut[f] >= sData)
            /\ data' = [f \in Files |-> IF f \in DOMAIN cut THEN cut[f] ELSE data[f]]
            /\ index' = SubSeq(index, 1, icut) /\ torn' = t
            /\ fw' = FullPrefix(data', index')
  /\ open' = FALSE
  /\ UNCHANGED <<items, sData, sIdx, sHead, hif, hf, number>> /\ fwKept' = 0

RECURSIVE Repair(_, _, _, _, _, _)
Repair(idx, hi, h, hsize, expect, d) ==
  IF expect = hsize THEN [idx |-> idx, hi |-> hi, h |-> h, d |-> d]
  ELSE IF expect < hsize THEN Repair(idx, hi, h, expect, expect, [d EXCEPT ![h] = expect])
  ELSE LET idx2 == SubSeq(idx, 1, Len(idx) - 1)
           ne   == idx2[Len(idx2)]
           slipped == ne[1] # hi
           nh   == IF slipped THEN (IF Buggy THEN hi ELSE ne[1]) ELSE h
           nsz  == IF slipped THEN d[nh] ELSE hsize
       IN Repair(idx2, ne[1], nh, nsz, ne[2], d)

Reopen ==
  /\ ~open
  /\ LET he == index[Len(index)]
         r  == Repair(index, he[1], he[1], data[he[1]], he[2], data)
     IN /\ index' = r.idx /\ data' = r.d /\ torn' = FALSE
        /\ hif' = r.hi /\ hf' = r.h /\ number' = Len(r.idx)
        /\ sData' = r.d[r.h] /\ sIdx' = Len(r.idx) /\ sHead' = r.h
        /\ items' = SubSeq(items, 1, Len(r.idx) - 1)   \* ground truth restricted to what the freezer now claims
  /\ open' = TRUE /\ fwKept' = fw
  /\ UNCHANGED fw

Next == (\E sz \in Sizes : AppendItem(sz)) \/ Sync \/ Crash \/ Reopen
Spec == Init /\ [][Next]_vars

Retrievable(i) == /\ index[i + 1] = <<items[i].file, items[i].end>>
                  /\ data[items[i].file] >= items[i].end
                  /\ LET s == IF i = 1 \/ index[i][1] # index[i+1][1] THEN 0 ELSE index[i][2] IN s = items[i].start
PrefixOK  == open => /\ number = Len(index)
                     /\ \A i \in 1..(number - 1) : Retrievable(i)
HandleOK  == open => hf = hif /\ hif = index[Len(index)][1] /\ data[hf] = index[Len(index)][2]
NoLossInv == open => number - 1 >= fwKept

=============================================================================
