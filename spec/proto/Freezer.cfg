SPECIFICATION Spec
CONSTANTS MaxSize = 4
Sizes = {1, 2, 3}
MaxAppends = 5
Buggy = FALSE
INVARIANT PrefixOK
INVARIANT HandleOK
INVARIANT NoLossInv
CHECK_DEADLOCK FALSE
