SPECIFICATION Spec
CONSTANTS Ids = {a, b}
WClose = 2
WFar = 4
MaxLen = 6
INVARIANT ViewOK
CHECK_DEADLOCK FALSE
