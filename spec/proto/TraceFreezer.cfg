SPECIFICATION TSpec
CONSTANTS MaxSize = 4
Sizes = {1, 2, 3}
MaxAppends = 5
Buggy = FALSE
INVARIANT PrefixOK
INVARIANT HandleOK
INVARIANT NoLossInv
POSTCONDITION Accepted
CHECK_DEADLOCK FALSE
