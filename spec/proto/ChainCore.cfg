SPECIFICATION Spec
CONSTANTS N = 3
MaxWork = 2
MaxDeliver = 2
INVARIANT TipHeaviestValid
INVARIANT OnlyValidAttached
INVARIANT OrphansConnected
PROPERTY NeverLeave
CHECK_DEADLOCK FALSE
