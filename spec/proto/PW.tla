------------------------------ MODULE PW ------------------------------
EXTENDS Naturals, Sequences, FiniteSets, TLC
CONSTANTS Ids, WClose, WFar, MaxLen

\* chain[i] = proposal ids of main-chain block number i (1-based; genesis = 0 has none)
VARIABLES chain, table, view, dropped, restarted
vars == <<chain, table, view, dropped, restarted>>

Sub(a, b) == IF a >= b THEN a - b ELSE 0
Max(a, b) == IF a >= b THEN a ELSE b

Props(c, n) == IF n >= 1 /\ n <= Len(c) THEN c[n] ELSE {}
UnionOver(c, lo, hi) == UNION { Props(c, n) : n \in lo..hi }

\* ---- declarative (RFC / TwoPhaseCommitVerifier) ----
SpecSet(c) == LET cand == Len(c) + 1 IN
              IF cand <= WClose THEN {} ELSE UnionOver(c, Sub(cand, WFar), cand - WClose)
SpecGap(c) == LET cand == Len(c) + 1 IN
              IF cand <= WClose THEN UnionOver(c, 1, Len(c)) ELSE UnionOver(c, cand - WClose + 1, Len(c))

\* ---- implementation-shaped table ----
TableGet(t, n) == IF n \in DOMAIN t THEN t[n] ELSE {}
TUnion(t, lo, hi) == UNION { TableGet(t, n) : n \in (lo..hi) \cap DOMAIN t }
Restrict(t, S) == [n \in (DOMAIN t) \cap S |-> t[n]]
Put(t, n, ids) == [m \in (DOMAIN t) \cup {n} |-> IF m = n THEN ids ELSE t[m]]

\* ProposalTable::finalize(origin, number)
Finalize(t, originSet, number) ==
  LET cand  == number + 1
      start == Sub(cand, WFar)
      end   == Sub(cand, WClose)
      t2    == IF start > 1 THEN Restrict(t, {n \in DOMAIN t : n >= start}) ELSE t
      newIds == IF cand <= WClose THEN {} ELSE TUnion(t2, start, end)
      gap    == IF cand <= WClose THEN TUnion(t2, 0, number) ELSE TUnion(t2, end + 1, number)
  IN [table |-> t2, set |-> newIds, gap |-> gap, removed |-> originSet \ newIds]

Init == /\ chain = <<>> /\ table = <<>> /\ view = [set |-> {}, gap |-> {}] /\ dropped = {} /\ restarted = FALSE

\* extend main chain by one block with proposals P
Extend(P) ==
  /\ Len(chain) < MaxLen
  /\ LET c2 == Append(chain, P)
         t1 == Put(table, Len(c2), P)
         f  == Finalize(t1, view.set, Len(c2))
     IN /\ chain' = c2 /\ table' = f.table /\ view' = [set |-> f.set, gap |-> f.gap] /\ dropped' = f.removed
  /\ restarted' = FALSE

\* reorg: detach blocks k+1..Len, attach a new branch `br` (seq of proposal sets), total length may shrink
Reorg(k, br) ==
  /\ k < Len(chain) /\ Len(br) >= 1 /\ k + Len(br) <= MaxLen
  /\ LET c2 == SubSeq(chain, 1, k) \o br
         newTip == Len(c2)
         \* update_proposal_table: remove detached numbers, insert attached
         t1 == Restrict(table, {n \in DOMAIN table : n <= k})
         t2 == [n \in (DOMAIN t1) \cup (k+1..newTip) |-> IF n > k THEN c2[n] ELSE t1[n]]
         \* reload_proposal_table: detached_front = k+1; if detached_front < 2 return
         common == k
         pstart == Max(1, Sub(newTip + 1, WFar))
         t3 == IF k + 1 < 2 THEN t2
               ELSE [n \in (DOMAIN t2) \cup (pstart..common) |-> IF n \in pstart..common THEN c2[n] ELSE t2[n]]
         f  == Finalize(t3, view.set, newTip)
     IN /\ chain' = c2 /\ table' = f.table /\ view' = [set |-> f.set, gap |-> f.gap] /\ dropped' = f.removed
  /\ restarted' = FALSE

\* restart: init_proposal_table from store
Restart ==
  /\ LET tip == Len(chain)
         ps  == Sub(tip, WFar)
         t0  == [n \in {m \in ps..tip : m >= 1} |-> chain[n]]
         f   == Finalize(t0, {}, tip)
     IN /\ table' = f.table /\ view' = [set |-> f.set, gap |-> f.gap] /\ dropped' = {}
  /\ restarted' = TRUE
  /\ UNCHANGED chain

Next == \/ \E P \in SUBSET Ids : Extend(P)
        \/ \E k \in 0..MaxLen, n \in 1..MaxLen : \E br \in [1..n -> SUBSET Ids] : Reorg(k, br)
        \/ Restart

Spec == Init /\ [][Next]_vars

ViewOK == view.set = SpecSet(chain) /\ view.gap = SpecGap(chain)
=======================================================================
