---------------------------- MODULE TraceFreezer ----------------------------
EXTENDS Freezer, Json, IOUtils, TLCExt
Rec == ndJsonDeserialize(IOEnv.TRACE)
VARIABLE l
tvars == <<vars, l>>
TInit == Init /\ l = 1
Ev == Rec[l]
Is(e) == l <= Len(Rec) /\ Ev.ev = e /\ l' = l + 1
TAppend == Is("Append") /\ AppendItem(Ev.sz) /\ number' = Ev.number
TCrash  == Is("Crash") /\ Crash /\ data'[hf] = Ev.data /\ Len(index') = Ev.idx /\ torn' = Ev.torn
TReopen == Is("Reopen") /\ Reopen /\ number' = Ev.number
TNext == TAppend \/ TCrash \/ TReopen
TSpec == TInit /\ [][TNext]_tvars
Accepted == LET d == TLCGet("stats").diameter IN
            IF d - 1 = Len(Rec) THEN TRUE
            ELSE Print(<<"TRACE REJECTED at event", d, Rec[d]>>, FALSE)
=============================================================================
