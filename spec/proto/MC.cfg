SPECIFICATION Spec
CONSTANTS
Txs <- MCTxs
Ins <- MCIns
Deps <- MCDeps
NOuts <- MCNOuts
Fee <- MCFee
Size <- MCSize
Genesis <- MCGenesis
MaxAnc = 3
MaxPoolSize = 3
RbfOn = TRUE
RbfExtra = 1
INVARIANT NoDoubleSpend
INVARIANT AllResolvable
INVARIANT AncLimit
INVARIANT NoCommittedInPool
CHECK_DEADLOCK FALSE
VIEW PoolView
