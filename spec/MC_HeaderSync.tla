--------------------------- MODULE MC_HeaderSync ---------------------------
(* Small constants for HeaderSync.tla.                                                              *)
(*  Depth = 0  exhaustive: every block tree over the ids of Blocks (every block picks a parent one   *)
(*           height below), 2 peers, every interleaving of connecting, announcing header chains,     *)
(*           requesting (EVERY allowed request set), arrival in any order, relay, time passing,      *)
(*           pruning with ANY eviction set, disconnecting.                                           *)
(*  Depth > 0  scenarios for the real BlockFetcher (run with -simulate): the history records the     *)
(*           environment's moves only; requests take the lowest allowed blocks first, as the code    *)
(*           does, so that later moves (which block arrives) stay meaningful on the real node.       *)
EXTENDS HeaderSync, Json, SequencesExt
CONSTANTS Deltas, MaxAdv, Low0, Depth, Trees,
          GH      \* TRUE: getheaders answering is explored too (costly to evaluate: off in the larger configurations)
VARIABLES adv, hist,
          was     \* ghost, outside the VIEW: the blocks requested so far (only for the vacuity guard NoReRequest)
mcvars == <<vars, adv, hist, was>>

\* named universes (cfg: Trees <- ...)
TreesMicro == {(2 :> 0 @@ 4 :> 2)}
TreesTiny == {(2 :> 0 @@ 3 :> 0 @@ 4 :> 2)}
TreesForks == {(2 :> 0 @@ 3 :> 0 @@ 4 :> 2 @@ 5 :> 3), (2 :> 0 @@ 3 :> 0 @@ 4 :> 2 @@ 5 :> 2)}
TreesLine == {(2 :> 0 @@ 4 :> 2 @@ 6 :> 4 @@ 8 :> 6)}
TreesTwoChains == {(2 :> 0 @@ 3 :> 0 @@ 4 :> 2 @@ 5 :> 3)}
TreesForkTop == {(2 :> 0 @@ 3 :> 0 @@ 4 :> 2 @@ 5 :> 2)}
TreesAll == {}
ParentMaps == {f \in [Blocks -> Blocks \cup {0}] : \A b \in Blocks : Ht(f[b]) = Ht(b) - 1 /\ (Ht(b) = 1 => f[b] = 0)}
MCInit == /\ par \in (IF Trees = {} THEN ParentMaps ELSE Trees)
          /\ Init0 /\ low = Low0 /\ adv = 0 /\ hist = <<>> /\ was = {}
Rec(a, x, y) == /\ IF Depth = 0 THEN UNCHANGED hist
                   ELSE Len(hist) < Depth /\ hist' = Append(hist, [a |-> a, x |-> x, y |-> y])
                /\ was' = was \cup req'.R
TopStored(b) == IF Anc(b) \cap stored = {} THEN 0 ELSE CHOOSE x \in Anc(b) \cap stored : Ht(x) = HS(b)
RECURSIVE Lowest(_, _)
Lowest(S, n) == IF n = 0 \/ S = {} THEN {} ELSE LET x == CHOOSE x \in S : \A y \in S : Ht(x) <= Ht(y) IN {x} \cup Lowest(S \ {x}, n - 1)

DoConnect == \E p \in Peers : Connect(p) /\ UNCHANGED adv /\ Rec("Connect", p, 0)
DoDisconnect == \E p \in Peers : Disconnect(p) /\ UNCHANGED adv /\ Rec("Disconnect", p, 0)
DoHeaders == \E p \in Peers, b \in Blocks : RecvHeaders(p, b) /\ best' # best /\ UNCHANGED adv /\ Rec("Headers", p, b)
DoFetch == \E p \in conn :
             /\ IF Depth = 0
                THEN \E R \in SUBSET (IF Eligible(p) THEN MayCand(p) ELSE {}) :
                        Fetch(p, R, IF Eligible(p) THEN TopStored(best[p]) ELSE lastc[p])
                ELSE Fetch(p, IF Eligible(p) THEN Lowest(MustCand(p), Can(p)) ELSE {},
                           IF Eligible(p) THEN TopStored(best[p]) ELSE lastc[p])
             /\ UNCHANGED adv /\ Rec("Fetch", p, 0)
DoArrive == \E b \in DOMAIN st : \E t \in Blocks \cup {0} : Arrive(b, low, t) /\ UNCHANGED adv /\ Rec("Arrive", b, 0)
DoRelay == \E b \in known : \E t \in Blocks \cup {0} : Relay(b, t) /\ UNCHANGED adv /\ Rec("Relay", b, 0)
DoAdvance == \E d \in Deltas : adv < MaxAdv /\ st # <<>> /\ Advance(d) /\ adv' = adv + 1 /\ Rec("Advance", d, 0)
DoPrune == /\ st # <<>>
           /\ IF Depth = 0 THEN \E E \in SUBSET Tracked : PruneStep(E)
              ELSE PruneStep({})
           /\ UNCHANGED adv /\ Rec("Prune", 0, 0)
\* locator of any known header chain, answered from the node's main chain; the answer must be a parent-linked
\* continuation of a block the peer has
DoGetHeaders == GH /\ \E b \in known : LET loc == LocatorOf(b) resp == Response(loc) IN
                  /\ GetHeaders(loc, resp) /\ UNCHANGED adv /\ Rec("GetHeaders", b, 0)
                  /\ Assert(/\ \A k \in 1..Len(resp) : par[resp[k]] = (IF k = 1 THEN Common(loc) ELSE resp[k - 1])
                            /\ Common(loc) \in Anc(b) \cup {0}
                            /\ (Len(resp) = 0 \/ resp[Len(resp)] = tip \/ Len(resp) = MaxHeaders)
                            /\ (Len(resp) = 0 => Common(loc) = tip),
                            <<"locator answer is not a continuation of the peer's chain", b, loc, resp>>)
MCNext == DoGetHeaders \/ DoConnect \/ DoDisconnect \/ DoHeaders \/ DoFetch \/ DoArrive \/ DoRelay \/ DoAdvance \/ DoPrune
Spec == MCInit /\ [][MCNext]_mcvars

NeverTwiceMC == [][FreshStep]_mcvars
RequestSafeMC == [][ReqSafeStep]_mcvars
RequestLiveMC == [][ReqLiveStep]_mcvars
LastCommonMC == [][LastCommonStep]_mcvars
OnlyReleasedByMC == [][ReleaseStep]_mcvars
\* behaviour depends on time differences only; `out` and `req` are outputs (their properties are step properties)
AgeView == <<par, known, stored, recvd, tip, conn, best, lastc, slots,
             [b \in DOMAIN st |-> <<st[b].peer, now - st[b].ts>>], sched, [b \in DOMAIN trace |-> now - trace[b]],
             restart, low, stale, adv>>
\* vacuity guards (must be VIOLATED): a request that leaves a missing block for later because of the window / the limit,
\* a block re-requested from the other peer after a release
NoWindowCutStep == ~(req'.p # 0 /\ req'.elig /\ \E b \in Missing(req'.p) \ req'.R : Ht(b) > HS(best[req'.p]) + 1 + Window)
NoWindowCut == [][NoWindowCutStep]_mcvars
NoLimitCutStep == ~(req'.p # 0 /\ req'.elig /\ req'.R # {} /\ Cardinality(req'.R) = Can(req'.p) /\ Missing(req'.p) \ req'.R # {})
NoLimitCut == [][NoLimitCutStep]_mcvars
NoReRequestStep == req'.R \cap was = {}
NoReRequest == [][NoReRequestStep]_mcvars
EmitBeh == (Len(hist) = Depth) => PrintT(<<"BEH", ToJson([par |-> [b \in Blocks |-> <<b, par[b]>>], steps |-> hist])>>)
=============================================================================
