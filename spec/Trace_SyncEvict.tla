-------------------------- MODULE Trace_SyncEvict --------------------------
(* Trace validation: an ndjson trace recorded from the real Synchronizer (harness g_syncevict drive: real node, real  *)
(* SyncShared / Synchronizer, recording network context, faketime) must be a behaviour of SyncEvict.tla.  Every event  *)
(* carries its arguments, its results (getheaders sent, sessions the code asked the network to close) and the complete *)
(* projected per-peer state after the operation (flags, best-known total difficulty, ChainSyncState, started).  What   *)
(* the specification leaves open is read from the event: which peers start header sync, and which STARTED peers the    *)
(* headers-sync controller gave up on in a round (K: some subset of the disconnected started peers).  The ghost `hist` *)
(* is computed by the specification; all invariants and step properties are evaluated along the trace.                 *)
EXTENDS SyncEvict, Sequences, Json, IOUtils, TLCExt
Rec == ndJsonDeserialize(IOEnv.TRACE)
VARIABLE l
tvars == <<vars, l>>
Ev == Rec[l]
Is(e) == l <= Len(Rec) /\ Ev.ev = e /\ l' = l + 1
SeqRange(s) == {s[i] : i \in 1..Len(s)}
NoDup(a) == \A i, j \in 1..Len(a) : i # j => a[i].p # a[j].p
PeersOf(a) == [p \in {a[i].p : i \in 1..Len(a)} |->
                 LET i == CHOOSE i \in 1..Len(a) : a[i].p = p IN
                 [out |-> a[i].out, prot |-> a[i].prot, wl |-> a[i].wl, bk |-> a[i].bk, timeout |-> a[i].timeout,
                  workTD |-> a[i].workTD, workId |-> a[i].workId, sent |-> a[i].sent, started |-> a[i].started]]
\* what the code shows after the operation must be what the specification computes
Observed ==
  /\ Ev.st.ibd = FALSE
  /\ NoDup(Ev.st.peers)
  /\ now' = Ev.st.now /\ tipId' = Ev.st.tipId /\ tipTD' = Ev.st.tipTD
  /\ peers' = PeersOf(Ev.st.peers)
  /\ Ev.st.n_protected = Cardinality({p \in DOMAIN peers' : peers'[p].prot})
TInit == /\ now = 0 /\ tipId = 0 /\ tipTD = 0 /\ peers = <<>> /\ hist = <<>> /\ gone = {} /\ out = Quiet("none") /\ l = 1
TReset == /\ Is("Reset")
          /\ Ev.cst = CST /\ Ev.ehrt = EHRT /\ Ev.maxProtect = MaxProtect /\ Ev.st.ibd = FALSE
          /\ now' = Ev.st.now /\ tipId' = Ev.st.tipId /\ tipTD' = Ev.st.tipTD /\ Ev.st.peers = <<>>
          /\ peers' = <<>> /\ hist' = <<>> /\ gone' = {} /\ out' = Quiet("none")
TConnect == Is("Connect") /\ Connect(Ev.p, Ev.out, Ev.wl) /\ Observed
TDisconnect == Is("Disconnect") /\ Disconnect(Ev.p) /\ Observed
TTick == Is("Tick") /\ Tick(Ev.d) /\ Observed
TTipGrows == Is("TipGrows") /\ TipGrows(Ev.d) /\ Observed
TAnnounce == Is("Announce") /\ Ev.banned = 0 /\ Announce(Ev.p, Ev.td) /\ Observed
TStartSync == Is("StartSync") /\ StartSync(SeqRange(Ev.started)) /\ Observed
\* gh: peers that were sent a getheaders starting at their recorded work header; gh_suppressed: the rule raised its flag but
\* the sender's duplicate filter dropped the message because the identical request had gone to that peer moments before
TEvict == /\ Is("Evict")
          /\ Ev.gh_dup = <<>> /\ SeqRange(Ev.gh) \cap SeqRange(Ev.gh_suppressed) = {}
          /\ \E K \in SUBSET (SeqRange(Ev.evicted) \cap {p \in Live : peers[p].started}) :
               /\ Evict(K)
               /\ out'.evicted \cup K = SeqRange(Ev.evicted)
               /\ out'.gh = SeqRange(Ev.gh) \cup SeqRange(Ev.gh_suppressed)
          /\ Observed
TNext == TReset \/ TConnect \/ TDisconnect \/ TTick \/ TTipGrows \/ TAnnounce \/ TStartSync \/ TEvict
TSpec == TInit /\ [][TNext]_tvars
Accepted == LET d == TLCGet("stats").diameter IN
            IF d - 1 = Len(Rec) THEN TRUE
            ELSE Print(<<"TRACE-REJECTED", d, Rec[d]>>, FALSE)
=============================================================================
