SPECIFICATION Spec
CONSTANTS
  N = 9
  Lens = {2}
  GenesisLen = 2
  Period = 1
  Starts = {1}
  Timeouts = {3}
  MinActs = {0, 4}
  Thresholds <- Thr34
  Coded = FALSE
  Queries = FALSE
  Emit = TRUE
INVARIANT TypeOK
INVARIANT EmitTree
CHECK_DEADLOCK FALSE
