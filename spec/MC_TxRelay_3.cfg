SPECIFICATION Spec
CONSTANTS
  N = 3
INVARIANT AdmittedExact
INVARIANT OrphansExact
INVARIANT OkOnce
CHECK_DEADLOCK FALSE
