---------------------------- MODULE Eval_Indexer ----------------------------
(* Oracle for the R binding: evaluates the DECLARATIVE answers of Indexer.tla (FCells / FTxs: filters over  *)
(* Live(chain) and History(chain), in delivery order) for every chain and every query of a universe file *)
(* (env UNIVERSE, JSON) and prints them.  Transaction ids are positions in U.txs; the blocks of a chain   *)
(* get the local ids 0..n (their cellbases CbBase + id).                                                  *)
EXTENDS Indexer, Json, IOUtils
VARIABLE k
U == JsonDeserialize(IOEnv.UNIVERSE)
EvTxDef == U.txs
EvRaw == U.raw
EvGenesis == [parent |-> 0, number |-> 0, txs |-> U.chains[1][1].txs, cb |-> U.chains[1][1].cb]
EvCbOut == [lock |-> "none", type |-> "none", cap |-> 0, dlen |-> 0]
TrueOp(s) == TRUE
TreeOf(i) == LET c == U.chains[i] IN
             [b \in 0..(Len(c) - 1) |-> [parent |-> IF b = 0 THEN 0 ELSE b - 1, number |-> c[b + 1].number,
                                         txs |-> c[b + 1].txs, cb |-> c[b + 1].cb]]
EvInit == /\ k = 1 /\ tree = TreeOf(1) /\ main = <<0>> /\ R = EmptyRows /\ hw = 0 /\ ok = TRUE /\ snap = <<>>
EvNext == /\ k < Len(U.chains) /\ k' = k + 1 /\ tree' = TreeOf(k + 1) /\ UNCHANGED <<main, R, hw, ok, snap>>
EvSpec == EvInit /\ [][EvNext]_<<ivars, k>>
Expected ==
  LET ch == Chain(Len(U.chains[k]) - 1)
      LC == LiveCells(ch)
      H  == History(ch)
  IN [k |-> k,
      cells |-> [i \in 1..Len(U.cellq) |-> CellOrder(FCellSet(LC, U.cellq[i]))],
      txs   |-> [i \in 1..Len(U.txq) |-> TxOrder(FTxSet(H, U.txq[i]))],
      gtxs  |-> [i \in 1..Len(U.txq) |-> TxGrouped(FTxSet(H, U.txq[i]))]]
EmitExpect == PrintT(<<"EXPECT", ToJson(Expected)>>)
=============================================================================
