------------------------- MODULE MC_ProposalWindow -------------------------
(* Model-checking configurations of ProposalWindow.tla.                                            *)
(*  exhaustive: Spec (all block contents over Ids with disjoint block/uncle proposals)             *)
(*  simulation: HSpec = Spec + history variable; a behaviour of >= Steps recorded steps that has    *)
(*              come to rest is printed as JSON for replay on the real node (R binding)            *)
EXTENDS ProposalWindow, Json
CONSTANTS Steps      \* simulation: recorded steps per behaviour
VARIABLE hist
hvars == <<vars, hist>>

\* every block content with disjoint own/uncle proposals (an id proposed in both places adds nothing to the table)
DisjointBlocks == {b \in [p : SUBSET Ids, u : SUBSET Ids] : b.p \cap b.u = {}}
AllBlocks      == [p : SUBSET Ids, u : SUBSET Ids]
\* proposals in the block body only (the table sees U(b) = p \cup u; used for the longer chains)
OwnBlocks      == [p : SUBSET Ids, u : {{}}]
\* simulation with more ids: at most one id per place, so that windows differ from tip to tip
SparseBlocks   == {b \in AllBlocks : Cardinality(b.p) <= 1 /\ Cardinality(b.u) <= 1 /\ b.p \cap b.u = {}}

Seq2(S) == LET RECURSIVE F(_)
               F(T) == IF T = {} THEN <<>> ELSE LET x == CHOOSE y \in T : \A z \in T : y <= z IN <<x>> \o F(T \ {x})
           IN F(S)
NoBlock == [p |-> {}, u |-> {}]
Rec(a, k, b) == [a |-> a, k |-> k, p |-> Seq2(b.p), u |-> Seq2(b.u), len |-> Len(chain'),
                 set |-> Seq2(view'.set), gap |-> Seq2(view'.gap), dropped |-> Seq2(dropped'),
                 commit |-> Seq2({t \in Ids : CommitAllowed(chain', t)})]

HInit == Init /\ hist = <<>>
Going == Steps = 0 \/ Len(hist) < Steps
H(x) == IF Steps = 0 THEN <<>> ELSE Append(hist, x)      \* Steps = 0: exhaustive checking, no history
HExtend  == \E b \in Blocks : Going /\ Extend(b) /\ hist' = H(Rec("Extend", 0, b))
HBegin   == \E k \in 0..MaxLen : Going /\ BeginReorg(k) /\ hist' = H(Rec("Begin", k, NoBlock))
HAttach  == \E b \in Blocks : Attach(b) /\ hist' = H(Rec("Attach", 0, b))
HEnd     == EndReorg /\ hist' = H(Rec("End", 0, NoBlock))
HRestart == Going /\ Restart /\ hist' = H(Rec("Restart", 0, NoBlock))
HNext == HExtend \/ HBegin \/ HAttach \/ HEnd \/ HRestart
HSpec == HInit /\ [][HNext]_hvars

\* evaluated on every state of a simulated behaviour; always TRUE
EmitHist == (Steps > 0 /\ ~Going /\ Stable) => PrintT(<<"BEHAVIOUR", ToJson(hist)>>)
=============================================================================
