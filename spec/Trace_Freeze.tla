---------------------------- MODULE Trace_Freeze ----------------------------
(* Trace validation for C10: the steps announced by the real freeze pass (hook events of          *)
(* Shared::freeze / Freezer::freeze / wipe_out_frozen_data), the crashes and restarts driven by   *)
(* the harness and the raw rows it observed must form a behaviour of Freeze.tla; every invariant  *)
(* of the module is evaluated after every event.  Several histories are concatenated with Reset.  *)
EXTENDS Freeze, Json, IOUtils, TLCExt
Rec == ndJsonDeserialize(IOEnv.TRACE)
VARIABLE l
tvars == <<vars, l>>
TInit == Init /\ l = 1
Ev == Rec[l]
Is(e) == l <= Len(Rec) /\ Ev.ev = e /\ l' = l + 1

\* rows the specification says are missing, as <<kind, height, part>>
GoneSpec == {<<x[1][1], x[1][2], x[2]>> : x \in {y \in have \X Parts : y[2] \in FullParts(y[1]) /\ y[2] \notin kv[y[1]]}}
GoneObs == {<<Ev.gone[i][1], Ev.gone[i][2], Ev.gone[i][3]>> : i \in 1..Len(Ev.gone)}

TReset == /\ Is("Reset")
          /\ tip' = InitTip
          /\ have' = {Main(h) : h \in 0..InitTip} \cup {SideB(h) : h \in SideHeights \ LateSides}
          /\ kv' = [b \in AllBlocks |-> IF b \in have' THEN FullParts(b) ELSE {}]
          /\ dkv' = kv'
          /\ fz' = <<>> /\ fzS' = 0 /\ fn' = 1 /\ up' = TRUE
          /\ pc' = "idle" /\ thr' = 0 /\ nxt' = 0 /\ got' = {} /\ snap' = {} /\ sides' = {} /\ startN' = 1
          /\ passes' = 0 /\ crashes' = 0
TGrow        == Is("Grow") /\ Grow
TInsertSide  == Is("InsertSide") /\ InsertSide(Ev.h)
TThreshold   == Is("Threshold") /\ Threshold /\ thr' = Ev.thr
TAppend      == Is("FreezeAppend") /\ nxt = Ev.n /\ FreezeAppend
TAppendDone  == Is("AppendDone") /\ AppendDone
TSync        == Is("FreezerSync") /\ FreezerSync
TWipeBodies  == Is("WipeBodies") /\ WipeBodies
TWipeSide    == Is("WipeSide") /\ WipeSide
TCrash       == Is("Crash") /\ CrashTo(Ev.keep, Ev.power)
TRestart     == Is("Restart") /\ Restart /\ fn' = Ev.fn
\* observation of the real store: frozen number and exactly the rows the specification says are gone
TObs         == Is("Obs") /\ up /\ fn = Ev.fn /\ GoneSpec = GoneObs /\ UNCHANGED vars
TNext == TReset \/ TGrow \/ TInsertSide \/ TThreshold \/ TAppend \/ TAppendDone \/ TSync \/ TWipeBodies
         \/ TWipeSide \/ TCrash \/ TRestart \/ TObs
TSpec == TInit /\ [][TNext]_tvars
Accepted == LET d == TLCGet("stats").diameter IN
            IF d - 1 = Len(Rec) THEN TRUE
            ELSE Print(<<"TRACE-REJECTED", d, Rec[d]>>, FALSE)
=============================================================================
