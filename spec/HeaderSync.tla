----------------------------- MODULE HeaderSync -----------------------------
(***************************************************************************)
(* Growth beyond the listed properties (DESIGN 3.7 item 2): header-first    *)
(* block download as a COMPOSITION of the sync bookkeeping models of C17     *)
(* with the block-fetch scheduling rule                                      *)
(* (sync/src/synchronizer/block_fetcher.rs BlockFetcher::fetch,              *)
(*  headers_process.rs -> SyncShared::insert_valid_header,                   *)
(*  block_process.rs -> SyncShared::new_block_received,                      *)
(*  Synchronizer::find_blocks_to_fetch -> InflightBlocks::prune,             *)
(*  SyncState::disconnected).                                                *)
(*                                                                         *)
(* How the C17 models enter:                                                 *)
(*  - Inflight.tla is INSTANTIATED: the in-flight table of this module is    *)
(*    that module's state; a block arriving, a peer leaving, a time-out are  *)
(*    its actions RemoveByBlock / RemoveByPeer / Prune, a request is the     *)
(*    fold of its Insert; its five invariants are checked in the composition.*)
(*  - HeaderMap.tla enters through what C17 establishes about it             *)
(*    (AnswersLikePlainMap, HoldsExactlyPlain): the header index is a plain  *)
(*    map, here the set `known` of block ids whose header the node holds.    *)
(*  - SkipList.tla enters through WalkEqualsParentWalk: get_ancestor is the  *)
(*    parent walk, here Anc(b) / AncAt(b, h) over the parent function.       *)
(*                                                                         *)
(* Universe: a block tree `par` (fixed per history, every block valid,       *)
(* equal difficulty: work = height).  Block ids encode the height as in      *)
(* Inflight.tla: Ht(b) = b \div W; 0 is genesis.                             *)
(*                                                                         *)
(* The PROPERTY: a node that knows a peer's header chain, better than its    *)
(* own tip, requests blocks of exactly that chain that it is missing:        *)
(* never a block it has (stored or received), never a block that is already  *)
(* in flight (from anyone), only inside the download window above its        *)
(* highest stored block of that chain, at most the peer's free slots; and it *)
(* requests SOMETHING whenever such a block exists (so that with blocks      *)
(* arriving, requests timing out and peers leaving - which release exactly   *)
(* the affected entries - every missing block is requested again).           *)
(* WHICH of the allowed blocks are requested is open (parameter R; the code  *)
(* takes the lowest first).                                                  *)
(***************************************************************************)
EXTENDS Naturals, FiniteSets, Sequences, TLC
CONSTANTS Peers, Blocks, W, Timeout, PruneWindow, SlowWindow,   \* as in Inflight.tla
          Window,     \* BLOCK_DOWNLOAD_WINDOW
          Limit,      \* blocks in flight per peer at the start (INIT_BLOCKS_IN_TRANSIT_PER_PEER)
          MaxHeaders, \* MAX_HEADERS_LEN
          OneDay      \* ONE_DAY_BLOCK_NUMBER (SkipList.tla)
VARIABLES par,                                   \* the universe
          known, stored, recvd, tip,             \* the node: header index, block store, received orphans, tip
          conn, best, lastc,                     \* peers: connected, best known header, last common header
          slots,                                 \* peers: task count (adapts to answer times; the policy is open: Adapt)
          now, st, sched, trace, restart, low, stale, out,   \* the in-flight table (Inflight.tla)
          req                                    \* the last request: [p, R, elig, must]
nodevars == <<known, stored, recvd, tip>>
peervars == <<conn, best, lastc, slots>>
flvars == <<now, st, sched, trace, restart, low, stale, out>>
vars == <<par, nodevars, peervars, flvars, req>>

IB == INSTANCE Inflight

Ht(b) == b \div W
RECURSIVE Anc(_)
Anc(b) == IF b = 0 THEN {} ELSE {b} \cup Anc(par[b])          \* b and its ancestors, genesis excluded
Has == stored \cup {0}
Better(a, b) == Ht(a) > Ht(b)                                  \* more total work (equal difficulty)
MaxHt(S) == IF S = {} THEN 0 ELSE CHOOSE h \in {Ht(x) : x \in S} : \A y \in S : Ht(y) <= h
\* height of the highest stored block on the chain of b
HS(b) == MaxHt(Anc(b) \cap stored)
Tracked == DOMAIN sched
Can(p) == IF p \in Tracked THEN (IF slots[p] > Cardinality(sched[p]) THEN slots[p] - Cardinality(sched[p]) ELSE 0) ELSE slots[p]
Put(f, k, v) == [x \in DOMAIN f \cup {k} |-> IF x = k THEN v ELSE f[x]]

\* a peer is asked only if it is connected, announced a chain with more work than our tip, and has a free slot
Eligible(p) == p \in conn /\ best[p] # 0 /\ Better(best[p], tip) /\ Can(p) > 0
\* the blocks of the peer's chain the node is missing and nobody is downloading
Missing(p) == {b \in Anc(best[p]) : b \notin stored /\ b \notin recvd /\ b \notin DOMAIN st}
\* what may be requested / what forces a request (the window is counted from the last common header when nothing
\* above it is stored, from the highest stored block otherwise: one block of slack between the two)
MayCand(p) == {b \in Missing(p) : Ht(b) <= HS(best[p]) + 1 + Window}
MustCand(p) == {b \in Missing(p) : Ht(b) <= HS(best[p]) + Window}

\* the in-flight table after requesting R from p (fold of Inflight!Insert; none of R is in flight)
StAfter(p, R) == [b \in DOMAIN st \cup R |-> IF b \in R THEN [peer |-> p, ts |-> now] ELSE st[b]]
SchedAfter(p, R) == Put(sched, p, (IF p \in Tracked THEN sched[p] ELSE {}) \cup R)
TraceAfter(R) == [b \in DOMAIN trace \cup {x \in R : restart >= Ht(x)} |-> IF b \in DOMAIN trace THEN trace[b] ELSE now]

NoReq == [p |-> 0, R |-> {}, elig |-> FALSE, must |-> FALSE]
Init0 == /\ known = {} /\ stored = {} /\ recvd = {} /\ tip = 0
         /\ conn = {} /\ best = [p \in Peers |-> 0] /\ lastc = [p \in Peers |-> 0] /\ slots = [p \in Peers |-> Limit]
         /\ now = 0 /\ st = <<>> /\ sched = <<>> /\ trace = <<>> /\ restart = 0 /\ stale = {}
         /\ out = [op |-> "none", ret |-> 0] /\ req = NoReq

Connect(p) == /\ p \notin conn /\ conn' = conn \cup {p}
              /\ UNCHANGED <<par, nodevars, best, lastc, slots, flvars>> /\ req' = NoReq
\* the task counts move with the answer times and time-outs (DownloadScheduler); how is not part of the property
Adapt(ns) == /\ ns \in [Peers -> Nat] /\ slots' = ns
             /\ UNCHANGED <<par, nodevars, conn, best, lastc, flvars>> /\ req' = NoReq
\* SyncState::disconnected: the peer's requests are released, its state is forgotten
Disconnect(p) == /\ p \in conn /\ conn' = conn \ {p}
                 /\ best' = [best EXCEPT ![p] = 0] /\ lastc' = [lastc EXCEPT ![p] = 0] /\ slots' = slots
                 /\ IB!RemoveByPeer(p)
                 /\ UNCHANGED <<par, nodevars>> /\ req' = NoReq
\* a verified header chain up to b from p (HeadersProcess -> insert_valid_header for every header in order)
RecvHeaders(p, b) ==
  /\ p \in conn /\ b \in Blocks
  /\ known' = known \cup Anc(b)
  /\ best' = [best EXCEPT ![p] = IF best[p] = 0 \/ Better(b, best[p]) THEN b ELSE best[p]]
  /\ UNCHANGED <<par, stored, recvd, tip, conn, lastc, slots, flvars>> /\ req' = NoReq

\* BlockFetcher::fetch(p): R = the blocks requested, L = the peer's last common header afterwards
Fetch(p, R, L) ==
  /\ p \in conn
  /\ IF ~Eligible(p)
     THEN \* nothing is requested; the last common header stays or moves to a stored block of the peer's chain
          /\ R = {} /\ L \in {lastc[p]} \cup (Anc(best[p]) \cap stored)
     ELSE /\ R \subseteq MayCand(p)
          /\ Cardinality(R) <= Can(p)
          /\ MustCand(p) # {} => R # {}
          /\ L \in (Anc(best[p]) \cap stored) \cup {0}
  /\ IF R = {} THEN UNCHANGED <<st, sched, trace>>
     ELSE st' = StAfter(p, R) /\ sched' = SchedAfter(p, R) /\ trace' = TraceAfter(R)
  /\ lastc' = [lastc EXCEPT ![p] = L]
  /\ req' = [p |-> p, R |-> R, elig |-> Eligible(p), must |-> (Eligible(p) /\ MustCand(p) # {})]
  /\ out' = [op |-> "Fetch", ret |-> Cardinality(R)]
  /\ UNCHANGED <<par, nodevars, conn, best, slots, now, restart, low, stale>>

\* the blocks that become stored when b (parent stored) is stored: b and the received descendants hanging on it
RECURSIVE Hang(_, _)
Hang(S, O) == LET more == {x \in O : par[x] \in S} IN IF more = {} THEN S ELSE Hang(S \cup more, O \ more)
StoreFrom(b, O) == Hang({b}, O)
NewTip(S) == IF \E x \in S : Better(x, tip) THEN {x \in S : Ht(x) = MaxHt(S)} ELSE {tip}
\* the requested block b arrives (BlockProcess -> new_block_received -> chain): released from the table in every
\* map; stored together with waiting descendants if its parent is stored, else kept as a received orphan
Arrive(b, nl, t) ==
  /\ b \in DOMAIN st
  /\ IB!RemoveByBlock(b, nl)
  /\ IF b \in stored \cup recvd THEN UNCHANGED <<stored, recvd>> /\ t = tip          \* a second copy: ignored
     ELSE IF par[b] \in Has
     THEN LET S == StoreFrom(b, recvd) IN stored' = stored \cup S /\ recvd' = recvd \ S /\ t \in NewTip(S)
     ELSE recvd' = recvd \cup {b} /\ stored' = stored /\ t = tip
  /\ tip' = t
  /\ UNCHANGED <<par, known, peervars>> /\ req' = NoReq
\* a block reaches the node on another way (relay): stored without touching the table
Relay(b, t) ==
  /\ b \in Blocks /\ b \notin stored /\ b \notin recvd /\ par[b] \in Has
  /\ LET S == StoreFrom(b, recvd) IN stored' = stored \cup S /\ recvd' = recvd \ S /\ t \in NewTip(S)
  /\ known' = known \cup {b} /\ tip' = t
  /\ UNCHANGED <<par, peervars, flvars>> /\ req' = NoReq
Advance(d) == IB!Advance(d) /\ UNCHANGED <<par, nodevars, peervars>> /\ req' = NoReq
\* find_blocks_to_fetch: prune the table; the peers it returns are disconnected
PruneStep(E) ==
  /\ IB!Prune(Ht(tip), E)
  /\ conn' = conn \ E
  /\ best' = [p \in Peers |-> IF p \in E THEN 0 ELSE best[p]]
  /\ lastc' = [p \in Peers |-> IF p \in E THEN 0 ELSE lastc[p]]
  /\ UNCHANGED <<par, nodevars, slots>> /\ req' = NoReq


\* ---- answering a peer's getheaders (get_headers_process.rs): SkipList.tla gives the heights a locator names
SL == INSTANCE SkipList WITH par <- <<0>>, ht <- <<0>>, skp <- <<0>>, anc <- << <<1>> >>
AncAt(b, h) == IF h = 0 THEN 0 ELSE CHOOSE x \in Anc(b) : Ht(x) = h
LocatorOf(b) == LET hs == SL!LocatorHeights(Ht(b)) IN [i \in 1..Len(hs) |-> AncAt(b, hs[i])]
Main == Anc(tip) \cup {0}
\* the highest block of the main chain on the chain of b (b stored, so its chain is stored)
ForkPoint(b) == CHOOSE x \in (Anc(b) \cup {0}) \cap Main : \A y \in (Anc(b) \cup {0}) \cap Main : Ht(y) <= Ht(x)
FirstOnMain(loc) == CHOOSE i \in 1..Len(loc) : loc[i] \in Main /\ \A j \in 1..(i - 1) : loc[j] \notin Main
\* the latest common block: the first locator entry on the main chain, improved to the fork point of the entry before
\* it when the node has that block
Common(loc) == LET i == FirstOnMain(loc)
               IN IF i > 1 /\ loc[i] # 0 /\ loc[i - 1] \in stored THEN ForkPoint(loc[i - 1]) ELSE loc[i]
Response(loc) == LET c == Ht(Common(loc))
                     n == IF Ht(tip) - c > MaxHeaders THEN MaxHeaders ELSE Ht(tip) - c
                 IN [k \in 1..n |-> AncAt(tip, c + k)]
\* a locator must end with genesis; the answer continues the main chain after the latest common block
GetHeaders(loc, resp) == /\ Len(loc) > 0 /\ loc[Len(loc)] = 0
                         /\ resp = Response(loc)
                         /\ UNCHANGED <<par, nodevars, peervars, flvars>> /\ req' = NoReq

-----------------------------------------------------------------------------
TreeOK == /\ DOMAIN par = Blocks
          /\ \A b \in Blocks : Ht(b) >= 1 /\ (par[b] = 0 \/ par[b] \in Blocks) /\ Ht(par[b]) = Ht(b) - 1
StoreOK == /\ \A b \in stored : par[b] \in Has                  \* the store is closed under parents
           /\ \A b \in recvd : par[b] \notin Has                \* a received block waits only for a missing parent
           /\ stored \cap recvd = {} /\ tip \in Has
           /\ \A b \in stored : Ht(b) <= Ht(tip)                 \* the tip is a heaviest stored block
PeersOK == /\ \A p \in Peers : p \notin conn => best[p] = 0 /\ lastc[p] = 0
           /\ \A p \in Peers : best[p] # 0 => Anc(best[p]) \subseteq known      \* a best header is a known header chain
           /\ \A p \in Peers : lastc[p] \in Has
\* requests are made to connected peers only, and only for announced headers
InflightOK == /\ \A p \in Tracked : p \in conn
              /\ DOMAIN st \subseteq known
\* the property, on the last request (req is set by Fetch and cleared by every other action)
RequestSafe == req.p # 0 =>
                 /\ req.R \cap (stored \cup recvd) = {}                         \* never a block it has
                 /\ req.R \subseteq Anc(best[req.p])                             \* only the peer's chain
                 /\ req.R \subseteq known
                 /\ \A b \in req.R : st[b].peer = req.p                           \* assigned to this peer, to nobody else
                 /\ \A b \in req.R : Ht(b) <= HS(best[req.p]) + 1 + Window
                 /\ req.R = {} \/ Cardinality(sched[req.p]) <= slots[req.p]
                 /\ ~req.elig => req.R = {}
RequestLive == req.must => req.R # {}
LastCommonOK == req.p # 0 /\ req.elig => lastc[req.p] \in (Anc(best[req.p]) \cap stored) \cup {0}
\* the same three as properties of the step that makes the request (exhaustive runs leave `req` out of their VIEW)
ReqSafeStep == req'.p # 0 =>
                 /\ req'.R \cap (stored \cup recvd) = {}
                 /\ req'.R \subseteq Anc(best[req'.p])
                 /\ req'.R \subseteq known
                 /\ \A b \in req'.R : st'[b].peer = req'.p
                 /\ \A b \in req'.R : Ht(b) <= HS(best[req'.p]) + 1 + Window
                 /\ req'.R = {} \/ Cardinality(sched'[req'.p]) <= slots[req'.p]
                 /\ ~req'.elig => req'.R = {}
ReqLiveStep == req'.must => req'.R # {}
LastCommonStep == (req'.p # 0 /\ req'.elig) => lastc'[req'.p] \in (Anc(best[req'.p]) \cap stored) \cup {0}
\* the request never takes a block that was in flight (step form: R is disjoint from the old table)
FreshStep == req'.p # 0 => req'.R \cap DOMAIN st = {}
NeverTwice == [][FreshStep]_vars
\* nothing leaves the table except by arrival, time-out, the peer leaving
ReleaseStep == \A b \in DOMAIN st \ DOMAIN st' : out'.op \in {"RemoveByBlock", "RemoveByPeer", "Prune"}
OnlyReleasedBy == [][ReleaseStep]_vars
\* the five invariants of Inflight.tla, in the composition
IBOnePeerPerBlock == IB!OnePeerPerBlock
IBListedIsInflight == IB!ListedIsInflight
IBInflightIsListed == IB!InflightIsListed
IBStaleOK == IB!StaleOK
IBTraceLive == IB!TraceLive
=============================================================================
