---------------------------- MODULE MC_ChainCoreX ----------------------------
(* Model-checking configuration of ChainCoreX.tla (orphan expiry) + export of every quiescent state with its       *)
(* scenario (tree, delivery order) for replay on a real node with a fast expiry tick.                              *)
EXTENDS ChainCoreX, Json
CONSTANT Emit

SeqOf(f) == [i \in 1..N |-> f[i]]
SetSeq(S) == LET RECURSIVE F(_)
                 F(T) == IF T = {} THEN <<>> ELSE LET x == CHOOSE y \in T : \A z \in T : y <= z IN <<x>> \o F(T \ {x})
             IN F(S)
XRecord == [ n |-> minted, prefix |-> Prefix, epochlen |-> EpochLen, horizon |-> Horizon,
             parent |-> SeqOf(parent), order |-> SubSeq(order, Prefix + 1, Len(order)),
             tip |-> tip, td |-> TD(tip), stored |-> SetSeq(stored \ {0}), main |-> SetSeq(index \ {0}),
             ext |-> SeqOf(ext), invalid |-> SetSeq(status), orphans |-> SetSeq(orphans), gone |-> SetSeq(gone),
             replies |-> [i \in 1..N |-> <<replies[i].new, replies[i].dup, replies[i].err>>],
             lost |-> SeqOf(lost), clean |-> (ExpiredLeaders = {}) ]
EmitQuiescentX == (Emit /\ Quiescent /\ Len(order) > Prefix) => PrintT(<<"X", ToJson(XRecord)>>)
=============================================================================
