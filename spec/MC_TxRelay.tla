---------------------------- MODULE MC_TxRelay ----------------------------
(* every conflict-free universe of N transactions with <= 2 inputs (out-points of earlier transactions, index < 2, *)
(* nout 1 or 2), every delivery order with repetitions                                                              *)
EXTENDS TxRelay
CONSTANTS N
Ids == 1..N
Pts(t) == {<<c, i>> : c \in 0..(t - 1), i \in 0..1} \ {<<0, 1>>}
InSets(t) == {S \in SUBSET Pts(t) : Cardinality(S) \in 1..2}
MCInit == /\ ins \in [Ids -> UNION {InSets(t) : t \in Ids}] /\ (\A t \in Ids : ins[t] \in InSets(t))
          \* the outside cell <<0,0>> stands for "some live cell": any number of transactions may name it
          /\ \A a, b \in Ids : a # b => (ins[a] \cap ins[b]) \subseteq {<<0, 0>>}
          /\ nout \in [Ids -> 1..2]
          /\ Init0
DoDeliver == \E t \in Ids : Deliver(t)
Spec == MCInit /\ [][DoDeliver]_vars
=============================================================================
