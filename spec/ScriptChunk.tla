------------------------------ MODULE ScriptChunk ------------------------------
(***************************************************************************)
(* Cycle accounting of transaction script verification under chunking       *)
(* (script/src/verify.rs: verify, resumable_verify, resume_from_state,      *)
(* complete, resumable_verify_with_signal).                                 *)
(*                                                                         *)
(* A transaction is a sequence of script groups.  A group is a black box    *)
(* that applies a sequence of INDIVISIBLE charges and then exits with a     *)
(* code (0 = success).  A charge [c, need] adds c cycles; it is started     *)
(* only if `need` cycles still fit into the limit of the run, and after it  *)
(* the limit is examined again:                                             *)
(*   checked   (need = c: an instruction block, TYPE_ID_CYCLES),            *)
(*   unchecked (need = 0: program load, spawn / IO / suspend lumps added   *)
(*             with add_cycles_no_checking or by the scheduler),            *)
(*   compound  (0 < need < c: an ecall instruction whose syscall adds an   *)
(*             unchecked lump, e.g. exec: 501 checked + callee load).       *)
(* A run may end only between two charges.  A run whose limit is below the  *)
(* next checked charge makes no progress (observed on the real code); it is *)
(* a stuttering step, not an error.                                         *)
(*                                                                         *)
(* A group can also be OPAQUE: only its total cost and exit code are known  *)
(* (multi-VM programs at real magnitude); where it stops inside is then     *)
(* taken from the observation (hint) and only the accounting is demanded.   *)
(*                                                                         *)
(* Variant = "intended" is the specification.  The other variants           *)
(* transcribe deviations of the code and exist only as self-tests of the    *)
(* properties (TLC must reject them):                                       *)
(*   "complete-ignores-suspended-group"  complete(state,max) continues the  *)
(*        suspended group with max - cycles(completed groups)               *)
(*   "signal-budget-reset"  every Resume re-runs the scheduler with the     *)
(*        whole group budget                                                *)
(***************************************************************************)
EXTENDS Integers, Sequences, TLC

CONSTANTS InitGroups,   \* <<[ch |-> <<[c |-> n, need |-> m], ..>>, exit |-> code, opaque |-> BOOLEAN], ..>>
          Limits,       \* limits a chunk / a pause instant may take
          Budgets,      \* max_cycles values tried by verify / complete / the signal path
          MaxChunks,    \* bound on the number of chunks (and signal segments) of one run
          Variant

VARIABLES groups,   \* the transaction (a variable so that one trace can hold many programs)
          phase,    \* "idle": nothing ran yet; "susp": a TransactionState is held; "sig": signal-driven run in
                    \* progress; "end": a final result was returned
          cur,      \* TransactionState.current (1-based): group being executed
          k,        \* number of charges of group cur already applied
          gcons,    \* cycles consumed inside group cur (FullSuspendedState.total_cycles)
          done,     \* cycles of the completed groups (TransactionState.current_cycles)
          nchunks,
          budget,   \* -1: no budget given (pure chunking); otherwise the max_cycles of verify/complete/signal
          result
vars == <<groups, phase, cur, k, gcons, done, nchunks, budget, result>>

NoRes      == [kind |-> "none", code |-> 0, cycles |-> 0]
Ok(c)      == [kind |-> "ok", code |-> 0, cycles |-> c]
Failed(x)  == [kind |-> "fail", code |-> x, cycles |-> 0]
Exceeded   == [kind |-> "exceeded", code |-> 0, cycles |-> 0]
Stopped    == [kind |-> "interrupts", code |-> 0, cycles |-> 0]
NoHint     == [cur |-> 0, gcons |-> 0]
Min2(a, b) == IF a < b THEN a ELSE b

RECURSIVE SumCh(_, _)
SumCh(ch, n) == IF n = 0 THEN 0 ELSE ch[n].c + SumCh(ch, n - 1)
Cost(g) == SumCh(g.ch, Len(g.ch))

\* the uninterrupted, unlimited run
RECURSIVE RefFrom(_, _, _)
RefFrom(gs, i, acc) == IF i > Len(gs) THEN Ok(acc)
                       ELSE IF gs[i].exit # 0 THEN Failed(gs[i].exit)
                       ELSE RefFrom(gs, i + 1, acc + Cost(gs[i]))
Ref(gs) == RefFrom(gs, 1, 0)
\* cycles the uninterrupted run consumes until its verdict is known
RECURSIVE NeedFrom(_, _, _)
NeedFrom(gs, i, acc) == IF i > Len(gs) THEN acc
                        ELSE IF gs[i].exit # 0 THEN acc + Cost(gs[i])
                        ELSE NeedFrom(gs, i + 1, acc + Cost(gs[i]))
Need(gs) == NeedFrom(gs, 1, 0)

\* one scheduler run of a group from charge k0 on, `used` cycles of the limit already spent by earlier groups
RECURSIVE Exec(_, _, _, _)
Exec(ch, k0, used, lim) ==
  IF k0 = Len(ch) THEN [k |-> k0, used |-> used, stop |-> FALSE]
  ELSE LET c == ch[k0 + 1] IN
       IF used + c.need > lim THEN [k |-> k0, used |-> used, stop |-> TRUE]                  \* does not start
       ELSE IF used + c.c > lim THEN [k |-> k0 + 1, used |-> used + c.c, stop |-> TRUE]      \* applied, limit passed
       ELSE Exec(ch, k0 + 1, used + c.c, lim)

Susp(i, kk, g, d, v) == [t |-> "susp", cur |-> i, k |-> kk, gcons |-> g, done |-> d, res |-> NoRes, valid |-> v]
End(r, d, v)         == [t |-> "end", cur |-> 0, k |-> 0, gcons |-> 0, done |-> d, res |-> r, valid |-> v]

(* The per-group accounting shared by every entry point: run group i from (k0, g0), then the following
   groups from their start, within `lim` cycles for the whole call.  `h` is the observation hint used
   for opaque groups only. *)
RECURSIVE Run(_, _, _, _, _, _, _)
Run(i, k0, g0, d0, lim, used, h) ==
  IF i > Len(groups) THEN End(Ok(d0), d0, TRUE)
  ELSE LET g == groups[i] IN
    IF g.opaque THEN
      LET r == Cost(g) - g0 IN
      IF h.cur = i
      THEN \* observed: the run stopped inside this group => it cannot have fitted; progress is monotone
           \* (gcons = cost is possible: everything is charged but the verdict - e.g. the dead-lock error of the
           \* next scheduling decision - is produced by the following call)
           Susp(i, 0, h.gcons, d0, r > lim - used /\ h.gcons >= g0 /\ h.gcons <= Cost(g))
      ELSE IF r > lim - used THEN Susp(i, 0, g0, d0, TRUE)      \* does not fit: stops somewhere inside (not observed)
      ELSE IF g.exit # 0 THEN End(Failed(g.exit), d0, TRUE)
      ELSE Run(i + 1, 0, 0, d0 + Cost(g), lim, used + r, h)
    ELSE
      LET e == Exec(g.ch, k0, used, lim) IN
      IF e.stop THEN Susp(i, e.k, g0 + (e.used - used), d0, TRUE)
      ELSE IF g.exit # 0 THEN End(Failed(g.exit), d0, TRUE)
      ELSE Run(i + 1, 0, 0, d0 + g0 + (e.used - used), lim, e.used, h)

Init == /\ groups = InitGroups /\ phase = "idle" /\ cur = 1 /\ k = 0 /\ gcons = 0 /\ done = 0
        /\ nchunks = 0 /\ budget = -1 /\ result = NoRes

Hold(o, ph) == /\ phase' = ph /\ cur' = o.cur /\ k' = o.k /\ gcons' = o.gcons /\ done' = o.done /\ result' = NoRes
Finish(r) == /\ phase' = "end" /\ result' = r /\ UNCHANGED <<cur, k, gcons, done>>

\* resumable_verify(lim) (phase idle) / resume_from_state(state, lim) (phase susp)
ChunkH(lim, h) ==
  /\ phase \in {"idle", "susp"} /\ budget = -1 /\ nchunks < MaxChunks
  /\ LET o == Run(cur, k, gcons, done, lim, 0, h) IN
       /\ o.valid
       /\ IF o.t = "susp" THEN Hold(o, "susp") ELSE Finish(o.res)
  /\ nchunks' = nchunks + 1 /\ UNCHANGED <<groups, budget>>
Chunk(lim) == ChunkH(lim, NoHint)

\* verify(max) (phase idle) / complete(state, max) (phase susp): the budget covers the WHOLE transaction
BudgetH(max, h) ==
  /\ phase \in {"idle", "susp"} /\ budget = -1
  /\ LET spent == IF Variant = "complete-ignores-suspended-group" THEN done ELSE done + gcons IN
       IF max < spent THEN Finish(Exceeded)
       ELSE LET o == Run(cur, k, gcons, done, max - spent, 0, h) IN
            /\ o.valid
            /\ Finish(IF o.t = "susp" THEN Exceeded ELSE o.res)
  /\ budget' = max /\ UNCHANGED <<groups, nchunks>>
WithBudget(max) == BudgetH(max, NoHint)

\* resumable_verify_with_signal(max, commands): the run proceeds in segments; a Suspend command ends a
\* segment at some charge boundary (lim = cycles elapsed when it lands), Resume starts the next one.
SigStart(max) == /\ phase = "idle" /\ budget = -1 /\ phase' = "sig" /\ budget' = max
                 /\ UNCHANGED <<groups, cur, k, gcons, done, nchunks, result>>
SigSegH(lim, h) ==
  /\ phase = "sig" /\ nchunks < MaxChunks
  /\ LET left == IF Variant = "signal-budget-reset" THEN budget - done ELSE budget - done - gcons
         o == Run(cur, k, gcons, done, Min2(lim, left), 0, h) IN
       /\ o.valid
       /\ IF o.t = "susp"
          THEN IF lim < left THEN Hold(o, "sig")         \* paused; waits for Resume
               ELSE Finish(Exceeded)                                   \* stopped by the budget
          ELSE Finish(o.res)
  /\ nchunks' = nchunks + 1 /\ UNCHANGED <<groups, budget>>
SigSeg(lim) == SigSegH(lim, NoHint)
SigStop == /\ phase = "sig" /\ Finish(Stopped) /\ UNCHANGED <<groups, nchunks, budget>>

Next == \/ \E lim \in Limits : Chunk(lim)
        \/ \E max \in Budgets : WithBudget(max)
        \/ \E max \in Budgets : SigStart(max)
        \/ \E lim \in Limits : SigSeg(lim)
        \/ SigStop
Spec == Init /\ [][Next]_vars

-----------------------------------------------------------------------------
\* C05, first sentence: whatever the partition into chunks, a run that terminates returns the verdict and
\* the cycle total of the uninterrupted run
ChunkInvariance == (phase = "end" /\ budget = -1) => result = Ref(groups)
\* C05, second sentence: a budget below the uninterrupted cost never succeeds and reports the limit; a budget
\* of at least that cost behaves like the unlimited run - also after chunks (complete) and under pause/resume
BudgetExact == (phase = "end" /\ budget >= 0 /\ result.kind # "interrupts")
                 => result = (IF budget < Need(groups) THEN Exceeded ELSE Ref(groups))
\* the captured state accounts for every cycle exactly once
RECURSIVE DoneBefore(_, _)
DoneBefore(gs, i) == IF i <= 1 THEN 0 ELSE Cost(gs[i - 1]) + DoneBefore(gs, i - 1)
Accounting == phase \in {"susp", "sig"} =>
                 /\ cur \in 1..Len(groups) /\ done = DoneBefore(groups, cur)
                 /\ (~groups[cur].opaque => k <= Len(groups[cur].ch) /\ gcons = SumCh(groups[cur].ch, k))
                 /\ gcons <= Cost(groups[cur])
=============================================================================
