---------------------------- MODULE Trace_ScriptChunk ----------------------------
(* Trace validation: every call made on the real TransactionScriptsVerifier (c05 jobs) must be a step  *)
(* of ScriptChunk.tla with the observed outcome; ChunkInvariance / BudgetExact / Accounting are        *)
(* evaluated after every event.  Reset starts a new run (possibly of another transaction).            *)
EXTENDS ScriptChunk, Json, IOUtils, TLCExt
Rec == ndJsonDeserialize(IOEnv.TRACE)
NoGroups == <<>>
None == {}
VARIABLE l
tvars == <<vars, l>>
Ev == Rec[l]
Is(e) == l <= Len(Rec) /\ Ev.ev = e /\ l' = l + 1
EvRes == IF Ev.res = "done" THEN Ok(Ev.cycles)
         ELSE IF Ev.res = "exceeded" THEN Exceeded
         ELSE IF Ev.res = "interrupts" THEN Stopped
         ELSE Failed(Ev.code)
\* what the code returned must be what the specification computes
Observed == IF Ev.res = "susp"
            THEN phase' = "susp" /\ cur' = Ev.cur /\ done' = Ev.done /\ gcons' = Ev.gcons
            ELSE phase' = "end" /\ result' = EvRes
Hint == IF Ev.res = "susp" THEN [cur |-> Ev.cur, gcons |-> Ev.gcons] ELSE NoHint
TInit  == Init /\ l = 1
TReset == Is("Reset") /\ groups' = Ev.groups /\ phase' = "idle" /\ cur' = 1 /\ k' = 0 /\ gcons' = 0 /\ done' = 0
          /\ nchunks' = 0 /\ budget' = -1 /\ result' = NoRes
\* resumable_verify / resume_from_state
TChunk == Is("Chunk") /\ ChunkH(Ev.lim, Hint) /\ Observed
\* verify(max) / complete(state, max)
TBudget == Is("Budget") /\ BudgetH(Ev.max, NoHint) /\ Observed
\* resumable_verify_with_signal(max, commands): only its result is observable; by BudgetExact (model-checked over
\* all pause instants) it is the result of verify(max); a Stop command may end it with "interrupts"
TSignal == Is("Signal") /\ phase = "idle"
           /\ IF Ev.res = "interrupts" /\ Ev.stop THEN Finish(Stopped) /\ budget' = Ev.max /\ UNCHANGED <<groups, nchunks>>
              ELSE BudgetH(Ev.max, NoHint) /\ Observed
TNext == TReset \/ TChunk \/ TBudget \/ TSignal
TSpec == TInit /\ [][TNext]_tvars
Accepted == LET d == TLCGet("stats").diameter IN
            IF d - 1 = Len(Rec) THEN TRUE
            ELSE Print(<<"TRACE-REJECTED", d, Rec[d]>>, FALSE)
=============================================================================
