SPECIFICATION Spec
CONSTANTS
 SinceAt = 6
 KeyByTxHash = TRUE
 SkipTimeOnHit = FALSE
 SkipMaturityOnHit = FALSE
 InvalidateOnDelete = TRUE
 Warm = TRUE
 Emit = FALSE
INVARIANT TypeOK
INVARIANT CacheTransparent
INVARIANT EmitHist
CHECK_DEADLOCK FALSE
