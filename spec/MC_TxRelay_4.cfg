SPECIFICATION Spec
CONSTANTS
  N = 4
INVARIANT AdmittedExact
INVARIANT OrphansExact
INVARIANT OkOnce
CHECK_DEADLOCK FALSE
