SPECIFICATION Spec
CONSTANTS
  L = 4
  WClose = 2
  WFar = 4
  K = 3
  MaxUncles = 2
  MaxProposals = 2
  MaxBytes = 100
  MaxCycles = 20
  TxCycles = 10
  Future = 15000
  Now = 1000
  Txs = {1, 2, 3, 4}
  NBlocks = 9
  MaxSides = 6
  Directed = TRUE
  Emit = TRUE
INVARIANT EmitCtx
CHECK_DEADLOCK FALSE
