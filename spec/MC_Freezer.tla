---------------------------- MODULE MC_Freezer ----------------------------
(* Exhaustive configuration of Freezer.tla + export of every distinct post-crash state   *)
(* (with the model's Reopen outcome) for replay on the real FreezerFiles.                *)
EXTENDS Freezer, Json
CONSTANT Emit

SeqOfFiles(d) == [i \in 1..(MaxAppends + 1) |-> d[i - 1]]
CrashRecord ==
  LET r == Repaired IN
  [ data   |-> SeqOfFiles(data), index |-> index, torn |-> torn, items |-> items,
    fw     |-> fw,
    exp    |-> [ data |-> SeqOfFiles(r.d), index |-> r.idx, head |-> r.h, headid |-> r.hi,
                 number |-> Len(r.idx) ] ]
\* evaluated once per distinct state; always TRUE
EmitCrash == (Emit /\ ~open) => PrintT(<<"CRASH", ToJson(CrashRecord)>>)
=============================================================================
