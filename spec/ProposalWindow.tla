--------------------------- MODULE ProposalWindow ---------------------------
(***************************************************************************)
(* C20 - the node's proposal view equals the on-chain proposal window.     *)
(*                                                                         *)
(* Two descriptions of the same thing:                                     *)
(*  (D) declarative: Set(c) / Gap(c) / the rule a commitment must meet, written from the  *)
(*      two-phase-commit rule (RFC 0020): a transaction committed in block n must have    *)
(*      been proposed (in a block or in one of its uncles) in a main-chain block at       *)
(*      distance WClose..WFar from n; ids proposed closer than WClose are "in the gap";    *)
(*  (C) the incremental table as coded: util/proposal-table (insert / remove / finalize   *)
(*      with split_off), chain/src/verify.rs (update_proposal_table, reload_proposal_table *)
(*      with its range [max(1, new_tip+1-WFar), common]), shared_builder.rs               *)
(*      (init_proposal_table with its range tip-WFar..tip), and the walk of                *)
(*      TwoPhaseCommitVerifier.                                                            *)
(* The property is that (C) = (D) after every Extend, every Reorg (any fork point, any     *)
(* new length incl. shorter than the old chain and shorter than WFar; zero new blocks =    *)
(* the truncate request) and every Restart, and that the ids reported as dropped are       *)
(* exactly Set(old) \ Set(new).                                                            *)
(*                                                                         *)
(* A reorganisation is drawn incrementally - BeginReorg(k) (detach), Attach(b) per block,  *)
(* EndReorg (reload + finalize) - exactly the order of update_proposal_table, so that the  *)
(* model checker never has to enumerate whole branches in one step.                        *)
(***************************************************************************)
EXTENDS Integers, Sequences, FiniteSets, TLC
CONSTANTS Ids,      \* proposal short ids
          WClose, WFar,   \* tx_proposal_window (closest, farthest), 1 <= WClose <= WFar
          MaxLen,   \* bound on the main-chain length (model checking only)
          Blocks    \* block contents explored: records [p |-> ids proposed by the block, u |-> ids proposed by its uncles]

VARIABLES chain,    \* main chain as stored: chain[n] = content of block number n (genesis = 0 proposes nothing)
          table,    \* ProposalTable.table: number -> ids (a function on a finite set of numbers)
          view,     \* the published ProposalView [set, gap] (Snapshot::proposals())
          dropped,  \* detached_proposal_id of the last tip change
          reorg,    \* None, or [k, oldSet, oldDecl] while the detached/attached blocks of a reorg are being applied
          lastOld   \* declarative Set of the previous tip (history variable for DroppedExact)
vars == <<chain, table, view, dropped, reorg, lastOld>>

None == [k |-> -1, oldSet |-> {}, oldDecl |-> {}]
Sub(a, b) == IF a >= b THEN a - b ELSE 0          \* u64::saturating_sub
Max(a, b) == IF a >= b THEN a ELSE b
U(b) == b.p \cup b.u                              \* BlockView::union_proposal_ids
Props(c, n) == IF n >= 1 /\ n <= Len(c) THEN U(c[n]) ELSE {}

-----------------------------------------------------------------------------
(* (D) declarative window of the chain c; the next block has number Len(c)+1 *)
Dist(c, n) == Len(c) + 1 - n
DSet(c) == UNION {Props(c, n) : n \in {m \in 1..Len(c) : Dist(c, m) >= WClose /\ Dist(c, m) <= WFar}}
DGap(c) == UNION {Props(c, n) : n \in {m \in 1..Len(c) : Dist(c, m) < WClose}}
CommitAllowed(c, t) == t \in DSet(c)

-----------------------------------------------------------------------------
(* (C) the code *)
Get(t, n) == IF n \in DOMAIN t THEN t[n] ELSE {}
TUnion(t, lo, hi) == UNION {t[n] : n \in {m \in DOMAIN t : m >= lo /\ m <= hi}}
Keep(t, S) == [n \in (DOMAIN t) \cap S |-> t[n]]
Put(t, n, ids) == [m \in (DOMAIN t) \cup {n} |-> IF m = n THEN ids ELSE t[m]]
Empty == [n \in {} |-> {}]

\* ProposalTable::finalize(origin, number)
Finalize(t, originSet, number) ==
  LET cand  == number + 1
      start == Sub(cand, WFar)
      end   == Sub(cand, WClose)
      t2    == IF start > 1 THEN Keep(t, {n \in DOMAIN t : n >= start}) ELSE t      \* split_off
      new   == IF cand <= WClose THEN {} ELSE TUnion(t2, start, end)
      gap   == IF cand <= WClose THEN TUnion(t2, 0, number) ELSE TUnion(t2, end + 1, number)
  IN [table |-> t2, set |-> new, gap |-> gap, removed |-> originSet \ new]

\* reload_proposal_table: after a rollback re-read [max(1, new_tip+1-WFar), common] from the store
RECURSIVE PutRange(_, _, _, _)
PutRange(t, c, lo, hi) == IF lo > hi THEN t ELSE PutRange(Put(t, lo, Props(c, lo)), c, lo + 1, hi)
Reload(t, c, k) ==
  LET detachedFront == k + 1
      common == k
      newTip == Len(c)
      start  == Max(1, Sub(newTip + 1, WFar))
  IN IF detachedFront < 2 THEN t ELSE PutRange(t, c, start, common)

\* init_proposal_table: numbers tip-WFar .. tip read from the store (block 0 = genesis included when in range)
InitTable(c) ==
  LET tip == Len(c) IN [n \in Sub(tip, WFar)..tip |-> Props(c, n)]

\* TwoPhaseCommitVerifier: ids a block with number Len(c)+1 on top of c may commit
RECURSIVE Walk(_, _, _, _)
Walk(c, end, start, acc) ==
  IF end < start THEN acc
  ELSE IF end = 0 THEN acc                       \* header.is_genesis() => break
  ELSE Walk(c, end - 1, start, acc \cup Props(c, end))
VerifierIds(c) == LET bn == Len(c) + 1 IN Walk(c, Sub(bn, WClose), Sub(bn, WFar), {})

-----------------------------------------------------------------------------
Init == /\ chain = <<>>
        /\ LET f == Finalize(InitTable(<<>>), {}, 0)     \* a fresh node runs init_proposal_table on the genesis-only store
           IN table = f.table /\ view = [set |-> f.set, gap |-> f.gap]
        /\ dropped = {} /\ reorg = None /\ lastOld = {}

UnclesPossible(n) == n >= 2      \* an uncle has a number >= 1 and smaller than the block's

\* a new best block on top of the tip: attached = <<b>>, nothing detached
Extend(b) ==
  /\ reorg = None /\ Len(chain) < MaxLen
  /\ (b.u # {} => UnclesPossible(Len(chain) + 1))
  /\ LET c2 == Append(chain, b)
         f  == Finalize(Put(table, Len(c2), U(b)), view.set, Len(c2))
     IN /\ chain' = c2 /\ table' = f.table /\ view' = [set |-> f.set, gap |-> f.gap] /\ dropped' = f.removed
  /\ lastOld' = DSet(chain)
  /\ UNCHANGED reorg

\* a heavier branch forking off after block k (or a truncate request): detached = chain[k+1..]
BeginReorg(k) ==
  /\ reorg = None /\ k >= 0 /\ k < Len(chain)
  /\ chain' = SubSeq(chain, 1, k)
  /\ table' = Keep(table, {n \in DOMAIN table : n <= k})        \* remove(number) for every detached block
  /\ reorg' = [k |-> k, oldSet |-> view.set, oldDecl |-> DSet(chain)]    \* origin_proposals of the section
  \* The section is atomic in the code (one thread, snapshot published at its end) and reads nothing of the
  \* old view but origin.set; the observation variables are parked at a canonical value until EndReorg.
  /\ view' = [set |-> {}, gap |-> {}] /\ dropped' = {} /\ lastOld' = {}

Attach(b) ==
  /\ reorg # None /\ Len(chain) < MaxLen
  /\ (b.u # {} => UnclesPossible(Len(chain) + 1))
  /\ chain' = Append(chain, b)
  /\ table' = Put(table, Len(chain) + 1, U(b))
  /\ UNCHANGED <<view, dropped, reorg, lastOld>>

EndReorg ==
  /\ reorg # None
  /\ LET f == Finalize(Reload(table, chain, reorg.k), reorg.oldSet, Len(chain))
     IN /\ table' = f.table /\ view' = [set |-> f.set, gap |-> f.gap] /\ dropped' = f.removed
  /\ lastOld' = reorg.oldDecl
  /\ reorg' = None
  /\ UNCHANGED chain

\* process restart: everything volatile is rebuilt from the store
Restart ==
  /\ reorg = None
  /\ LET f == Finalize(InitTable(chain), {}, Len(chain))
     IN /\ table' = f.table /\ view' = [set |-> f.set, gap |-> f.gap]
  /\ dropped' = {} /\ lastOld' = {}
  /\ UNCHANGED <<chain, reorg>>

Next == \/ \E b \in Blocks : Extend(b)
        \/ \E k \in 0..MaxLen : BeginReorg(k)
        \/ \E b \in Blocks : Attach(b)
        \/ EndReorg
        \/ Restart
Spec == Init /\ [][Next]_vars

-----------------------------------------------------------------------------
Stable == reorg = None
\* C20: coded view = declarative view at every tip
ViewIsWindow  == Stable => view.set = DSet(chain) /\ view.gap = DGap(chain)
\* the ids reported as dropped are exactly those that left the window
DroppedExact  == Stable => dropped = lastOld \ DSet(chain)
\* the rule the block verifier applies to commitments is the same window
VerifierAgrees == Stable => \A t \in Ids : (t \in VerifierIds(chain)) <=> CommitAllowed(chain, t)
\* auxiliary (inductive strengthening): the table holds every number the next finalize can need
TableCovers   == Stable => \A n \in Max(1, Sub(Len(chain) + 1, WFar))..Len(chain) :
                              n \in DOMAIN table /\ table[n] = Props(chain, n)
TypeOK == /\ view.set \subseteq Ids /\ view.gap \subseteq Ids /\ dropped \subseteq Ids
          /\ \A n \in DOMAIN table : n >= 0 /\ table[n] \subseteq Ids
=============================================================================
