SPECIFICATION MCSpec
CONSTANTS
 Txs <- UTxs
 Ins <- UIns
 Deps <- UNone
 HDeps <- UNone
 Fee <- UFee
 Size <- UOne
 Cycles <- UOne
 Genesis <- UGenesis
 CsTx <- UCsTx
 CsGenesis <- UCsGenesis
 TxNo <- UTxNo
 GNo <- UGNo
 L = 3
 CbBase = 100
 WClose = 1
 Mut = "keep_orphans"
 WFar = 2
 NConf <- Conf12
 Universe = "three"
 MaxBlocks = 3
 MaxProps = 2
 MaxForks = 1
 MaxNotes = 1
 Works = {1, 3}
 MaxTrunc = 0
 MaxRestart = 0
 MaxRemove = 0
 LagSubmit = FALSE
INVARIANT XPoolResolvesInStore
CHECK_DEADLOCK FALSE
