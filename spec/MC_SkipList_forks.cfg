SPECIFICATION Spec
CONSTANTS
  OneDay = 8192
  Shape = "forks"
  MaxBlocks = 60
  MaxHeight = 30
  Emit = TRUE
INVARIANT TypeOK
INVARIANT SkipPointsToAncestor
INVARIANT WalkEqualsParentWalk
INVARIANT LocatorEqualsParentWalk
INVARIANT LocatorShape
INVARIANT EmitTree
CHECK_DEADLOCK FALSE
