SPECIFICATION MCSpec
CONSTANTS
 InitGroups <- Abs3
 Limits <- L12
 Budgets <- L12
 MaxChunks = 3
 Variant = "intended"
 Emit = FALSE
 WithSignal = TRUE
INVARIANT ChunkInvariance
INVARIANT BudgetExact
INVARIANT Accounting
INVARIANT EmitHist
CHECK_DEADLOCK FALSE
