----------------------------- MODULE Trace_Node -----------------------------
(* Trace validation of the composition Node.tla: ONE ndjson history recorded from ONE real node (harness          *)
(* g_node: block assembler on, submissions, templates mined, blocks of a second node and of builder nodes,         *)
(* reorganisations, truncations, process restarts on a persistent directory) is judged against all node-level      *)
(* invariants at once.  After every step the harness records one event carrying                                    *)
(*   - the pool dump (hook verif_dump) in TxPool.tla's vocabulary        (fields of Trace_TxPool's events),        *)
(*   - obs   the eleven store columns projected as for Trace_ChainState  (harness/src/chainstate.rs),              *)
(*   - pv    Snapshot::proposals() [set, gap],  croot  chain_root_mmr(tip - 1).get_root() as the ids it covers,     *)
(*   - tpl   the block template [parent height, props, txs].                                                       *)
(* The chain side is driven by ChainState's own actions (Mint / Deliver / Truncate), the pool side by TxPool's      *)
(* relations (Trace_TxPool's wrappers), and every invariant of Node.tla is evaluated by TLC on the reported values. *)
(* record 1 Universe, record 2 Reset; Mint events declare blocks; Submit / Remove / Idle / Block / Truncate /       *)
(* Restart are the steps.  PoolUntil: records >= PoolUntil are compared on the chain side only (a listed finding    *)
(* of C11 / C12 manifested there; DESIGN.md 5: the scenario is not compared further on that side).                  *)
EXTENDS Node, Trace_TxPool
CONSTANT PoolUntil
VARIABLE pon          \* the pool side of the current state was compared
ntvars == <<nvars, l, pon>>

TrNo == [t \in TrTxs |-> U.txs[t].no]
TrGNo == [o \in TrGenesis |-> <<o[2] + 1, 0>>]
TrCell(o) == IF o \in TrGenesis THEN TrGNo[o] ELSE <<TrNo[o[1]], o[2]>>
TrCsTx == [i \in 1..(U.ngen + Cardinality(TrTxs)) |->
             IF i <= U.ngen THEN [ins |-> {}, deps |-> {}, nouts |-> 1, fee |-> 0]
             ELSE LET t == CHOOSE x \in TrTxs : TrNo[x] = i
                  IN [ins |-> {TrCell(o) : o \in TrIns[t]}, deps |-> {TrCell(o) : o \in TrDeps[t]},
                      nouts |-> U.txs[t].nouts, fee |-> U.txs[t].fee]]
TrCsGenesis == [i \in 1..U.ngen |-> i]
TrClose == Rec[2].conf.close
TrFar == Rec[2].conf.far
TrL == Rec[2].epochLen

\* ---------------------------------------------------------------- the store columns (as Trace_ChainState)
Fn(rows, K(_), V(_)) == [k \in {K(r) : r \in CS!ToSet(rows)} |-> V(CHOOSE r \in CS!ToSet(rows) : K(r) = k)]
ObsDb(o) ==
  LET kc(r) == <<r.t, r.i>>   vc(r) == [b |-> r.b, x |-> r.x]
      kt(r) == r.t            vt(r) == [b |-> r.b, x |-> r.x]
      kn(r) == r.n            vn(r) == r.b
      kh(r) == r.b            vh(r) == r.n
      kb(r) == r.b            vb(r) == r.p
      ke(r) == r.k            ve(r) == [n |-> r.n, s |-> r.s, l |-> r.l, p |-> r.p]
      kq(r) == r.n            vq(r) == r.p
      kx(r) == r.b            vx(r) == [td |-> r.td, ver |-> r.ver, unc |-> r.unc, fees |-> r.fees, ncyc |-> r.ncyc, nsz |-> r.nsz]
      km(r) == r.pos          vm(r) == <<r.lo, r.hi>>
  IN [ cells |-> Fn(o.cells, kc, vc), txInfo |-> Fn(o.txi, kt, vt), numIdx |-> Fn(o.num, kn, vn),
       hashIdx |-> Fn(o.hash, kh, vh), uncles |-> CS!ToSet(o.unc), tip |-> o.tip,
       cur |-> [n |-> o.cur.n, s |-> o.cur.s, l |-> o.cur.l, p |-> o.cur.p],
       bep |-> Fn(o.bep, kb, vb), erec |-> Fn(o.erec, ke, ve), enum |-> Fn(o.enum, kq, vq),
       ext |-> Fn(o.ext, kx, vx), mmr |-> Fn(o.mmr, km, vm) ]
BadRows(o) ==
  [ cells |-> {r \in CS!ToSet(o.cells) : ~r.ok}, txi |-> {r \in CS!ToSet(o.txi) : ~r.ok},
    mmr |-> {r \in CS!ToSet(o.mmr) : ~r.ok}, cur |-> IF o.cur.ok THEN {} ELSE {o.cur} ]
NoBadRows(o, ch) ==
  LET b == BadRows(o) IN
  /\ b.cells = {} /\ b.txi = {} /\ b.cur = {}
  /\ {r \in b.mmr : r.pos < CS!MmrSize(Len(ch) - 1)} = {}
ExpectedOf(ch) ==
  LET r == CS!Replay(ch) IN
  [r EXCEPT !.mmr = [p \in DOMAIN r.mmr |-> <<CS!Num(r.mmr[p][1]), CS!Num(r.mmr[p][Len(r.mmr[p])])>>]]
Columns == {"cells", "txInfo", "numIdx", "hashIdx", "uncles", "tip", "cur", "bep", "erec", "enum", "ext", "mmr"}
Field(r, c) == CASE c = "cells" -> r.cells [] c = "txInfo" -> r.txInfo [] c = "numIdx" -> r.numIdx
                 [] c = "hashIdx" -> r.hashIdx [] c = "uncles" -> r.uncles [] c = "tip" -> r.tip [] c = "cur" -> r.cur
                 [] c = "bep" -> r.bep [] c = "erec" -> r.erec [] c = "enum" -> r.enum [] c = "ext" -> r.ext
                 [] c = "mmr" -> r.mmr
CheckObs(what, o, ch) ==
  LET exp == ExpectedOf(ch) IN
  IF o.tip # exp.tip
  THEN Print(<<"OBS-MISMATCH", l, what, {"tip"}, exp.tip, o.tip>>, FALSE)
  ELSE LET got == CS!ViewOf(ObsDb(o), ch)
           bad == {c \in Columns : Field(got, c) # Field(exp, c)}
           c1 == CHOOSE c \in bad : TRUE
       IN IF bad # {}
          THEN Print(<<"OBS-MISMATCH", l, what, bad, Field(exp, c1), Field(got, c1)>>, FALSE)
          ELSE IF ~NoBadRows(o, ch)
               THEN Print(<<"OBS-MISMATCH", l, what, {"row-content"}, BadRows(o), o.notes>>, FALSE)
               ELSE TRUE

\* ---------------------------------------------------------------- what the node reports besides the pool
\* the pool side of this record is compared: not after a listed finding manifested, and not between a truncation
\* (ChainController::truncate, a test-only API, does not notify the pool) and the next restart
Cmp == l < PoolUntil /\ ~Ev.desync
ResClass(r) == CASE r \in {"attached", "side"} -> "ok" [] r = "dup" -> "dup" [] OTHER -> "err"
\* staleness of the template with respect to removals the assembler is not told about (see Node.XTemplateFromPool)
NewIn(stage) == \E x \in ObsPool \ pool : Ev.st[x] = stage
LeftPG == PG(pool, st) \ PG(ObsPool, Ev.st)
LeftPR == PR(pool, st) \ PR(ObsPool, Ev.st)
TplOf(full) ==
  [parent |-> Ev.tpl.parent, props |-> SetOfSeq(Ev.tpl.props), txs |-> Ev.tpl.txs,
   staleP |-> IF full \/ NewIn("pending") THEN FALSE ELSE tpl.staleP \/ LeftPG # {},
   staleT |-> IF full \/ NewIn("proposed") THEN FALSE ELSE tpl.staleT \/ LeftPR # {}]
NodeObs(full) ==
  /\ pview' = [set |-> SetOfSeq(Ev.pv.set), gap |-> SetOfSeq(Ev.pv.gap)]
  /\ croot' = Ev.croot
  /\ tpl' = TplOf(full)
  /\ ptable' = <<>> /\ notes' = <<>>
  /\ pon' = Cmp
  /\ IF ~Cmp \/ Ev.ptip = db'.tip THEN TRUE ELSE Print(<<"OBS-MISMATCH", l, "pool-tip", {"ptip"}, db'.tip, Ev.ptip>>, FALSE)
  /\ CheckObs("store", Ev.obs, CS!Chain(db'.tip))
\* the pool side is not compared any more: adopt what is reported
PoolOff(ev, ch2) ==
  /\ Is(ev) /\ Observed /\ chain' = ch2 /\ last' = [op |-> "off", bad |-> <<>>] /\ UNCHANGED conf
ChainSame == UNCHANGED <<blocks, db, snap, invalid, bx>>

NTInit == NInit(Rec[2].conf, Rec[2].w0, [op |-> "init", bad |-> <<>>]) /\ l = 3 /\ pon = TRUE
NTMint ==
  /\ Is("Mint") /\ Ev.b = CS!NBlocks
  /\ CS!Mint([parent |-> Ev.p, num |-> Ev.num, commits |-> Ev.cs, uncles |-> CS!ToSet(Ev.us), cbo |-> Ev.cbo,
              ok |-> Ev.ok, work |-> Ev.work])
  /\ bx' = [b \in DOMAIN bx \cup {Ev.b} |-> IF b \in DOMAIN bx THEN bx[b] ELSE [props |-> SetOfSeq(Ev.props), root |-> Ev.root]]
  /\ UNCHANGED <<vars, ptable, pview, notes, tpl, croot, pon>>
At(e) == l <= Len(Rec) /\ Ev.ev = e
NTSubmit == At("Submit") /\ (IF Cmp THEN TSubmit ELSE PoolOff("Submit", chain)) /\ ChainSame /\ NodeObs(FALSE)
NTRemove == At("Remove") /\ (IF Cmp THEN TRemove ELSE PoolOff("Remove", chain)) /\ ChainSame /\ NodeObs(FALSE)
NTIdle   == At("Idle") /\ (IF Cmp THEN TIdle ELSE PoolOff("Idle", chain)) /\ ChainSame /\ NodeObs(FALSE)
\* the pool side of a change of the main chain
PoolReorg(ev) ==
  /\ Is(ev)
  /\ LET blks == BlocksOf(Ev.attach) IN
     /\ NodeReorgRel(Ev.detach, blks, SetOfSeq(Ev.expirable), pool, chain, conf, OpPool)
     /\ SubmitChain(Ev.recovered, OpPool, NewChain(chain, Ev.detach, blks), conf, ObsPool)
     /\ chain' = NewChain(chain, Ev.detach, blks)
     /\ last' = [op |-> "reorg", k |-> Ev.detach, blks |-> blks, before |-> pool, chainBefore |-> chain,
                 rec |-> SetOfSeq(Ev.recovered), bad |-> Ev.bad]
  /\ Observed /\ UNCHANGED conf
\* a block is delivered (ChainState.Deliver); the pool is compared once it has processed the change, if any
NTBlock ==
  /\ l <= Len(Rec) /\ Ev.ev = "Block"
  /\ CS!Deliver(Ev.b)
  /\ IF ResClass(CS!DeliverRes(Ev.b).res) = Ev.res THEN TRUE
     ELSE Print(<<"OBS-MISMATCH", l, "verdict", {"verdict"}, CS!DeliverRes(Ev.b).res, Ev.res>>, FALSE)
  /\ LET old == MainIds
         new == CS!Chain(db'.tip)
         keep == CommonLen(old, new)
         changed == old # new
     IN /\ IF Ev.detach = Len(old) - keep /\ [i \in 1..Len(Ev.attach) |-> Ev.attach[i].id] = SubSeq(new, keep + 1, Len(new)) THEN TRUE
           ELSE Print(<<"OBS-MISMATCH", l, "switch", {"detach-attach"}, <<Len(old) - keep, SubSeq(new, keep + 1, Len(new))>>, <<Ev.detach, Ev.attach>>>>, FALSE)
        /\ IF ~Cmp THEN PoolOff("Block", PoolView(new))
           ELSE IF changed THEN PoolReorg("Block")
           ELSE /\ Is("Block") /\ OpPool = pool
                /\ SubmitChain(Ev.recovered, OpPool, chain, conf, ObsPool)
                /\ last' = [op |-> "idle", bad |-> Ev.bad] /\ Observed /\ UNCHANGED <<conf, chain>>
        /\ NodeObs(changed)
  /\ UNCHANGED <<blocks, bx>>
NTTruncate ==
  /\ l <= Len(Rec) /\ Ev.ev = "Truncate"
  /\ CS!Truncate(Ev.b)
  /\ IF Ev.detach = Len(MainIds) - Len(CS!Chain(Ev.b)) /\ Ev.attach = <<>> THEN TRUE
     ELSE Print(<<"OBS-MISMATCH", l, "switch", {"detach-attach"}, Len(MainIds) - Len(CS!Chain(Ev.b)), <<Ev.detach, Ev.attach>>>>, FALSE)
  /\ IF Cmp THEN PoolReorg("Truncate") ELSE PoolOff("Truncate", PoolView(CS!Chain(Ev.b)))
  /\ NodeObs(TRUE)
  /\ UNCHANGED <<blocks, invalid, bx>>
\* process restart on the same directory: the store is what it was; the pool re-submitted what it had persisted
\* (reported as `recovered`, parents first): each is a plain accepted submission against the store's chain
NTRestart ==
  /\ Is("Restart")
  /\ snap' = CS!SnapOf(db, db.cur) /\ invalid' = {} /\ UNCHANGED <<blocks, db, bx>>
  /\ Cmp => /\ SetOfSeq(Ev.recovered) = ObsPool
             /\ SubmitChain(Ev.recovered, {}, PoolView(MainIds), conf, ObsPool)
  /\ chain' = PoolView(MainIds)
  /\ last' = [op |-> "restart", bad |-> Ev.bad] /\ Observed /\ UNCHANGED conf
  /\ NodeObs(TRUE)
NTNext == NTMint \/ NTSubmit \/ NTRemove \/ NTIdle \/ NTBlock \/ NTTruncate \/ NTRestart
NTSpec == NTInit /\ [][NTNext]_ntvars

\* ---------------------------------------------------------------- invariants; the pool side only while compared
P_NoAnomaly == pon => NoAnomaly
P_NoDoubleSpend == pon => NoDoubleSpend
P_LinksExact == pon => LinksExact
P_AggregatesExact == pon => AggregatesExact
P_EdgesExact == pon => EdgesExact
P_CountsExact == pon => CountsExact
P_AncestorLimit == pon => AncestorLimit
P_RbfRule == pon => RbfRule
P_NoCommitted == pon => NoCommitted
P_NoDeadOrUnknown == pon => NoDeadOrUnknown
P_NoDetachedHeaderDep == pon => NoDetachedHeaderDep
P_DetachedReadmitted == pon => DetachedReadmitted
P_StageMatchesWindow == pon => StageMatchesWindow
P_XPoolChainIsMain == pon => XPoolChainIsMain
P_XStageInWindow == pon => XStageInWindow
P_XStageInPublishedView == pon => XStageInPublishedView
P_XWindowsAgree == XWindowsAgree
P_XPoolResolvesInStore == pon => XPoolResolvesInStore
P_XNoPooledTxInfo == pon => XNoPooledTxInfo
P_XTemplateFromPool == pon => XTemplateFromPool
P_XTemplateContent == pon => XTemplateContent
NAccepted == LET d == TLCGet("stats").diameter IN
             IF d - 1 = Len(Rec) - 2 THEN TRUE
             ELSE Print(<<"TRACE-REJECTED", d + 2, Rec[d + 2].ev>>, FALSE)
=============================================================================
