SPECIFICATION MSpec
CONSTANTS
 Txs <- U1Txs
 Ins <- U1Ins
 Deps <- U1Deps
 Fee <- U1Fee
 Size <- U1Size
 HDeps <- NoHDeps
 Cycles <- UnitCycles
 Genesis <- MGenesis
 Coded = TRUE
 KeepHist = FALSE
 MaxProps = 1
 MaxChain = 4
 MaxOps = 6
 MConf <- MConf_U1coded
INVARIANT NoDoubleSpend
INVARIANT LinksExact
INVARIANT AggregatesExact
INVARIANT EdgesExact
INVARIANT CountsExact
INVARIANT AncestorLimit
INVARIANT RbfRule
VIEW PoolView
CHECK_DEADLOCK FALSE
