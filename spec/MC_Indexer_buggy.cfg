SPECIFICATION MCSpecWalk
CONSTANTS
 TxDef <- MCTxDef
 GenesisBlock <- MCGenesis
 CbFrom = 3
 CbOut <- MCCbOut
 NoScript = "none"
 MaxBlocks = 3
 MaxBody = 2
 BodyOK <- Ascending
 Raw <- MCRaw
 QueryScripts <- MCQueryScripts
 KeepNum = 10
 PruneInterval = 1
 AliasBug = TRUE
 Emit = FALSE
INVARIANT LedgerTypeOK
INVARIANT TipOK
INVARIANT AnswersAreFilters
INVARIANT FilteredAnswers
PROPERTY RollbackInverts
CHECK_DEADLOCK FALSE
