-------------------------------- MODULE Node --------------------------------
(***************************************************************************************************)
(* Growth item (DESIGN 3.7 (1)): the node-level modules COMPOSED, so that one whole-node history   *)
(* is judged against all node-level invariants at once.                                            *)
(*                                                                                                 *)
(*   ChainState      (CS)  the store columns, the published snapshot: Deliver / Truncate, Replay   *)
(*   ProposalWindow  (PW)  the proposal table as coded (Put / Keep / Reload / Finalize / InitTable) *)
(*                         and the declarative window DSet / DGap                                  *)
(*   TxPool+Template       the pool (contents, stages, reported bookkeeping), the C11 invariants,  *)
(*                         the C12 post-conditions, template validity (this module EXTENDS them)   *)
(*   MMR             (M)   chain-root arithmetic: Root, Honest, proofs                             *)
(*                                                                                                 *)
(* The modules are composed by INSTANCE with refinement mappings: ChainState keeps its own         *)
(* variables (same names here); ProposalWindow's `chain` is the main chain of ChainState's db      *)
(* seen through the blocks' proposals, its `table` / `view` are the node's table and published     *)
(* view; MMR's `main` / `mmr` / `tree` are ChainState's main chain, COLUMN_CHAIN_ROOT_MMR and the  *)
(* block tree with the chain root each block commits to.  The pool talks about transactions by     *)
(* name and about blocks as [id, props, commits]; TxNo / GNo translate to ChainState's numeric     *)
(* transaction ids and out-points.                                                                 *)
(*                                                                                                 *)
(* What no single property states is stated here (the X* invariants): the pool's view is the main  *)
(* chain of the store; every Proposed / Gap entry stands in the chain's window as ProposalWindow   *)
(* defines it and as the node publishes it; pooled inputs resolve in COLUMN_CELL or in the pool;   *)
(* nothing pooled has a tx-info row; the template proposes only Pending / Gap entries and commits  *)
(* only Proposed ones; the chain root every main-chain block commits to, and the root the store    *)
(* serves, are MMR.Root over the main chain of ChainState.                                         *)
(***************************************************************************************************)
EXTENDS Template, Integers

CONSTANTS CsTx,        \* ChainState's transaction universe: numeric id |-> [ins, deps, nouts, fee]
          CsGenesis,   \* sequence of the numeric ids of the genesis transactions
          TxNo,        \* [Txs -> numeric id]
          GNo,         \* [Genesis -> ChainState out-point <<id, index>>]
          L, CbBase,   \* epoch length, cellbase id base (ChainState)
          WClose, WFar,\* tx_proposal_window (ProposalWindow); equals conf.close / conf.far
          Mut          \* "none"; self-tests of the composed invariants: "keep_orphans" (the pool as coded, F9), "no_reload"
                       \* (proposal table not reloaded below the fork point), "silent_remove" (a removal not marked stale)

VARIABLES blocks, db, snap, invalid,    \* ChainState
          bx,        \* per block: [props: union proposal ids (names), root: the chain root its extension commits to
                     \*             (a digest = the sequence of block ids it covers)]
          ptable,    \* the node's ProposalTable
          pview,     \* the published ProposalView [set, gap]
          notes,     \* reorg notifications the pool has not processed yet: sequence of [k, blks]
          tpl,       \* the block template handed out: [parent (height), props, txs, staleP, staleT]
          croot      \* the root the store serves for the chain below the tip (chain_root_mmr(tip - 1).get_root())

nvars == <<vars, blocks, db, snap, invalid, bx, ptable, pview, notes, tpl, croot>>

CS == INSTANCE ChainState WITH Tx <- CsTx, GenesisTxs <- CsGenesis, Bug <- "none"

MainIds == CS!Chain(db.tip)                               \* block ids, genesis (0) first
PwOfIds(ids) == [n \in 1..(Len(ids) - 1) |-> [p |-> bx[ids[n + 1]].props, u |-> {}]]
PwOfView(ch) == [n \in 1..Len(ch) |-> [p |-> ch[n].props, u |-> {}]]
PwNone == [k |-> -1, oldSet |-> {}, oldDecl |-> {}]
PW == INSTANCE ProposalWindow WITH Ids <- Txs, MaxLen <- 0, Blocks <- {}, chain <- PwOfIds(MainIds), table <- ptable,
                                   view <- pview, dropped <- {}, reorg <- PwNone, lastOld <- {}

MTree == [b \in DOMAIN blocks |-> [parent |-> IF b = 0 THEN 0 ELSE blocks[b].parent, number |-> blocks[b].num,
                                   work |-> blocks[b].work, ext |-> bx[b].root]]
MStore == [p \in 1..Cardinality(DOMAIN db.mmr) |-> db.mmr[p - 1]]
M == INSTANCE MMR WITH MaxBlocks <- 0, Works <- {}, WrongSize <- FALSE, tree <- MTree, main <- MainIds, mmr <- MStore,
                       bad <- {}, dropped <- {}

-----------------------------------------------------------------------------
(* vocabulary translation *)
NameOf(n) == CHOOSE t \in Txs : TxNo[t] = n
Names(cs) == { t \in Txs : \E i \in 1..Len(cs) : cs[i] = TxNo[t] }
CellNo(o) == IF o \in Genesis THEN GNo[o] ELSE <<TxNo[o[1]], o[2]>>
BlkView(b) == [id |-> b, props |-> bx[b].props, commits |-> Names(blocks[b].commits)]
PoolView(ids) == [i \in 1..(Len(ids) - 1) |-> BlkView(ids[i + 1])]
RECURSIVE CommonLen(_, _)
CommonLen(a, b) == IF a = <<>> \/ b = <<>> \/ Head(a) # Head(b) THEN 0 ELSE 1 + CommonLen(Tail(a), Tail(b))

PG(P, s) == { t \in P : s[t] \in {"pending", "gap"} }
PR(P, s) == { t \in P : s[t] = "proposed" }
BlankTpl(h) == [parent |-> h, props |-> {}, txs |-> <<>>, staleP |-> FALSE, staleT |-> FALSE]

-----------------------------------------------------------------------------
(* the composed invariants *)
Synced == notes = <<>>
\* (vi) once every notification is processed the pool's chain view is the main chain of the store, block by block
XPoolChainIsMain == Synced => chain = PoolView(MainIds)
\* (i) stages against ProposalWindow's declarative window over the pool's own view, and against the published view
XStageInWindow == conf.mine => \A t \in pool : /\ st[t] = "proposed" => t \in PW!DSet(PwOfView(chain))
                                               /\ st[t] = "gap" => t \in PW!DGap(PwOfView(chain)) \ PW!DSet(PwOfView(chain))
                                               /\ st[t] = "pending" => t \notin PW!DSet(PwOfView(chain)) \cup PW!DGap(PwOfView(chain))
XStageInPublishedView == (conf.mine /\ Synced) => \A t \in pool : /\ st[t] = "proposed" <=> t \in pview.set
                                                                  /\ st[t] = "gap" <=> t \in pview.gap \ pview.set
\* the two formulations of the window (TxPool's WindowSet / WindowGap as ProposalTable::finalize computes them,
\* ProposalWindow's distance rule) agree on every chain the pool sees
XWindowsAgree == /\ WindowSet(chain, conf) = PW!DSet(PwOfView(chain))
                 /\ WindowGap(chain, conf) = PW!DGap(PwOfView(chain))
\* (iii) every input and dep of a pooled transaction is a live cell of the store or an output of a pooled transaction
XPoolResolvesInStore == Synced => \A t \in pool : \A o \in Ins[t] \cup Deps[t] : Creator(o) \in pool \/ CellNo(o) \in DOMAIN db.cells
XNoPooledTxInfo == Synced => \A t \in pool : TxNo[t] \notin DOMAIN db.txInfo
\* (ii) the template: proposals from Pending / Gap entries, commitments from Proposed entries (unless a removal the
\* assembler is not told about - remove_local_tx, replacement of an entry of the other stage - made it stale), and
\* always committable on the chain it names
XTemplateFromPool == (Synced /\ tpl.parent = Len(chain)) =>
                        /\ ~tpl.staleP => tpl.props \subseteq PG(pool, st)
                        /\ ~tpl.staleT => /\ SeqSet(tpl.txs) \subseteq PR(pool, st)
                                          /\ AncestorClosed(tpl.txs, pool)
XTemplateContent == (Synced /\ tpl.parent = Len(chain)) => ContentValid(tpl.txs, chain, conf)
\* (iv) chain roots: every main-chain block commits to the root over exactly its ancestors on the main chain of the
\* store; the root the store serves below the tip is that root; no stale node below the size
XExtIsMainRoot == \A k \in 2..Len(MainIds) : bx[MainIds[k]].root = M!Root(MStore, M!MMRSize(k - 2))
XServedRoot == Len(MainIds) >= 2 => croot = M!Root(MStore, M!MMRSize(Len(MainIds) - 2))
XMmrOfMain == M!MainRootAfterReorg /\ M!NoStaleRead /\ M!TypeOK
\* C20 on the composed state: the published view is the declarative window of the main chain of the store
XViewIsWindow == PW!ViewIsWindow
\* C02 on the composed state
XReplay == CS!ReplayConsistent /\ CS!SnapshotConsistent

-----------------------------------------------------------------------------
(* TxPool.ReorgRel for ANY change of the main chain: the last k blocks detached, blks attached, where blks may be   *)
(* empty (ChainController::truncate; TxPool.tla's relation was written for C12's histories, which always attach).   *)
NodeReorgRel(k, blks, expirable, P, ch, cf, P2) ==
  LET Base  == AfterCommit(P, ch, k, blks)
      cand  == DetachedTxs(ch, k) \ AttachedTxs(blks)
      Readd == P2 \ Base
      Mid   == Base \cup Readd
      X     == (Mid \ P2) \cap expirable
      XD    == (Mid \ P2) \cap DescOf(X, Mid)
      OR    == Mid \ Purge(Mid, NewChain(ch, k, blks))
      OV    == OverRemoved(P, ch, k, blks)
      E     == (((Mid \ P2) \ XD) \ OR) \ OV
  IN  /\ k <= Len(ch) /\ (k > 0 \/ Len(blks) >= 1)
      /\ Readd \subseteq cand \ P
      /\ E # {} => PoolSize(Mid \ XD) > cf.maxSize
      /\ DescClosed(E, Mid \ XD)

-----------------------------------------------------------------------------
(* actions (used by MC_Node; the trace validator drives the same operators from recorded events) *)
Staged(P, ch) == [t \in P |-> Stage(t, ch, conf)]
Settle(P2, ch2, s2, op) ==
  /\ pool' = P2 /\ chain' = ch2 /\ st' = s2
  /\ book' = DBook(P2) /\ cnt' = DCnt(P2, s2) /\ edges' = DEdges(P2) /\ last' = op /\ UNCHANGED conf
\* package_txs: the proposed entries all of whose in-pool ancestors are proposed, parents first
RECURSIVE Topo(_, _, _)
Topo(S, P, acc) == IF S = {} THEN acc
                   ELSE LET t == CHOOSE x \in S : Anc(x, P) \cap S = {} IN Topo(S \ {t}, P, Append(acc, t))
Packable(P, s) == { t \in PR(P, s) : Anc(t, P) \subseteq PR(P, s) }
FullTpl(P, s, ch) == [parent |-> Len(ch), props |-> PG(P, s), txs |-> Topo(Packable(P, s), P, <<>>), staleP |-> FALSE, staleT |-> FALSE]

NInit(cf, w0, lst) ==
  /\ CS!InitW(w0)
  /\ bx = [b \in {0} |-> [props |-> {}, root |-> <<>>]]
  /\ LET f == PW!Finalize(PW!InitTable(<<>>), {}, 0) IN ptable = f.table /\ pview = [set |-> f.set, gap |-> f.gap]
  /\ notes = <<>> /\ tpl = BlankTpl(0) /\ croot = <<>>
  /\ conf = cf /\ chain = <<>> /\ pool = {} /\ st = <<>> /\ book = <<>>
  /\ cnt = DCnt({}, <<>>) /\ edges = DEdges({}) /\ last = lst

\* submit_local_tx, resolved against the pool's own (possibly lagging) view; accepted without evictions or not at all
NSubmit(t) ==
  /\ t \notin pool /\ t \notin Committed(chain) /\ DirectConflicts(t, pool) = {}
  /\ Resolvable(t, pool, chain) /\ AncCount(t, pool \cup {t}) <= conf.maxAnc
  /\ LET P2 == pool \cup {t}
         s2 == [x \in P2 |-> IF x = t THEN Stage(t, chain, conf) ELSE st[x]]
     IN /\ Settle(P2, chain, s2, [op |-> "submit", t |-> t, ok |-> TRUE, repl |-> {}])
        \* notify_block_assembler(status): Fresh -> update_proposals, Proposed -> update_transactions, Gap -> nothing
        /\ tpl' = IF tpl.parent # Len(chain) THEN tpl
                  ELSE IF s2[t] = "pending" THEN [tpl EXCEPT !.props = PG(P2, s2), !.staleP = FALSE]
                  ELSE IF s2[t] = "proposed" THEN [tpl EXCEPT !.txs = Topo(Packable(P2, s2), P2, <<>>), !.staleT = FALSE]
                  ELSE tpl
  /\ UNCHANGED <<blocks, db, snap, invalid, bx, ptable, pview, notes, croot>>

\* remove_local_tx: the entry and its descendants leave; the assembler is not told
NRemove(t) ==
  /\ t \in pool
  /\ LET P2 == pool \ DescOf({t}, pool) IN
     /\ Settle(P2, chain, [x \in P2 |-> st[x]], [op |-> "remove", t |-> t])
     /\ tpl' = IF Mut = "silent_remove" THEN tpl
               ELSE [tpl EXCEPT !.staleP = @ \/ (PG(pool, st) \ P2 # {}), !.staleT = @ \/ (PR(pool, st) \ P2 # {})]
  /\ UNCHANGED <<blocks, db, snap, invalid, bx, ptable, pview, notes, croot>>

\* the environment creates a block on parent p: proposals props, commitments cseq (names, parents first), work w;
\* its extension commits to the root over the chain of p
NMint(p, props, cseq, w) ==
  /\ p \in DOMAIN blocks
  /\ CS!Mint([parent |-> p, num |-> CS!Num(p) + 1, commits |-> [i \in 1..Len(cseq) |-> TxNo[cseq[i]]], uncles |-> {},
              cbo |-> 0, ok |-> TRUE, work |-> w])
  /\ bx' = [b \in DOMAIN bx \cup {CS!NBlocks} |-> IF b \in DOMAIN bx THEN bx[b] ELSE [props |-> props, root |-> CS!Chain(p)]]
  /\ UNCHANGED <<vars, ptable, pview, notes, tpl, croot>>

\* update_proposal_table for the switch old -> new main chain (ids): remove the detached numbers, insert the attached
\* ones, reload the window below the fork point, finalize
TableAfter(old, new) ==
  LET keep == CommonLen(old, new)                       \* blocks kept, genesis included
      k    == keep - 1                                  \* height of the fork point
      t1   == PW!Keep(ptable, {n \in DOMAIN ptable : n <= k})
      t2   == [n \in DOMAIN t1 \cup (keep..(Len(new) - 1)) |-> IF n >= keep THEN bx[new[n + 1]].props ELSE t1[n]]
      t3   == IF Len(old) > keep /\ Mut # "no_reload" THEN PW!Reload(t2, PwOfIds(new), k) ELSE t2
  IN PW!Finalize(t3, pview.set, Len(new) - 1)

\* a block whose parent is known arrives: insert + verify_block (ChainState.Deliver); when the main chain changed the
\* proposal table follows, the new view is published and the pool is notified
ServedBelowTip(ids) == SubSeq(ids, 1, Len(ids) - 1)      \* what an honest store serves: the digest over the tip's ancestors
NDeliver(b) ==
  /\ CS!Deliver(b)
  /\ LET r   == CS!DeliverRes(b)
         old == MainIds
         new == CS!Chain(r.db.tip)
     IN IF r.res = "attached"
        THEN LET f    == TableAfter(old, new)
                 keep == CommonLen(old, new)
             IN /\ ptable' = f.table /\ pview' = [set |-> f.set, gap |-> f.gap]
                /\ notes' = Append(notes, [k |-> Len(old) - keep,
                                           blks |-> [i \in 1..(Len(new) - keep) |-> BlkView(new[keep + i])]])
                /\ croot' = ServedBelowTip(new)
        ELSE UNCHANGED <<ptable, pview, notes, croot>>
  /\ UNCHANGED <<vars, bx, tpl>>

\* ChainController::truncate
NTruncate(t) ==
  /\ CS!Truncate(t)
  /\ LET old == MainIds
         new == CS!Chain(t)
         f   == TableAfter(old, new)
     IN /\ ptable' = f.table /\ pview' = [set |-> f.set, gap |-> f.gap]
        /\ notes' = Append(notes, [k |-> Len(old) - Len(new), blks |-> <<>>])
        /\ croot' = ServedBelowTip(new)
  /\ UNCHANGED <<vars, bx, tpl>>

\* the pool processes the oldest notification (update_tx_pool_for_reorg as intended: committed out, conflicts and
\* header-dep conflicts with descendants, detached transactions re-admitted to a fixpoint, orphans purged, restaged),
\* then the assembler rebuilds the template (update_blank before, update_full after)
NPoolProcess ==
  /\ notes # <<>>
  /\ LET n   == Head(notes)
         ch2 == NewChain(chain, n.k, n.blks)
         P1  == IntendedAfterReorg(pool, chain, n.k, n.blks, conf)
         P2  == IF Mut = "keep_orphans" THEN P1 ELSE Purge(P1, ch2)
         s2  == Staged(P2, ch2)
     IN /\ Settle(P2, ch2, s2, [op |-> "reorg", k |-> n.k, blks |-> n.blks, before |-> pool, chainBefore |-> chain, rec |-> {}])
        /\ tpl' = FullTpl(P2, s2, ch2)
  /\ notes' = Tail(notes)
  /\ UNCHANGED <<blocks, db, snap, invalid, bx, ptable, pview, croot>>

\* process restart: the store is what it was; snapshot, block status map and proposal table are rebuilt from it; the
\* pool starts empty on the store's tip and re-submits what it had persisted (keep = TRUE: saved on shutdown; the
\* entries are staged by the window as any submission) or nothing (killed)
NRestart(keep) ==
  /\ notes = <<>>
  /\ snap' = CS!SnapOf(db, db.cur) /\ invalid' = {}
  /\ LET f == PW!Finalize(PW!InitTable(PwOfIds(MainIds)), {}, Len(MainIds) - 1)
     IN ptable' = f.table /\ pview' = [set |-> f.set, gap |-> f.gap]
  /\ LET ch2 == PoolView(MainIds)
         P2  == IF keep THEN pool ELSE {}
         s2  == Staged(P2, ch2)
     IN /\ Settle(P2, ch2, s2, [op |-> "restart"])
        /\ tpl' = FullTpl(P2, s2, ch2)
  /\ UNCHANGED <<blocks, db, bx, notes, croot>>
=============================================================================
