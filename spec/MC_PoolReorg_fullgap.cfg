SPECIFICATION PSpec
CONSTANTS
 Txs <- RTxs
 Ins <- RIns
 Deps <- RDeps
 HDeps <- RHDeps
 Fee <- RFee
 Size <- ROne
 Cycles <- ROne
 Genesis <- RGenesis
 Mutant = "none"
 MaxChain = 4
 MaxNotes = 1
 PConf <- PConf_b
INVARIANT NoDoubleSpend
INVARIANT NoCommitted
INVARIANT NoDeadOrUnknown
INVARIANT NoDetachedHeaderDep
INVARIANT DetachedReadmitted
INVARIANT StageMatchesWindow
INVARIANT Synced
INVARIANT TemplateSound
INVARIANT AncestorLimit
CHECK_DEADLOCK FALSE
