SPECIFICATION JSpec
CONSTANTS
 MaxBlocks = 200
 Works = {1}
 LiveReads = FALSE
 Batch = 2000
 Interval = 2000
INVARIANT ServedOnMain
INVARIANT EmitJudge
CHECK_DEADLOCK FALSE
