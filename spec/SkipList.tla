------------------------------ MODULE SkipList ------------------------------
(***************************************************************************)
(* Skip-list ancestor lookup and block locator (shared/src/types/mod.rs     *)
(* HeaderIndexView::{build_skip, get_ancestor}, sync ActiveChain::get_locator).*)
(*                                                                         *)
(* A block tree grows one block at a time (Extend).  Block ids are          *)
(* 1, 2, 3, ... in creation order, block 1 is genesis (height 0).           *)
(*   par, ht   parent id and height of every block                           *)
(*   anc       anc[b][t+1] = the ancestor of b at height t found by walking   *)
(*             parent links one by one (kept incrementally: the chain of b   *)
(*             is the chain of its parent plus b) - the reference            *)
(*   skp       the skip pointer stored with the block: build_skip = the     *)
(*             skip-walk ancestor at SkipHeight(height) (0 = none: genesis)  *)
(* The property: the skip walk from any block to any height, on any fork,    *)
(* returns the block the parent walk returns; every locator entry is the     *)
(* parent-walk ancestor at the height the step rule prescribes.              *)
(***************************************************************************)
EXTENDS Naturals, Sequences, FiniteSets, Bitwise, TLC
CONSTANTS OneDay       \* ONE_DAY_BLOCK_NUMBER (8192): locators of longer chains restart halving below it
VARIABLES par, ht, skp, anc
vars == <<par, ht, skp, anc>>

N == Len(par)
InvertLowestOne(n) == n & (n - 1)
SkipHeight(h) == IF h < 2 THEN 0
                 ELSE IF h % 2 = 1 THEN InvertLowestOne(InvertLowestOne(h - 1)) + 1
                 ELSE InvertLowestOne(h)

\* follow the skip pointer only if parent-then-skip would not be better
UseSkip(nw, t) == LET ns == SkipHeight(nw) ns1 == SkipHeight(nw - 1)
                  IN ns = t \/ (ns > t /\ ~(ns1 + 2 < ns /\ ns1 >= t))

\* the walk of get_ancestor over given parent / skip tables; returns the visited blocks (last = result)
RECURSIVE Walk(_, _, _, _, _, _)
Walk(P, S, cur, nw, t, path) ==
  IF nw <= t THEN path
  ELSE IF S[cur] # 0 /\ UseSkip(nw, t)
       THEN Walk(P, S, S[cur], SkipHeight(nw), t, Append(path, S[cur]))
       ELSE Walk(P, S, P[cur], nw - 1, t, Append(path, P[cur]))
SkipPath(b, t) == Walk(par, skp, b, ht[b], t, <<b>>)
SkipAncestor(b, t) == LET p == SkipPath(b, t) IN p[Len(p)]
ParentAncestor(b, t) == anc[b][t + 1]

Genesis == /\ par = <<0>> /\ ht = <<0>> /\ skp = <<0>> /\ anc = << <<1>> >>

Extend(p) ==
  /\ p \in 1..N
  /\ LET b == N + 1
         h == ht[p] + 1
         P == Append(par, p)
         \* build_skip: the skip walk starts at the new block itself, whose own skip pointer is still unset
         s == LET w == Walk(P, Append(skp, 0), b, h, SkipHeight(h), <<b>>) IN w[Len(w)]
     IN /\ par' = P /\ ht' = Append(ht, h) /\ skp' = Append(skp, s)
        /\ anc' = Append(anc, Append(anc[p], b))

\* ---- locator -------------------------------------------------------------------------------------
\* heights the step rule visits, starting at height h (genesis appended unless the walk ends on it)
RECURSIVE LocHeights(_, _, _)
LocHeights(index, step, acc) ==
  LET acc1 == Append(acc, index)
      step1 == IF Len(acc1) >= 10 THEN step * 2 ELSE step
  IN IF index < step1 * 2
     THEN IF Len(acc1) < 52 /\ index > OneDay THEN LocHeights(index \div 2, step1, acc1)
          ELSE IF index # 0 THEN Append(acc1, 0) ELSE acc1
     ELSE LocHeights(index - step1, step1, acc1)
LocatorHeights(h) == LocHeights(h, 1, <<>>)
\* get_locator as coded: every entry is looked up by a skip walk from the previous entry
RECURSIVE LocWalk(_, _, _, _)
LocWalk(hs, i, base, acc) ==
  IF i > Len(hs) THEN acc
  ELSE LET e == SkipAncestor(base, hs[i]) IN LocWalk(hs, i + 1, e, Append(acc, e))
Locator(b) == LocWalk(LocatorHeights(ht[b]), 1, b, <<>>)
LocatorByParents(b) == LET hs == LocatorHeights(ht[b]) IN [i \in 1..Len(hs) |-> ParentAncestor(b, hs[i])]

-----------------------------------------------------------------------------
\* C17, skip list (evaluated for the newest block: every block was the newest one once)
TypeOK == /\ Len(ht) = N /\ Len(skp) = N /\ Len(anc) = N
          /\ \A b \in 1..N : Len(anc[b]) = ht[b] + 1 /\ anc[b][ht[b] + 1] = b
SkipPointsToAncestor == N > 1 => skp[N] = ParentAncestor(N, SkipHeight(ht[N]))
WalkEqualsParentWalk == \A t \in 0..ht[N] : SkipAncestor(N, t) = ParentAncestor(N, t)
LocatorEqualsParentWalk == Locator(N) = LocatorByParents(N)
LocatorShape == LET hs == LocatorHeights(ht[N])
                IN /\ hs[1] = ht[N] /\ hs[Len(hs)] = 0
                   /\ \A i \in 1..(Len(hs) - 1) : hs[i] > hs[i + 1]
=============================================================================
