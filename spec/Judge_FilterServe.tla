-------------------------- MODULE Judge_FilterServe --------------------------
(* Judge: evaluates the server operators of FilterServe.tla on snapshots RECORDED from a real node (c19 chain): every   *)
(* line of IOEnv.CASES is one published snapshot (block tree, the snapshot's main chain and LATEST_BUILT_FILTER_DATA, the    *)
(* blocks whose filter / filter hash rows the LIVE store holds).  For every start number TLC prints which blocks each of  *)
(* the three requests has to be answered with (or that it is ignored); the check compares them with what the real        *)
(* protocol handler sent.                                                                                                *)
EXTENDS FilterServe, Json, IOUtils

Recs == ndJsonDeserialize(IOEnv.CASES)
Seq0(s) == [k \in 1..Len(s) |-> s[k]]
JInit == \E i \in 1..Len(Recs) :
           LET r == Recs[i]  n == r.n IN
           /\ tree = [b \in 0..n |-> IF b = 0 THEN [parent |-> 0, number |-> 0, work |-> 0, spends |-> -1]
                                     ELSE [parent |-> r.parent[b], number |-> r.number[b], work |-> 1, spends |-> -1]]
           /\ main = Seq0(r.main)
           /\ filters = [b \in {r.pfilters[k] : k \in 1..Len(r.pfilters)} |-> {b}]
           /\ fhash = [b \in {r.pfhash[k] : k \in 1..Len(r.pfhash)} |-> <<>>]
           /\ latest = r.platest
           /\ bsnap = <<>> /\ bnext = r.idx /\ dirty = FALSE /\ panic = FALSE       \* bnext carries the record's index
           /\ pub = SnapOf(Seq0(r.main), r.platest)
JNext == UNCHANGED svars
JSpec == JInit /\ [][JNext]_svars

Proj(a) == IF a.kind = "ignored" THEN [k |-> "ignored", b |-> <<>>] ELSE [k |-> a.kind, b |-> a.blocks]
JRecord == [ idx |-> bnext,
             filters |-> [st \in 1..(Len(main) + 2) |-> Proj(AnsFilters(View(pub), st - 1))],
             hashes  |-> [st \in 1..(Len(main) + 2) |-> Proj(AnsHashes(View(pub), st - 1))],
             checkpoints |-> [st \in 1..(Len(main) + 2) |-> Proj(AnsCheckPoints(View(pub), st - 1))] ]
EmitJudge == PrintT(<<"J", ToJson(JRecord)>>)
=============================================================================
