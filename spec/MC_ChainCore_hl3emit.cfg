SPECIFICATION Spec
CONSTANTS
  N = 5
  MaxWork = 1
  MaxDup = 0
  Verdicts = {"ok", "bad_ctx"}
  Heavy = 3
  PreFix = FALSE
  Emit = TRUE
INVARIANT TypeOK
INVARIANT TipHeaviestValid
INVARIANT OrphansConnected
INVARIANT OnlyValidAttached
INVARIANT Accounted
INVARIANT NoGhostExt
INVARIANT EmitQuiescent
PROPERTY NeverLeaveTipForNotHeavier
CHECK_DEADLOCK FALSE
