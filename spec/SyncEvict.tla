----------------------------- MODULE SyncEvict -----------------------------
(***************************************************************************)
(* Growth beyond the listed properties: the OUTBOUND-PEER CHAIN-SYNC        *)
(* EVICTION rule of the sync protocol.                                       *)
(*   sync/src/synchronizer/mod.rs   Synchronizer::eviction (one call = one   *)
(*                                  Evict step), on_connected                *)
(*   sync/src/types/mod.rs          ChainSyncState {timeout, work_header,    *)
(*                                  total_difficulty, sent_getheaders},      *)
(*                                  PeerFlags {is_outbound, is_protect,      *)
(*                                  is_whitelist}, Peers::sync_connected     *)
(*   util/constant/src/sync.rs      CHAIN_SYNC_TIMEOUT,                      *)
(*                                  EVICTION_HEADERS_RESPONSE_TIME,          *)
(*                                  MAX_OUTBOUND_PEERS_TO_PROTECT_FROM_...   *)
(*                                                                         *)
(* The rule (outside initial block download; inbound peers are never        *)
(* touched):  an outbound peer whose best-known header carries at least our *)
(* tip's total difficulty has no timer.  A peer that is behind gets a timer *)
(* of CST and the tip of that moment is recorded as its WORK (id + total     *)
(* difficulty); the timer is re-armed with the current tip whenever a round  *)
(* finds the peer caught up with the recorded work but still behind the tip. *)
(* A round that finds the timer expired sends ONE getheaders for the         *)
(* recorded work header and starts a second timer EHRT; a round that finds   *)
(* that one expired too disconnects the peer -- unless the peer is protected *)
(* or whitelisted: then header sync with it is merely suspended.             *)
(*                                                                         *)
(* Out of scope, left open: the headers-sync controller (the download-speed  *)
(* rule for peers whose header sync is STARTED).  Evict(K) takes the set K   *)
(* of started peers that rule gives up on in this round; the code skips the  *)
(* chain-sync rule for them (`continue`).  Which peers start header sync     *)
(* (StartSync(S)) is open as well.                                           *)
(*                                                                         *)
(* Ghost: hist[p] = [armedAt, ghAt, ghN] -- when the running timer was armed, *)
(* when the getheaders of this timer went out (0: not yet), how many went    *)
(* out since it was armed.  The properties are stated on the ghost, not on   *)
(* the `timeout` field, so a wrong deadline is caught.                       *)
(***************************************************************************)
EXTENDS Integers, FiniteSets, TLC
CONSTANTS CST,          \* CHAIN_SYNC_TIMEOUT
          EHRT,         \* EVICTION_HEADERS_RESPONSE_TIME
          MaxProtect    \* MAX_OUTBOUND_PEERS_TO_PROTECT_FROM_DISCONNECT
VARIABLES now, tipId, tipTD, peers, hist, gone, out
vars == <<now, tipId, tipTD, peers, hist, gone, out>>

NONE == -1
Drop(f, S) == [x \in DOMAIN f \ S |-> f[x]]
Put(f, k, v) == [x \in DOMAIN f \cup {k} |-> IF x = k THEN v ELSE f[x]]
Max(a, b) == IF a >= b THEN a ELSE b
Live == DOMAIN peers
\* a peer that never announced a header counts as total difficulty 0 (the code: unwrap_or_default)
BkTD(r) == IF r.bk = NONE THEN 0 ELSE r.bk
Quiet(op) == [op |-> op, gh |-> {}, evicted |-> {}, ctl |-> {}, susp |-> {}, spared |-> {}, rearm |-> {}, clear |-> {}]
NoGhost == [armedAt |-> 0, ghAt |-> 0, ghN |-> 0]
ProtCount == Cardinality({p \in Live : peers[p].prot})

(* --------------------------- the environment --------------------------- *)
\* the sync protocol opens with p (a fresh session id): the first MaxProtect outbound peers are protected
Connect(p, o, w) ==
  /\ p \notin Live /\ p \notin gone
  /\ peers' = Put(peers, p, [out |-> o, prot |-> (o /\ ProtCount < MaxProtect), wl |-> w, bk |-> NONE, timeout |-> 0,
                             workTD |-> NONE, workId |-> NONE, sent |-> FALSE, started |-> FALSE])
  /\ hist' = Put(hist, p, NoGhost)
  /\ out' = Quiet("Connect")
  /\ UNCHANGED <<now, tipId, tipTD, gone>>
\* the peer leaves on its own
Disconnect(p) ==
  /\ p \in Live
  /\ peers' = Drop(peers, {p}) /\ hist' = Drop(hist, {p}) /\ gone' = gone \cup {p}
  /\ out' = Quiet("Disconnect")
  /\ UNCHANGED <<now, tipId, tipTD>>
Tick(d) == /\ d > 0 /\ now' = now + d /\ out' = Quiet("Tick") /\ UNCHANGED <<tipId, tipTD, peers, hist, gone>>
\* our chain grows by one block of difficulty d
TipGrows(d) == /\ d > 0 /\ tipId' = tipId + 1 /\ tipTD' = tipTD + d /\ out' = Quiet("TipGrows")
               /\ UNCHANGED <<now, peers, hist, gone>>
\* headers from p ending in a header of total difficulty td: its best-known header only ever improves; a (short)
\* headers answer ends the STARTED state of header sync
Announce(p, td) ==
  /\ p \in Live /\ td > 0
  /\ peers' = [peers EXCEPT ![p].bk = Max(@, td), ![p].started = FALSE]
  /\ out' = Quiet("Announce")
  /\ UNCHANGED <<now, tipId, tipTD, hist, gone>>
\* header sync starts with the peers S (which ones: open here)
StartSync(S) ==
  /\ S \subseteq {p \in Live : ~peers[p].started}
  /\ peers' = [p \in Live |-> IF p \in S THEN [peers[p] EXCEPT !.started = TRUE] ELSE peers[p]]
  /\ out' = Quiet("StartSync")
  /\ UNCHANGED <<now, tipId, tipTD, hist, gone>>

(* ------------------------- one eviction round ------------------------- *)
Idle(r) == [r EXCEPT !.timeout = 0, !.workTD = NONE, !.workId = NONE, !.sent = FALSE]
Arm(r) == [r EXCEPT !.timeout = now + CST, !.workTD = tipTD, !.workId = tipId, !.sent = FALSE]
\* the verdict of the round on one peer record, in the order of the code
Verdict(r) ==
  IF ~r.out THEN "skip"
  ELSE IF BkTD(r) >= tipTD THEN "clear"
  ELSE IF r.timeout = 0 \/ (r.bk # NONE /\ r.bk >= r.workTD) THEN "arm"
  ELSE IF now > r.timeout
       THEN IF r.sent THEN (IF r.prot \/ r.wl THEN (IF r.started THEN "suspend" ELSE "spare") ELSE "evict")
            ELSE "getheaders"
  ELSE "wait"
After(r, v) ==
  CASE v = "clear" -> Idle(r)
    [] v = "arm" -> Arm(r)
    [] v = "getheaders" -> [r EXCEPT !.sent = TRUE, !.timeout = now + EHRT]
    [] v = "suspend" -> [r EXCEPT !.started = FALSE]
    [] OTHER -> r
GhostAfter(h, v) ==
  CASE v = "clear" -> NoGhost
    [] v = "arm" -> [armedAt |-> now, ghAt |-> 0, ghN |-> 0]
    [] v = "getheaders" -> [h EXCEPT !.ghAt = now, !.ghN = @ + 1]
    [] OTHER -> h
\* V(r): the verdict function (Verdict itself; the model-checking module passes mutants to see the properties bite)
EvictWith(K, V(_)) ==
  /\ K \subseteq {p \in Live : peers[p].started}
  /\ LET J == Live \ K
         ev == {p \in J : V(peers[p]) = "evict"}
     IN /\ peers' = [p \in Live \ (K \cup ev) |-> After(peers[p], V(peers[p]))]
        /\ hist' = [p \in Live \ (K \cup ev) |-> GhostAfter(hist[p], V(peers[p]))]
        /\ gone' = gone \cup K \cup ev
        /\ out' = [op |-> "Evict", gh |-> {p \in J : V(peers[p]) = "getheaders"}, evicted |-> ev, ctl |-> K,
                   susp |-> {p \in J : V(peers[p]) = "suspend"}, spared |-> {p \in J : V(peers[p]) = "spare"},
                   rearm |-> {p \in J : V(peers[p]) = "arm" /\ peers[p].timeout # 0},
                   clear |-> {p \in J : V(peers[p]) = "clear" /\ peers[p].timeout # 0}]
  /\ UNCHANGED <<now, tipId, tipTD>>
Evict(K) == EvictWith(K, Verdict)

(* ----------------------------- invariants ----------------------------- *)
TypeOK == /\ now \in Nat /\ tipId \in Nat /\ tipTD \in Nat /\ DOMAIN hist = Live /\ Live \cap gone = {}
          /\ \A p \in Live : LET r == peers[p] IN
               /\ r.out \in BOOLEAN /\ r.prot \in BOOLEAN /\ r.wl \in BOOLEAN /\ r.sent \in BOOLEAN /\ r.started \in BOOLEAN
               /\ r.bk \in Nat \cup {NONE} /\ r.timeout \in Nat /\ r.workTD \in Nat \cup {NONE} /\ r.workId \in Nat \cup {NONE}
\* no timer: nothing recorded; a timer: a work header is recorded (the code's expect("work_header be assigned"))
IdleClean == \A p \in Live : LET r == peers[p] IN
               IF r.timeout = 0 THEN r.workTD = NONE /\ r.workId = NONE /\ ~r.sent
               ELSE r.workTD # NONE /\ r.workId # NONE /\ r.out
InboundUntouched == \A p \in Live : ~peers[p].out => peers[p].timeout = 0 /\ ~peers[p].sent /\ ~peers[p].prot
ProtectBound == ProtCount <= MaxProtect
\* the recorded work is a tip we had: never more than the present one
WorkNotAboveTip == \A p \in Live : peers[p].workTD <= tipTD /\ peers[p].workId <= tipId
\* the deadline in the record is the one the ghost dictates
TimerMatchesGhost == \A p \in Live : LET r == peers[p] h == hist[p] IN
                       r.timeout # 0 => r.timeout = (IF r.sent THEN h.ghAt + EHRT ELSE h.armedAt + CST)
OneGetHeadersPerTimer == \A p \in Live : hist[p].ghN <= 1 /\ (peers[p].sent <=> hist[p].ghN = 1)
\* bounded liveness, state form: a round leaves no peer behind that it should have dealt with
Overdue(r) == r.out /\ BkTD(r) < tipTD /\ r.timeout # 0 /\ ~(r.bk # NONE /\ r.bk >= r.workTD) /\ now > r.timeout
NoOverdue == out.op = "Evict" => \A p \in Live : Overdue(peers[p]) => peers[p].sent /\ (peers[p].prot \/ peers[p].wl) /\ ~peers[p].started

(* -------------------------- step properties -------------------------- *)
\* a peer whose best-known header is not behind our tip at the round is not disconnected by the rule in that round
NeverEvictCaughtUp == [][\A p \in out'.evicted : BkTD(peers[p]) < tipTD]_vars
\* inbound / protected / whitelisted peers are never disconnected by the rule; a round removes nobody else
OnlyOutboundUnprotected ==
  [][/\ \A p \in out'.evicted : p \in Live /\ peers[p].out /\ ~peers[p].prot /\ ~peers[p].wl
     /\ out'.op = "Evict" => Live \ DOMAIN peers' = out'.evicted \cup out'.ctl]_vars
\* a disconnection comes only after a getheaders for the recorded work that went unanswered for more than EHRT, which went
\* out only after more than CST with the peer behind the recorded work all the time (bk never decreases: BestKnownMonotone)
GraceRespected ==
  [][\A p \in out'.evicted : LET r == peers[p] h == hist[p] IN
        /\ h.ghN = 1 /\ h.ghAt > h.armedAt + CST /\ now > h.ghAt + EHRT
        /\ r.workTD # NONE /\ BkTD(r) < r.workTD /\ r.workTD <= tipTD]_vars
\* a getheaders of this rule goes to a peer behind its recorded work, once per timer, only after CST
GetHeadersRight ==
  [][\A p \in out'.gh : LET r == peers[p] h == hist[p] IN
        /\ r.out /\ ~r.sent /\ h.ghN = 0 /\ now > h.armedAt + CST /\ BkTD(r) < r.workTD
        /\ peers'[p].workId = r.workId /\ peers'[p].workTD = r.workTD]_vars
\* bounded liveness, step form: the FIRST round after a deadline passed acts
Behind(r) == r.out /\ r.timeout # 0 /\ BkTD(r) < tipTD /\ ~(r.bk # NONE /\ r.bk >= r.workTD)
PromptGetHeaders ==
  [][out'.op = "Evict" => \A p \in Live \ out'.ctl :
        Behind(peers[p]) /\ hist[p].ghN = 0 /\ now > hist[p].armedAt + CST => p \in out'.gh]_vars
PromptEviction ==
  [][out'.op = "Evict" => \A p \in Live \ out'.ctl :
        Behind(peers[p]) /\ hist[p].ghN = 1 /\ now > hist[p].ghAt + EHRT /\ ~peers[p].prot /\ ~peers[p].wl
          => p \in out'.evicted]_vars
\* catching up (with the tip or with the recorded work) stops the clock: the old deadline is never used again
CatchUpResets ==
  [][out'.op = "Evict" => \A p \in (Live \cap DOMAIN peers') \ out'.ctl : LET r == peers[p] IN
        /\ r.out /\ BkTD(r) >= tipTD => peers'[p].timeout = 0
        /\ r.out /\ BkTD(r) < tipTD /\ r.bk # NONE /\ r.timeout # 0 /\ r.bk >= r.workTD
             => peers'[p].timeout = now + CST /\ peers'[p].workTD = tipTD /\ ~peers'[p].sent]_vars
BestKnownMonotone == [][\A p \in Live \cap DOMAIN peers' : BkTD(peers'[p]) >= BkTD(peers[p])]_vars
\* only an eviction round touches the chain-sync record or the flags
RecordStable ==
  [][out'.op # "Evict" => \A p \in Live \cap DOMAIN peers' :
        /\ peers'[p].timeout = peers[p].timeout /\ peers'[p].workTD = peers[p].workTD /\ peers'[p].sent = peers[p].sent
        /\ peers'[p].out = peers[p].out /\ peers'[p].prot = peers[p].prot /\ peers'[p].wl = peers[p].wl]_vars
=============================================================================
