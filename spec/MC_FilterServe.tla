---------------------------- MODULE MC_FilterServe ----------------------------
EXTENDS FilterServe
\* at most one spending block per tree (as in MC_BlockFilter)
OneSpend == Cardinality({b \in DOMAIN tree : tree[b].spends >= 0}) <= 1
=============================================================================
