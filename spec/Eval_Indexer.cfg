SPECIFICATION EvSpec
CONSTANTS
 TxDef <- EvTxDef
 GenesisBlock <- EvGenesis
 CbFrom = 3
 CbOut <- EvCbOut
 NoScript = "none"
 MaxBlocks = 0
 MaxBody = 0
 BodyOK <- TrueOp
 Raw <- EvRaw
 QueryScripts = {}
 KeepNum = 10
 PruneInterval = 1
 AliasBug = FALSE
INVARIANT EmitExpect
CHECK_DEADLOCK FALSE
