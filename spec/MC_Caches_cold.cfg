SPECIFICATION Spec
CONSTANTS
 SinceAt = 6
 KeyByTxHash = FALSE
 SkipTimeOnHit = FALSE
 SkipMaturityOnHit = FALSE
 InvalidateOnDelete = TRUE
 Warm = FALSE
 Emit = TRUE
INVARIANT TypeOK
INVARIANT CacheTransparent
INVARIANT EmitHist
CHECK_DEADLOCK FALSE
