--------------------------- MODULE Trace_PeerNet ---------------------------
(* Trace validation: an ndjson trace recorded from the real PeerRegistry / PeerStore (harness g_peernet drive) or *)
(* from the real NetworkController's ban interface (g_peernet ctl) must be a behaviour of PeerNet.tla.  Every     *)
(* event carries its arguments, its answer and the complete projected state after the operation; the choices the  *)
(* specification leaves open (which session is evicted, which addresses a fetch returns, which anchors survive)   *)
(* are read from the event and must lie in the allowed set.  All invariants are evaluated after every event.      *)
EXTENDS PeerNet, Json, IOUtils, TLCExt
Rec == ndJsonDeserialize(IOEnv.TRACE)
VARIABLE l
tvars == <<vars, l>>
Ev == Rec[l]
Is(e) == l <= Len(Rec) /\ Ev.ev = e /\ l' = l + 1
SeqRange(s) == {s[i] : i \in 1..Len(s)}
NoDup(a, f(_)) == \A i, j \in 1..Len(a) : i # j => f(a[i]) # f(a[j])
KS(e) == e.s
KA(e) == e.a
KN(e) == <<e.k, e.v>>
PeersOf(a) == [s \in {a[i].s : i \in 1..Len(a)} |->
                 LET i == CHOOSE i \in 1..Len(a) : a[i].s = s IN
                 [addr |-> a[i].addr, ty |-> a[i].ty, wl |-> a[i].wl, ping |-> a[i].ping, age |-> a[i].age, conn |-> a[i].conn]]
BansOf(a) == [n \in {<<a[i].k, a[i].v>> : i \in 1..Len(a)} |->
                 LET i == CHOOSE i \in 1..Len(a) : <<a[i].k, a[i].v>> = n IN a[i].until]
StoreOf(a) == [x \in {a[i].a : i \in 1..Len(a)} |->
                 LET i == CHOOSE i \in 1..Len(a) : a[i].a = x IN
                 [score |-> a[i].score, lc |-> a[i].lc, lt |-> a[i].lt, at |-> a[i].at, fl |-> SeqRange(a[i].fl)]]
UOf(u) == [peerOf |-> u.peerOf, ipOf |-> u.ipOf, gw |-> u.gw, white |-> SeqRange(u.white), whiteOnly |-> u.whiteOnly,
           maxIn |-> u.maxIn, maxOut |-> u.maxOut, noBR |-> u.noBR]
\* what the code shows after the operation must be what the specification computes
Observed ==
  /\ Ev.api_ok = TRUE
  /\ NoDup(Ev.st.peers, KS) /\ NoDup(Ev.st.bans, KN) /\ NoDup(Ev.st.store, KA)
  /\ now' = Ev.st.now /\ seq' = Ev.st.seq
  /\ peers' = PeersOf(Ev.st.peers)
  /\ DOMAIN connected' = {Ev.st.connected[i].p : i \in 1..Len(Ev.st.connected)}
  /\ anchors' = SeqRange(Ev.st.anchors)
  /\ bans' = BansOf(Ev.st.bans)
  /\ store' = StoreOf(Ev.st.store)
  /\ \/ "banned_skip" \in DOMAIN Ev
     \/ SeqRange(Ev.st.banned) =
          {a \in 1..Len(U'.peerOf) : \E n \in DOMAIN bans' : bans'[n] > now' /\
                (IF n[1] = "ip" THEN n[2] = U'.ipOf[a] ELSE U'.ipOf[a] \div U'.gw = n[2])}
U0 == [peerOf |-> <<1>>, ipOf |-> <<0>>, gw |-> 10, white |-> {}, whiteOnly |-> FALSE, maxIn |-> 0, maxOut |-> 0, noBR |-> FALSE]
TInit == /\ U = U0 /\ now = 0 /\ peers = <<>> /\ seq = 1 /\ connected = <<>> /\ anchors = {} /\ bans = <<>> /\ store = <<>>
         /\ out = [op |-> "none", ret |-> "ok", ev |-> 0] /\ l = 1
TReset == /\ Is("Reset")
          /\ Ev.protect = Protect /\ Ev.maxBR = MaxBR /\ Ev.addrLimit = AddrLimit
          /\ U' = UOf(Ev.u) /\ now' = Ev.st.now /\ peers' = <<>> /\ seq' = 1 /\ connected' = <<>> /\ anchors' = {}
          /\ bans' = <<>> /\ store' = <<>> /\ out' = [op |-> "none", ret |-> "ok", ev |-> 0]
          /\ Ev.st.peers = <<>> /\ Ev.st.bans = <<>> /\ Ev.st.store = <<>> /\ Ev.st.connected = <<>> /\ Ev.st.anchors = <<>>
TAccept == Is("Accept") /\ Accept(Ev.a, Ev.s, Ev.raw, Ev.evicted) /\ out'.ret = Ev.ret /\ Observed
TDisconnect == Is("Disconnect") /\ Disconnect(Ev.s) /\ Observed
TClosed == Is("Closed") /\ Closed(Ev.a) /\ Observed
TSetPing == Is("SetPing") /\ SetPing(Ev.s, Ev.p) /\ Observed
TSetAge == Is("SetAge") /\ SetAge(Ev.s, Ev.g) /\ Observed
TTick == Is("Tick") /\ Tick(Ev.d) /\ Observed
\* what an insertion swept is read off the logged ban list (it must have been expired: BanAddr / BanUntil check it)
Swept(n, u) == (DOMAIN bans \cup {n}) \ DOMAIN BansOf(Ev.st.bans)
TBanAddr == Is("BanAddr") /\ BanAddr(Ev.a, Ev.t, Swept(<<"ip", Ip(Ev.a)>>, 0)) /\ Observed
TBanUntil == Is("BanUntil") /\ BanUntil(<<Ev.k, Ev.v>>, Ev.until, Swept(<<Ev.k, Ev.v>>, 0)) /\ Observed
TUnban == Is("Unban") /\ Unban(<<Ev.k, Ev.v>>) /\ Observed
TClearBans == Is("ClearBans") /\ ClearBans /\ Observed
TAddAddr == Is("AddAddr") /\ AddAddr(Ev.a, SeqRange(Ev.fl), SeqRange(Ev.removed), Ev.ret) /\ Observed
TAddOutbound == Is("AddOutbound") /\ AddOutbound(Ev.a, SeqRange(Ev.fl)) /\ Observed
TTouch == Is("Touch") /\ Touch(Ev.a) /\ Observed
TMarkTried == Is("MarkTried") /\ MarkTried(Ev.a) /\ Observed
TMarkConnected == Is("MarkConnected") /\ MarkConnected(Ev.a) /\ Observed
TRemove == Is("Remove") /\ Remove(Ev.a) /\ out'.ret = Ev.ret /\ Observed
TFetch == /\ Is("Fetch") /\ Len(Ev.res) = Cardinality(SeqRange(Ev.res))
          /\ Fetch(Ev.kind, SeqRange(Ev.req), Ev.n, SeqRange(Ev.res)) /\ Observed
TRestart == Is("Restart") /\ (\E A \in SUBSET anchors : Restart(A) /\ A = SeqRange(Ev.st.anchors)) /\ Observed
TNext == \/ TReset \/ TAccept \/ TDisconnect \/ TClosed \/ TSetPing \/ TSetAge \/ TTick \/ TBanAddr \/ TBanUntil \/ TUnban
         \/ TClearBans \/ TAddAddr \/ TAddOutbound \/ TTouch \/ TMarkTried \/ TMarkConnected \/ TRemove \/ TFetch \/ TRestart
TSpec == TInit /\ [][TNext]_tvars
Accepted == LET d == TLCGet("stats").diameter IN
            IF d - 1 = Len(Rec) THEN TRUE
            ELSE Print(<<"TRACE-REJECTED", d, Rec[d]>>, FALSE)
=============================================================================
