SPECIFICATION SSpec
CONSTANTS
 MaxBlocks = 3
 Works = {1, 2}
 LiveReads = FALSE
 Batch = 2
 Interval = 2
CONSTRAINT OneSpend
INVARIANT NeverIgnoresBuilt
CHECK_DEADLOCK FALSE
