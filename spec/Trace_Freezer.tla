---------------------------- MODULE Trace_Freezer ----------------------------
(* Trace validation: an ndjson trace recorded from the real FreezerFiles (ckbv c09-drive) must be  *)
(* a behaviour of Freezer.tla; every invariant is evaluated after every event.                    *)
EXTENDS Freezer, Json, IOUtils, TLCExt, Integers
Rec == ndJsonDeserialize(IOEnv.TRACE)
VARIABLE l
tvars == <<vars, l>>
TInit == Init /\ l = 1
Ev == Rec[l]
Is(e) == l <= Len(Rec) /\ Ev.ev = e /\ l' = l + 1
\* what the code reported after the operation must be what the specification computes
Observed == /\ number' = Ev.number /\ hf' = Ev.hid /\ hif' = Ev.hid /\ data'[Ev.hid] = Ev.hlen
            /\ Len(index') = Ev.idx
            \* when the driver read the prefix back (good >= 0): every item byte-for-byte, nothing beyond
            /\ (Ev.good >= 0 => (Ev.good = Ev.number - 1 /\ Ev.beyond = FALSE))
TReset    == Is("Reset") /\ data' = [f \in Files |-> 0] /\ index' = << <<0, 0>> >> /\ torn' = FALSE /\ items' = <<>>
             /\ sData' = 0 /\ sIdx' = 1 /\ sHead' = 0 /\ open' = TRUE /\ hif' = 0 /\ hf' = 0 /\ number' = 1
             /\ fw' = 0 /\ fwKept' = 0
TAppend   == Is("Append") /\ AppendItem(Ev.sz) /\ Observed
TSync     == Is("Sync") /\ Sync /\ Observed
TTruncate == Is("Truncate") /\ Truncate(Ev.k) /\ Observed
TCrash    == Is("Crash") /\ CrashTo(Ev.icut, Ev.torn, Ev.c)
TReopen   == Is("Reopen") /\ Reopen /\ Observed
\* a single read, in any order relative to the writes: no effect on the state, answer = the item / none beyond
TRetrieve == Is("Retrieve") /\ open /\ (IF Ev.i < number THEN Ev.ok ELSE Ev.none) /\ UNCHANGED vars
TNext == TRetrieve \/ TReset \/ TAppend \/ TSync \/ TTruncate \/ TCrash \/ TReopen
TSpec == TInit /\ [][TNext]_tvars
Accepted == LET d == TLCGet("stats").diameter IN
            IF d - 1 = Len(Rec) THEN TRUE
            ELSE Print(<<"TRACE-REJECTED", d, Rec[d]>>, FALSE)
=============================================================================
