------------------------------ MODULE TxRules ------------------------------
(***************************************************************************)
(* Declarative transaction validity of CKB (property C04), written from the *)
(* rules (RFC 0017 since, 0019/0022 transaction structure, 0028 relative    *)
(* time since, 0020 two-step confirmation for the pool's commit position),  *)
(* NOT from the verifiers.                                                   *)
(*                                                                         *)
(* A ledger context `x` is                                                  *)
(*   x.ts      timestamps of the main chain, x.ts[h] for h in 1..m           *)
(*             (genesis: height 0, timestamp 0); every epoch has L blocks    *)
(*   x.cells   the cells ever created on the main chain:                     *)
(*             [id, born (height), cb (cellbase output), spent (height|0),   *)
(*              lock in {"ok","fail","loop"}, args (script group), group     *)
(*              (sequence of member cell ids for a dep-group cell, else <<>>), *)
(*              type in {"none","ok"}, targs (type-script group)]             *)
(*   x.side    block ids that are known but not on the main chain            *)
(* A commit position `e` (the TxVerifyEnv of the rules) is                   *)
(*   [number, epoch (a fraction <<n,i,l>>), tip (height whose past-median    *)
(*    is "the median time of the block")].                                   *)
(* `ov` is what earlier transactions of the same block / pooled ancestors    *)
(* did: [made: cells created, used: cells consumed].                         *)
(***************************************************************************)
EXTENDS Naturals, Sequences, FiniteSets, TLC

CONSTANTS L,            \* blocks per epoch
          WClose,       \* closest commit distance of the proposal window
          K,            \* past-median sample size
          Maturity,     \* cellbase maturity in blocks (a fraction Maturity/L of an epoch)
          MaxCycles, GroupCycles,   \* cycle limit / cost of one always-success script group
          Rfc0028       \* TRUE: relative time since starts at the timestamp of the input's block (ckb2021)

Rng(s) == {s[i] : i \in DOMAIN s}
Min2(a, b) == IF a < b THEN a ELSE b
NoDup(s) == \A i, j \in DOMAIN s : i # j => s[i] # s[j]

-----------------------------------------------------------------------------
EpochOf(h) == <<h \div L, h % L, L>>
\* fractions <<n, i, l>> (l > 0) compared / added as rationals
GeqFrac(a, b) == a[1] * a[3] * b[3] + a[2] * b[3] >= b[1] * a[3] * b[3] + b[2] * a[3]
AddFrac(a, b) == <<a[1] + b[1], a[2] * b[3] + b[2] * a[3], a[3] * b[3]>>      \* not reduced; only compared
\* a since epoch value: length 0 with index 0 means "whole epochs"
WellFormedIncr(v) == v[3] > v[2] \/ (v[3] = 0 /\ v[2] = 0)
Norm(v) == IF v[3] = 0 THEN <<v[1], 0, 1>> ELSE v

TsAt(x, h) == IF h = 0 THEN 0 ELSE x.ts[h]
\* past-median of the block FOLLOWING height h: the (at most K) timestamps ending at h.  Hi/Lo: see ConsensusRules.
SortedTs(x, h) == SortSeq([i \in 1..Min2(K, h + 1) |-> TsAt(x, h + 1 - i)], LAMBDA a, b : a < b)
MedianHi(x, h) == LET s == SortedTs(x, h) IN s[(Len(s) \div 2) + 1]
MedianLo(x, h) == LET s == SortedTs(x, h) IN s[((Len(s) - 1) \div 2) + 1]

Cell(x, id) == CHOOSE c \in x.cells : c.id = id
Known(x, ov, id) == (\E c \in x.cells : c.id = id) \/ id \in ov.made
LiveAt(x, ov, id) == /\ id \notin ov.used
                     /\ \/ id \in ov.made
                        \/ \E c \in x.cells : c.id = id /\ c.spent = 0
\* attributes of a cell created by an earlier transaction of the same block: born at the commit position
Born(x, e, id) == IF \E c \in x.cells : c.id = id THEN Cell(x, id).born ELSE e.number
IsCb(x, id) == (\E c \in x.cells : c.id = id) /\ Cell(x, id).cb

-----------------------------------------------------------------------------
(* since: [m |-> "none"|"n"|"e"|"t"|"bad", rel |-> BOOLEAN, resv |-> BOOLEAN, v |-> value]               *)
(*   v is always a triple: "n": <<block number / distance,0,0>>; "e": <<n,i,l>>; "t": <<seconds,0,0>>;   *)
(*   "bad": metric flag 11;                                                                             *)
(*   resv: one of the reserved flag bits is set.                                                        *)
SinceFlagsBad(s) == s.m # "none" /\ (s.resv \/ s.m = "bad" \/ (s.m = "e" /\ ~WellFormedIncr(s.v)))

\* definitely unmet / unspecified (even-sized median sample) for input cell `id` at position e
SinceUnmet(x, e, id, s, hi) ==
  LET born == Born(x, e, id)
      med  == IF hi THEN MedianHi(x, e.tip) ELSE MedianLo(x, e.tip)
      \* the start of a relative time lock: timestamp of the input's block (RFC 0028) or its past-median (RFC 0017)
      base == IF Rfc0028 THEN TsAt(x, born)
              ELSE IF hi THEN MedianLo(x, born - 1) ELSE MedianHi(x, born - 1)
  IN CASE s.m = "n" -> IF s.rel THEN e.number < born + s.v[1] ELSE e.number < s.v[1]
       [] s.m = "e" -> IF s.rel THEN ~GeqFrac(e.epoch, AddFrac(EpochOf(born), Norm(s.v))) ELSE ~GeqFrac(e.epoch, Norm(s.v))
       [] s.m = "t" -> IF s.rel THEN med < base + s.v[1] ELSE med < s.v[1]
       [] OTHER -> FALSE

-----------------------------------------------------------------------------
(* tx: [ins: Seq([c, since]), deps: Seq([c, grp]), hdeps: Seq([k in {"main","side","unknown"}, h]),    *)
(*      sum in {"fee","zero","over"}   (outputs = inputs - fee | = inputs | = inputs + 1 shannon),        *)
(*      occ in {"roomy","exact","short"} (an output's capacity vs its occupied size: > | = | one less),   *)
(*      otype in {"none","ok","fail","loop"} (type script of the first output; its own script group)]     *)
RuleNames == {"inputs_distinct", "input_live", "dep_live", "dep_group", "header_dep", "capacity_sum",
              "capacity_occupied", "since_flags", "since", "maturity", "script", "cycles"}

InputIds(tx) == [i \in DOMAIN tx.ins |-> tx.ins[i].c]
\* the cells a dep entry stands for (a group expands to its members; the group cell itself must be live too)
DepCells(x, d) == IF d.grp THEN {d.c} \cup (IF \E c \in x.cells : c.id = d.c THEN Rng(Cell(x, d.c).group) ELSE {}) ELSE {d.c}
\* script groups: one per distinct lock script of the inputs, one per distinct type script of the inputs AND outputs
\* (a lock and a type group never merge, even for the same script); every group is run once
KnownInputs(x, tx) == {i \in Rng(InputIds(tx)) : \E c \in x.cells : c.id = i}
ScriptGroups(x, tx) ==
       {<<"lock", Cell(x, id).lock, Cell(x, id).args>> : id \in KnownInputs(x, tx)}
  \cup {<<"type", Cell(x, id).type, Cell(x, id).targs>> : id \in {i \in KnownInputs(x, tx) : Cell(x, i).type # "none"}}
  \cup (IF tx.otype # "none" THEN {<<"type", tx.otype, 77>>} ELSE {})

Violated(r, x, ov, e, tx) ==
  CASE r = "inputs_distinct" -> ~NoDup(InputIds(tx))
    [] r = "input_live" -> \E i \in DOMAIN tx.ins : ~LiveAt(x, ov, tx.ins[i].c)
    [] r = "dep_live"   -> \E j \in DOMAIN tx.deps : ~LiveAt(x, ov, tx.deps[j].c)
    [] r = "dep_group"  -> \E j \in DOMAIN tx.deps : tx.deps[j].grp /\ \E id \in DepCells(x, tx.deps[j]) : ~LiveAt(x, ov, id)
    [] r = "header_dep" -> \E j \in DOMAIN tx.hdeps : tx.hdeps[j].k # "main" \/ tx.hdeps[j].h > e.tip
    [] r = "capacity_sum" -> tx.sum = "over"
    [] r = "capacity_occupied" -> tx.occ = "short"
    [] r = "since_flags" -> \E i \in DOMAIN tx.ins : SinceFlagsBad(tx.ins[i].since)
    [] r = "since" -> \E i \in DOMAIN tx.ins : /\ Known(x, ov, tx.ins[i].c) /\ ~SinceFlagsBad(tx.ins[i].since)
                                               /\ SinceUnmet(x, e, tx.ins[i].c, tx.ins[i].since, TRUE)
    \* a cellbase output (not of genesis) used as input or dep needs Maturity/L epochs
    [] r = "maturity" -> \E id \in Rng(InputIds(tx)) \cup UNION {DepCells(x, tx.deps[j]) : j \in DOMAIN tx.deps} :
                            /\ IsCb(x, id) /\ Cell(x, id).born > 0
                            /\ ~GeqFrac(e.epoch, AddFrac(EpochOf(Cell(x, id).born), <<0, Maturity, L>>))
    [] r = "script" -> \E g \in ScriptGroups(x, tx) : g[2] = "fail"
    [] r = "cycles" -> (\E g \in ScriptGroups(x, tx) : g[2] = "loop") \/ Cardinality(ScriptGroups(x, tx)) * GroupCycles > MaxCycles

Must(x, ov, e, tx) == {r \in RuleNames : Violated(r, x, ov, e, tx)}
May(x, ov, e, tx) ==
  IF \E i \in DOMAIN tx.ins : /\ Known(x, ov, tx.ins[i].c) /\ ~SinceFlagsBad(tx.ins[i].since)
                              /\ SinceUnmet(x, e, tx.ins[i].c, tx.ins[i].since, FALSE)
                              /\ ~SinceUnmet(x, e, tx.ins[i].c, tx.ins[i].since, TRUE)
  THEN {"since"} ELSE {}
Verdict(x, ov, e, tx) == IF Must(x, ov, e, tx) # {} THEN "reject" ELSE IF May(x, ov, e, tx) # {} THEN "either" ELSE "accept"

-----------------------------------------------------------------------------
(* Commit positions.  In a block at height m+1 on tip m: the block itself.                            *)
BlockEnv(m) == [number |-> m + 1, epoch |-> EpochOf(m + 1), tip |-> m]
(* In the pool a fresh transaction can be proposed in m+1 and committed in m+1+WClose at the earliest; *)
(* time-based conditions are judged with what is known at the tip.                                     *)
PoolEnv(m) == [number |-> m + 1 + WClose, epoch |-> EpochOf(m), tip |-> m]
(* the epoch the pool assumes is the TIP's (conservative); the earliest possible commit lies later:    *)
(* between the two the rule text leaves the pool's answer open                                         *)
PoolEnvLate(m) == [number |-> m + 1 + WClose, epoch |-> EpochOf(m + 1 + WClose), tip |-> m]
(* A transaction whose id is ALREADY proposed on the chain: in the gap (proposed less than WClose blocks below the next   *)
(* block) the earliest commit is tip + WClose; once it is inside the window (stage Proposed) the next block can commit it. *)
PoolEnvGap(m) == [number |-> m + WClose, epoch |-> EpochOf(m + WClose), tip |-> m]
PoolEnvProposed(m) == [number |-> m + 1, epoch |-> EpochOf(m + 1), tip |-> m]
PoolVerdict(x, ov, m, tx) ==
  LET a == Verdict(x, ov, PoolEnv(m), tx)
      b == Verdict(x, ov, PoolEnvLate(m), tx)
  IN IF a = b THEN a ELSE "either"
=============================================================================
