--------------------------- MODULE Trace_OrphanTx ---------------------------
(* Trace validation: an ndjson trace recorded from the real orphan-transaction pool (g_txrelay orphan-drive)  *)
(* must be a behaviour of OrphanTx.tla; every invariant is evaluated after every event.  A Reset event starts *)
(* a new history on a new universe.  The evicted set of an Add is read from the event (the choice is open),   *)
(* the specification decides whether it is an allowed one.                                                    *)
EXTENDS OrphanTx, Json, IOUtils, TLCExt
Rec == ndJsonDeserialize(IOEnv.TRACE)
VARIABLE l
tvars == <<vars, l>>
Ev == Rec[l]
Is(e) == l <= Len(Rec) /\ Ev.ev = e /\ l' = l + 1
RangeOf(s) == {s[i] : i \in 1..Len(s)}
TInit == /\ ins = <<>> /\ nout = <<>> /\ Empty /\ l = 1
RECURSIVE SumCard(_, _)
SumCard(f, D) == IF D = {} THEN 0 ELSE LET o == CHOOSE o \in D : TRUE IN Cardinality(f[o]) + SumCard(f, D \ {o})
\* what the code reports after the operation must be what the specification computes
Observed == /\ Cardinality(DOMAIN pool') = Ev.len
            /\ Cardinality(DOMAIN byop') = Ev.idx
            /\ SumCard(byop', DOMAIN byop') = Ev.idxsum
Once(s) == Len(s) = Cardinality(RangeOf(s))
TReset == /\ Is("Reset")
          /\ ins' = [t \in 1..Len(Ev.ins) |-> RangeOf(Ev.ins[t])]
          /\ nout' = [t \in 1..Len(Ev.nout) |-> Ev.nout[t]]
          /\ now' = 0 /\ pool' = <<>> /\ byop' = <<>> /\ out' = NoOut
TAdvance == Is("Advance") /\ Advance(Ev.d)
TAdd == /\ Is("Add") /\ Add(Ev.t, Ev.peer, Ev.cycle, Ev.var, RangeOf(Ev.ret)) /\ Once(Ev.ret) /\ Observed
TRemove == /\ Is("Remove") /\ RemoveOne(Ev.t) /\ Observed
           /\ Ev.ret = Cardinality(out'.ret)
           \* the entry handed back is the one that was stored
           /\ Ev.ret = 1 => pool[Ev.t] = [peer |-> Ev.got[1], cycle |-> Ev.got[2], exp |-> Ev.got[3], var |-> Ev.got[4]]
TRemoveMany == Is("RemoveMany") /\ RemoveMany(RangeOf(Ev.ts)) /\ Observed
TFind == /\ Is("Find") /\ Find(Ev.t)
         /\ RangeOf(Ev.ret) = out'.exp      \* exactly the stored spenders of an output of t ...
         /\ Once(Ev.ret)                    \* ... each once
TGet == /\ Is("Get") /\ UNCHANGED vars
        /\ IF Ev.t \in Stored
           THEN Ev.ret = 1 /\ pool[Ev.t] = [peer |-> Ev.got[1], cycle |-> Ev.got[2], exp |-> Ev.got[3], var |-> Ev.got[4]]
           ELSE Ev.ret = 0
TNext == TReset \/ TAdvance \/ TAdd \/ TRemove \/ TRemoveMany \/ TFind \/ TGet
TSpec == TInit /\ [][TNext]_tvars
Accepted == LET d == TLCGet("stats").diameter IN
            IF d - 1 = Len(Rec) THEN TRUE
            ELSE Print(<<"TRACE-REJECTED", d, Rec[d]>>, FALSE)
=============================================================================
