SPECIFICATION HSpecGrow
CONSTANTS
 TxDef <- MCTxDef
 GenesisBlock <- MCGenesis
 CbFrom = 3
 CbOut <- MCCbOut
 NoScript = "none"
 MaxBlocks = 5
 MaxBody = 2
 BodyOK <- Ascending
 Raw <- MCRaw
 QueryScripts <- MCQueryScripts
 KeepNum = 10
 PruneInterval = 1
 AliasBug = FALSE
 Emit = TRUE
 HistLen = 5
INVARIANT EmitHist
CHECK_DEADLOCK FALSE
