SPECIFICATION Spec
CONSTANTS
  MaxSize = 3
  LargeThreshold = 3
  N = 2
  Sizes = {1, 2}
  MaxNow = 1
  Peers = {1, 2}
  Cycs = {1, 5}
  Vars = {0, 1}
  Depth = 0
  NoTies = FALSE
INVARIANT TotalExact
INVARIANT BelowLimit
INVARIANT LargeExact
PROPERTY PopOrderMC
PROPERTY AddRuleMC
VIEW StateView
CHECK_DEADLOCK FALSE
