------------------------------ MODULE Economics ------------------------------
(***************************************************************************)
(* C06 - rewards, fee split and the DAO field follow the issuance rules;    *)
(* nothing else mints.                                                      *)
(*                                                                         *)
(* A chain is a sequence ch of blocks; ch[i] is the block with number i      *)
(* (genesis, number 0, proposes and commits nothing and is never rewarded):  *)
(*   props   ids proposed in the block's proposal zone                       *)
(*   uprops  ids proposed by the uncles the block embeds                     *)
(*   commits sequence of [id, fee]: the committed transactions and their fees *)
(*   primary, g2   scheduled primary / secondary issuance of the block        *)
(*   added, freed  occupied capacity of the cells created / consumed          *)
(* Two-step confirmation (RFC 0020): a transaction committed in block c was  *)
(* proposed (by a block or one of its uncles) in [c - WFar, c - WClose].      *)
(* Its fee is split: floor(fee * 4/10) to THE proposer = the EARLIEST block   *)
(* of that window proposing it (a quantified definition - not the backwards   *)
(* walk of the implementation, which is transcribed below as WalkProposerFees *)
(* only to be compared with it), the rest to the committer.  The reward of    *)
(* block t is final once block t + WFar exists and is paid by the cellbase of *)
(* block t + WFar + 1.                                                       *)
(***************************************************************************)
EXTENDS EconomicsArith, Sequences, FiniteSets

CONSTANTS WClose, WFar      \* proposal window (closest, farthest)

Max2(a, b) == IF a >= b THEN a ELSE b
Min2(a, b) == IF a <= b THEN a ELSE b

RECURSIVE SumTo(_, _)
\* f[1] + ... + f[k]
SumTo(f, k) == IF k = 0 THEN 0 ELSE f[k] + SumTo(f, k - 1)
SumSeq(s) == SumTo(s, Len(s))

Numbers(ch) == 1..Len(ch)
AllProps(ch, p) == ch[p].props \cup ch[p].uprops
Window(ch, c) == {p \in Numbers(ch) : c - WFar <= p /\ p <= c - WClose}
Proposers(ch, c, id) == {p \in Window(ch, c) : id \in AllProps(ch, p)}
\* the earliest proposer inside the window of the commit (0: none - the commit is invalid)
Proposer(ch, c, id) ==
  IF Proposers(ch, c, id) = {} THEN 0
  ELSE CHOOSE p \in Proposers(ch, c, id) : \A q \in Proposers(ch, c, id) : p <= q

CommittedIds(ch, c) == {ch[c].commits[k].id : k \in DOMAIN ch[c].commits}
\* two-step confirmation holds on the whole chain; nothing is committed twice
ValidChain(ch) ==
  /\ \A c \in Numbers(ch) : \A k \in DOMAIN ch[c].commits :
        /\ Proposer(ch, c, ch[c].commits[k].id) # 0
        /\ \A j \in DOMAIN ch[c].commits : ch[c].commits[j].id = ch[c].commits[k].id => j = k
  /\ \A c, d \in Numbers(ch) : c # d => CommittedIds(ch, c) \cap CommittedIds(ch, d) = {}

-----------------------------------------------------------------------------
\* what block t gets of the fee of the k-th transaction committed in block c
ProposerCredit(ch, t, c, k) ==
  IF Proposer(ch, c, ch[c].commits[k].id) = t THEN ProposerShare(ch[c].commits[k].fee) ELSE 0

CommitterFees(ch, t) == SumSeq([k \in DOMAIN ch[t].commits |-> CommitterShare(ch[t].commits[k].fee)])
ProposerFeesAt(ch, t, c) == SumSeq([k \in DOMAIN ch[c].commits |-> ProposerCredit(ch, t, c, k)])
\* commits that can credit t are at heights t + WClose .. t + WFar
ProposerFees(ch, t) ==
  SumSeq([i \in 1..Max2(0, Min2(t + WFar, Len(ch)) - (t + WClose) + 1) |-> ProposerFeesAt(ch, t, t + WClose + i - 1)])

Finalised(ch, t) == t >= 1 /\ t + WFar <= Len(ch)
\* Reward(t) = primary + miner's secondary share (by the DAO field of t's parent) + committer shares + proposer shares
Reward(ch, t, parU, parC) ==
  ch[t].primary + MinerSecondary(ch[t].g2, parU, parC) + CommitterFees(ch, t) + ProposerFees(ch, t)

\* the cellbase of block b pays the reward of block b - WFar - 1 (none for b <= WFar + 1)
FinalizeTarget(b) == IF b <= WFar + 1 THEN 0 ELSE b - WFar - 1

-----------------------------------------------------------------------------
(* Properties of the rule itself (checked by TLC over every small valid chain). *)
\* per fee: proposer and committer shares sum to the fee, and exactly one block is credited the proposer share
SharesSumToFee(ch) ==
  \A c \in Numbers(ch) : \A k \in DOMAIN ch[c].commits :
     LET fee == ch[c].commits[k].fee
         credited == {t \in Numbers(ch) : Proposer(ch, c, ch[c].commits[k].id) = t}
     IN /\ Cardinality(credited) = 1
        /\ \A t \in credited : t + WClose <= c /\ c <= t + WFar
        /\ CommitterShare(fee) + SumSeq([t \in Numbers(ch) |-> ProposerCredit(ch, t, c, k)]) = fee
\* all fees of the chain are paid out, nothing more: sum of committer and proposer fees over all blocks = sum of fees
AllFees(ch) == SumSeq([c \in Numbers(ch) |-> SumSeq([k \in DOMAIN ch[c].commits |-> ch[c].commits[k].fee])])
FeesConserved(ch) == SumSeq([t \in Numbers(ch) |-> CommitterFees(ch, t) + ProposerFees(ch, t)]) = AllFees(ch)

-----------------------------------------------------------------------------
(* Named classes of commits (vacuity guard of the replay: the check demands that every class occurs on the REAL chains). *)
\* classes of the k-th commit of block c
CommitClasses(ch, c, k) ==
  LET id    == ch[c].commits[k].id
      fee   == ch[c].commits[k].fee
      P     == Proposers(ch, c, id)
      first == Proposer(ch, c, id)
      \* a later proposer T for which the commit is examined inside the walk-back loop (not at T + WFar)
      InLoop(T) == T > first /\ T + WClose <= c /\ c < T + WFar
  IN (IF c - first = WClose THEN {"commit-at-w_close"} ELSE {})
     \cup (IF c - first = WFar THEN {"commit-at-w_far"} ELSE {})
     \cup (IF (fee * RatioNum) % RatioDen # 0 THEN {"fee-share-rounded"} ELSE {})
     \cup (IF id \in ch[first].uprops /\ id \notin ch[first].props THEN {"first-proposer-is-uncle"} ELSE {})
     \* proposed by two blocks, committed inside the later one's window, the first proposal less than WFar before the commit
     \cup (IF \E T \in P : InLoop(T) /\ first > c - WFar THEN {"double-proposal-commit-inside-first-window"} ELSE {})
     \* first proposed by an uncle only, proposed again by a later block
     \cup (IF id \in ch[first].uprops /\ id \notin ch[first].props /\ (\E T \in P : InLoop(T))
             THEN {"uncle-first-then-reproposed"} ELSE {})
     \cup (IF Cardinality(P) > 1 THEN {"reproposed"} ELSE {})
Classes(ch) == UNION {UNION {CommitClasses(ch, c, k) : k \in DOMAIN ch[c].commits} : c \in Numbers(ch)}
-----------------------------------------------------------------------------
(* The search as the implementation performs it (RewardCalculator::proposal_reward): walk back from the       *)
(* block before the finalising one, collecting the proposals of ever earlier blocks as "already proposed".     *)
(* ClipAtOne = TRUE transcribes max(index - WFar, 1) as coded: for target 1 the collected block is the target   *)
(* itself (finding F8).  ClipAtOne = FALSE is the walk as intended; it must equal ProposerFees on every chain.  *)
RECURSIVE WalkFrom(_, _, _, _, _, _, _)
\* index: block whose commits are examined; tp: the target's proposals not yet seen committed; seen: proposals of earlier blocks
WalkFrom(ch, t, index, stop, tp, seen, clip) ==
  LET first   == index = t + WFar
      from    == index - WFar
      seen2   == IF first THEN seen
                 ELSE IF from >= 1 THEN seen \cup AllProps(ch, from)
                 ELSE IF clip THEN seen \cup AllProps(ch, 1) ELSE seen
      cs      == ch[index].commits
      gain    == SumSeq([k \in DOMAIN cs |-> IF cs[k].id \in tp /\ cs[k].id \notin seen2 THEN ProposerShare(cs[k].fee) ELSE 0])
      tp2     == tp \ {cs[k].id : k \in DOMAIN cs}
  IN IF index <= stop \/ tp2 = {} THEN gain
     ELSE gain + WalkFrom(ch, t, index - 1, stop, tp2, seen2, clip)
WalkProposerFees(ch, t, clip) ==
  LET blockNumber == t + WFar + 1
      stop == Max2(blockNumber - (WFar - WClose + 1), 1 + WClose)
  IN IF AllProps(ch, t) = {} THEN 0       \* (the walk starts with the commits of block t + WFar, also when that is below `stop`)
     ELSE WalkFrom(ch, t, t + WFar, stop, AllProps(ch, t), {}, clip)
WalkMatchesSpec(ch, clip) == \A t \in Numbers(ch) : Finalised(ch, t) => WalkProposerFees(ch, t, clip) = ProposerFees(ch, t)
=============================================================================
