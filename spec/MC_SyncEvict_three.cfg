SPECIFICATION MSpec
CONSTANTS
  CST = 2
  EHRT = 2
  MaxProtect = 1
  MaxPeers = 3
  MaxTD = 3
  Ticks = {3}
  MaxNow = 10
  Flags <- FlagsOut
  WithStart = FALSE
  Mut = "none"
INVARIANT TypeOK
INVARIANT IdleClean
INVARIANT InboundUntouched
INVARIANT ProtectBound
INVARIANT WorkNotAboveTip
INVARIANT TimerMatchesGhost
INVARIANT OneGetHeadersPerTimer
INVARIANT NoOverdue
PROPERTY NeverEvictCaughtUp
PROPERTY OnlyOutboundUnprotected
PROPERTY GraceRespected
PROPERTY GetHeadersRight
PROPERTY PromptGetHeaders
PROPERTY PromptEviction
PROPERTY CatchUpResets
PROPERTY BestKnownMonotone
PROPERTY RecordStable
CHECK_DEADLOCK FALSE
