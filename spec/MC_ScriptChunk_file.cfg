SPECIFICATION MCSpec
CONSTANTS
 InitGroups <- FileGroups
 Limits <- FileLimits
 Budgets <- FileBudgets
 MaxChunks = 2
 Variant = "intended"
 Emit = TRUE
 WithSignal = FALSE
INVARIANT ChunkInvariance
INVARIANT BudgetExact
INVARIANT Accounting
INVARIANT EmitHist
CHECK_DEADLOCK FALSE
