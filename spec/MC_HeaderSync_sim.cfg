SPECIFICATION Spec
CONSTANTS
  Peers = {1, 2}
  Blocks = {2, 3, 4, 5, 6}
  W = 2
  Timeout = 2
  PruneWindow = 20
  SlowWindow = 1
  Window = 4
  Limit = 4
  MaxHeaders = 2000
  OneDay = 8192
  Deltas = {1, 3}
  MaxAdv = 3
  Low0 = 1
  GH = TRUE
  Depth = 16
  Trees <- TreesAll
INVARIANT StoreOK
INVARIANT EmitBeh
CHECK_DEADLOCK FALSE
