SPECIFICATION Spec
CONSTANTS
  MaxSize = 4
  Sizes = {1, 2, 3}
  MaxAppends = 3
  Buggy = FALSE
  Emit = TRUE
INVARIANT TypeOK
INVARIANT PrefixOK
INVARIANT HandleOK
INVARIANT NoLossInv
INVARIANT EmitCrash
CHECK_DEADLOCK FALSE
