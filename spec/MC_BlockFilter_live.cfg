SPECIFICATION Spec
CONSTANTS
 MaxBlocks = 5
 Works = {1, 3}
 LiveReads = TRUE
CONSTRAINT OneSpend
INVARIANT FilterComplete
INVARIANT FilterHashChained
INVARIANT NoPanic
INVARIANT CaughtUp
CHECK_DEADLOCK FALSE
