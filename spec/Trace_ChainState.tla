---------------------------- MODULE Trace_ChainState ----------------------------
(* Trace validation for C02: an ndjson trace recorded by `c02 replay|random` from a real node must be a     *)
(* behaviour of ChainState.tla, and every observation (the projection of the store columns, read through    *)
(* get_iter from the store at quiescence - Obs - or from a published snapshot at a random instant - Snap)   *)
(* must equal the replay of the main chain / of the snapshot's chain.                                       *)
(* Rec[1] = the transaction universe; then per history: Reset, Mint, Deliver, Truncate, Obs, Snap events.   *)
EXTENDS ChainState, Json, IOUtils, TLCExt
Rec == ndJsonDeserialize(IOEnv.TRACE)

TraceTx == [i \in 1..Len(Rec[1].txs) |->
              [ins |-> ToSet(Rec[1].txs[i].ins), deps |-> ToSet(Rec[1].txs[i].deps),
               nouts |-> Rec[1].txs[i].nouts, fee |-> Rec[1].txs[i].fee]]
TraceGenesis == [i \in 1..Rec[1].ngen |-> i]

VARIABLES l,       \* cursor
          pubs     \* tips of the snapshots published so far in this history
tvars == <<vars, l, pubs>>

Ev == Rec[l]
Is(e) == l <= Len(Rec) /\ Ev.ev = e /\ l' = l + 1

\* ---- the observed columns as a db-like record
Fn(rows, K(_), V(_)) == [k \in {K(r) : r \in ToSet(rows)} |-> V(CHOOSE r \in ToSet(rows) : K(r) = k)]
ObsDb(o) ==
  LET kc(r) == <<r.t, r.i>>   vc(r) == [b |-> r.b, x |-> r.x]
      kt(r) == r.t            vt(r) == [b |-> r.b, x |-> r.x]
      kn(r) == r.n            vn(r) == r.b
      kh(r) == r.b            vh(r) == r.n
      kb(r) == r.b            vb(r) == r.p
      ke(r) == r.k            ve(r) == [n |-> r.n, s |-> r.s, l |-> r.l, p |-> r.p]
      kq(r) == r.n            vq(r) == r.p
      kx(r) == r.b            vx(r) == [td |-> r.td, ver |-> r.ver, unc |-> r.unc, fees |-> r.fees, ncyc |-> r.ncyc, nsz |-> r.nsz]
      km(r) == r.pos          vm(r) == <<r.lo, r.hi>>
  IN [ cells |-> Fn(o.cells, kc, vc), txInfo |-> Fn(o.txi, kt, vt), numIdx |-> Fn(o.num, kn, vn),
       hashIdx |-> Fn(o.hash, kh, vh), uncles |-> ToSet(o.unc), tip |-> o.tip,
       cur |-> [n |-> o.cur.n, s |-> o.cur.s, l |-> o.cur.l, p |-> o.cur.p],
       bep |-> Fn(o.bep, kb, vb), erec |-> Fn(o.erec, ke, ve), enum |-> Fn(o.enum, kq, vq),
       ext |-> Fn(o.ext, kx, vx), mmr |-> Fn(o.mmr, km, vm) ]

\* rows whose content (output, data, data hash, numbers, epoch, header, digest) disagrees with the block they name
BadRows(o) ==
  [ cells |-> {r \in ToSet(o.cells) : ~r.ok}, txi |-> {r \in ToSet(o.txi) : ~r.ok},
    mmr |-> {r \in ToSet(o.mmr) : ~r.ok}, cur |-> IF o.cur.ok THEN {} ELSE {o.cur} ]
NoBadRows(o, ch) ==
  LET b == BadRows(o) IN
  /\ b.cells = {} /\ b.txi = {} /\ b.cur = {}
  /\ {r \in b.mmr : r.pos < MmrSize(Len(ch) - 1)} = {}

\* expected view of chain ch, with the MMR nodes as number ranges
ExpectedOf(ch) ==
  LET r == Replay(ch) IN
  [r EXCEPT !.mmr = [p \in DOMAIN r.mmr |-> <<Num(r.mmr[p][1]), Num(r.mmr[p][Len(r.mmr[p])])>>]]
Columns == {"cells", "txInfo", "numIdx", "hashIdx", "uncles", "tip", "cur", "bep", "erec", "enum", "ext", "mmr"}
Field(r, c) == CASE c = "cells" -> r.cells [] c = "txInfo" -> r.txInfo [] c = "numIdx" -> r.numIdx
                 [] c = "hashIdx" -> r.hashIdx [] c = "uncles" -> r.uncles [] c = "tip" -> r.tip [] c = "cur" -> r.cur
                 [] c = "bep" -> r.bep [] c = "erec" -> r.erec [] c = "enum" -> r.enum [] c = "ext" -> r.ext
                 [] c = "mmr" -> r.mmr
\* the observation o must be the replay of chain ch (tip first: the view is taken relative to the expected chain)
CheckObs(what, o, ch) ==
  LET exp == ExpectedOf(ch) IN
  IF o.tip # exp.tip
  THEN Print(<<"OBS-MISMATCH", l, what, {"tip"}, exp.tip, o.tip>>, FALSE)
  ELSE LET got == ViewOf(ObsDb(o), ch)
           bad == {c \in Columns : Field(got, c) # Field(exp, c)}
           c1 == CHOOSE c \in bad : TRUE
       IN IF bad # {}
          THEN Print(<<"OBS-MISMATCH", l, what, bad, Field(exp, c1), Field(got, c1)>>, FALSE)
          ELSE IF ~NoBadRows(o, ch)
               THEN Print(<<"OBS-MISMATCH", l, what, {"row-content"}, BadRows(o), o.notes>>, FALSE)
               ELSE TRUE

ResClass(r) == CASE r \in {"attached", "side"} -> "ok" [] r = "dup" -> "dup" [] OTHER -> "err"

TInit == InitW(1) /\ l = 2 /\ pubs = {0}
TReset == /\ Is("Reset")
          /\ blocks' = [i \in {0} |-> GenesisBlock(Ev.w0)]
          /\ db' = GenesisDb(Ev.w0)
          /\ snap' = [tip |-> 0, td |-> Ev.w0, cur |-> [n |-> 0, s |-> 0, l |-> L, p |-> NoBlock], db |-> GenesisDb(Ev.w0)]
          /\ invalid' = {} /\ pubs' = {0}
TMint == /\ Is("Mint") /\ Ev.b = NBlocks
         /\ Mint([parent |-> Ev.p, num |-> Ev.num, commits |-> Ev.cs, uncles |-> ToSet(Ev.us), cbo |-> Ev.cbo,
                  ok |-> Ev.ok, work |-> Ev.work])
         /\ UNCHANGED pubs
TDeliver == /\ Is("Deliver") /\ Deliver(Ev.b)
            /\ IF ResClass(DeliverRes(Ev.b).res) = Ev.res THEN TRUE
               ELSE Print(<<"OBS-MISMATCH", l, "verdict", {"verdict"}, DeliverRes(Ev.b).res, Ev.res>>, FALSE)
            /\ pubs' = pubs \cup {snap'.tip}
TTruncate == Is("Truncate") /\ Truncate(Ev.b) /\ pubs' = pubs \cup {snap'.tip}
TObs == Is("Obs") /\ UNCHANGED <<vars, pubs>> /\ CheckObs("store", Ev.obs, Chain(db.tip))
TSnap == /\ Is("Snap") /\ UNCHANGED <<vars, pubs>>
         /\ IF Ev.tip \in pubs /\ Ev.stable THEN TRUE
            ELSE Print(<<"OBS-MISMATCH", l, "snapshot", {IF Ev.stable THEN "unpublished-tip" ELSE "snapshot-changed"}, pubs, Ev.tip>>, FALSE)
         /\ CheckObs("snapshot", Ev.obs, Chain(Ev.tip))
         /\ IF Ev.td = TD(Ev.tip) /\ [n |-> Ev.cur.n, s |-> Ev.cur.s, l |-> Ev.cur.l, p |-> Ev.cur.p] = EpochOf(Ev.tip) THEN TRUE
            ELSE Print(<<"OBS-MISMATCH", l, "snapshot", {"snapshot-meta"}, <<TD(Ev.tip), EpochOf(Ev.tip)>>, <<Ev.td, Ev.cur>>>>, FALSE)
TNext == TReset \/ TMint \/ TDeliver \/ TTruncate \/ TObs \/ TSnap
TSpec == TInit /\ [][TNext]_tvars
Accepted == LET d == TLCGet("stats").diameter IN
            IF d - 1 = Len(Rec) - 1 THEN TRUE
            ELSE Print(<<"TRACE-REJECTED", d + 1, Rec[d + 1].ev>>, FALSE)
=============================================================================
