SPECIFICATION Spec
CONSTANTS
 RatioNum = 4
 RatioDen = 10
 WClose = 2
 WFar = 4
INVARIANT Emit
CHECK_DEADLOCK FALSE
