SPECIFICATION Spec
CONSTANTS
 MaxBlocks = 4
 Works = {1, 2}
 WrongSize = TRUE
CONSTRAINT OneFlaw
INVARIANT TypeOK
INVARIANT CommittedRootIsAncestors
INVARIANT MainRootAfterReorg
INVARIANT NoStaleRead
INVARIANT ProofsVerifyOnlyOnOwnChain
CHECK_DEADLOCK FALSE
