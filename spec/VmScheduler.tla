------------------------------ MODULE VmScheduler ------------------------------
(***************************************************************************)
(* The multi-VM scheduler of ckb-script (script/src/scheduler.rs) over the  *)
(* program class of script/testdata/spawn_dag.c.                            *)
(*                                                                         *)
(* A DAG program is data: spawns <<from, child, fds>>, pipes <<vm, r, w>>,  *)
(* writes <<from, ffd, to, tfd, len>> over logical VM indices and pipe      *)
(* indices.  The VM with logical index i                                    *)
(*   creates its pipes, spawns its children (passing pipe ends), performs   *)
(*   the global write list restricted to itself (write if from = i, else    *)
(*   read if to = i; each looping until complete), waits for its children   *)
(*   in reverse order and exits 0; any failing syscall / closed pipe /      *)
(*   failed child makes it exit with that code.                             *)
(* The scheduler runs the runnable VM with the largest id until its next    *)
(* syscall, processes the message (spawn / pipe / read / write / wait),     *)
(* handles termination (joiners, closing fds), adds the iteration's cycles  *)
(* to the total and finally pairs blocked readers and writers (process_io). *)
(* At most MaxInst VMs are instantiated; suspending or resuming one VM      *)
(* costs S cycles.  No runnable VM = the dead-lock error.                   *)
(*                                                                         *)
(* The whole scheduler can be suspended into a snapshot and resumed (cycle  *)
(* limited chunks, pause signals): in the middle of a VM's run (CutMid) or  *)
(* when the limit is found exceeded after the VM's syscall was processed    *)
(* (CutEnd).  Suspend/resume of the scheduler charges nothing, restores the *)
(* instantiated set, and the IO of the interrupted iteration is completed.  *)
(* Property: executed VM sequence, verdict and cycle total are those of the *)
(* uninterrupted run.  Variant # "intended" transcribes a wrong mechanism   *)
(* (self-tests of the property).                                            *)
(***************************************************************************)
EXTENDS Integers, Sequences, FiniteSets, TLC

CONSTANTS Dags,      \* set of DAG programs [n, spawns, pipes, writes]
          MaxInst,   \* MAX_INSTANTIATED_VMS
          Tick,      \* cycles of one VM run between two syscalls (even: a cut may split it in the middle)
          S,         \* SPAWN_EXTRA_CYCLES_BASE
          MaxCuts,
          Variant

VARIABLES s,        \* the scheduler state (a record, so that whole iterations are operators on it)
          refout    \* outcome of the uninterrupted run of s.dag
vars == <<s, refout>>

\* error codes of the syscalls and of spawn_dag.c
INVALID_FD == 6
OTHER_END_CLOSED == 7
WAIT_FAILURE == 5
ERR_NOT_FOUND == 44
ERR_PIPE_CLOSED == 48

NoneSt == [k |-> "none", a |-> 0, n |-> 0, m |-> 0]
RunSt  == [k |-> "run", a |-> 0, n |-> 0, m |-> 0]
NoRet  == [has |-> FALSE, code |-> 0, x |-> 0, y |-> 0]
Ret(c, x, y) == [has |-> TRUE, code |-> c, x |-> x, y |-> y]
NoMsg  == [t |-> "none", a |-> 0, b |-> 0, fds |-> <<>>]
MinOf(set) == CHOOSE x \in set : \A y \in set : x <= y
MaxOf(set) == CHOOSE x \in set : \A y \in set : x >= y
RECURSIVE SeqToSet(_)
SeqToSet(q) == IF q = <<>> THEN {} ELSE {Head(q)} \cup SeqToSet(Tail(q))
Other(fd) == IF fd % 2 = 0 THEN fd + 1 ELSE fd - 1

-----------------------------------------------------------------------------
\* the program of logical VM i
MkOp(o, a, b, fds) == [op |-> o, a |-> a, b |-> b, fds |-> fds]
RECURSIVE MapPipes(_, _)
MapPipes(ps, i) == IF ps = <<>> THEN <<>>
                   ELSE (IF Head(ps).vm = i THEN <<MkOp("pipe", Head(ps).r, Head(ps).w, <<>>)>> ELSE <<>>) \o MapPipes(Tail(ps), i)
RECURSIVE MapSpawns(_, _)
MapSpawns(sp, i) == IF sp = <<>> THEN <<>>
                    ELSE (IF Head(sp).from = i THEN <<MkOp("spawn", Head(sp).child, 0, Head(sp).fds)>> ELSE <<>>) \o MapSpawns(Tail(sp), i)
RECURSIVE MapWrites(_, _)
MapWrites(ws, i) == IF ws = <<>> THEN <<>>
                    ELSE (IF Head(ws).from = i THEN <<MkOp("write", Head(ws).ffd, Head(ws).len, <<>>)>>
                          ELSE IF Head(ws).to = i THEN <<MkOp("read", Head(ws).tfd, Head(ws).len, <<>>)>> ELSE <<>>) \o MapWrites(Tail(ws), i)
Prog(dag, i) ==
  LET sp == MapSpawns(dag.spawns, i)
      waits == [j \in 1..Len(sp) |-> MkOp("wait", Len(sp) - j + 1, 0, <<>>)]     \* children in reverse order
  IN MapPipes(dag.pipes, i) \o sp \o MapWrites(dag.writes, i) \o waits \o <<MkOp("exit", 0, 0, <<>>)>>

RECURSIVE Find(_, _)
Find(tab, idx) == IF tab = <<>> THEN -1 ELSE IF Head(tab)[1] = idx THEN Head(tab)[2] ELSE Find(Tail(tab), idx)

-----------------------------------------------------------------------------
Init0(dag) ==
  LET V == 0..(dag.n - 1)
      F == 2..(2 * Len(dag.pipes) + 1)
  IN [ dag |-> dag,
       st |-> [v \in V |-> IF v = 0 THEN RunSt ELSE NoneSt],
       li |-> [v \in V |-> IF v = 0 THEN 0 ELSE -1],          \* logical index run by VM id v
       pc |-> [v \in V |-> 1],
       ptab |-> [v \in V |-> <<>>],                            \* pipe index -> fd id, as spawn_dag.c keeps it
       kids |-> [v \in V |-> <<>>],
       rwd |-> [v \in V |-> 0],                                \* bytes of the current write/read op already done
       ret |-> [v \in V |-> NoRet],                            \* result of the last syscall, not yet looked at
       mcyc |-> [v \in V |-> 0],                               \* cycles added to the machine outside its run
       fds |-> [f \in F |-> -1],                               \* owner of every open fd
       nextfd |-> 2, nextvm |-> 1,
       inst |-> {0},
       tvms |-> [v \in V |-> -1],                              \* exit codes nobody waited for yet
       total |-> 0, iterc |-> 0, half |-> FALSE,
       trace |-> <<>>, log |-> <<>>,
       status |-> "running", code |-> 0, cuts |-> 0, nmid |-> 0, nend |-> 0 ]

Vms(t) == DOMAIN t.st
Live(t) == {v \in Vms(t) : t.st[v].k \notin {"none", "term"}}

\* ensure_vms_instantiated(ids): resume the missing ones from the back while there is room, then swap each
\* remaining one against the smallest instantiated VM that is not requested; S cycles per suspend / resume
RECURSIVE EnsureA(_, _, _)
EnsureA(inst, un, c) == IF un = <<>> \/ Cardinality(inst) >= MaxInst THEN [inst |-> inst, un |-> un, c |-> c]
                        ELSE EnsureA(inst \cup {un[Len(un)]}, SubSeq(un, 1, Len(un) - 1), c + S)
RECURSIVE EnsureB(_, _, _, _)
EnsureB(inst, un, keep, c) == IF un = <<>> THEN [inst |-> inst, c |-> c]
                              ELSE LET v == MinOf(inst \ keep)
                                   IN EnsureB((inst \ {v}) \cup {un[1]}, Tail(un), keep, c + 2 * S)
Ensure(t, ids) ==
  LET un == SelectSeq(ids, LAMBDA v : v \notin t.inst)
      a == EnsureA(t.inst, un, 0)
      b == EnsureB(a.inst, a.un, SeqToSet(ids), a.c)
  IN [t EXCEPT !.inst = b.inst, !.iterc = @ + b.c]

\* boot_vm: the new VM is instantiated; the smallest instantiated ones make room
RECURSIVE Evict(_, _)
Evict(inst, c) == IF Cardinality(inst) < MaxInst THEN [inst |-> inst, c |-> c]
                  ELSE Evict(inst \ {MinOf(inst)}, c + S)

-----------------------------------------------------------------------------
\* one run of VM v up to its next syscall: first the result of the previous syscall, then the next operation
Exit(t, c) == [t |-> t, m |-> [t |-> "exit", a |-> c, b |-> 0, fds |-> <<>>]]
OpOf(t, v) == Prog(t.dag, t.li[v])[t.pc[v]]
RECURSIVE MapFind(_, _)
MapFind(tab, idxs) == IF idxs = <<>> THEN <<>> ELSE <<Find(tab, Head(idxs))>> \o MapFind(tab, Tail(idxs))

Issue(t, v) ==
  LET op == OpOf(t, v) IN
  CASE op.op = "pipe"  -> [t |-> t, m |-> [t |-> "pipe", a |-> 0, b |-> 0, fds |-> <<>>]]
    [] op.op = "spawn" -> LET ids == MapFind(t.ptab[v], op.fds) IN
                          IF \E j \in 1..Len(ids) : ids[j] = -1 THEN Exit(t, ERR_NOT_FOUND)
                          ELSE [t |-> t, m |-> [t |-> "spawn", a |-> op.a, b |-> 0, fds |-> ids]]
    [] op.op \in {"write", "read"} ->
                          LET id == Find(t.ptab[v], op.a) IN
                          IF id = -1 THEN Exit(t, ERR_NOT_FOUND)
                          ELSE [t |-> t, m |-> [t |-> op.op, a |-> id, b |-> op.b - t.rwd[v], fds |-> <<>>]]
    [] op.op = "wait"  -> [t |-> t, m |-> [t |-> "wait", a |-> t.kids[v][op.a], b |-> 0, fds |-> <<>>]]
    [] OTHER           -> Exit(t, 0)

VmRun(t, v) ==
  LET r == t.ret[v]
      op == OpOf(t, v)
      t0 == [t EXCEPT !.ret[v] = NoRet]
  IN IF ~r.has THEN Issue(t, v)
     ELSE IF r.code # 0 THEN Exit(t0, r.code)
     ELSE CASE op.op = "pipe"  -> Issue([t0 EXCEPT !.ptab[v] = @ \o << <<op.a, r.x>>, <<op.b, r.y>> >>, !.pc[v] = @ + 1], v)
            [] op.op = "spawn" -> Issue([t0 EXCEPT !.kids[v] = Append(@, r.x), !.pc[v] = @ + 1], v)
            [] op.op \in {"write", "read"} ->
                 IF r.x = 0 THEN Exit(t0, ERR_PIPE_CLOSED)
                 ELSE IF t.rwd[v] + r.x >= op.b THEN Issue([t0 EXCEPT !.rwd[v] = 0, !.pc[v] = @ + 1], v)
                 ELSE Issue([t0 EXCEPT !.rwd[v] = @ + r.x], v)
            [] op.op = "wait"  -> IF r.x # 0 THEN Exit(t0, r.x) ELSE Issue([t0 EXCEPT !.pc[v] = @ + 1], v)
            [] OTHER -> Exit(t0, 0)

-----------------------------------------------------------------------------
\* process_message_box for the single message of VM v
Msg(t, v, m) ==
  CASE m.t = "pipe" ->
         [t EXCEPT !.fds[t.nextfd] = v, !.fds[t.nextfd + 1] = v, !.nextfd = @ + 2, !.ret[v] = Ret(0, t.nextfd, t.nextfd + 1)]
    [] m.t = "spawn" ->
         IF \E j \in 1..Len(m.fds) : t.fds[m.fds[j]] # v THEN [t EXCEPT !.ret[v] = Ret(INVALID_FD, 0, 0)]
         ELSE LET id == t.nextvm
                  e == Evict(t.inst, 0)
                  ops == t.dag.spawns
                  rec == CHOOSE j \in 1..Len(ops) : ops[j].child = m.a /\ \A i \in 1..(j - 1) : ops[i].child # m.a
                  t1 == [t EXCEPT !.nextvm = @ + 1, !.inst = e.inst \cup {id}, !.iterc = @ + e.c,
                                  !.st[id] = RunSt, !.li[id] = m.a,
                                  \* the child reads its pipe table from argv: indices of its spawn record, ids passed
                                  !.ptab[id] = [j \in 1..Len(m.fds) |-> <<ops[rec].fds[j], m.fds[j]>>],
                                  !.fds = [f \in DOMAIN t.fds |-> IF \E j \in 1..Len(m.fds) : m.fds[j] = f THEN id ELSE t.fds[f]]]
                  t2 == Ensure(t1, <<v>>)          \* the spawner may have been evicted; it receives the process id
              IN [t2 EXCEPT !.ret[v] = Ret(0, id, 0)]
    [] m.t = "wait" ->
         IF m.a \in Vms(t) /\ t.tvms[m.a] # -1 THEN [t EXCEPT !.ret[v] = Ret(0, t.tvms[m.a], 0), !.tvms[m.a] = -1]
         ELSE IF m.a \notin Live(t) THEN [t EXCEPT !.ret[v] = Ret(WAIT_FAILURE, 0, 0)]
         ELSE [t EXCEPT !.st[v] = [k |-> "wait", a |-> m.a, n |-> 0, m |-> 0]]
    [] m.t \in {"read", "write"} ->
         IF t.fds[m.a] # v THEN [t EXCEPT !.ret[v] = Ret(INVALID_FD, 0, 0)]
         ELSE IF t.fds[Other(m.a)] = -1 THEN [t EXCEPT !.ret[v] = Ret(OTHER_END_CLOSED, 0, 0)]
         ELSE [t EXCEPT !.st[v] = [k |-> IF m.t = "read" THEN "rd" ELSE "wr", a |-> m.a, n |-> m.b, m |-> 0]]
    [] OTHER -> t

\* a VM returned from main with exit code c
RECURSIVE WakeJoiners(_, _, _)
WakeJoiners(t, js, c) == IF js = {} THEN t
                         ELSE LET j == MinOf(js)
                                  t1 == Ensure(t, <<j>>)
                              IN WakeJoiners([t1 EXCEPT !.st[j] = RunSt, !.ret[j] = Ret(0, c, 0)], js \ {j}, c)
Terminate(t, v, c) ==
  IF v = 0 THEN [t EXCEPT !.st = [x \in Vms(t) |-> IF x = 0 THEN [RunSt EXCEPT !.k = "term"] ELSE NoneSt],
                          !.inst = {0}, !.status = IF c = 0 THEN "ok" ELSE "fail", !.code = c]
  ELSE LET t1 == WakeJoiners([t EXCEPT !.tvms[v] = c], {j \in Vms(t) : t.st[j].k = "wait" /\ t.st[j].a = v}, c)
       IN [t1 EXCEPT !.fds = [f \in DOMAIN t1.fds |-> IF t1.fds[f] = v THEN -1 ELSE t1.fds[f]],
                     !.st[v] = NoneSt, !.inst = @ \ {v}]

\* process_io: finish reads / writes whose other end is closed, then move data of matched pairs
RECURSIVE FinishClosed(_, _)
FinishClosed(t, vs) ==
  IF vs = <<>> THEN t
  ELSE LET v == Head(vs)
           t1 == Ensure(t, <<v>>)
           len == IF t.st[v].k = "rd" THEN 0 ELSE t.st[v].m
       IN FinishClosed([t1 EXCEPT !.st[v] = RunSt, !.ret[v] = Ret(0, len, 0)], Tail(vs))
RECURSIVE Transfer(_, _)
Transfer(t, ps) ==      \* ps: sequence of <<reader, writer>> as matched on the state BEFORE any transfer
  IF ps = <<>> THEN t
  ELSE LET r == Head(ps)[1]
           w == Head(ps)[2]
           t1 == Ensure(t, <<r, w>>)
           n == IF t.st[r].n < t.st[w].n - t.st[w].m THEN t.st[r].n ELSE t.st[w].n - t.st[w].m
           cyc == (n + 3) \div 4                     \* transferred_byte_cycles, added to both machines
           t2 == [t1 EXCEPT !.mcyc[r] = @ + cyc, !.mcyc[w] = @ + cyc, !.st[r] = RunSt, !.ret[r] = Ret(0, n, 0)]
       IN Transfer(IF t.st[w].m + n = t.st[w].n
                   THEN [t2 EXCEPT !.st[w] = RunSt, !.ret[w] = Ret(0, t.st[w].n, 0)]
                   ELSE [t2 EXCEPT !.st[w].m = @ + n], Tail(ps))
RECURSIVE SortedSeq(_)
SortedSeq(set) == IF set = {} THEN <<>> ELSE <<MinOf(set)>> \o SortedSeq(set \ {MinOf(set)})
ProcessIo(t) ==
  LET rd == {v \in Vms(t) : t.st[v].k = "rd"}
      wr == {v \in Vms(t) : t.st[v].k = "wr"}
      open(v) == t.fds[Other(t.st[v].a)] # -1
      closed == SortedSeq({v \in rd : ~open(v)}) \o SortedSeq({v \in wr : ~open(v)})
      pairs == SortedSeq({w \in wr : open(w) /\ \E r \in rd : open(r) /\ t.st[r].a = Other(t.st[w].a)})
      pr == [j \in 1..Len(pairs) |-> <<CHOOSE r \in rd : t.st[r].a = Other(t.st[pairs[j]].a), pairs[j]>>]
  IN Transfer(FinishClosed(t, closed), pr)

-----------------------------------------------------------------------------
Runnable(t) == {v \in Vms(t) : t.st[v].k = "run"}
States(t) == [v \in 1..Cardinality(Vms(t)) |-> t.st[v - 1]]

\* iteration, first part: choose the VM, run it (`ticks` cycles of its own), process its message / termination,
\* add the iteration's cycles to the total
IterA(t, ticks, record) ==
  IF Runnable(t) = {} THEN [t EXCEPT !.status = "deadlock"]
  ELSE LET v == MaxOf(Runnable(t))
           t1 == Ensure(t, <<v>>)
           r == VmRun(t1, v)
           t2 == [r.t EXCEPT !.iterc = @ + ticks + t1.mcyc[v], !.mcyc[v] = 0, !.half = FALSE,
                             !.trace = IF record THEN Append(@, v) ELSE @]
           t3 == IF r.m.t = "exit" THEN Terminate(t2, v, r.m.a) ELSE Msg(t2, v, r.m)
       IN [t3 EXCEPT !.total = @ + t3.iterc, !.iterc = 0]
\* second part: pending IO
IterB(t) == IF t.status = "running" THEN ProcessIo(t) ELSE t
\* log entry: executed VM, every VM's state and the instantiated set after the iteration; inst2 = the instantiated
\* set once the next VM to run has been made ready (what a snapshot taken at this boundary records)
Logged(t) == [t EXCEPT !.log = Append(@, [vm |-> t.trace[Len(t.trace)], states |-> States(t), inst |-> SortedSeq(t.inst),
                                           left |-> t.iterc,     \* VM swap cycles of process_io, billed by the next iteration
                                           inst2 |-> IF t.status = "running" /\ Runnable(t) # {}
                                                     THEN SortedSeq(Ensure(t, <<MaxOf(Runnable(t))>>).inst) ELSE SortedSeq(t.inst)])]
Iter(t) == LET u == IterB(IterA(t, IF t.half THEN Tick \div 2 ELSE Tick, ~t.half)) IN
           IF u.status = "deadlock" THEN u ELSE Logged(u)

\* suspend the whole scheduler into a snapshot and resume it
SuspendResume(t) ==
  CASE Variant = "resume-charges"    -> [t EXCEPT !.iterc = 2 * S * Cardinality(t.inst), !.cuts = @ + 1]
    [] Variant = "inst-not-restored" -> [t EXCEPT !.iterc = 0, !.inst = {}, !.cuts = @ + 1]
    [] OTHER                         -> [t EXCEPT !.iterc = 0, !.cuts = @ + 1]

\* the limit expires while the chosen VM is running: half of its run is consumed, the rest follows after the resume
CutMid(t) ==
  LET v == MaxOf(Runnable(t))
      t1 == Ensure(t, <<v>>)
      t2 == [t1 EXCEPT !.iterc = @ + Tick \div 2 + t1.mcyc[v], !.mcyc[v] = 0, !.half = TRUE, !.trace = Append(@, v)]
      t3 == IF Variant = "lose-iteration-cycles" THEN [t2 EXCEPT !.iterc = 0]
            ELSE [t2 EXCEPT !.total = @ + t2.iterc, !.iterc = 0]
  IN SuspendResume([t3 EXCEPT !.nmid = @ + 1])
\* the limit is found exceeded after the VM's syscall has been processed
CutEnd(t) ==
  LET a == IterA(t, IF t.half THEN Tick \div 2 ELSE Tick, ~t.half) IN
  IF a.status = "deadlock" THEN a
  ELSE IF Variant = "skip-io-at-limit-suspend" THEN Logged(SuspendResume([a EXCEPT !.nend = @ + 1]))
  \* IO completed BEFORE the snapshot: the VM swaps of process_io sit in iterc and are dropped by the resume
  ELSE IF Variant = "io-before-suspend" THEN Logged(SuspendResume(IterB([a EXCEPT !.nend = @ + 1])))
  ELSE Logged(IterB(SuspendResume([a EXCEPT !.nend = @ + 1])))

Outcome(t) == [status |-> t.status, code |-> t.code, total |-> t.total, trace |-> t.trace]
RECURSIVE RunToEnd(_, _)
RunToEnd(t, fuel) == IF t.status # "running" \/ fuel = 0 THEN t ELSE RunToEnd(Iter(t), fuel - 1)
Fuel == 200

Init == \E dag \in Dags : s = Init0(dag) /\ refout = Outcome(RunToEnd(Init0(dag), Fuel))
Iterate == s.status = "running" /\ s' = Iter(s) /\ UNCHANGED refout
SuspendMid == s.status = "running" /\ ~s.half /\ s.cuts < MaxCuts /\ Runnable(s) # {} /\ s' = CutMid(s) /\ UNCHANGED refout
SuspendEnd == s.status = "running" /\ s.cuts < MaxCuts /\ s' = CutEnd(s) /\ UNCHANGED refout
Next == Iterate \/ SuspendMid \/ SuspendEnd
Spec == Init /\ [][Next]_vars

-----------------------------------------------------------------------------
\* C05 for the scheduler: where the run is suspended and resumed changes neither the executed VM sequence nor
\* the verdict nor the cycle total
SuspendInvariance == s.status # "running" => Outcome(s) = refout
\* the uninterrupted run itself ends
RefEnds == refout.status # "running"
InstBound == Cardinality(s.inst) <= MaxInst /\ s.inst \subseteq (Live(s) \cup {0})
=============================================================================
