SPECIFICATION Spec
CONSTANTS
  Peers = {1}
  Blocks = {2, 4, 6, 8}
  W = 2
  Timeout = 2
  PruneWindow = 20
  SlowWindow = 1
  Window = 1
  Limit = 2
  MaxHeaders = 2
  OneDay = 8192
  Deltas = {3}
  MaxAdv = 1
  Low0 = 1
  GH = TRUE
  Depth = 0
  Trees <- TreesLine
PROPERTY NoLimitCut
VIEW AgeView
CHECK_DEADLOCK FALSE
