---------------------------- MODULE MC_VmScheduler ----------------------------
(* Configurations of VmScheduler.tla.  The DAG programs come from a JSON file (env C05_DAGS, written by     *)
(* checks/c05.py: all small spawn trees x write lists, plus shapes whose reader / writer never shows up).   *)
(* With Emit the uninterrupted behaviour of every DAG (executed VM, every VM's state and the instantiated  *)
(* set after each iteration, verdict) is printed (REFRUN) and compared with the real Scheduler::iterate(). *)
EXTENDS VmScheduler, Json, IOUtils
CONSTANT Emit
FileDags == LET d == JsonDeserialize(IOEnv.C05_DAGS) IN {d[i] : i \in 1..Len(d)}
\* root spawns one child and writes two bytes to it
OneDag == { [n |-> 2, spawns |-> << [from |-> 0, child |-> 1, fds |-> <<0>>] >>, pipes |-> << [vm |-> 0, r |-> 0, w |-> 1] >>,
             writes |-> << [from |-> 0, ffd |-> 1, to |-> 1, tfd |-> 0, len |-> 2] >>] }
EmitRef == (Emit /\ s.status # "running" /\ s.cuts = 0)
             => PrintT(<<"REFRUN", ToJson([dag |-> s.dag, log |-> s.log, out |-> Outcome(s)])>>)
\* vacuity guard without -coverage (which makes the recursive operators of this module explode): every finished run
\* reports how many suspensions of either kind it contained
EmitEnd == (s.status # "running") => PrintT(<<"ENDRUN", ToJson([cuts |-> s.cuts, mid |-> s.nmid, end |-> s.nend, status |-> s.status])>>)
=============================================================================
