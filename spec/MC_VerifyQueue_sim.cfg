SPECIFICATION Spec
CONSTANTS
  MaxSize = 256000000
  LargeThreshold = 3
  N = 6
  Sizes = {1, 2, 3}
  MaxNow = 100000
  Peers = {1, 2}
  Cycs = {1, 5}
  Vars = {0, 1}
  Depth = 18
  NoTies = TRUE
INVARIANT TotalExact
INVARIANT EmitBeh
CHECK_DEADLOCK FALSE
