--------------------------- MODULE Judge_Economics ---------------------------
(* Judges REAL chains (recorded by harness/src/bin/c06.rs) with the operators of Economics.tla: for every block   *)
(* whose reward is final, the committer-fee and proposer-fee components the production RewardCalculator reported   *)
(* for it, and the lock its reward was paid to, against CommitterFees / ProposerFees (earliest proposer in the     *)
(* window, uncles' proposals included) / the target's own miner lock.  Fees are small numbers (< 2^31) at real     *)
(* magnitude, so TLC can evaluate this part exactly; the 10^13-sized amounts go to spec/apa/Economics_A.tla.       *)
(* One line of IOEnv.CHAINS per chain: [id, ch: <<block>>, obs: <<[b, t, cf, pf, tag]>>] with                      *)
(*   block = [props, uprops: arrays of ids, commits: array of [id, fee], miner: tag of the miner's lock]           *)
(*   obs   = block b finalises target t, calculator components cf / pf, tag of the lock of b's cellbase output      *)
EXTENDS Economics, TLC, Json, IOUtils
VARIABLE done

Recs == ndJsonDeserialize(IOEnv.CHAINS)
Range(s) == {s[i] : i \in DOMAIN s}
Norm(raw) == [i \in DOMAIN raw |-> [ props |-> Range(raw[i].props), uprops |-> Range(raw[i].uprops),
                                      commits |-> raw[i].commits, miner |-> raw[i].miner,
                                      primary |-> 0, g2 |-> 0, added |-> 0, freed |-> 0 ]]
\* the part of the proposer fees that comes from commits at heights >= from (to recognise finding F8)
ProposerFeesFrom(ch, t, from) ==
  SumSeq([i \in 1..Max2(0, Min2(t + WFar, Len(ch)) - (t + WClose) + 1) |->
            IF t + WClose + i - 1 >= from THEN ProposerFeesAt(ch, t, t + WClose + i - 1) ELSE 0])

Verdict(r) ==
  LET ch == Norm(r.ch)
  IN [ id |-> r.id,
       valid |-> ValidChain(ch) /\ SharesSumToFee(ch) /\ FeesConserved(ch),
       classes |-> Classes(ch),
       targets |-> [k \in DOMAIN r.obs |->
          LET o == r.obs[k]
          IN [ b |-> o.b, t |-> o.t,
               expected |-> o.t = FinalizeTarget(o.b) /\ Finalised(ch, o.t),
               cfSpec |-> CommitterFees(ch, o.t), cfObs |-> o.cf,
               pfSpec |-> ProposerFees(ch, o.t), pfObs |-> o.pf,
               pfLate |-> ProposerFeesFrom(ch, o.t, 1 + WFar),
               walkAsCoded |-> WalkProposerFees(ch, o.t, TRUE),
               lockOK |-> o.tag = ch[o.t].miner ]] ]

Init == done = FALSE
Next == done' = TRUE
Emit == \A i \in DOMAIN Recs : PrintT(<<"VERDICT", ToJson(Verdict(Recs[i]))>>)
Spec == Init /\ [][Next]_done
=============================================================================
