------------------------------ MODULE MC_Epoch ------------------------------
(* Exhaustive TLC configuration of Epoch.tla over SCALED constants.                               *)
(*  - the chain-of-epochs machine: every reachable epoch record x every (uncles, duration) input;   *)
(*  - Close is split into named actions by length case / hash-rate case / difficulty case, so that  *)
(*    TLC's per-action coverage shows that every clamp and rounding branch was taken;               *)
(*  - StepOK: declarative (division-free) characterisation of every one-step result;                *)
(*  - ASSUME CompactOK: the whole scaled compact/target/difficulty space.                           *)
EXTENDS Epoch, TLC
CONSTANTS MaxUncles,     \* uncles per block
          MaxMs,         \* epoch durations 0..MaxMs milliseconds
          GenLens,       \* genesis epoch lengths
          GenCompacts,   \* genesis compact targets
          GenRates,      \* genesis "previous hash rate" values
          MaxNumber,     \* epochs 0..MaxNumber-1 are closed (epoch MaxNumber is only mined)
          MaxRate        \* state constraint on the hash-rate estimate

VARIABLE br    \* observer: which branches the Close that opened the current epoch took (coverage only)
mcvars == <<vars, br>>

MCPowTab == [k \in 1..(WordDigits + 1) |-> Base ^ (k - 1)]

MCTwoTab == [k \in 1..8 |-> 2 ^ (k - 1)]

MCInit == /\ \E l \in GenLens, c \in GenCompacts, h \in GenRates : InitWith(GenesisEpoch(l, c, h))
          /\ br = [len |-> "genesis", hr |-> "genesis", diff |-> "genesis", corner |-> {}, ok |-> TRUE]

AtTail == n + 1 = e.start + e.len
Uncles == 0..(MaxUncles * e.len)
Durations == 0..MaxMs
Diff == DifficultyOfCompact(e.compact)

\* a closing of the current epoch with adjustment a, characterised without `\div` on the result
StepProps(a, u, ms) ==
    LET hps  == a.hps
        adj  == a.adj
        nlen == a.nlen
        q    == a.q
        d    == a.diff
        ne   == NextEpochOf(e, a)
        D    == DurationSec(ms)
        tgt  == CompactToTarget(ne.compact)
    IN /\ LenInBounds(nlen) /\ LenWithinFactor2(e.len, nlen)                       \* LenInBounds, LenWithinFactor2
       /\ hps * D <= Diff * (e.len + u) /\ Diff * (e.len + u) < (hps + 1) * D       \* estimate = floor(work / seconds)
       /\ HashRateClamped(adj, e.prevHR) /\ ne.prevHR = adj
       /\ (adj # hps => (hps = 0 \/ hps < e.prevHR \div Tau \/ hps > e.prevHR * Tau))  \* changed only by the clamp
       \* the estimate C with o_ideal (1+o_i) L_ideal C_i = C o_i (1+o_ideal) L_i (+ remainder) is used unless it is out of bounds
       /\ (u > 0 =>
            LET num == OrphanNum * (e.len + u) * TargetDur * e.len
                den == u * (OrphanDen + OrphanNum) * D
            IN  \/ (nlen * den <= num /\ num < (nlen + 1) * den)
                \/ (num >= (nlen + 1) * den /\ nlen = LenUpper(e.len))
                \/ (num < nlen * den /\ nlen = LenLower(e.len)))
       /\ (u = 0 => nlen = LenUpper(e.len))
       /\ IsFloorOrOne(d, q) /\ d >= 1                                              \* DiffMatchesFormula, DiffNonZero
       /\ ~tgt.overflow /\ tgt.target >= 1 /\ tgt.target <= DifficultyToTarget(d)   \* stored target never easier than the formula's
       /\ DifficultyOfCompact(ne.compact) >= d
       /\ RewardFieldsOK(ne) /\ ne.start = e.start + e.len /\ ne.number = e.number + 1
StepOK == br.ok

BranchesOf(a, u, ms) ==
  [ len  |-> a.lenCase, hr |-> a.hrCase, diff |-> a.diffCase,
    corner |-> (IF a.q.n < a.q.d THEN {"diff-forced-to-1"} ELSE {})             \* quotient below 1
          \cup (IF a.hps = 0 THEN {"rate-forced-to-1"} ELSE {})                \* estimate 0
          \cup (IF ms < MsPerSec THEN {"sub-second"} ELSE {})                  \* duration below one second
          \cup (IF (e.number + 1) % HalvingInterval = 0 THEN {"halving"} ELSE {})
          \cup (IF ScheduledPrimary(e.number + 1) % a.nlen # 0 THEN {"remainder"} ELSE {}),
    ok |-> StepProps(a, u, ms) ]

CloseEpoch == AtTail /\ e.number < MaxNumber /\ \E u \in Uncles, ms \in Durations :
                 LET a == Adjustment(e.len, e.prevHR, Diff, u, ms)
                 IN CloseTo(NextEpochOf(e, a)) /\ br' = BranchesOf(a, u, ms)

\* Mining inside an epoch, split by the branches its opening Close took: TLC's per-action coverage of these
\* (cheap) actions shows that every clamp / rounding branch of NextEpoch was exercised.
Genesis             == br.len = "genesis" /\ Mine /\ UNCHANGED br
LenNoUnclesAbs      == br.len = "len-no-uncles-abs" /\ Mine /\ UNCHANGED br
LenNoUnclesTau      == br.len = "len-no-uncles-tau" /\ Mine /\ UNCHANGED br
LenMaxAbs           == br.len = "len-max-abs" /\ Mine /\ UNCHANGED br
LenMaxTau           == br.len = "len-max-tau" /\ Mine /\ UNCHANGED br
LenMinAbs           == br.len = "len-min-abs" /\ Mine /\ UNCHANGED br
LenMinTau           == br.len = "len-min-tau" /\ Mine /\ UNCHANGED br
LenFree             == br.len = "len-free" /\ Mine /\ UNCHANGED br
HRNoPrev            == br.hr = "hr-no-prev" /\ Mine /\ UNCHANGED br
HRLow               == br.hr = "hr-low" /\ Mine /\ UNCHANGED br
HRHigh              == br.hr = "hr-high" /\ Mine /\ UNCHANGED br
HRInside            == br.hr = "hr-inside" /\ Mine /\ UNCHANGED br
DiffIdeal           == br.diff = "diff-ideal" /\ Mine /\ UNCHANGED br
DiffNoOrphans       == br.diff = "diff-no-orphans" /\ Mine /\ UNCHANGED br
DiffBoundedIdeal    == br.diff = "diff-bounded-ideal" /\ Mine /\ UNCHANGED br
DiffBoundedEstimate == br.diff = "diff-bounded-estimate" /\ Mine /\ UNCHANGED br
DiffForcedToOne     == "diff-forced-to-1" \in br.corner /\ Mine /\ UNCHANGED br
RateForcedToOne     == "rate-forced-to-1" \in br.corner /\ Mine /\ UNCHANGED br
SubSecond           == "sub-second" \in br.corner /\ Mine /\ UNCHANGED br
Halving             == "halving" \in br.corner /\ Mine /\ UNCHANGED br
Remainder           == "remainder" \in br.corner /\ Mine /\ UNCHANGED br

MCNext == \/ CloseEpoch \/ Genesis
          \/ LenNoUnclesAbs \/ LenNoUnclesTau \/ LenMaxAbs \/ LenMaxTau \/ LenMinAbs \/ LenMinTau \/ LenFree
          \/ HRNoPrev \/ HRLow \/ HRHigh \/ HRInside
          \/ DiffIdeal \/ DiffNoOrphans \/ DiffBoundedIdeal \/ DiffBoundedEstimate
          \/ DiffForcedToOne \/ RateForcedToOne \/ SubSecond \/ Halving \/ Remainder
MCSpec == MCInit /\ [][MCNext]_mcvars

Bound == e.number <= MaxNumber /\ e.prevHR <= MaxRate

-----------------------------------------------------------------------------
\* the compact format over the whole scaled word space
CompactOK ==
  /\ PowTabOK /\ TwoTabOK
  /\ \A nb \in 0..(28 * HalvingInterval) : ScheduledPrimary(nb) = InitialPrimary \div (2 ^ (nb \div HalvingInterval))
  /\ \A k \in 0..WordDigits : Pw(k) = Base ^ k
  /\ \A t \in 1..MaxWord :
       LET c == TargetToCompact(t)
           r == CompactToTarget(c)
       IN /\ ~r.overflow /\ r.target <= t /\ r.target >= 1
          /\ (t < MantSpace => r.target = t)                                       \* short targets are exact
          /\ t - r.target < Pw(Max(0, Digits(t) - MantDigits))                  \* only low digits are dropped
          /\ TargetToCompact(r.target) = c                                         \* canonical fixed point
          /\ (t < MaxWord => TargetToCompact(t) <= TargetToCompact(t + 1))         \* CompactMonotone
          /\ (t < MaxWord => TargetToDifficulty(t) >= TargetToDifficulty(t + 1))   \* difficulty antitone in target
          /\ TargetToDifficulty(t) >= 1 /\ TargetToDifficulty(t) <= MaxWord
          /\ (t > 1 => (TargetToDifficulty(t) * t <= WordSpace /\ WordSpace < (TargetToDifficulty(t) + 1) * t))
  /\ \A c \in 0..((WordDigits + 3) * MantSpace - 1) :
       LET r == CompactToTarget(c)
       IN /\ (r.overflow <=> (c % MantSpace # 0 /\ c \div MantSpace > WordDigits))
          /\ (~r.overflow /\ c \div MantSpace <= WordDigits => r.target <= MaxWord)
          /\ (DifficultyOfCompact(c) = 0 <=> (r.target = 0 \/ r.overflow))
          /\ \A h \in {0, 1, r.target - 1, r.target, r.target + 1, MaxWord} :
               h >= 0 => (PowAccept(h, c) <=> (DifficultyOfCompact(c) # 0 /\ h <= r.target))   \* PowAcceptIff
ASSUME CompactOK

\* epoch fields: packing is injective on well-formed fields and IsSuccessorOf is functional
FieldOK ==
  \A nb \in 0..(NumberSpace - 1), ix \in 0..(IndexSpace - 1), ln \in 1..(IndexSpace - 1) :
     LET f == [number |-> nb, index |-> ix, length |-> ln]
     IN FieldOf(FieldValue(nb, ix, ln)) = f
ASSUME FieldOK
=============================================================================
