SPECIFICATION Spec
CONSTANTS
 MaxTx = 2
 Buggy = TRUE
 Emit = FALSE
INVARIANT NeverADifferentBlock
CHECK_DEADLOCK FALSE
