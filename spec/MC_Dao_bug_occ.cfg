SPECIFICATION MCSpec
CONSTANTS
 RatioNum = 4
 RatioDen = 10
 Cells <- MCCells
 Cap <- MCCap
 Occ <- MCOcc
 PlainOcc = 61
 CbOcc = 61
 Dao0 <- MCDao0
 Live0 = 20000
 Variant = "occupied_part_grows"
 MaxLen = 6
 Emit = FALSE
INVARIANT Conservation
INVARIANT UExact
INVARIANT Solvent
INVARIANT ARMonotone
INVARIANT InterestNonNegative
INVARIANT PaysExactly
INVARIANT LaterPaysMore
INVARIANT LifeCycleOrder
INVARIANT EmitChain
CHECK_DEADLOCK FALSE
