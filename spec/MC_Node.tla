------------------------------ MODULE MC_Node ------------------------------
(* Small exhaustive configuration of the composition Node.tla: 2 transactions, at most MaxBlocks non-genesis blocks,  *)
(* at most MaxForks forks, blocks mined from the node's own template or arriving from elsewhere (any small proposal   *)
(* set, any valid commitment, work 1 or more: a heavier block can replace several), the pool processing the           *)
(* notifications later (at most MaxNotes outstanding), one truncation, one restart (pool kept or lost), one removal.   *)
(* The purpose is to show that the composed invariants are consistent with each other and non-vacuous.                *)
EXTENDS Node
CONSTANTS Universe,   \* "chain": a <- b;  "conflict": a and b spend the same genesis cell;  "three": a <- b and x conflicting with a
          MaxProps,   \* proposals per block arriving from elsewhere
          MaxBlocks, MaxForks, MaxNotes, Works, MaxTrunc, MaxRestart, MaxRemove, NConf,
          LagSubmit   \* TRUE: submissions also while a notification is outstanding (resolved against the lagging view)
VARIABLES pend,       \* the minted block that has not been delivered yet (-1: none)
          ntr, nrs, nrm
mcvars == <<nvars, pend, ntr, nrs, nrm>>

G(i) == <<"g", i>>
UTxs == IF Universe = "three" THEN {"a", "b", "x"} ELSE {"a", "b"}
UIns == [t \in UTxs |-> IF t = "a" \/ t = "x" THEN {G(1)} ELSE IF Universe # "conflict" THEN {<<"a", 0>>} ELSE {G(1)}]
UNone == [t \in UTxs |-> {}]
UFee == [t \in UTxs |-> IF t = "a" THEN 1 ELSE 2]
UOne == [t \in UTxs |-> 1]
UGenesis == {G(1), G(2)}
UTxNo == [t \in UTxs |-> IF t = "a" THEN 4 ELSE IF t = "b" THEN 5 ELSE 6]
UGNo == [o \in UGenesis |-> <<o[2] + 1, 0>>]
CG(n) == [ins |-> {}, deps |-> {}, nouts |-> n, fee |-> 0]
UCsTx == <<CG(1), CG(1), CG(1), [ins |-> {<<2, 0>>}, deps |-> {}, nouts |-> 1, fee |-> 1],
           [ins |-> IF Universe # "conflict" THEN {<<4, 0>>} ELSE {<<2, 0>>}, deps |-> {}, nouts |-> 1, fee |-> 2]>>
         \o (IF Universe = "three" THEN <<[ins |-> {<<2, 0>>}, deps |-> {}, nouts |-> 1, fee |-> 2]>> ELSE <<>>)
UCsGenesis == <<1, 2, 3>>
Conf12 == [maxAnc |-> 3, maxSize |-> 100, rbf |-> FALSE, rbfRate |-> 1000, close |-> 1, far |-> 2, mine |-> TRUE]
Conf23 == [maxAnc |-> 3, maxSize |-> 100, rbf |-> FALSE, rbfRate |-> 1000, close |-> 2, far |-> 3, mine |-> TRUE]

HasChild(p) == \E b \in DOMAIN blocks : b # 0 /\ blocks[b].parent = p
NForks == Cardinality({b \in DOMAIN blocks : b # 0 /\ \E o \in DOMAIN blocks : o # 0 /\ o < b /\ blocks[o].parent = blocks[b].parent})
ValidCommits(C, ch) ==
  /\ C \subseteq WindowSet(ch, conf) \ Committed(ch)
  /\ \A t \in C : /\ \A o \in Ins[t] : (LiveOnChain(o, ch) \/ Creator(o) \in C) /\ o \notin SpentBy(C \ {t})
                  /\ \A o \in Deps[t] : (LiveOnChain(o, ch) \/ Creator(o) \in C) /\ o \notin SpentBy(C)
                  /\ HDeps[t] \subseteq BlockIds(ch)
Quiet == pend = -1
Keep4 == UNCHANGED <<ntr, nrs, nrm>>

MCInit == NInit(NConf, 1, [op |-> "init"]) /\ pend = -1 /\ ntr = 0 /\ nrs = 0 /\ nrm = 0
\* the node's own template, sealed
MCMineTpl ==
  /\ Quiet /\ Synced /\ tpl.parent = Len(chain) /\ CS!NBlocks <= MaxBlocks
  /\ NMint(db.tip, tpl.props, tpl.txs, 1)
  /\ pend' = CS!NBlocks /\ Keep4
\* a block from elsewhere
MCForeign ==
  /\ Quiet /\ CS!NBlocks <= MaxBlocks /\ Len(notes) < MaxNotes
  /\ \E p \in DOMAIN blocks : \E props \in { S \in SUBSET Txs : Cardinality(S) <= MaxProps } : \E w \in Works :
       LET ch == PoolView(CS!Chain(p)) IN
       \E C \in SUBSET (WindowSet(ch, conf) \ Committed(ch)) :
          /\ ValidCommits(C, ch)
          /\ ~HasChild(p) \/ NForks < MaxForks
          /\ NMint(p, props, Topo(C, C, <<>>), w)
  /\ pend' = CS!NBlocks /\ Keep4
MCDeliver == ~Quiet /\ NDeliver(pend) /\ pend' = -1 /\ Keep4
MCSubmit == Quiet /\ (LagSubmit \/ Synced) /\ (\E t \in Txs : NSubmit(t)) /\ UNCHANGED pend /\ Keep4
MCRemove == Quiet /\ nrm < MaxRemove /\ (\E t \in Txs : NRemove(t)) /\ nrm' = nrm + 1 /\ UNCHANGED <<pend, ntr, nrs>>
MCProcess == Quiet /\ NPoolProcess /\ UNCHANGED pend /\ Keep4
MCTruncate == Quiet /\ ntr < MaxTrunc /\ Len(notes) < MaxNotes /\ (\E t \in DOMAIN blocks : NTruncate(t))
              /\ ntr' = ntr + 1 /\ UNCHANGED <<pend, nrs, nrm>>
MCRestart == Quiet /\ nrs < MaxRestart /\ (\E k \in BOOLEAN : NRestart(k)) /\ nrs' = nrs + 1 /\ UNCHANGED <<pend, ntr, nrm>>
MCNext == MCMineTpl \/ MCForeign \/ MCDeliver \/ MCSubmit \/ MCRemove \/ MCProcess \/ MCTruncate \/ MCRestart
MCSpec == MCInit /\ [][MCNext]_mcvars

\* vacuity probes (each must be VIOLATED in its own configuration): the interesting situations are reachable
VacNoReadd == ~(last.op = "reorg" /\ last.k > 0 /\ pool \ last.before # {})
VacNoProposedEntry == \A t \in pool : st[t] # "proposed"
VacNoStaleTail == Cardinality(DOMAIN db.mmr) = M!MMRSize(Len(MainIds) - 1)
VacTemplateNeverCommits == tpl.txs = <<>>
=============================================================================
