-------------------------- MODULE Trace_LightClient --------------------------
(* Trace validation for the light-client growth item: an ndjson trace recorded by `g_lightclient chain` from the REAL   *)
(* protocol server must be a behaviour of LightClient.tla: the chain evolves by MMR.Mine (the harness has checked that  *)
(* the real node's main chain is the expected one), and every request / reply pair must satisfy the ..ReplyOK relation  *)
(* of the specification, where `verified` is the verdict of the real client-side verification of the real reply         *)
(* (VerifiableHeader::is_valid, MMRProof::verify, extra hashes, CBMT proofs) and siblingRejected says that the proof     *)
(* did not carry over to a sibling header.                                                                              *)
(* Rec[1] = Header; per history Reset, then Mine / Blocks / Txs / LastState events.                                      *)
EXTENDS LightClient, Json, IOUtils, TLCExt
Rec == ndJsonDeserialize(IOEnv.TRACE)
TrGD == Rec[1].genesisDiff
TrDU == Rec[1].diffUnit
VARIABLE l
tvars == <<lvars, l>>
Ev == Rec[l]
Is(e) == l <= Len(Rec) /\ Ev.ev = e /\ l' = l + 1
SetOfSeq(s) == {s[i] : i \in 1..Len(s)}
Tx2(x) == <<x[1], x[2]>>

\* the reply as the specification speaks about it
ReplyOf(r) ==
  IF r.kind = "proof"
  THEN [kind |-> "proof", last |-> r.last,
        items |-> IF Ev.ev = "Blocks" THEN SetOfSeq(r.items)
                  ELSE IF Ev.ev = "Txs" THEN {[b |-> r.items[i].b, txs |-> {Tx2(r.items[i].txs[j]) : j \in 1..Len(r.items[i].txs)}] : i \in 1..Len(r.items)}
                  ELSE r.items,
        missing |-> IF Ev.ev = "Txs" THEN {Tx2(r.missing[i]) : i \in 1..Len(r.missing)} ELSE SetOfSeq(r.missing)]
  ELSE IF r.kind = "tip" THEN [kind |-> "tip", last |-> r.last]
  ELSE [kind |-> r.kind]
Verified(r) == r.kind = "proof" => (r.verified /\ r.siblingRejected # "no")
\* a rejected reply is reported and validation goes on (every request is judged on its own; the python side turns each
\* REPLY-REJECTED line into a violation)
Judge(ok) == IF ok THEN TRUE ELSE PrintT(<<"REPLY-REJECTED", l, Ev.ev>>)

TInit == LInit /\ l = 2
TReset == Is("Reset") /\ tree' = [b \in {0} |-> [parent |-> 0, number |-> 0, work |-> 0, ext |-> <<>>]] /\ main' = <<0>>
          /\ mmr' = <<<<0>>>> /\ bad' = {} /\ dropped' = {} /\ body' = [b \in {0} |-> SetOfSeq(Ev.genesisBody)] /\ cbn' = [b \in {0} |-> 0]
TMine == /\ Is("Mine") /\ Ev.b = NextId
         /\ LMine(Ev.parent, Ev.work, Ev.honest, SetOfSeq(Ev.txs), Ev.cb)
         /\ Judge(main' = Ev.main /\ Ev.diff = DiffUnit * Ev.work)
TBlocks == /\ Is("Blocks") /\ UNCHANGED lvars
           /\ Judge(BlocksReplyOKv(Ev.last, SetOfSeq(Ev.hs), ReplyOf(Ev.r), Verified(Ev.r)))
TTxs == /\ Is("Txs") /\ UNCHANGED lvars
        /\ Judge(TxsReplyOKv(Ev.last, {Tx2(Ev.ts[i]) : i \in 1..Len(Ev.ts)}, ReplyOf(Ev.r), Verified(Ev.r)))
TLastState == /\ Is("LastState") /\ UNCHANGED lvars
              /\ Judge(LastStateReplyOKv([last |-> Ev.last, start |-> Ev.start, startNum |-> Ev.startNum, n |-> Ev.n,
                                          boundary |-> Ev.boundary, ds |-> Ev.ds], ReplyOf(Ev.r), Verified(Ev.r)))
TNext == TReset \/ TMine \/ TBlocks \/ TTxs \/ TLastState
TSpec == TInit /\ [][TNext]_tvars
Accepted == LET d == TLCGet("stats").diameter IN
            IF d = Len(Rec) THEN TRUE ELSE Print(<<"TRACE-REJECTED", d + 1, Rec[d + 1].ev>>, FALSE)
=============================================================================
