--------------------------- MODULE MC_VerifyQueue ---------------------------
(* Small constants for VerifyQueue.tla.                                                            *)
(*  Depth = 0  exhaustive: N transactions, every size map over Sizes, every interleaving of the     *)
(*           operations with two peers + local, small / large declared cycles, proposal flag, time   *)
(*           advancing (several adds may share a millisecond).                                      *)
(*  Depth > 0  behaviours with a recorded history for replay on the real VerifyQueue (-simulate).   *)
(*           With NoTies = TRUE every Add is followed by a time step, so that the front of the      *)
(*           queue is unique and the recorded pops are the only allowed ones.                       *)
EXTENDS VerifyQueue, Json, SequencesExt
CONSTANTS N, Sizes, MaxNow, Peers, Cycs, Vars, Depth, NoTies
VARIABLE hist
mcvars == <<vars, hist>>
Ids == 1..N

MCInit == /\ size \in [Ids -> Sizes] /\ Empty /\ hist = <<>>
Rec == IF Depth = 0 THEN UNCHANGED hist
       ELSE /\ Len(hist) < Depth
            /\ hist' = Append(hist, [op |-> out'.op, t |-> out'.t, ret |-> out'.ret, small |-> out'.small,
                                     now |-> now', len |-> Cardinality(DOMAIN q'), total |-> total',
                                     arg |-> IF out'.op = "Add" /\ out'.ret = 1
                                             THEN <<IF q'[out'.t].prop THEN 1 ELSE 0, q'[out'.t].cyc, q'[out'.t].peer, q'[out'.t].var>>
                                             ELSE <<0, 0, 0, 0>>])
Tick == IF NoTies THEN now' = now + 1 ELSE UNCHANGED now
\* (in NoTies mode the Add's own UNCHANGED now is replaced by a tick)
AddT(t, prop, cyc, peer, v) ==
  IF ~NoTies THEN Add(t, prop, cyc, peer, v)
  ELSE LET present == t \in Queued
           q0      == Drop(q, {t})
           total0  == IF present THEN total - size[t] ELSE total
       IN /\ IF present /\ ~prop
             THEN /\ out' = [NoOut EXCEPT !.op = "Add", !.t = t, !.ret = 0] /\ UNCHANGED <<q, total>>
             ELSE IF size[t] + total0 >= MaxSize
             THEN /\ out' = [NoOut EXCEPT !.op = "Add", !.t = t, !.ret = 2] /\ UNCHANGED <<q, total>>
             ELSE /\ q' = Put(q0, t, [time |-> now, large |-> (peer # 0 /\ cyc > LargeThreshold), prop |-> prop,
                                      cyc |-> cyc, peer |-> peer, var |-> v])
                  /\ total' = total0 + size[t]
                  /\ out' = [NoOut EXCEPT !.op = "Add", !.t = t, !.ret = 1]
          /\ now' = now + 1 /\ UNCHANGED size
\* a proposal announcement is a local notification (remote = None) in the code (notify_txs); the structure itself
\* accepts any combination, so does the model
DoAdvance == ~NoTies /\ now < MaxNow /\ Advance(1) /\ Rec
DoAdd == /\ \E t \in Ids : \E prop \in BOOLEAN : \E peer \in Peers \cup {0} : \E cyc \in Cycs : \E v \in Vars :
              AddT(t, prop, cyc, peer, v)
         /\ Rec
DoPop == (\E small \in BOOLEAN : \E t \in Front(small) \cup (IF Front(small) = {} THEN {0} ELSE {}) : Pop(small, t)) /\ Rec
DoPeek == (\E small \in BOOLEAN : \E t \in Front(small) \cup (IF Front(small) = {} THEN {0} ELSE {}) : Peek(small, t)) /\ Rec
DoRemove == (\E t \in Ids : RemoveOne(t)) /\ Rec
DoRemoveMany == (\E S \in {S \in SUBSET Ids : Cardinality(S) = 2} : RemoveMany(S)) /\ Rec
DoRemoveByPeer == (\E p \in Peers : RemoveByPeer(p)) /\ Rec
DoClear == Clear /\ Rec
MCNext == DoAdvance \/ DoAdd \/ DoPop \/ DoPeek \/ DoRemove \/ DoRemoveMany \/ DoRemoveByPeer \/ DoClear
Spec == MCInit /\ [][MCNext]_mcvars
PopOrderMC == [][PopStep /\ PopNoneStep]_mcvars
AddRuleMC == [][AddStep]_mcvars
EmitBeh == (Len(hist) = Depth) => PrintT(<<"BEH", ToJson([size |-> size, steps |-> hist])>>)
=============================================================================
