SPECIFICATION Spec
CONSTANTS
  MaxSize = 4
  Sizes = {1, 2, 3}
  MaxAppends = 4
  Buggy = FALSE
  Emit = FALSE
INVARIANT TypeOK
INVARIANT PrefixOK
INVARIANT HandleOK
INVARIANT NoLossInv
INVARIANT EmitCrash
CHECK_DEADLOCK FALSE
