---------------------------- MODULE MC_OrphanTx ----------------------------
(* Small constants for OrphanTx.tla.                                                                *)
(*  Depth = 0  exhaustive: every universe of N transactions with <= 2 inputs each (inputs: any       *)
(*           out-point <<c, i>> of an earlier transaction or of the outside, i < 2; nout 1 or 2, so   *)
(*           index 1 may be out of range), every interleaving of the operations.                     *)
(*  Depth > 0  behaviours with a recorded history for replay on the real OrphanPool (-simulate);     *)
(*           the universe is drawn by a first Plant step.                                            *)
EXTENDS OrphanTx, Json, SequencesExt
CONSTANTS N, MaxNow, AdvSet, Depth, Vars
VARIABLE hist
mcvars == <<vars, hist>>
Ids == 1..N
Pts(t) == {<<c, i>> : c \in 0..(t - 1), i \in 0..1}
InSets(t) == {S \in SUBSET Pts(t) : Cardinality(S) \in 1..2}

MCInit == /\ IF Depth = 0 THEN ins \in [Ids -> UNION {InSets(t) : t \in Ids}] /\ (\A t \in Ids : ins[t] \in InSets(t))
                               /\ nout \in [Ids -> 1..2]
             ELSE ins = [t \in Ids |-> {}] /\ nout = [t \in Ids |-> 0]
          /\ Empty /\ hist = <<>>
Planted == Depth = 0 \/ out.op # "none"
DoPlant == /\ ~Planted
           /\ ins' = [t \in Ids |-> LET a == RandomElement(Pts(t)) b == RandomElement(Pts(t)) IN {a, b}]
           /\ nout' = [t \in Ids |-> RandomElement(1..2)]
           /\ out' = [out EXCEPT !.op = "Plant"]
           /\ UNCHANGED <<now, pool, byop, hist>>
SetSeq(S) == SetToSeq(S)
Rec == IF Depth = 0 THEN UNCHANGED hist
       ELSE /\ Len(hist) < Depth
            /\ hist' = Append(hist, [op |-> out'.op, t |-> out'.t, ret |-> SetSeq(out'.ret), exp |-> SetSeq(out'.exp), added |-> out'.added,
                                     now |-> now', len |-> Cardinality(DOMAIN pool'),
                                     arg |-> IF out'.op = "Add" /\ out'.added /\ out'.t \in DOMAIN pool'
                                             THEN <<pool'[out'.t].peer, pool'[out'.t].cycle, pool'[out'.t].var>>
                                             ELSE <<0, 0, 0>>,
                                     idx |-> Cardinality(DOMAIN byop')])
DoAdvance == Planted /\ now < MaxNow /\ (\E d \in AdvSet : Advance(d)) /\ Rec
DoAdd == /\ Planted
         /\ \E t \in Ids : \E v \in Vars : \E E \in Evictions(t) : Add(t, 1 + (t % 2), 10 * t + v, v, E)
         /\ Rec
DoRemove == Planted /\ (\E t \in Ids : RemoveOne(t)) /\ Rec
DoRemoveMany == Planted /\ (\E S \in {S \in SUBSET Ids : Cardinality(S) = 2} : RemoveMany(S)) /\ Rec
DoFind == Planted /\ (\E t \in Ids : Find(t)) /\ Rec
MCNext == DoPlant \/ DoAdvance \/ DoAdd \/ DoRemove \/ DoRemoveMany \/ DoFind
Spec == MCInit /\ [][MCNext]_mcvars

FindStep == out'.op = "Find" => out'.ret = out'.exp
FindAlways == [][FindStep]_mcvars
NoSilentLossMC == [][LossStep]_mcvars
FirstCopyStaysMC == [][KeepStep]_mcvars
FreshStep == (out'.op = "Add" /\ out'.added) => \A x \in DOMAIN pool' : pool'[x].exp > now'
NoExpiredAfterAddMC == [][FreshStep]_mcvars
\* self-test: a flat concatenation of the index sets would list some child twice (must be VIOLATED)
FlatStep == out'.op = "Find" => \A x \in out'.ret : Listings(out'.t, x) = 1
FlatListsOnceMC == [][FlatStep]_mcvars
\* replay records carry the universe as sequences
EmitBeh == (Len(hist) = Depth) =>
             PrintT(<<"BEH", ToJson([ins |-> [t \in Ids |-> SetSeq(ins[t])], nout |-> nout, steps |-> hist])>>)
=============================================================================
