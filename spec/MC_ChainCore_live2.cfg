SPECIFICATION FairSpec
CONSTANTS
  N = 2
  MaxWork = 2
  MaxDup = 1
  Verdicts = {"ok", "bad_nc", "bad_ctx"}
  Heavy = 0
  PreFix = FALSE
  Emit = FALSE
INVARIANT TypeOK
PROPERTY EventuallyJudged
PROPERTY EventuallyQuiescent
CHECK_DEADLOCK FALSE
