SPECIFICATION HSpec
CONSTANTS
  Ids = {1, 2}
  WClose = 1
  WFar = 2
  MaxLen = 6
  Blocks <- OwnBlocks
  Steps = 0
INVARIANT TypeOK
INVARIANT ViewIsWindow
INVARIANT DroppedExact
INVARIANT VerifierAgrees
INVARIANT TableCovers

CHECK_DEADLOCK FALSE
