SPECIFICATION Spec
CONSTANTS
  Ids = {1, 2, 3, 4, 5}
  Roots = {0}
  ExpiredEpoch = 6
  N = 5
  EpochSet = {0, 1}
  Tips = {6, 7, 8}
  Depth = 0
  NoMixed = FALSE
INVARIANT PoolIsParents
INVARIANT LeadersExact
INVARIANT GroupedExact
PROPERTY ReturnExactAlways
VIEW StateView
CHECK_DEADLOCK FALSE
