------------------------------- MODULE MC_C15 -------------------------------
(* C15: enumeration of small values of the CKB schema types (CkbSchema.tla, generated) with their      *)
(* canonical encodings, hash terms and mutation pairs, for replay on the real packed / jsonrpc types.  *)
(* One TLC state per <<type, case>>; the laws Dec(Enc(v)) = v, WF(Enc(v)) and the commitment table are  *)
(* invariants; Emit writes the case as a JSON file (evaluated once per distinct state).                 *)
(* The case list of a type is computed once (Init) and carried in the state -- TLC does not cache       *)
(* operator values --; Shards splits it so that several workers share one large type.                  *)
EXTENDS Hashes, CkbSchema, Json, IOUtils, TLC
CONSTANTS Types,      \* the schema types enumerated by this run
          DeepTypes,  \* types whose one-node variants are taken at EVERY depth (the hash-carrying types)
          Depth,      \* depth bound of the variants of all other types (their parts are enumerated as types of their own)
          Shards,     \* the cases of a type are dealt round-robin to this many independent chains
          DoEmit
VARIABLES ty, sh,     \* type, shard (0: not dealt yet)
          k,          \* case number within Cases(ty) (0: nothing yet; 1: the base value)
          cur,        \* the current case [path, v, enc, terms]
          rest,       \* the cases of this shard still to come: <<k, path, v>>
          baseEnc, baseTerms
vars == <<ty, sh, k, cur, rest, baseEnc, baseTerms>>

\* a value of the left type is, byte for byte, also a COMPATIBLE (never a strict) encoding of the right type
OlderVersion == [BlockV1 |-> "Block", CompactBlockV1 |-> "CompactBlock", SendBlocksProofV1 |-> "SendBlocksProof",
                 SendTransactionsProofV1 |-> "SendTransactionsProof", GetNodes2 |-> "GetNodes", Node2 |-> "Node",
                 BlockExtV1 |-> "BlockExt"]

Numbered(cs) == Tup([i \in 1..Len(cs) |-> <<i, cs[i][1], cs[i][2]>>])
Init == /\ ty \in Types /\ sh = 0 /\ k = 0 /\ cur = <<>> /\ rest = <<>> /\ baseEnc = <<>> /\ baseTerms = <<>>
\* compute the cases of the type once (in a worker)
Load == /\ sh = 0 /\ rest = <<>>
        /\ rest' = Numbered(Cases(ty, IF ty \in DeepTypes THEN 99 ELSE Depth))
        /\ baseEnc' = Enc(ty, Base(ty, 1, 0))
        /\ baseTerms' = HashTerms(ty, Base(ty, 1, 0))
        /\ UNCHANGED <<ty, sh, k, cur>>
Deal(s) == /\ sh = 0 /\ rest # <<>>
           /\ sh' = s /\ rest' = SelectSeq(rest, LAMBDA c : c[1] % Shards = s - 1)
           /\ UNCHANGED <<ty, k, cur, baseEnc, baseTerms>>
Step == /\ sh > 0 /\ rest # <<>>
        /\ LET c == Head(rest)
           IN /\ k' = c[1]
              /\ cur' = [path |-> c[2], v |-> c[3], enc |-> Enc(ty, c[3]), terms |-> HashTerms(ty, c[3])]
        /\ rest' = Tail(rest) /\ UNCHANGED <<ty, sh, baseEnc, baseTerms>>
Next == Load \/ (\E s \in 1..Shards : Deal(s)) \/ Step
Spec == Init /\ [][Next]_vars

\* the model-level laws on every enumerated value
EncOK == k = 0 \/ /\ WF(ty, cur.enc, FALSE) /\ WF(ty, cur.enc, TRUE)
                  /\ Dec(ty, cur.enc) = cur.v
                  /\ (k = 1 \/ cur.enc # baseEnc)                   \* a different value has a different encoding
OlderOK == (k = 0 \/ ty \notin DOMAIN OlderVersion) \/
           LET o == OlderVersion[ty]
           IN ~WF(o, cur.enc, FALSE) /\ WF(o, cur.enc, TRUE) /\ ExtraFields(o, cur.enc) >= 1
MovedNow == Moved(baseTerms, cur.terms)
\* the declared commitment table agrees with the hash definitions
CommitOK == (k <= 1 \/ ty \notin HashedTypes) \/
            LET tab == CommitTable(ty, cur.path) IN tab = {"NA"} \/ MovedNow = tab
Record ==
  [ty |-> ty, k |-> k, path |-> cur.path, v |-> cur.v, enc |-> cur.enc,
   older |-> IF ty \in DOMAIN OlderVersion THEN <<OlderVersion[ty]>> ELSE <<>>,
   hashes |-> cur.terms,
   moved |-> IF ty \in HashedTypes /\ k > 1 THEN MovedNow ELSE {},
   tabulated |-> ty \in HashedTypes /\ k > 1 /\ CommitTable(ty, cur.path) # {"NA"}]
\* one file per case (several workers printing to stdout interleave their lines); evaluated once per distinct state
Emit == (DoEmit /\ k >= 1) => JsonSerialize(IOEnv.C15_OUT \o "/" \o ty \o "_" \o ToString(k) \o ".json", Record)
=============================================================================
