---------------------------- MODULE MC_PeerNet ----------------------------
(* Exhaustive exploration of PeerNet.tla over a small universe, plus the p2p session layer above the registry:  *)
(* `open` = the sessions the transport still holds.  The close handler of network.rs (ServiceEvent::SessionClose) *)
(* is CloseHandler; CodedClose = TRUE models it as written (the peer store is told only when the registry still   *)
(* had the session), FALSE as intended (the peer store always forgets the closing session's peer).                *)
EXTENDS PeerNet
CONSTANTS UU,            \* the universe record
          Ticks, Pings, Ages, BanTimes, Untils, MaxNow, MaxSeq, CodedClose, WithBook
VARIABLE open            \* sid -> addr : sessions alive in the transport
mvars == <<vars, open>>
UU_reg == [peerOf |-> <<1, 2, 3, 4, 4>>, ipOf |-> <<1, 2, 2, 11, 12>>, gw |-> 10, white |-> {1}, whiteOnly |-> FALSE,
           maxIn |-> 2, maxOut |-> 1, noBR |-> FALSE]
UU_evict == [peerOf |-> <<1, 2, 3, 4, 5>>, ipOf |-> <<1, 2, 3, 11, 12>>, gw |-> 10, white |-> {}, whiteOnly |-> FALSE,
             maxIn |-> 3, maxOut |-> 0, noBR |-> TRUE]
UU_ban == [peerOf |-> <<1, 2, 3>>, ipOf |-> <<1, 1, 11>>, gw |-> 10, white |-> {3}, whiteOnly |-> FALSE,
           maxIn |-> 1, maxOut |-> 1, noBR |-> FALSE]
UU_wo == [UU_reg EXCEPT !.whiteOnly = TRUE]
UU_nobr == [UU_reg EXCEPT !.noBR = TRUE, !.white = {}]
UU_book == [peerOf |-> <<1, 2, 3>>, ipOf |-> <<1, 1, 11>>, gw |-> 10, white |-> {}, whiteOnly |-> FALSE,
            maxIn |-> 1, maxOut |-> 1, noBR |-> FALSE]
N == Len(UU.peerOf)
Addrs == 1..N
Sids == 1..MaxSeq
Nets == {<<"ip", UU.ipOf[a]>> : a \in Addrs} \cup {<<"grp", UU.ipOf[a] \div UU.gw>> : a \in Addrs}
Reqs == {{}, {1, 2, 3}}
Kinds == {"attempt", "feeler", "nat", "random"}

MInit == /\ U = UU /\ now = 10 /\ peers = <<>> /\ seq = 1 /\ connected = <<>> /\ anchors = {} /\ bans = <<>>
         /\ store = <<>> /\ out = [op |-> "none", ret |-> "ok", ev |-> 0] /\ open = <<>>

MAccept == \E a \in Addrs, raw \in {"in", "out"} :
             LET s == seq IN
             /\ seq <= MaxSeq
             /\ \E e \in {0} \cup Sessions : Accept(a, s, raw, e)
             /\ open' = IF out'.ret = "ok" THEN Put(open, s, a) ELSE open
\* a refused session bumps nothing in the registry; the model gives refused sessions no id (seq unchanged)
MClose == \E s \in DOMAIN open :
            /\ open' = Drop(open, {s})
            /\ IF s \in Sessions THEN Disconnect(s)
               ELSE IF CodedClose THEN /\ out' = [op |-> "CloseIgnored", ret |-> "ok", ev |-> 0]
                                       /\ UNCHANGED <<U, now, peers, seq, connected, anchors, bans, store>>
               ELSE IF \E t \in Sessions : Pid(peers[t].addr) = Pid(open[s])
                    THEN /\ out' = [op |-> "CloseIgnored", ret |-> "ok", ev |-> 0]
                         /\ UNCHANGED <<U, now, peers, seq, connected, anchors, bans, store>>
                    ELSE Closed(open[s])
\* each measurement is taken once per session (re-measuring adds orders, not situations)
MMeasure == \/ \E s \in Sessions, p \in Pings : peers[s].ping = INF /\ SetPing(s, p) /\ UNCHANGED open
            \/ \E s \in Sessions, g \in Ages : peers[s].age = INF /\ SetAge(s, g) /\ UNCHANGED open
MTick == \E d \in Ticks : now + d <= MaxNow /\ Tick(d) /\ UNCHANGED open
MBan == \/ \E a \in Addrs, t \in BanTimes : BanAddr(a, t, {}) /\ UNCHANGED open
        \/ \E n \in Nets, u \in Untils : BanUntil(n, u, {}) /\ UNCHANGED open
        \/ \E n \in DOMAIN bans : Unban(n) /\ UNCHANGED open
        \/ bans # <<>> /\ ClearBans /\ UNCHANGED open
        \/ \E n \in DOMAIN bans : bans[n] <= now /\ Sweep({n}) /\ UNCHANGED open
MBook == /\ WithBook
         /\ \/ \E a \in Addrs, fl \in {{0}, {1, 2, 3}} : \E R \in SUBSET Book, res \in {"ok", "full"} :
                  AddAddr(a, fl, R, res) /\ UNCHANGED open
            \/ \E a \in Addrs : AddOutbound(a, {1, 2, 3}) /\ UNCHANGED open
            \/ \E a \in Addrs : Touch(a) /\ UNCHANGED open
            \/ \E a \in Book : MarkTried(a) /\ store[a].at < 2 /\ UNCHANGED open
            \/ \E a \in Book : MarkConnected(a) /\ UNCHANGED open
            \/ \E a \in Addrs : Remove(a) /\ UNCHANGED open
MRestart == /\ open = <<>> /\ (anchors # {} \/ store # <<>> \/ bans # <<>>)
            /\ \E A \in SUBSET anchors : Restart(A) /\ UNCHANGED open
MNext == MAccept \/ MClose \/ MMeasure \/ MTick \/ MBan \/ MBook \/ MRestart
MSpec == MInit /\ [][MNext]_mvars

\* the peer store never believes in a peer the transport no longer holds
NoStaleConnected == \A p \in DOMAIN connected : \E s \in DOMAIN open : Pid(open[s]) = p
\* every answer the fetch rules can give is usable: never an address of a connected peer (attempt / feeler / nat)
FetchNeverConnected == \A k \in {"attempt", "feeler", "nat"}, r \in Reqs :
                          \A a \in Eligible(k, r) : Pid(a) \notin DOMAIN connected
\* a fetch never changes the state: instead of an action, every state is asked whether each rule has an answer
FetchAnswerExists == WithBook => \A k \in Kinds, r \in Reqs, n \in {1, 2} : \E R \in SUBSET Book : FetchOK(k, r, n, R)
\* a ban asked for until u expires at u, not later and not earlier (nothing else extends it)
BanExact == \A n \in DOMAIN bans : \A a \in Addrs : Covers(n, Ip(a)) /\ bans[n] > now => IpBanned(Ip(a))
MView == <<U, now, peers, seq, connected, anchors, bans, store, open>>
\* reachability self-tests (each must be VIOLATED: the interesting situations occur)
VacNoEviction == out.ev = 0
VacNoBR == \A s \in Sessions : peers[s].ty # "br"
VacNoBannedRefusal == out.ret # "Banned"
VacNoFull == out.ret # "full"
=============================================================================
