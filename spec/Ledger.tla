------------------------------ MODULE Ledger ------------------------------
(***************************************************************************)
(* The canonical-chain view shared by the node-level modules: a growing    *)
(* tree of blocks whose bodies are transactions over a constant universe,  *)
(* the main chain as a sequence of block ids, and the declarative folds    *)
(* Live(chain) (the live-cell set) and History(chain) (every input/output  *)
(* of every transaction, with its position).                               *)
(*                                                                         *)
(* Ids.  Blocks are 0 (genesis), 1, 2, ... in creation order.  Transactions*)
(* of the universe are the domain of TxDef; the cellbase of block b is the *)
(* id CbBase + b (it has no inputs; its outputs are tree[b].cb).  A cell   *)
(* (out-point) is <<tx, i>> with i counted from 0 as in the code.          *)
(* An input that never resolves (the null out-point of the genesis         *)
(* transactions) is simply left out of `ins`.                              *)
(*                                                                         *)
(* Minimal on purpose; extend by adding fields to the block record and new *)
(* folds, keep the existing operator names (Indexer.tla, MMR.tla use them).*)
(***************************************************************************)
EXTENDS Naturals, Sequences, FiniteSets, SequencesExt   \* Last, Range, IsPrefix, SetToSortSeq

CONSTANTS TxDef,       \* [tx id -> [ins : Seq(<<tx, i>>), outs : Seq([lock, type, cap, dlen])]]
          GenesisBlock,\* [parent |-> 0, number |-> 0, txs : Seq(tx id), cb : Seq(output)]
          CbFrom,      \* a block with number >= CbFrom pays its cellbase output (finalization delay)
          CbOut,       \* that output
          NoScript,    \* value of `type` when a cell has no type script
          MaxBlocks,   \* bound on the number of non-genesis blocks
          MaxBody,     \* bound on the number of universe transactions in one block
          BodyOK(_)    \* extra restriction on block bodies (TRUE: every valid order)

VARIABLES tree,  \* [block id -> [parent, number, txs : Seq(tx id) (without the cellbase), cb : Seq(output)]]
          main   \* the main chain: main[1] = 0, main[k+1] is a child of main[k]

CbBase == 1000

-----------------------------------------------------------------------------
(* Block and transaction structure *)
IsCb(tx)   == tx >= CbBase
Ins(tx)    == IF IsCb(tx) THEN <<>> ELSE TxDef[tx].ins
Outs(tx)   == IF IsCb(tx) THEN tree[tx - CbBase].cb ELSE TxDef[tx].outs
Out(op)    == Outs(op[1])[op[2] + 1]
Body(b)    == <<CbBase + b>> \o tree[b].txs          \* as stored: the cellbase first
Number(b)  == tree[b].number

RECURSIVE Chain(_)
Chain(b) == IF b = 0 THEN <<0>> ELSE Append(Chain(tree[b].parent), b)

OnChain(ch, b) == \E k \in DOMAIN ch : ch[k] = b
TxsOf(ch) == UNION {Range(Body(ch[k])) : k \in DOMAIN ch}
OutPointsOf(tx) == {<<tx, i - 1>> : i \in 1..Len(Outs(tx))}
Created(ch) == UNION {OutPointsOf(tx) : tx \in TxsOf(ch)}
Spent(ch)   == UNION {Range(Ins(tx)) : tx \in TxsOf(ch)}

\* the live-cell set of a chain
Live(ch) == Created(ch) \ Spent(ch)

\* <<block number, tx index>> of a transaction of the chain
Where(ch, tx) ==
  LET k == CHOOSE k \in DOMAIN ch : tx \in Range(Body(ch[k]))
      body == Body(ch[k])
  IN  <<Number(ch[k]), (CHOOSE j \in DOMAIN body : body[j] = tx) - 1>>

\* a live (or once created) cell with everything a query can observe
CellInfo(ch, op) ==
  LET w == Where(ch, op[1])  o == Out(op)
  IN  [tx |-> op[1], oi |-> op[2], bn |-> w[1], ti |-> w[2],
       lock |-> o.lock, type |-> o.type, cap |-> o.cap, dlen |-> o.dlen]
LiveCells(ch) == {CellInfo(ch, op) : op \in Live(ch)}

\* History(chain): one record per input and per output of every transaction of the chain
\* (io = 0 input, 1 output; an input carries the scripts of the cell it consumes; cellbase inputs are not listed)
History(ch) ==
  UNION { LET b == ch[k]  body == Body(b) IN
          UNION { LET tx == body[j] IN
                  {[tx |-> tx, bn |-> Number(b), ti |-> j - 1, ioi |-> i - 1, io |-> 1,
                    lock |-> Outs(tx)[i].lock, type |-> Outs(tx)[i].type] : i \in 1..Len(Outs(tx))}
                  \cup
                  {[tx |-> tx, bn |-> Number(b), ti |-> j - 1, ioi |-> i - 1, io |-> 0,
                    lock |-> Out(Ins(tx)[i]).lock, type |-> Out(Ins(tx)[i]).type] : i \in 1..Len(Ins(tx))}
                : j \in DOMAIN body }
        : k \in DOMAIN ch }

-----------------------------------------------------------------------------
(* Validity of a body on top of a chain: every transaction new to the chain, every input live *)
(* (created before, possibly earlier in the same block, and not yet spent).                   *)
RECURSIVE ValidFrom(_, _, _, _)
ValidFrom(txs, i, live, used) ==
  IF i > Len(txs) THEN TRUE
  ELSE LET tx == txs[i] IN
       /\ tx \notin used
       /\ Range(Ins(tx)) \subseteq live
       /\ Cardinality(Range(Ins(tx))) = Len(Ins(tx))
       /\ ValidFrom(txs, i + 1, (live \ Range(Ins(tx))) \cup {<<tx, k - 1>> : k \in 1..Len(TxDef[tx].outs)},
                    used \cup {tx})
ValidBody(ch, txs) == ValidFrom(txs, 1, Live(ch), TxsOf(ch))

UserTxs == {t \in DOMAIN TxDef : t \notin Range(GenesisBlock.txs)}

\* all valid bodies of at most MaxBody transactions, grown one transaction at a time
RECURSIVE BodiesUpTo(_, _)
BodiesUpTo(ch, n) ==
  IF n = 0 THEN {<<>>}
  ELSE LET prev == BodiesUpTo(ch, n - 1) IN
       prev \cup {Append(s, t) : s \in {x \in prev : Len(x) = n - 1}, t \in UserTxs}
Bodies(ch) == {s \in BodiesUpTo(ch, MaxBody) : ValidBody(ch, s) /\ BodyOK(s)}

-----------------------------------------------------------------------------
LedgerInit == /\ tree = [b \in {0} |-> GenesisBlock]
              /\ main = <<0>>

NextId == Cardinality(DOMAIN tree)

\* a new block on any existing block (any branch), with any valid body
MineBlock(p, txs) ==
  /\ NextId <= MaxBlocks
  /\ p \in DOMAIN tree
  /\ txs \in Bodies(Chain(p))
  /\ LET n == tree[p].number + 1 IN
     tree' = [b \in DOMAIN tree \cup {NextId} |->
                IF b = NextId THEN [parent |-> p, number |-> n, txs |-> txs,
                                    cb |-> IF n >= CbFrom THEN <<CbOut>> ELSE <<>>]
                ELSE tree[b]]

\* the main chain moves one block at a time (a reorganisation = detaches followed by attaches)
AttachBlock(b) == /\ b \in DOMAIN tree /\ b # 0 /\ tree[b].parent = Last(main)
                  /\ main' = Append(main, b)
DetachBlock    == /\ Len(main) > 1
                  /\ main' = SubSeq(main, 1, Len(main) - 1)

Tip == Last(main)
MainAt(n) == IF n + 1 <= Len(main) THEN main[n + 1] ELSE -1     \* number index; -1 = none

LedgerTypeOK == /\ main[1] = 0
                /\ \A k \in 2..Len(main) : tree[main[k]].parent = main[k - 1]
                /\ \A b \in DOMAIN tree : b # 0 => /\ tree[b].parent \in DOMAIN tree /\ tree[b].parent < b
                                                   /\ tree[b].number = tree[tree[b].parent].number + 1
=============================================================================
