SPECIFICATION MCSpec
CONSTANTS
  Tx <- MCTx
  GenesisTxs <- MCGenesis
  L = 2
  CbBase = 100
  Bug = "none"
  Universe = "A"
  MaxBlocks = 3
  MaxCommits = 2
  MaxBad = 1
  MaxTrunc = 1
  CbFrom = 2
  MaxForks = 9
  Uncles = TRUE
  Emit = FALSE
VIEW mcvars
INVARIANT ReplayConsistent
INVARIANT SnapshotConsistent
INVARIANT OnlyValidAttached
INVARIANT EmitHist
CHECK_DEADLOCK FALSE
