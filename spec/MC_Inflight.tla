---------------------------- MODULE MC_Inflight ----------------------------
(* Small constants for Inflight.tla.                                                               *)
(*  Free = TRUE   exhaustive exploration of the specification as it stands: Prune may evict ANY    *)
(*                subset of the tracked peers, so every eviction policy is covered.                *)
(*  Free = FALSE  the scheduling policy is refined to the one the code implements today (task      *)
(*                counts `tc`: start InitTC, +2/+1/-1 by answer time, >>2 per download time-out,   *)
(*                >>1 per slow-block time-out, punishments only while more than Protect peers are  *)
(*                tracked, eviction at task count 0).  The refinement only selects WHICH           *)
(*                behaviours of the specification can be replayed step by step on the real         *)
(*                InflightBlocks; a drift of the real policy away from it is not a violation.      *)
(*  Depth > 0     record the history and print it at length Depth (run with -simulate).            *)
EXTENDS Inflight, Json, SequencesExt
CONSTANTS Deltas, MaxAdv, Tips, InitTC, MaxTC, Protect, Fast, Normal, Low0, Depth, Free,
          EmitAll       \* FALSE: print only the behaviours that enter the region of the named deviation (stale entries)
VARIABLES tc, adv, hist
mcvars == <<vars, tc, adv, hist>>

Min2(a, b) == IF a < b THEN a ELSE b
RECURSIVE Pow2(_)
Pow2(k) == IF k = 0 THEN 1 ELSE 2 * Pow2(k - 1)
Shr(x, k) == x \div Pow2(k)
Punishing == Cardinality(Tracked) > Protect
Dec(t, n) == IF t + n > 2 /\ t > 0 THEN t - 1 ELSE t
Adj(t, e) == IF e <= Fast THEN Min2(t + 2, MaxTC)
             ELSE IF e <= Normal THEN Min2(t + 1, MaxTC)
             ELSE IF ~Punishing THEN t
             ELSE IF e > low THEN Dec(t, 2) ELSE Dec(t, 1)

StSeq == SetToSeq({[b |-> b, peer |-> st'[b].peer, ts |-> st'[b].ts] : b \in DOMAIN st'})
ScSeq == SetToSeq({[p |-> p, hashes |-> SetToSeq(sched'[p]), tc |-> IF Free THEN 0 ELSE tc'[p]] : p \in DOMAIN sched'})
TrSeq == SetToSeq({[b |-> b, t |-> trace'[b]] : b \in DOMAIN trace'})
Rec(x, y) == IF Depth = 0 THEN UNCHANGED hist
             ELSE /\ Len(hist) < Depth
                  /\ hist' = Append(hist, [op |-> out'.op, x |-> x, y |-> y,
                                           ret |-> IF out'.op = "Prune" THEN Cardinality(out'.ret) ELSE out'.ret,
                                           evicted |-> IF out'.op = "Prune" THEN SetToSeq(out'.ret) ELSE <<>>,
                                           now |-> now', st |-> StSeq, sched |-> ScSeq, trace |-> TrSeq,
                                           restart |-> restart', stale |-> SetToSeq(stale')])

MCInit == Start(Low0) /\ tc = <<>> /\ adv = 0 /\ hist = <<>>

DoAdvance == \E d \in Deltas : /\ adv < MaxAdv /\ Advance(d) /\ adv' = adv + 1 /\ tc' = tc /\ Rec(d, 0)
DoInsert == \E p \in Peers, b \in Blocks :
              /\ Insert(p, b)
              /\ tc' = IF ~Free /\ b \notin DOMAIN st /\ p \notin Tracked THEN Put(tc, p, InitTC) ELSE tc
              /\ adv' = adv /\ Rec(p, b)
DoRemoveByBlock == \E b \in Blocks :
              /\ RemoveByBlock(b, low)
              /\ tc' = IF ~Free /\ b \in DOMAIN st /\ st[b].peer \in Tracked
                       THEN [tc EXCEPT ![st[b].peer] = Adj(@, now - st[b].ts)] ELSE tc
              /\ adv' = adv /\ Rec(b, 0)
DoRemoveByPeer == \E p \in Peers :
              /\ RemoveByPeer(p)
              /\ tc' = Drop(tc, {p})
              /\ adv' = adv /\ Rec(p, 0)
DoMarkSlow == \E tip \in Tips : MarkSlow(tip) /\ UNCHANGED <<tc, adv>> /\ Rec(tip, 0)
DoPrune == \E tip \in Tips :
   IF Free
   THEN \E E \in SUBSET Tracked : Prune(tip, E) /\ UNCHANGED <<tc, adv>> /\ Rec(tip, 0)
   ELSE LET TO   == TimedOut(tip)
            n1(p) == Cardinality({b \in TO : st[b].peer = p})
            tc1  == [p \in Tracked |-> IF Punishing THEN Shr(tc[p], 2 * n1(p)) ELSE tc[p]]
            E    == {p \in Tracked : tc1[p] = 0}
            tr1  == Drop(trace, TO)
            X    == {b \in DOMAIN tr1 : now > low + tr1[b]}
            n4(p) == Cardinality({b \in X \ TO : b \in DOMAIN st /\ st[b].peer = p})
        IN /\ Prune(tip, E)
           /\ tc' = [p \in Tracked \ E |-> IF Punishing THEN Shr(tc1[p], n4(p)) ELSE tc1[p]]
           /\ adv' = adv /\ Rec(tip, 0)

MCNext == DoAdvance \/ DoInsert \/ DoRemoveByBlock \/ DoRemoveByPeer \/ DoMarkSlow \/ DoPrune
Spec == MCInit /\ [][MCNext]_mcvars

\* exhaustive runs: behaviour depends on time differences only, and `out` is an output; states that differ
\* only by a time shift or by the label of the last operation are explored once
AgeView == <<[b \in DOMAIN st |-> <<st[b].peer, now - st[b].ts>>], sched, [b \in DOMAIN trace |-> now - trace[b]],
             restart, low, stale, tc, adv>>
EmitBeh == (Len(hist) = Depth /\ (EmitAll \/ \E i \in 1..Len(hist) : hist[i].stale # <<>>))
              => PrintT(<<"BEH", ToJson([protect |-> Protect, steps |-> hist])>>)
\* vacuity guards, evaluated by TLC: the named deviation and the slow-block time-out are reachable
SomeStale == stale = {}       \* expected to be VIOLATED in a dedicated run (reachability witness)
=============================================================================
