SPECIFICATION Spec
CONSTANTS
  N = 40
  Lens = {2, 3}
  GenesisLen = 3
  Period = 3
  Starts = {0, 2, 4}
  Timeouts = {8, 11}
  MinActs = {0, 11, 14}
  Thresholds <- ThrAll
  Coded = FALSE
  Queries = FALSE
  Emit = TRUE
INVARIANT TypeOK
INVARIANT EmitTree
CHECK_DEADLOCK FALSE
