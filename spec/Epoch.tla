------------------------------- MODULE Epoch -------------------------------
(***************************************************************************)
(* C07 - epoch length, difficulty and per-block issuance arithmetic.        *)
(*                                                                         *)
(* Written from RFC 0020 (dynamic difficulty adjustment), RFC 0015 (issuance, *)
(* halving), RFC 0027 (compact target, epoch field) and the property text;   *)
(* all arithmetic is exact: rationals are pairs of integers, `\div` appears  *)
(* only where the rules ask for an integer (hash-rate estimate, length,      *)
(* difficulty, per-block reward).  The module is used three ways:            *)
(*   * TLC explores the chain-of-epochs machine below over SCALED constants  *)
(*     (MC_Epoch.tla): every reachable epoch x every (uncles, duration);      *)
(*   * Apalache evaluates the same operators at REAL magnitude (u64 / U256)  *)
(*     on (input, output) records observed from the Rust code                *)
(*     (spec/apa/Epoch_A.tla, generated case modules);                       *)
(*   * the operators are reused by Economics.tla (C06).                      *)
(* Apalache type annotations are comments for TLC.                           *)
(***************************************************************************)
EXTENDS Integers, Sequences, FiniteSets

CONSTANTS
  \* @type: Int;
  MinLen,           \* consensus minimum epoch length            (300)
  \* @type: Int;
  MaxLen,           \* consensus maximum epoch length            (1800)
  \* @type: Int;
  TargetDur,        \* L_ideal: epoch duration target in seconds (14400)
  \* @type: Int;
  OrphanNum,        \* o_ideal numerator                         (1)
  \* @type: Int;
  OrphanDen,        \* o_ideal denominator                       (40)
  \* @type: Int;
  Tau,              \* dampening factor                          (2)
  \* @type: Int;
  MsPerSec,         \* timestamps are milliseconds               (1000)
  \* @type: Int;
  InitialPrimary,   \* primary issuance per epoch before the first halving
  \* @type: Int;
  Secondary,        \* secondary issuance per epoch
  \* @type: Int;
  HalvingInterval,  \* epochs between halvings                   (8760)
  \* @type: Int;
  Base,             \* digit base of the compact format          (256)
  \* @type: Int;
  MantDigits,       \* digits of the mantissa                    (3)
  \* @type: Int;
  WordDigits,       \* digits of a hash / target / difficulty    (32)
  \* @type: Seq(Int);
  PowTab,           \* PowTab[k + 1] = Base^k for k = 0..WordDigits (a table: SMT solvers cannot take powers with a computed exponent)
  \* @type: Seq(Int);
  TwoTab,           \* TwoTab[k + 1] = 2^k, up to the first power of two above InitialPrimary (same reason)
  \* @type: Int;
  NumberSpace,      \* epoch-field: values of the number part    (2^24)
  \* @type: Int;
  IndexSpace        \* epoch-field: values of index and of length (2^16)

\* @type: (Int, Int) => Int;
Max(a, b) == IF a >= b THEN a ELSE b
\* @type: (Int, Int) => Int;
Min(a, b) == IF a <= b THEN a ELSE b

-----------------------------------------------------------------------------
(* Exact non-negative rationals n/d, d > 0.  Never reduced: exact integers need no reduction.          *)
(* Style note: chains of rational operations are written as LET sequences of named intermediate values. *)
(* Apalache expands operator applications in place, so an argument that is itself a big expression      *)
(* would be copied once per use of the parameter (RMul uses each argument twice: nested calls double).  *)
\* @type: (Int, Int) => {n: Int, d: Int};
Rat(n, d) == [n |-> n, d |-> d]
\* @type: (Int) => {n: Int, d: Int};
RI(k) == Rat(k, 1)
\* @type: ({n: Int, d: Int}, {n: Int, d: Int}) => {n: Int, d: Int};
RAdd(x, y) == Rat(x.n * y.d + y.n * x.d, x.d * y.d)
\* @type: ({n: Int, d: Int}, {n: Int, d: Int}) => {n: Int, d: Int};
RMul(x, y) == Rat(x.n * y.n, x.d * y.d)
\* x / y, y # 0
\* @type: ({n: Int, d: Int}, {n: Int, d: Int}) => {n: Int, d: Int};
RDiv(x, y) == Rat(x.n * y.d, x.d * y.n)
\* max(x - y, 0)
\* @type: ({n: Int, d: Int}, {n: Int, d: Int}) => {n: Int, d: Int};
RMonus(x, y) == IF x.n * y.d >= y.n * x.d THEN Rat(x.n * y.d - y.n * x.d, x.d * y.d) ELSE Rat(0, 1)
\* @type: ({n: Int, d: Int}) => Bool;
RIsZero(x) == x.n = 0
\* @type: ({n: Int, d: Int}) => Int;
RFloor(x) == x.n \div x.d

-----------------------------------------------------------------------------
(* Compact target format (RFC 0027): a word of WordDigits base-Base digits is written as        *)
(* exponent * Base^MantDigits + mantissa, meaning mantissa * Base^(exponent - MantDigits).        *)
\* @type: (Int) => Int;
Pw(k) == PowTab[k + 1]
PowTabOK == /\ Len(PowTab) = WordDigits + 1 /\ PowTab[1] = 1
            /\ \A k \in 1..WordDigits : PowTab[k + 1] = PowTab[k] * Base
MantSpace == Pw(MantDigits)
WordSpace == Pw(WordDigits)              \* 2^256
MaxWord   == WordSpace - 1

\* @type: (Int) => {target: Int, overflow: Bool};
CompactToTarget(c) ==
  LET ex == c \div MantSpace
      m  == c % MantSpace
  IN [ target   |-> IF m = 0 \/ ex > WordDigits THEN 0       \* (when it overflows `target` is meaningless)
                     ELSE IF ex <= MantDigits THEN m \div Pw(MantDigits - ex) ELSE m * Pw(ex - MantDigits),
       overflow |-> m # 0 /\ ex > WordDigits ]      \* the value does not fit a word

\* number of base-Base digits of t (0 for t = 0)
\* @type: (Int) => Int;
Digits(t) == CHOOSE k \in 0..WordDigits : t < Pw(k) /\ (k = 0 \/ t >= Pw(k - 1))

\* the largest compact value not above t: keep the MantDigits most significant digits
\* @type: (Int) => Int;
TargetToCompact(t) ==
  LET k == Digits(t)
      m == IF k <= MantDigits THEN t * Pw(MantDigits - k) ELSE t \div Pw(k - MantDigits)
  IN k * MantSpace + m

\* difficulty = floor(2^256 / target); 2^256 itself is not a word: saturate (target = 1 <-> difficulty = 1)
\* @type: (Int) => Int;
Reciprocal(x) == IF x = 1 THEN MaxWord ELSE WordSpace \div x
\* @type: (Int) => Int;
TargetToDifficulty(t) == Reciprocal(t)
\* @type: (Int) => Int;
DifficultyToTarget(d) == Reciprocal(d)
\* an unusable compact value (zero target or overflow) has difficulty 0
\* @type: (Int) => Int;
DifficultyOfCompact(c) ==
  LET r == CompactToTarget(c) IN IF r.target = 0 \/ r.overflow THEN 0 ELSE TargetToDifficulty(r.target)
\* @type: (Int) => Int;
CompactOfDifficulty(d) == LET t == DifficultyToTarget(d) IN TargetToCompact(t)

\* proof of work is accepted exactly when the header hash does not exceed a usable target
\* @type: (Int, Int) => Bool;
PowAccept(hash, c) ==
  LET r == CompactToTarget(c) IN r.target # 0 /\ ~r.overflow /\ hash <= r.target

-----------------------------------------------------------------------------
(* Epoch field of a header: <<number, index, length>> packed into one integer. *)
\* @type: (Int, Int, Int) => Int;
FieldValue(number, index, length) == number + index * NumberSpace + length * (NumberSpace * IndexSpace)
\* @type: (Int) => {number: Int, index: Int, length: Int};
FieldOf(v) == [ number |-> v % NumberSpace,
                index  |-> (v \div NumberSpace) % IndexSpace,
                length |-> (v \div (NumberSpace * IndexSpace)) % IndexSpace ]
\* @type: ({number: Int, index: Int, length: Int}) => Bool;
IsWellFormed(f) == f.length > 0 /\ f.index < f.length
\* s is the field of the block directly after a block with the (well-formed) field p
\* @type: ({number: Int, index: Int, length: Int}, {number: Int, index: Int, length: Int}) => Bool;
IsSuccessorOf(s, p) ==
  \/ p.index + 1 < p.length /\ s.number = p.number /\ s.index = p.index + 1 /\ s.length = p.length
  \/ p.index + 1 = p.length /\ s.number = p.number + 1 /\ s.index = 0

-----------------------------------------------------------------------------
(* Issuance (RFC 0015): primary issuance per epoch halves every HalvingInterval epochs;       *)
(* inside an epoch of length len every block gets floor(R/len), the first R mod len one more. *)
\* 2^h, or any power of two above InitialPrimary when 2^h is above it as well (the quotient below is 0 either way)
\* @type: (Int) => Int;
TwoPow(h) == IF h < Len(TwoTab) THEN TwoTab[h + 1] ELSE TwoTab[Len(TwoTab)]
TwoTabOK == /\ Len(TwoTab) >= 1 /\ TwoTab[1] = 1 /\ TwoTab[Len(TwoTab)] > InitialPrimary
            /\ \A k \in 1..(Len(TwoTab) - 1) : TwoTab[k + 1] = 2 * TwoTab[k]
\* @type: (Int) => Int;
ScheduledPrimary(number) == LET h == number \div HalvingInterval IN InitialPrimary \div TwoPow(h)
\* share of block n of an epoch (start, len) issuing `total`
\* @type: (Int, Int, Int, Int) => Int;
BlockShare(total, start, len, n) ==
  (total \div len) + (IF n >= start /\ n < start + (total % len) THEN 1 ELSE 0)
\* e = epoch record (number, start, len, base, rem, ...)
\* @type: ({number: Int, start: Int, len: Int, base: Int, rem: Int, prevHR: Int, compact: Int}, Int) => Int;
BlockReward(e, n) == e.base + (IF n >= e.start /\ n < e.start + e.rem THEN 1 ELSE 0)
\* @type: ({number: Int, start: Int, len: Int, base: Int, rem: Int, prevHR: Int, compact: Int}, Int) => Int;
SecondaryIssuance(e, n) == BlockShare(Secondary, e.start, e.len, n)
\* the epoch record carries its primary issuance as base * len + rem with rem < len
\* @type: ({number: Int, start: Int, len: Int, base: Int, rem: Int, prevHR: Int, compact: Int}) => Bool;
RewardFieldsOK(e) == e.len > 0 /\ e.rem < e.len /\ e.base * e.len + e.rem = ScheduledPrimary(e.number)

-----------------------------------------------------------------------------
(* Next epoch (RFC 0020).  Inputs: the closing epoch (length len, `uncles` uncles, duration ms  *)
(* in milliseconds, difficulty diff, previous adjusted hash-rate estimate prev).                *)
\* @type: (Int) => Int;
DurationSec(ms) == Max(ms \div MsPerSec, 1)

\* (1) hash-rate estimate: all work of the epoch (main chain + uncles) over its duration
\* @type: (Int, Int, Int, Int) => Int;
HashRateEstimate(diff, len, uncles, ms) == LET s == DurationSec(ms) IN (diff * (len + uncles)) \div s

\* dampened to a factor Tau of the previous estimate (prev = 0: there is none), never 0
\* @type: (Int, Int) => Str;
HashRateCase(hps, prev) ==
  IF prev = 0 THEN "hr-no-prev"
  ELSE IF hps < prev \div Tau THEN "hr-low"
  ELSE IF hps > prev * Tau THEN "hr-high"
  ELSE "hr-inside"
\* @type: (Int, Int) => Int;
AdjustedHashRate(hps, prev) ==
  LET c == HashRateCase(hps, prev)
      r == IF c = "hr-low" THEN prev \div Tau ELSE IF c = "hr-high" THEN prev * Tau ELSE hps
  IN Max(1, r)

\* (2) main-chain blocks of the next epoch
OrphanIdeal == Rat(OrphanNum, OrphanDen)
\* @type: (Int, Int) => {n: Int, d: Int};
OrphanRate(len, uncles) == Rat(uncles, len)
\* o_ideal (1 + o_i) L_ideal C_i / (o_i (1 + o_ideal) L_i), uncles > 0
\* @type: (Int, Int, Int) => Int;
LengthEstimate(len, uncles, ms) ==
  LET o    == OrphanRate(len, uncles)
      o1   == RAdd(o, RI(1))                      \* 1 + o_i
      n1   == RMul(OrphanIdeal, o1)
      n2   == RMul(n1, RI(TargetDur))
      num  == RMul(n2, RI(len))                   \* o_ideal (1 + o_i) L_ideal C_i
      i1   == RAdd(OrphanIdeal, RI(1))            \* 1 + o_ideal
      d1   == RMul(o, i1)
      den  == RMul(d1, RI(DurationSec(ms)))       \* o_i (1 + o_ideal) L_i
      quot == RDiv(num, den)
  IN RFloor(quot)
\* @type: (Int) => Int;
LenUpper(len) == Min(MaxLen, len * Tau)
\* @type: (Int) => Int;
LenLower(len) == Max(MinLen, len \div Tau)
\* without uncles the estimate is unbounded: the upper bound applies
\* @type: (Int, Int, Int) => Str;
LengthCase(len, uncles, ms) ==
  IF uncles = 0 THEN (IF MaxLen <= len * Tau THEN "len-no-uncles-abs" ELSE "len-no-uncles-tau")
  ELSE LET raw == LengthEstimate(len, uncles, ms)
       IN IF raw > LenUpper(len) THEN (IF MaxLen <= len * Tau THEN "len-max-abs" ELSE "len-max-tau")
          ELSE IF raw < LenLower(len) THEN (IF MinLen >= len \div Tau THEN "len-min-abs" ELSE "len-min-tau")
          ELSE "len-free"
\* @type: (Str, Int, Int, Int) => Int;
LengthIn(lenCase, len, uncles, ms) ==
  IF lenCase \in {"len-no-uncles-abs", "len-no-uncles-tau", "len-max-abs", "len-max-tau"} THEN LenUpper(len)
  ELSE IF lenCase \in {"len-min-abs", "len-min-tau"} THEN LenLower(len)
  ELSE LengthEstimate(len, uncles, ms)
\* @type: (Int, Int, Int) => Int;
NextLength(len, uncles, ms) == LengthIn(LengthCase(len, uncles, ms), len, uncles, ms)

\* (3) difficulty: hash rate * L_ideal / ((1 + o') * C') where o' is the orphan rate expected in the next
\* epoch: o_ideal when the length is the estimate; when the length had to be bounded to C',
\*   o' = 1 / ((1 + o_i) L_ideal C_i / (o_i L_i C') - 1), or o_ideal where that is not positive; 0 without uncles.
\* @type: (Int, Int, Int, Int) => {n: Int, d: Int};
BoundedOrphanRecip(len, uncles, ms, nlen) ==
  LET o    == OrphanRate(len, uncles)
      o1   == RAdd(o, RI(1))
      n1   == RMul(o1, RI(TargetDur))
      num  == RMul(n1, RI(len))                   \* (1 + o_i) L_ideal C_i
      d1   == RMul(o, RI(DurationSec(ms)))
      den  == RMul(d1, RI(nlen))                  \* o_i L_i C'
      quot == RDiv(num, den)
  IN RMonus(quot, RI(1))
\* @type: (Str, Int, Int, Int, Int) => Str;
DifficultyCase(lenCase, len, uncles, ms, nlen) ==
  IF lenCase = "len-free" THEN "diff-ideal"
  ELSE IF uncles = 0 THEN "diff-no-orphans"
  ELSE IF RIsZero(BoundedOrphanRecip(len, uncles, ms, nlen)) THEN "diff-bounded-ideal" ELSE "diff-bounded-estimate"
\* @type: (Str, Int, Int, Int, Int) => {n: Int, d: Int};
NextOrphanRate(diffCase, len, uncles, ms, nlen) ==
  IF diffCase = "diff-no-orphans" THEN RI(0)
  ELSE IF diffCase = "diff-bounded-estimate"
    THEN LET recip == BoundedOrphanRecip(len, uncles, ms, nlen) IN RDiv(RI(1), recip)
  ELSE OrphanIdeal
\* @type: (Int, {n: Int, d: Int}, Int) => {n: Int, d: Int};
DifficultyQuotient(adj, orphanNext, nlen) ==
  LET o1  == RAdd(orphanNext, RI(1))
      den == RMul(o1, RI(nlen))                   \* (1 + o') C'
  IN RDiv(RI(adj * TargetDur), den)

\* everything the adjustment derives from the closing epoch's statistics
\* @type: (Int, Int, Int, Int, Int) => {hps: Int, adj: Int, hrCase: Str, lenCase: Str, nlen: Int, diffCase: Str, q: {n: Int, d: Int}, diff: Int};
Adjustment(len, prev, diff, uncles, ms) ==
  LET hps  == HashRateEstimate(diff, len, uncles, ms)
      adj  == AdjustedHashRate(hps, prev)
      lc   == LengthCase(len, uncles, ms)
      nlen == LengthIn(lc, len, uncles, ms)
      dc   == DifficultyCase(lc, len, uncles, ms, nlen)
      o2   == NextOrphanRate(dc, len, uncles, ms, nlen)
      q    == DifficultyQuotient(adj, o2, nlen)
      fl   == RFloor(q)
  IN [ hps |-> hps, adj |-> adj, hrCase |-> HashRateCase(hps, prev), lenCase |-> lc, nlen |-> nlen,
       diffCase |-> dc, q |-> q, diff |-> Max(1, fl) ]
\* @type: (Int, Int, Int, Int, Int) => Int;
NextDifficulty(len, prev, diff, uncles, ms) == Adjustment(len, prev, diff, uncles, ms).diff

\* the epoch record after closing epoch e with adjustment a
\* @type: ({number: Int, start: Int, len: Int, base: Int, rem: Int, prevHR: Int, compact: Int}, {hps: Int, adj: Int, hrCase: Str, lenCase: Str, nlen: Int, diffCase: Str, q: {n: Int, d: Int}, diff: Int}) => {number: Int, start: Int, len: Int, base: Int, rem: Int, prevHR: Int, compact: Int};
NextEpochOf(e, a) ==
  LET rew == ScheduledPrimary(e.number + 1)
      d   == a.diff
  IN [ number  |-> e.number + 1,
       start   |-> e.start + e.len,
       len     |-> a.nlen,
       base    |-> rew \div a.nlen,
       rem     |-> rew % a.nlen,
       prevHR  |-> a.adj,
       compact |-> CompactOfDifficulty(d) ]
\* ... whose last block has difficulty `diff`, with `uncles` uncles and a duration of `ms` milliseconds
\* @type: ({number: Int, start: Int, len: Int, base: Int, rem: Int, prevHR: Int, compact: Int}, Int, Int, Int) => {number: Int, start: Int, len: Int, base: Int, rem: Int, prevHR: Int, compact: Int};
NextEpoch(e, uncles, ms, diff) == LET a == Adjustment(e.len, e.prevHR, diff, uncles, ms) IN NextEpochOf(e, a)

-----------------------------------------------------------------------------
(* One-step properties of C07 (domain: MinLen <= e.len <= MaxLen, uncles <= MaxUncles * e.len). *)
\* @type: (Int) => Bool;
LenInBounds(nlen) == MinLen <= nlen /\ nlen <= MaxLen
\* @type: (Int, Int) => Bool;
LenWithinFactor2(len, nlen) == len \div Tau <= nlen /\ nlen <= len * Tau
\* the difficulty is the floor of the RFC quotient, or 1 when that is 0: characterised without division
\* @type: (Int, {n: Int, d: Int}) => Bool;
IsFloorOrOne(d, q) == /\ d >= 1
                      /\ (d > 1 => d * q.d <= q.n)
                      /\ q.n < (d + 1) * q.d
\* @type: (Int, Int) => Bool;
HashRateClamped(adj, prev) == adj >= 1 /\ (prev > 0 => (adj >= prev \div Tau /\ adj <= Max(1, prev * Tau)))

-----------------------------------------------------------------------------
(* Chain of epochs: blocks are mined one by one; the last block of an epoch closes it. *)
VARIABLES
  \* @type: {number: Int, start: Int, len: Int, base: Int, rem: Int, prevHR: Int, compact: Int};
  e,        \* epoch of the tip
  \* @type: Int;
  n,        \* tip block number
  \* @type: Int;
  paid1,    \* primary issuance of the blocks of e up to the tip
  \* @type: Int;
  paid2,    \* secondary issuance of the blocks of e up to the tip
  \* @type: {number: Int, index: Int, length: Int};
  fld,      \* epoch field of the tip header
  \* @type: Int;
  plen      \* length of the previous epoch (0: none)
vars == <<e, n, paid1, paid2, fld, plen>>

\* @type: ({number: Int, start: Int, len: Int, base: Int, rem: Int, prevHR: Int, compact: Int}, Int) => {number: Int, index: Int, length: Int};
FieldAt(ep, k) == [number |-> ep.number, index |-> k - ep.start, length |-> ep.len]

\* @type: (Int, Int, Int) => {number: Int, start: Int, len: Int, base: Int, rem: Int, prevHR: Int, compact: Int};
GenesisEpoch(len, compact, hr) ==
  [ number |-> 0, start |-> 0, len |-> len, base |-> InitialPrimary \div len, rem |-> InitialPrimary % len,
    prevHR |-> hr, compact |-> compact ]

\* @type: ({number: Int, start: Int, len: Int, base: Int, rem: Int, prevHR: Int, compact: Int}) => Bool;
InitWith(g) == /\ e = g /\ n = 0 /\ paid1 = BlockReward(g, 0) /\ paid2 = SecondaryIssuance(g, 0)
               /\ fld = FieldAt(g, 0) /\ plen = 0

Mine == /\ n + 1 < e.start + e.len
        /\ n' = n + 1
        /\ paid1' = paid1 + BlockReward(e, n + 1) /\ paid2' = paid2 + SecondaryIssuance(e, n + 1)
        /\ fld' = FieldAt(e, n + 1)
        /\ UNCHANGED <<e, plen>>

\* the tip is the last block of e; the next block opens the next epoch ne
\* @type: ({number: Int, start: Int, len: Int, base: Int, rem: Int, prevHR: Int, compact: Int}) => Bool;
CloseTo(ne) ==
  /\ n + 1 = e.start + e.len
  /\ e' = ne /\ n' = n + 1
  /\ paid1' = BlockReward(ne, n + 1) /\ paid2' = SecondaryIssuance(ne, n + 1)
  /\ fld' = FieldAt(ne, n + 1)
  /\ plen' = e.len
\* @type: (Int, Int) => Bool;
Close(uncles, ms) == CloseTo(NextEpoch(e, uncles, ms, DifficultyOfCompact(e.compact)))

-----------------------------------------------------------------------------
TypeOK == /\ e.len > 0 /\ n >= e.start /\ n < e.start + e.len
          /\ IsWellFormed(fld) /\ fld = FieldAt(e, n)
\* the next epoch's length lies within the consensus bounds and within a factor Tau of the previous length
LenOK == plen > 0 => (LenInBounds(e.len) /\ LenWithinFactor2(plen, e.len))
\* difficulty never zero (and the stored compact target is usable)
DiffNonZero == DifficultyOfCompact(e.compact) >= 1 /\ e.prevHR >= 0
\* per-block rewards never exceed, and at the last block of the epoch equal, the scheduled issuance
RewardsSumToEpoch ==
  /\ RewardFieldsOK(e)
  /\ paid1 <= ScheduledPrimary(e.number) /\ paid2 <= Secondary
  /\ (n + 1 = e.start + e.len => (paid1 = ScheduledPrimary(e.number) /\ paid2 = Secondary))
\* consecutive headers carry gap-free epoch fields
EpochGapFree == [][IsSuccessorOf(fld', fld)]_vars
=============================================================================
