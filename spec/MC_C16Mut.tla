------------------------------ MODULE MC_C16Mut ------------------------------
(* C16 (a2): directed corruptions of valid encodings, judged by Molecule.tla.                              *)
(* For every schema type: a few valid values (the non-default base value, the default value, the            *)
(* all-extremes value, every item of a union), their canonical encoding b, and                              *)
(*   - for EVERY header word of b (total sizes, offsets, item counts, union ids, at every nesting depth:    *)
(*     Molecule!Words) the word replaced by each value of a boundary set: 0, 3, 4, old-1, old+1, old-4,     *)
(*     old+4, the previous word's value, total-1, total, total+1, 2^24 and 2^32-1 (symbolic: BIG);          *)
(*   - b without its last byte / last word, b with one more byte / word, each also with the outermost size  *)
(*     word adjusted so that the damage is met deeper in the decoder;                                       *)
(*   - b with one more (forward-compatible) field appended to the message table or to a table nested in   *)
(*     it, holding nothing / a valid byte string / an invalid byte string / junk;                            *)
(* each with the specification's verdict code WF(strict) + 2 * WF(compatible).  One TLC state per           *)
(* <<type, value>>; the mutations of a value are written as one JSON file (base + word patches).            *)
EXTENDS MolValues, CkbSchema, Json, IOUtils, TLC
CONSTANTS Types,
          Deep,       \* depth handed to Base / MaxV: 0 = vectors of two items near the top, 3 = one item everywhere (smaller buffers)
          DoEmit,
          VarTypes,   \* types whose one-node VARIANTS (MolValues!Variants of the base value: every vector empty / one / two
          VarDepth    \* items / swapped, every option absent, every number 0 / 1 / max, ... down to VarDepth) are emitted as further
                      \* VALID encodings: well-formed but unusual content for the accessors, conversions and context-free verifiers
VARIABLES ty, ph, k, todo, cur   \* type; phase; value number; values to come; the result for one value
vars == <<ty, ph, k, todo, cur>>

Values(t) ==
  LET arms == IF Kind(t) = "union" THEN Dom(t, Base(t, 1, Deep), 1, Deep) ELSE <<>>
  IN <<Base(t, 1, Deep), Zero(t), MaxV(t, Deep + 1)>> \o arms

W4(n) == IF n >= BIG THEN <<255, 255, 255, 255>> ELSE Le32(n)
Boundary(old, prev, total) ==
  LET cand == <<0, 3, 4, old + 1, old + 4, prev, total + 1, total>>
              \o (IF old >= 1 THEN <<old - 1>> ELSE <<>>) \o (IF old >= 4 THEN <<old - 4>> ELSE <<>>)
              \o (IF total >= 1 THEN <<total - 1>> ELSE <<>>)
  IN SelectSeq(cand, LAMBDA x : x # old)
\* strict => compatible (Molecule law, checked exhaustively by MC_MolBuf!ModesOK): the strict reading is only evaluated
\* for buffers the compatible reading accepts
Code(t, b) == IF WF(t, b, TRUE) THEN (IF WF(t, b, FALSE) THEN 3 ELSE 2) ELSE 0

\* all single-word corruptions of b = Enc(t, v)
RECURSIVE WordMuts(_, _, _, _)
WordMuts(t, b, ws, i) ==
  IF i > Len(ws) THEN <<>>
  ELSE LET p == ws[i][1]
           old == Num(b, p + 1)
           prev == IF i = 1 THEN 0 ELSE Num(b, ws[i - 1][1] + 1)
           small == Boundary(old, prev, Len(b))
           pats == Tup([j \in 1..Len(small) |-> W4(small[j])]) \o << <<0, 0, 0, 1>>, <<255, 255, 255, 255>> >>
       IN Tup([j \in 1..Len(pats) |-> [p |-> p, role |-> ws[i][2], w |-> pats[j], code |-> Code(t, SetWord(b, p, pats[j]))]])
          \o WordMuts(t, b, ws, i + 1)

\* truncations / extensions; fix = TRUE: the outermost size word follows the new length
Resized(t, b) ==
  LET fixable == Kind(t) \in {"table", "dynvec"} /\ Len(b) >= 4
      fix(x) == IF fixable /\ Len(x) >= 4 THEN SetWord(x, 0, W4(Len(x))) ELSE x
      shapes == << <<"cut1", SubSeq(b, 1, Len(b) - 1)>>, <<"add1", b \o <<0>>>>, <<"add4", b \o <<4, 0, 0, 0>>>> >>
                \o (IF Len(b) >= 4 THEN << <<"cut4", SubSeq(b, 1, Len(b) - 4)>> >> ELSE <<>>)
                \o (IF Len(b) >= 1 THEN << <<"cutfirst", SubSeq(b, 2, Len(b))>> >> ELSE <<>>)
      raw == Tup([j \in 1..Len(shapes) |-> [how |-> shapes[j][1], buf |-> shapes[j][2], code |-> Code(t, shapes[j][2])]])
      fixed == IF fixable THEN Tup([j \in 1..Len(shapes) |-> [how |-> shapes[j][1] \o "+size", buf |-> fix(shapes[j][2]),
                                                           code |-> Code(t, fix(shapes[j][2]))]]) ELSE <<>>
  IN raw \o fixed

\* b (a well-formed table encoding) with ONE MORE field holding the bytes x: a forward-compatible message
AddField(b, x) ==
  LET n == IF Len(b) = 4 THEN 0 ELSE HeaderCount(b)
  IN Le32(Len(b) + 4 + Len(x)) \o Flatten(Tup([i \in 1..n |-> Le32(Offset(b, i) + 4)])) \o Le32(Len(b) + 4)
     \o Slice(b, 4 * (n + 1), Len(b)) \o x
\* every way to append one extra field to the table b itself or to a table nested in it (through tables and unions)
RECURSIVE ExtraVariants(_, _, _, _)
RECURSIVE NestedExtra(_, _, _, _, _)
NestedExtra(t, b, x, d, i) ==
  IF i > Len(Schema[t].fields) THEN <<>>
  ELSE LET ft == Schema[t].fields[i]
           n == Len(Schema[t].fields)
           parts == Tup([j \in 1..n |-> Part(b, j)])
           sub == IF Kind(ft) \in {"table", "union"} THEN ExtraVariants(ft, parts[i], x, d - 1) ELSE <<>>
       IN Tup([j \in 1..Len(sub) |-> DynLayout([parts EXCEPT ![i] = sub[j]])]) \o NestedExtra(t, b, x, d, i + 1)
ExtraVariants(t, b, x, d) ==
  IF d = 0 THEN <<>>
  ELSE IF Kind(t) = "table" THEN <<AddField(b, x)>> \o (IF Len(b) > 4 THEN NestedExtra(t, b, x, d, 1) ELSE <<>>)
  ELSE IF Kind(t) = "union" THEN
         LET sub == ExtraVariants(UnionItemType(t, Num(b, 1)), Slice(b, 4, Len(b)), x, d - 1)
         IN Tup([j \in 1..Len(sub) |-> SubSeq(b, 1, 4) \o sub[j]])
  ELSE <<>>
Junk == << <<>>, <<0, 0, 0, 0>>, <<1, 0, 0, 0, 7>>, <<4, 0, 0, 0>>, <<2, 0, 0, 0, 7>>, <<9>> >>
JunkName == <<"nothing", "bytes0", "bytes1", "count-without-data", "count-too-large", "onebyte">>
RECURSIVE Extended(_, _, _)
Extended(t, b, j) ==
  IF j > Len(Junk) THEN <<>>
  ELSE LET vs == ExtraVariants(t, b, Junk[j], 3)
       IN Tup([i \in 1..Len(vs) |-> [how |-> "extra-field:" \o JunkName[j], buf |-> vs[i], code |-> Code(t, vs[i])]])
          \o Extended(t, b, j + 1)

Init == ty \in Types /\ ph = "new" /\ k = 0 /\ todo = <<>> /\ cur = <<>>
\* Load computes the values of the type, Pick deals them to separate states (so that several workers share a type),
\* Step does the work for one value
Load == ph = "new" /\ ph' = "loaded" /\ todo' = Values(ty) /\ UNCHANGED <<ty, k, cur>>
Pick(j) == ph = "loaded" /\ j \in 1..Len(todo) /\ ph' = "picked" /\ k' = j /\ todo' = <<todo[j]>> /\ UNCHANGED <<ty, cur>>
Step == /\ ph = "picked" /\ ph' = "done" /\ todo' = <<>> /\ UNCHANGED <<ty, k>>
        /\ LET v == Head(todo) b == Enc(ty, v)
               vs == IF ty \in VarTypes /\ k = 1 THEN Variants(ty, Base(ty, 1, 0), 1, 0, VarDepth) ELSE <<>>
           IN cur' = [v |-> v, enc |-> b, code |-> Code(ty, b),
                      words |-> WordMuts(ty, b, Words(ty, v, 0), 1), resized |-> Resized(ty, b) \o Extended(ty, b, 1),
                      variants |-> Tup([j \in 1..Len(vs) |-> Enc(ty, vs[j][2])])]
Done == ph = "done"
Next == Load \/ (\E j \in 1..8 : Pick(j)) \/ Step
Spec == Init /\ [][Next]_vars

\* the canonical encoding itself is well-formed in both readings
ValidOK == Done => cur.code = 3
\* an appended field never disturbs the compatible reading and always breaks the strict one
ExtraOK == Done => \A i \in 1..Len(cur.resized) :
             (Len(cur.resized[i].how) > 11 /\ SubSeq(cur.resized[i].how, 1, 11) = "extra-field") => cur.resized[i].code = 2
\* a corrupted TOTAL-SIZE or COUNT word is never accepted strictly (it no longer describes the buffer) -- a sanity law
TotalOK == Done => \A i \in 1..Len(cur.words) : (cur.words[i].role = "total" /\ cur.words[i].p = 0) => cur.words[i].code = 0
Emit == (DoEmit /\ Done) =>
          JsonSerialize(IOEnv.C16_OUT \o "/" \o ty \o "_" \o ToString(k) \o ".json",
                        [ty |-> ty, k |-> k, enc |-> cur.enc, words |-> cur.words, resized |-> cur.resized, variants |-> cur.variants])
=============================================================================
