---------------------------- MODULE MC_MMR ----------------------------
EXTENDS MMR
\* at most one flawed commitment per tree keeps the honest part of the space large
OneFlaw == Cardinality({b \in DOMAIN tree : tree[b].ext = Flawed}) <= 1
\* vacuity probe (must be VIOLATED): a reorganisation to a SHORTER (heavier) chain leaves a stale tail above the size
NoStaleTail == Len(mmr) = MMRSize(Len(main) - 1)
=============================================================================
