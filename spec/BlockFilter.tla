---------------------------- MODULE BlockFilter ----------------------------
(***************************************************************************)
(* The block-filter builder (block-filter/src/filter.rs) lagging the chain. *)
(*                                                                         *)
(* Content abstraction: block b creates one cell whose script is b, and    *)
(* may spend the cell created by block tree[b].spends (an ancestor, or b    *)
(* itself: created and spent in one block; -1 = spends nothing).  Its      *)
(* filter must match Need(b) = {b} + the script of the spent cell.         *)
(* The builder takes a snapshot (BStart), derives its start number from    *)
(* LATEST_BUILT_FILTER_DATA (resuming from the last built block still on    *)
(* the main chain, else walking a forked one back to the main chain), then *)
(* builds block by block (BStep) interleaved with chain actions: block     *)
(* numbers come from the snapshot; "already built", the parent's filter    *)
(* hash and the write go to the live store.  A spent cell is resolved by   *)
(* transaction hash, which only works while the creating block is on the   *)
(* main chain of the store that is read: the snapshot (intended) or the    *)
(* live store (LiveReads = TRUE: as coded before the fix).                 *)
(***************************************************************************)
EXTENDS Integers, Sequences, FiniteSets, TLC
CONSTANTS MaxBlocks, Works, LiveReads
VARIABLES tree,    \* id -> [parent, number, work, spends]
          main,    \* live main chain
          filters, \* COLUMN_BLOCK_FILTER: id -> set of scripts
          fhash,   \* COLUMN_BLOCK_FILTER_HASH: id -> the hash chain, as the sequence of <<block, filter>> it commits to
          latest,  \* META_LATEST_BUILT_FILTER_DATA, -1 = none
          bsnap,   \* builder: main chain of its snapshot, <<>> = idle
          bnext,   \* builder: next block number
          dirty,   \* a new-block notification is pending
          panic    \* an `expect` of the builder failed
vars == <<tree, main, filters, fhash, latest, bsnap, bnext, dirty, panic>>
Last(s) == s[Len(s)]
On(ch, b) == \E k \in DOMAIN ch : ch[k] = b
RECURSIVE Chain(_)
Chain(b) == IF b = 0 THEN <<0>> ELSE Append(Chain(tree[b].parent), b)
NextId == Cardinality(DOMAIN tree)
RECURSIVE TD(_)
TD(b) == IF b = 0 THEN 0 ELSE tree[b].work + TD(tree[b].parent)
Need(b) == {b} \cup (IF tree[b].spends >= 0 THEN {tree[b].spends} ELSE {})

Init == /\ tree = [b \in {0} |-> [parent |-> 0, number |-> 0, work |-> 0, spends |-> -1]]
        /\ main = <<0>> /\ filters = <<>> /\ fhash = <<>> /\ latest = -1
        /\ bsnap = <<>> /\ bnext = 0 /\ dirty = TRUE /\ panic = FALSE

\* a block on any branch; it may spend a not yet spent cell of its own chain; the heavier chain wins
Mine(p, sp, w) ==
  /\ NextId <= MaxBlocks /\ p \in DOMAIN tree
  /\ LET b == NextId  ch == Chain(p) IN
     /\ sp = -1 \/ sp = b \/ (On(ch, sp) /\ \A k \in DOMAIN ch : tree[ch[k]].spends # sp)
     /\ tree' = [x \in DOMAIN tree \cup {b} |-> IF x = b THEN [parent |-> p, number |-> tree[p].number + 1, work |-> w, spends |-> sp] ELSE tree[x]]
     /\ IF TD(p) + w > TD(Last(main)) THEN main' = Append(ch, b) /\ dirty' = TRUE ELSE UNCHANGED <<main, dirty>>
  /\ UNCHANGED <<filters, fhash, latest, bsnap, bnext, panic>>

\* build_filter_data: snapshot + start number
RECURSIVE WalkBack(_, _)
WalkBack(snap, h) == IF On(snap, tree[h].parent) THEN tree[h].number ELSE WalkBack(snap, tree[h].parent)
BStart ==
  /\ bsnap = <<>> /\ dirty /\ ~panic
  /\ bsnap' = main /\ dirty' = FALSE
  /\ bnext' = IF latest = -1 THEN 0
              ELSE IF On(main, latest) THEN tree[latest].number + 1
              ELSE WalkBack(main, latest)
  /\ UNCHANGED <<tree, main, filters, fhash, latest, panic>>

\* build_filter_data_for_block for the snapshot's block at number bnext
BStep ==
  /\ bsnap # <<>> /\ bnext <= Len(bsnap) - 1 /\ ~panic
  /\ LET b == bsnap[bnext + 1]
         readable == IF LiveReads THEN main ELSE bsnap           \* where get_transaction(tx_hash) finds the spent cell
         f == {b} \cup (IF tree[b].spends >= 0 /\ On(readable, tree[b].spends) THEN {tree[b].spends} ELSE {})
     IN IF b \in DOMAIN fhash THEN UNCHANGED <<filters, fhash, latest, panic>>       \* already exists: skip
        ELSE IF b # 0 /\ tree[b].parent \notin DOMAIN fhash
             THEN panic' = TRUE /\ UNCHANGED <<filters, fhash, latest>>             \* expect("parent block filter data stored")
             ELSE /\ filters' = (b :> f) @@ filters
                  /\ fhash' = (b :> (IF b = 0 THEN <<>> ELSE fhash[tree[b].parent]) \o <<<<b, f>>>>) @@ fhash
                  /\ latest' = b /\ UNCHANGED panic
  /\ bnext' = bnext + 1
  /\ UNCHANGED <<tree, main, bsnap, dirty>>
BFinish == /\ bsnap # <<>> /\ bnext > Len(bsnap) - 1
           /\ bsnap' = <<>> /\ UNCHANGED <<tree, main, filters, fhash, latest, bnext, dirty, panic>>

Next == (\E p \in DOMAIN tree, sp \in -1..MaxBlocks, w \in Works : Mine(p, sp, w)) \/ BStart \/ BStep \/ BFinish
Spec == Init /\ [][Next]_vars

-----------------------------------------------------------------------------
\* the filter of every main-chain block matches every script of its outputs and spent inputs
FilterComplete == \A k \in DOMAIN main : main[k] \in DOMAIN filters => filters[main[k]] = Need(main[k])
\* each block's filter hash chains from its parent's
FilterHashChained == \A b \in DOMAIN fhash :
                       /\ b # 0 => tree[b].parent \in DOMAIN fhash
                       /\ fhash[b] = (IF b = 0 THEN <<>> ELSE fhash[tree[b].parent]) \o <<<<b, filters[b]>>>>
NoPanic == ~panic
\* an idle builder with no pending notification has built every main-chain block
CaughtUp == (bsnap = <<>> /\ ~dirty) => \A k \in DOMAIN main : main[k] \in DOMAIN filters
=============================================================================
