--------------------------- MODULE MC_LightClient ---------------------------
(* Exhaustive configurations of LightClient.tla.                                                                      *)
(*  proofs   : every tree MMR.tla reaches (forks, reorganisations to shorter-but-heavier branches, one flawed           *)
(*             commitment) with bodies over two transactions; after every arrival EVERY GetBlocksProof /              *)
(*             GetTransactionsProof request (any known or unknown last hash, any set of at most MaxReq known or       *)
(*             unknown items) is answered by the server as coded and the reply judged as a client sees it.            *)
(*  sampling : linear chains with works 1 | 2: every GetLastStateProof request (last = tip or its parent, any start    *)
(*             number incl. one above the chain, start hash right or wrong, n <= 2, any boundary, any increasing       *)
(*             difficulty list of at most MaxDs entries): the coded binary search = the declarative sample.            *)
EXTENDS LightClient
CONSTANTS Mode,       \* "proofs" | "sampling"
          SharedCellbase,  \* TRUE: blocks of the same height carry the same cellbase transaction
          MaxReq, MaxDs
UTx == {1, 2}
Committed(p) == UNION {body[b] : b \in {Chain(p)[i] : i \in DOMAIN Chain(p)}}
\* the cellbase of a new block on parent p
CbName(p) == LET sib == {b \in DOMAIN tree : b # 0 /\ tree[b].number = tree[p].number + 1} IN
             IF SharedCellbase /\ sib # {} THEN cbn[CHOOSE b \in sib : \A c \in sib : b <= c] ELSE NextId
MCNext ==
  \E p \in DOMAIN tree, w \in Works :
     IF Mode = "sampling"
     THEN p = Tip /\ LMine(p, w, TRUE, {}, NextId)
     ELSE \E honest \in BOOLEAN :
            \* bodies without further nondeterminism: every honest block of height 1 commits transaction 1, of height 2
            \* transaction 2 (the same transaction on competing branches: tx-info follows the main chain)
            LMine(p, w, honest, IF honest /\ tree[p].number + 1 \in UTx THEN {tree[p].number + 1} ELSE {}, CbName(p))
MCSpec == LInit /\ [][MCNext]_lvars
OneFlaw == Cardinality({b \in DOMAIN tree : tree[b].ext = Flawed}) <= 1

Unknown == -1
Hashes == DOMAIN tree \cup {Unknown}
Small(U) == {S \in SUBSET U : Cardinality(S) <= MaxReq}
AllTxs == (UNION {TxsOf(b) : b \in DOMAIN tree}) \cup {Ut(1), Ut(2), Cb(Unknown)}
BlocksOK == Mode = "proofs" => \A last \in Hashes : \A hs \in Small(Hashes) : BlocksReplyOK(last, hs, CodedBlocks(last, hs))
TxsOK == Mode = "proofs" => \A last \in Hashes : \A ts \in Small(AllTxs) : TxsReplyOK(last, ts, CodedTxs(last, ts))
\* after a reorganisation nothing is proved for a detached block or its transactions (spelled out; implied by the above)
DetachedNotProved ==
  Mode = "proofs" => \A b \in DOMAIN tree : ~OnMain(b) =>
      /\ LET r == CodedBlocks(Tip, {b}) IN r.kind = "proof" => b \in r.missing /\ r.items = {}
      /\ LET r == CodedTxs(Tip, {Cb(cbn[b])}) IN (r.kind = "proof" /\ TxBlock(Cb(cbn[b])) = -1) => Cb(cbn[b]) \in r.missing /\ r.items = {}

MaxTD == TDm(TipNum)
RECURSIVE IncSeqs(_, _)
IncSeqs(k, lo) == {<<>>} \cup (IF k = 0 THEN {} ELSE UNION {{<<d>> \o s : s \in IncSeqs(k - 1, d + 1)} : d \in lo..MaxTD})
Reqs == [last : {Tip} \cup (IF TipNum > 0 THEN {MainAt(TipNum - 1)} ELSE {}), startNum : 0..(TipNum + 1), onChain : BOOLEAN,
         n : 0..2, boundary : 1..(MaxTD + 1), ds : IncSeqs(MaxDs, 1)]
ReqOf(q) == [last |-> q.last, start |-> IF q.onChain /\ q.startNum <= TipNum THEN MainAt(q.startNum) ELSE Unknown,
             startNum |-> q.startNum, n |-> q.n, boundary |-> q.boundary, ds |-> q.ds]
SamplingOK == Mode = "sampling" => \A q \in Reqs : LET req == ReqOf(q) IN
                 /\ CodedNumbers(req) = DeclNumbers(req) \/ (AsCoded /\ CodedNumbers(req) = <<-3>>)
                 /\ LastStateReplyOK(req, CodedLastState(req))
NoPanic == /\ Mode = "proofs" => /\ \A last \in Hashes : \A hs \in Small(Hashes) : CodedBlocks(last, hs).kind # "panic"
                                 /\ \A last \in Hashes : \A ts \in Small(AllTxs) : CodedTxs(last, ts).kind # "panic"
           /\ Mode = "sampling" => \A q \in Reqs : CodedLastState(ReqOf(q)).kind # "panic"
\* reachability probes (must be violated)
VacNoProofAfterReorg == ~(\E b \in DOMAIN tree : ~OnMain(b) /\ b \notin bad \cup dropped /\ \E h \in DOMAIN tree : OnMain(h) /\ NumOf(h) = NumOf(b) /\ h # b /\ TipNum > NumOf(b))
VacNoSample == Mode = "sampling" => \A q \in Reqs : LET ns == DeclNumbers(ReqOf(q)) IN Len(ns) = 0 \/ ns[1] < 0 \/ TipNum - q.startNum <= q.n
=============================================================================
