---------------------------- MODULE CrashRecovery ----------------------------
(***************************************************************************************************)
(* C08 - a crash at any point of block import recovers to a consistent, convergent state.          *)
(*                                                                                                 *)
(* ChainState.tla at the grain of the database commits of the import pipeline:                     *)
(*   InsertC   chain service: insert_block commit                      (block rows, no ext)        *)
(*   VerifyC   verify thread: verify_block - ONE commit for a side block or for a whole            *)
(*             reorganisation, none for a refusal (the transaction is dropped)                     *)
(*   DeleteC   delete_unverified_block commit of a refused block (and BLOCK_INVALID status)        *)
(* Crash is enabled in EVERY state: the volatile variables (snapshot, status map, in-flight block, *)
(* scan list) are lost, the durable `db` keeps exactly the commits performed.  Restart =           *)
(* init_store / init_snapshot (tip, current epoch and total difficulty are read from the store),   *)
(* InitLoad = the scan of COLUMN_NUMBER_HASH rows without ext in the coded window and their         *)
(* resubmission, after which the synchronizer redelivers the history from its start.               *)
(***************************************************************************************************)
EXTENDS ChainState

CONSTANTS MaxCrashes,
          ScanBack,    \* EXPIRED_EPOCH * max_epoch_length: how far below the tip the scan starts
          ScanAhead,   \* BLOCK_DOWNLOAD_WINDOW * 10: how far above the tip it may go
          RBug         \* "none" | "split-commit" | "scan-from-tip": seeded deviations for oracle self-tests

VARIABLES pc,        \* "run" | "down" | "init"
          inflight,  \* block inserted, waiting for verify_block (volatile)
          failing,   \* block refused by verify_block, not yet deleted (volatile)
          half,      \* RBug = "split-commit": second half of a verify commit still to be written (volatile)
          found,     \* InitLoad: blocks found by the scan, still to be resubmitted (volatile)
          H,         \* the delivery order (parent first); redelivered from the start after a restart
          next,      \* next position of H to deliver
          ncrash
rvars == <<vars, pc, inflight, failing, half, found, H, next, ncrash>>
NoHalf == [tip |-> NoBlock]

\* ---------------------------------------------------------------- the crash-free run of H (declarative reference)
RECURSIVE RunFree(_, _)
RunFree(st, i) == IF i > Len(H) THEN st
                  ELSE LET o == DeliverOp(st, H[i]) IN RunFree([db |-> o.db, snap |-> o.snap, invalid |-> o.invalid], i + 1)
FreeRun(w) == RunFree([db |-> GenesisDb(w), snap |-> SnapOf(GenesisDb(w), EpochOf(0)), invalid |-> {}], 1)

\* ---------------------------------------------------------------- InitLoadUnverified::find_unverified_blocks
Unverified(d, n) == {b \in d.stored : Num(b) = n /\ b \notin DOMAIN d.ext}
SetToSeq(S) == LET RECURSIVE F(_)
                   F(T) == IF T = {} THEN <<>> ELSE LET m == CHOOSE x \in T : \A y \in T : x <= y IN <<m>> \o F(T \ {m})
               IN F(S)
RECURSIVE ScanFrom(_, _, _, _)
ScanFrom(d, n, tipnum, hi) ==
  IF n > hi THEN <<>>
  ELSE IF n > tipnum /\ Unverified(d, n) = {} THEN <<>>        \* "no unverified blocks found after tip": stop
       ELSE SetToSeq(Unverified(d, n)) \o ScanFrom(d, n + 1, tipnum, hi)
Scan(d) ==
  LET tipnum == Num(d.tip)
      lo == IF RBug = "scan-from-tip" THEN tipnum + 1
            ELSE IF tipnum - ScanBack > 1 THEN tipnum - ScanBack ELSE 1
  IN ScanFrom(d, lo, tipnum, tipnum + ScanAhead)

\* ---------------------------------------------------------------- actions
Idle == inflight = NoBlock /\ failing = NoBlock /\ half = NoHalf

\* asynchronous_process_block: insert_block commit, then hand-over to the verify thread
InsertOf(b) == /\ db' = [db EXCEPT !.stored = @ \cup {b}]
               /\ inflight' = b
               /\ UNCHANGED <<blocks, snap, invalid, failing, half>>
InsertC == /\ pc = "run" /\ Idle /\ next <= Len(H)
           /\ InsertOf(H[next]) /\ next' = next + 1
           /\ UNCHANGED <<pc, found, H, ncrash>>

\* verify_block for the in-flight block
VerifyC ==
  /\ pc \in {"run", "init"} /\ inflight # NoBlock /\ half = NoHalf
  /\ LET b == inflight IN
     IF Par(b) \in invalid \/ Par(b) \notin DOMAIN db.ext
     THEN \* parent marked invalid (or unknown: an orphan waits; with a parent-first history only the first case occurs)
          /\ failing' = IF Par(b) \in invalid THEN b ELSE NoBlock
          /\ UNCHANGED <<db, snap, invalid, half>>
     ELSE LET r == ProcessOp(db, snap.td, snap.tip, b) IN
          CASE r.res = "failed" -> failing' = b /\ UNCHANGED <<db, snap, invalid, half>>      \* no commit
            [] r.res = "dup" -> UNCHANGED <<db, snap, invalid, failing, half>>
            [] r.res = "side" -> db' = r.d /\ snap' = [snap EXCEPT !.db = r.d] /\ UNCHANGED <<invalid, failing, half>>
            [] r.res = "attached" ->
                 IF RBug = "split-commit"
                 THEN \* seeded bug: tip and current epoch go into a second commit
                      /\ db' = [r.d EXCEPT !.tip = db.tip, !.cur = db.cur]
                      /\ half' = [tip |-> r.d.tip, cur |-> r.d.cur, ep |-> EpochOf(b)]
                      /\ UNCHANGED <<snap, invalid, failing>>
                 ELSE db' = r.d /\ snap' = SnapOf(r.d, EpochOf(b)) /\ UNCHANGED <<invalid, failing, half>>
  /\ inflight' = NoBlock
  /\ UNCHANGED <<blocks, pc, found, H, next, ncrash>>
VerifyC2 == /\ half # NoHalf
            /\ db' = [db EXCEPT !.tip = half.tip, !.cur = half.cur]
            /\ snap' = SnapOf(db', half.ep) /\ half' = NoHalf
            /\ UNCHANGED <<blocks, invalid, pc, inflight, failing, found, H, next, ncrash>>

\* delete_unverified_block commit + BLOCK_INVALID status
DeleteC == /\ failing # NoBlock
           /\ db' = [db EXCEPT !.stored = @ \ {failing}]
           /\ invalid' = invalid \cup {failing} /\ failing' = NoBlock
           /\ UNCHANGED <<blocks, snap, pc, inflight, half, found, H, next, ncrash>>

\* the process dies: everything volatile is gone
Crash == /\ pc \in {"run", "init"} /\ ncrash < MaxCrashes
         /\ pc' = "down" /\ ncrash' = ncrash + 1
         /\ inflight' = NoBlock /\ failing' = NoBlock /\ half' = NoHalf /\ found' = <<>> /\ invalid' = {}
         /\ UNCHANGED <<blocks, db, snap, H, next>>

\* SharedBuilder::build: init_store reads tip + current epoch, init_snapshot the tip's ext; then the scan
CanRestart(d) == /\ d.tip \in d.stored /\ d.tip \in DOMAIN d.ext
                 /\ 0 \in DOMAIN d.numIdx /\ d.numIdx[0] = 0
Restart == /\ pc = "down" /\ CanRestart(db)
           /\ snap' = [tip |-> db.tip, td |-> db.ext[db.tip].td, cur |-> db.cur, db |-> db]
           /\ found' = Scan(db) /\ pc' = "init" /\ next' = 1
           /\ UNCHANGED <<blocks, db, invalid, inflight, failing, half, H, ncrash>>
\* a found block is read from the store and resubmitted (inserted again, then verified)
InitStep == /\ pc = "init" /\ Idle /\ found # <<>>
            /\ InsertOf(Head(found)) /\ found' = Tail(found)
            /\ UNCHANGED <<pc, H, next, ncrash>>
InitDone == /\ pc = "init" /\ Idle /\ found = <<>>
            /\ pc' = "run"
            /\ UNCHANGED <<vars, inflight, failing, half, found, H, next, ncrash>>

RInit == Init /\ pc = "run" /\ inflight = NoBlock /\ failing = NoBlock /\ half = NoHalf /\ found = <<>>
         /\ H = <<>> /\ next = 1 /\ ncrash = 0
RNext == InsertC \/ VerifyC \/ VerifyC2 \/ DeleteC \/ Crash \/ Restart \/ InitStep \/ InitDone

\* ---------------------------------------------------------------- properties
\* the restart path finds every row it `expect`s, in every crash state
RestartOpens == pc = "down" => CanRestart(db)
\* ReplayConsistent (ChainState) is required in EVERY state: the durable state is always a replay of its own tip
\* after a restart the snapshot built from the store describes the stored tip
RestartSnapshot == pc \in {"init", "run"} => SnapshotConsistent
\* with nothing in flight every stored block has been processed: what a crash left unverified was picked up
UnverifiedPickedUp == (pc = "run" /\ Idle) => \A b \in db.stored : b \in DOMAIN db.ext \/ Par(b) \notin DOMAIN db.ext
\* after the history has been redelivered the node is where the crash-free run of H ends
Quiescent == pc = "run" /\ Idle /\ next > Len(H)
CrashConvergence == Quiescent => LET f == FreeRun(blocks[0].work) IN
                                   /\ db.tip = f.db.tip /\ db.ext[db.tip].td = f.db.ext[f.db.tip].td
                                   \* the canonical-chain view; rows of side blocks may differ: a refused block that is
                                   \* redelivered when it is no longer the best candidate is kept as an unverified side block
                                   /\ View(db) = View(f.db)
=============================================================================
