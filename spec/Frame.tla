------------------------------- MODULE Frame -------------------------------
(***************************************************************************)
(* C16, clause "decompression": the frame layer under every protocol        *)
(* message (network/src/compress.rs).                                       *)
(*                                                                         *)
(* A frame is one FLAG byte followed by a body.  Only the top bit of the     *)
(* flag means something: set = the body is a snappy stream, clear = the body *)
(* is the message itself.  A snappy stream starts with a PREAMBLE, the       *)
(* uncompressed length as a little-endian base-128 varint (at most 10 bytes, *)
(* value below 2^32), followed by the compressed elements.  The receiver     *)
(* reads the preamble FIRST, refuses a declared length above MaxLen (8 MiB)  *)
(* and only then allocates exactly that many bytes and decodes.              *)
(*                                                                         *)
(* What cannot be specified here is snappy's element coding itself; it is    *)
(* kept abstract: a body is described by its preamble bytes and by whether   *)
(* the elements behind it decode to exactly n bytes (`payload`).             *)
(*   body == [pre |-> seq of bytes, payload |-> n or -1 (garbage)]           *)
(* Verdict(frame):  "empty" | "raw" (body returned as is) |                  *)
(*                  "ok" (decoded, length = declared) | "err".               *)
(***************************************************************************)
EXTENDS Naturals, Integers, Sequences

CONSTANTS MaxLen,        \* largest declared uncompressed length accepted (2^23)
          Threshold      \* a frame longer than this (flag byte included) is compressed by the sender (1024)

CompressBit == 128
HasBit(flag) == (flag \div CompressBit) % 2 = 1

\* little-endian base-128 varint: value and number of bytes used; used = 0: unterminated or longer than 10 bytes
RECURSIVE VarVal(_, _)
VarVal(bs, i) == IF i > Len(bs) THEN 0 ELSE (bs[i] % 128) + 128 * VarVal(bs, i + 1)
Terminated(bs) == Len(bs) >= 1 /\ Len(bs) <= 10 /\ bs[Len(bs)] < 128 /\ \A i \in 1..(Len(bs) - 1) : bs[i] >= 128
\* (the models keep preambles at <= 5 bytes so that values stay inside TLC's integers)
\* a canonical preamble of five or more bytes declares at least 2^28 - beyond MaxLen and beyond TLC's integers: Huge
Huge == MaxLen + 1
Declared(pre) == IF ~Terminated(pre) THEN -1 ELSE IF Len(pre) >= 5 THEN Huge ELSE VarVal(pre, 1)

Verdict(flag, body) ==
  IF ~HasBit(flag) THEN "raw"
  ELSE LET d == Declared(body.pre)
       IN IF d < 0 THEN "err"                       \* no well-formed preamble
          ELSE IF d > MaxLen THEN "err"             \* the declared size bound - BEFORE anything is allocated
          ELSE IF body.payload = d THEN "ok"        \* (the one-byte stream <<0>> is the empty message)
          ELSE "err"                               \* elements do not decode to exactly the declared length (or no stream at all)

\* the sender: frames whose raw form is longer than Threshold go out compressed, the rest raw
SenderFlag(msgLen) == IF msgLen + 1 > Threshold THEN CompressBit ELSE 0

\* laws checked on the enumerated cases
Bounded(flag, body) == Verdict(flag, body) = "ok" => Declared(body.pre) <= MaxLen
OtherBitsIgnored(flag, body) == Verdict(flag, body) = Verdict(IF HasBit(flag) THEN CompressBit ELSE 0, body)
=============================================================================
