SPECIFICATION MSpec
CONSTANTS
 Txs <- U2Txs
 Ins <- U2Ins
 Deps <- U2Deps
 Fee <- U2Fee
 Size <- U2Size
 HDeps <- NoHDeps
 Cycles <- UnitCycles
 Genesis <- MGenesis
 Coded = FALSE
 KeepHist = FALSE
 MaxProps = 1
 MaxChain = 3
 MaxOps = 6
 MConf <- MConf_U2
INVARIANT NoDoubleSpend
INVARIANT LinksExact
INVARIANT AggregatesExact
INVARIANT EdgesExact
INVARIANT CountsExact
INVARIANT AncestorLimit
INVARIANT RbfRule
VIEW PoolView
CHECK_DEADLOCK FALSE
