SPECIFICATION FairSpec
CONSTANTS
  N = 2
  MaxWork = 1
  MaxDup = 0
  Verdicts = {"ok", "bad_ctx"}
  Heavy = 0
  PreFix = TRUE
  Emit = FALSE
PROPERTY EventuallyQuiescent
CHECK_DEADLOCK FALSE
