------------------------------ MODULE Versionbits ------------------------------
(***************************************************************************)
(* Growth beyond C01..C20 (DESIGN.md 3.7 item 4): the soft-fork deployment state machine    *)
(* of ckb-chain-spec (spec/src/versionbits/mod.rs, RFC 0043).  Attached to C03.              *)
(*                                                                         *)
(* Every block of every fork has, per deployment, one of the states                           *)
(*     defined -> started -> locked_in -> active      started -> failed                     *)
(* and the state is a function of the block's ANCESTORS only:                                 *)
(*  - all blocks of a period share the state; a period is `Period` consecutive epochs, the     *)
(*    first of which (its "boundary epoch") has number e with (e + 1) % Period = 0 (the         *)
(*    alignment the code and its unit tests use); the epochs before the first boundary and the  *)
(*    whole genesis epoch are `defined`;                                                       *)
(*  - defined   -> started     at a boundary e >= start                                        *)
(*  - started   -> locked_in   at a boundary when at least `threshold` (a ratio) of the blocks  *)
(*                             of the Period epochs BEFORE the boundary signal the bit           *)
(*    started   -> failed      at a boundary e >= timeout that did not lock in                  *)
(*  - locked_in -> active      at the next boundary with e >= min_activation_epoch             *)
(*  - active, failed           are final.                                                       *)
(* Epochs have individual lengths (the real chain adjusts the epoch length at every epoch).     *)
(*                                                                         *)
(* The implementation evaluates the function incrementally with a persistent cache keyed by    *)
(* the last block of the epoch before the boundary epoch (that block identifies the fork and   *)
(* all ancestors the state depends on).  `Query(b)` is the code's get_state: walk the boundary  *)
(* epochs back to the first cache hit (or to an epoch < start / the genesis epoch), then         *)
(* forward again filling the cache.  Queries come at any time, for any block of any fork, in    *)
(* any order, while the tree grows.                                                            *)
(*                                                                         *)
(* Unspecified on purpose: rounding of threshold * total when it is not an integer (the code    *)
(* floors; "at least the ratio" would mean rounding up): both answers are allowed for a count    *)
(* in between (Step is a set).                                                                  *)
(* Coded = TRUE is the counting loop as written in get_state (it adds up the lengths of epochs  *)
(* E, E-1, .., E-Period+1 while it walks the blocks of E-1, E-2, .., E-Period): oracle self-test, *)
(* must violate ThresholdExact / Sound as soon as epoch lengths differ.                          *)
(***************************************************************************)
EXTENDS Integers, Sequences, FiniteSets, TLC

CONSTANTS N,           \* blocks 1..N besides genesis 0; parent[b] < b; at most one branch point ("two forks")
          Lens,        \* possible epoch lengths
          GenesisLen,  \* length of epoch 0 (genesis is its first block)
          Period,      \* epochs per period
          Starts, Timeouts, MinActs,   \* candidate values of start / timeout / min_activation_epoch
          Thresholds,  \* candidate ratios <<numerator, denominator>>
          Coded,       \* TRUE: counting window as coded (oracle self-test)
          Queries      \* TRUE: interleave Query actions with the growth of the tree (cache as state)

VARIABLES parent, sig, en, ei, el,     \* per block: parent, signals the bit, epoch number / index in epoch / epoch length
          minted, forkAt,              \* blocks minted so far; first block of the second fork (0 = none yet)
          start, timeout, minact, thr, \* the deployment
          cache,                       \* [-1..N -> state | "none"]: key = last block of the epoch before a boundary epoch (-1: genesis epoch)
          last                         \* <<block, answer>> of the latest query (<<-1, "none">> initially)
vars == <<parent, sig, en, ei, el, minted, forkAt, start, timeout, minact, thr, cache, last>>

States == {"defined", "started", "locked_in", "active", "failed"}
Keys == -1..N

Init == /\ parent = [b \in 0..N |-> 0] /\ sig = [b \in 0..N |-> FALSE]
        /\ en = [b \in 0..N |-> 0] /\ ei = [b \in 0..N |-> 0] /\ el = [b \in 0..N |-> GenesisLen]
        /\ minted = 0 /\ forkAt = 0
        /\ start \in Starts /\ timeout \in Timeouts /\ minact \in MinActs /\ thr \in Thresholds
        /\ cache = [k \in Keys |-> "none"] /\ last = <<-1, "none">>

-----------------------------------------------------------------------------
(* the block tree *)
Children(p) == {c \in 1..minted : parent[c] = p}
Mint(p, s, l) ==
  /\ minted < N
  /\ \/ p = minted                                        \* extend the youngest fork
     \/ forkAt = 0 /\ p < minted                          \* or open the second fork below it (once)
  /\ LET c == minted + 1
         tail == ei[p] + 1 >= el[p]                        \* p is the last block of its epoch
     IN /\ IF tail THEN l \in Lens /\ \A x \in Children(p) : el[x] = l   \* the epoch after p has ONE length on all forks
                   ELSE l = el[p]
        /\ parent' = [parent EXCEPT ![c] = p] /\ sig' = [sig EXCEPT ![c] = s]
        /\ en' = [en EXCEPT ![c] = IF tail THEN en[p] + 1 ELSE en[p]]
        /\ ei' = [ei EXCEPT ![c] = IF tail THEN 0 ELSE ei[p] + 1]
        /\ el' = [el EXCEPT ![c] = l]
        /\ minted' = c /\ forkAt' = IF p = minted THEN forkAt ELSE c
  /\ UNCHANGED <<start, timeout, minact, thr, cache, last>>

RECURSIVE Anc(_, _), Number(_), ChainOf(_)
Anc(b, d) == IF d = 0 THEN b ELSE Anc(parent[b], d - 1)
Number(b) == IF b = 0 THEN 0 ELSE 1 + Number(parent[b])
ChainOf(b) == IF b = 0 THEN {0} ELSE {b} \cup ChainOf(parent[b])

-----------------------------------------------------------------------------
(* epochs of a fork are named by their KEY: the last block of the previous epoch (-1 for the genesis epoch) *)
Key(b) == IF en[b] = 0 THEN -1 ELSE Anc(b, ei[b] + 1)
KNum(k) == IF k = -1 THEN 0 ELSE en[k] + 1                 \* number of the epoch that follows block k
RECURSIVE KeyBack(_, _)
KeyBack(k, j) == IF j = 0 THEN k ELSE KeyBack(Key(k), j - 1)  \* key of the epoch j epochs earlier (j <= KNum(k))
AnchorEpoch(e) == LET r == (e + 1) % Period IN IF e >= r THEN e - r ELSE 0
AnchorKey(b) == KeyBack(Key(b), en[b] - AnchorEpoch(en[b]))     \* the boundary epoch whose state block b has
PrevAnchor(k) == LET e == KNum(k) IN KeyBack(k, IF e >= Period THEN Period ELSE e)
AnchorKeys == {AnchorKey(b) : b \in 0..minted}

\* the blocks of the Period epochs before the boundary epoch that follows k, on k's own fork
Window(k) == {a \in ChainOf(k) : en[a] + Period >= KNum(k)}
Signals(W) == Cardinality({a \in W : sig[a]})
Num == thr[1]
Den == thr[2]

\* allowed states of the period beginning after k, given the state of the period before
Step(prev, k) ==
  LET e == KNum(k) IN
  CASE prev = "defined"   -> {IF e >= start THEN "started" ELSE "defined"}
    [] prev = "started"   -> LET W == Window(k)
                                 c == Signals(W)
                                 t == Cardinality(W)
                                 miss == IF e >= timeout THEN "failed" ELSE "started"
                             IN IF c * Den >= t * Num THEN {"locked_in"}                \* at least the ratio
                                ELSE IF c >= (t * Num) \div Den THEN {"locked_in", miss}   \* rounding unspecified
                                ELSE {miss}
    [] prev = "locked_in" -> {IF e >= minact THEN "active" ELSE "locked_in"}
    [] OTHER              -> {prev}

\* declarative evaluation from genesis: the set of states block-key k may have
RECURSIVE Sts(_)
Sts(k) == IF KNum(k) = 0 THEN {"defined"} ELSE UNION {Step(s, k) : s \in Sts(PrevAnchor(k))}
StateSet(b) == Sts(AnchorKey(b))
\* first epoch of the run of periods with the state of k (only where the states on the way are determined)
RECURSIVE Since(_)
Since(k) == IF KNum(k) = 0 THEN 0
            ELSE IF Cardinality(Sts(k)) # 1 \/ Cardinality(Sts(PrevAnchor(k))) # 1 THEN -1
            ELSE IF Sts(k) = Sts(PrevAnchor(k)) THEN Since(PrevAnchor(k)) ELSE KNum(k)

-----------------------------------------------------------------------------
(* the incremental evaluator (get_state) *)
RECURSIVE SumLens(_, _)
\* lengths of epochs E, E-1, .., E-i  (E = the epoch after k; its length is that of any child of k)
EpochLenBack(k, i) == IF i = 0 THEN el[CHOOSE c \in Children(k) : TRUE] ELSE el[KeyBack(k, i - 1)]
SumLens(k, i) == IF i < 0 THEN 0 ELSE EpochLenBack(k, i) + SumLens(k, i - 1)
CodedTotal(k) == SumLens(k, Period - 1)
\* the blocks the coded loop visits: CodedTotal(k) blocks back from k; it fails when it reaches beyond genesis
CodedWindow(k) == {Anc(k, d) : d \in 0..(CodedTotal(k) - 1)}
CodedFails(k) == CodedTotal(k) > Number(k)

\* one forward step of get_state (flooring as the code does); coded: with the counting window as written
NextAs(prev, k, coded) ==
  LET e == KNum(k) IN
  CASE prev = "defined"   -> IF e >= start THEN "started" ELSE "defined"
    [] prev = "started"   -> IF coded /\ CodedFails(k) THEN "none"
                             ELSE LET W == IF coded THEN CodedWindow(k) ELSE Window(k)
                                      t == IF coded THEN CodedTotal(k) ELSE Cardinality(W)
                                  IN IF Signals(W) >= (t * Num) \div Den THEN "locked_in"
                                     ELSE IF e >= timeout THEN "failed" ELSE "started"
    [] prev = "locked_in" -> IF e >= minact THEN "active" ELSE "locked_in"
    [] OTHER              -> prev
Next1(prev, k) == NextAs(prev, k, Coded)

RECURSIVE Eval(_, _)     \* <<answer, cache afterwards>>
Eval(k, ch) ==
  IF ch[k] # "none" THEN <<ch[k], ch>>
  ELSE IF KNum(k) = 0 \/ KNum(k) < start THEN <<"defined", [ch EXCEPT ![k] = "defined"]>>
  ELSE LET r == Eval(PrevAnchor(k), ch)
           s == IF r[1] = "none" THEN "none" ELSE Next1(r[1], k)
       IN IF s = "none" THEN <<"none", r[2]>> ELSE <<s, [r[2] EXCEPT ![k] = s]>>

Query(b) ==
  /\ Queries /\ b \in 0..minted
  /\ LET r == Eval(AnchorKey(b), cache) IN cache' = r[2] /\ last' = <<b, r[1]>>
  /\ UNCHANGED <<parent, sig, en, ei, el, minted, forkAt, start, timeout, minact, thr>>

Next == \/ \E p \in 0..N, s \in BOOLEAN, l \in Lens \cup {GenesisLen} : Mint(p, s, l)
        \/ \E b \in 0..N : Query(b)
Spec == Init /\ [][Next]_vars

-----------------------------------------------------------------------------
(* properties *)
TypeOK == /\ \A b \in 1..minted : parent[b] < b /\ ei[b] < el[b]
          /\ \A k \in Keys : cache[k] \in States \cup {"none"}
          /\ \A k \in Keys : cache[k] # "none" => (k <= minted /\ (KNum(k) = 0 \/ (KNum(k) + 1) % Period = 0))

\* cached / incremental evaluation = declarative evaluation from genesis, on every fork, in any query order
Sound == \A k \in Keys : cache[k] # "none" => cache[k] \in Sts(k)
AnswerOK == last[1] >= 0 => last[2] \in StateSet(last[1])
StateIsFunctionOfAncestors == Sound /\ AnswerOK

\* pairs of consecutive periods both present in the cache
Pairs == {k \in Keys : cache[k] # "none" /\ KNum(k) > 0 /\ KNum(k) >= start /\ cache[PrevAnchor(k)] # "none"}
\* never leaves active / failed; locked_in lasts until the first boundary >= min_activation_epoch, then active; order of states
Monotone == \A k \in Pairs : LET p == cache[PrevAnchor(k)]
                                 s == cache[k]
                             IN /\ p \in {"active", "failed"} => s = p
                                /\ p = "defined" => s = "started"              \* KNum(k) >= start
                                /\ p = "locked_in" => s = (IF KNum(k) >= minact THEN "active" ELSE "locked_in")
                                /\ s = "active" => p \in {"locked_in", "active"}
                                /\ s = "locked_in" => p \in {"started", "locked_in"}
                                /\ s = "started" => p \in {"defined", "started"}
                                /\ s = "defined" => p = "defined"
                                /\ s = "failed" => p \in {"started", "failed"}
\* locked_in iff enough of the previous period's blocks signalled (boundary: threshold - 1 / threshold)
ThresholdExact == \A k \in Pairs : cache[PrevAnchor(k)] = "started" =>
                     LET W == Window(k) IN
                     /\ Signals(W) * Den >= Cardinality(W) * Num => cache[k] = "locked_in"
                     /\ Signals(W) < (Cardinality(W) * Num) \div Den => cache[k] # "locked_in"
\* failed exactly at the first boundary >= timeout that does not lock in
TimeoutExact == \A k \in Pairs : LET p == cache[PrevAnchor(k)] IN
                     /\ (p = "started" /\ KNum(k) >= timeout) => cache[k] \in {"locked_in", "failed"}
                     /\ (p = "started" /\ KNum(k) < timeout) => cache[k] \in {"locked_in", "started"}
                     /\ (cache[k] = "failed" /\ p # "failed") => (p = "started" /\ KNum(k) >= timeout)
=============================================================================
