--------------------------- MODULE Trace_HeaderMap ---------------------------
(* Trace validation: an ndjson trace recorded from the real HeaderMap (c17 headermap-drive) must be a        *)
(* behaviour of HeaderMap.tla with the answers a plain map gives.  Spill events are the synchronous          *)
(* memory-limit steps the driver placed between operations.  Values are version numbers (0 = absent); a Get   *)
(* event also says whether the complete view came back field by field (`intact`).                            *)
(* StrictInsert = FALSE tolerates exactly the listed known finding (insert of a present key answers "new",     *)
(* which the real structure does for keys that live on disk only); the replay binding reports it.            *)
EXTENDS HeaderMap, Json, IOUtils, TLCExt
CONSTANT StrictInsert
Rec == ndJsonDeserialize(IOEnv.TRACE)
VARIABLE l
tvars == <<vars, l>>
Ev == Rec[l]
Is(e) == l <= Len(Rec) /\ Ev.ev = e /\ l' = l + 1
TInit == Start(1) /\ l = 1
TReset == /\ Is("Reset")
          /\ plain' = <<>> /\ mem' = <<>> /\ memv' = <<>> /\ disk' = <<>> /\ limit' = Ev.limit
          /\ out' = [op |-> "none", ret |-> None, exp |-> None, spilled |-> FALSE]
TInsert   == /\ Is("Insert") /\ Insert(Ev.k, Ev.v)
             /\ \/ Ev.ret = out'.exp
                \/ ~StrictInsert /\ out'.exp = 1 /\ Ev.ret = 0
TGet      == Is("Get") /\ Get(Ev.k) /\ Ev.ret = out'.exp /\ Ev.intact = TRUE
TContains == Is("Contains") /\ Contains(Ev.k) /\ Ev.ret = out'.exp
TRemove   == Is("Remove") /\ Remove(Ev.k)
TSpill    == Is("Spill") /\ Spill
TNext == TReset \/ TInsert \/ TGet \/ TContains \/ TRemove \/ TSpill
TSpec == TInit /\ [][TNext]_tvars
Accepted == LET d == TLCGet("stats").diameter IN
            IF d - 1 = Len(Rec) THEN TRUE
            ELSE Print(<<"TRACE-REJECTED", d, Rec[d]>>, FALSE)
=============================================================================
