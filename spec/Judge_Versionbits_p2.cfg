SPECIFICATION JSpec
CONSTANTS
  N = 1
  Lens = {1}
  GenesisLen = 1
  Period = 2
  Starts = {0}
  Timeouts = {0}
  MinActs = {0}
  Thresholds <- Thr34
  Coded = FALSE
  Queries = FALSE
  Emit = FALSE
INVARIANT WellFormed
INVARIANT EmitJudge
CHECK_DEADLOCK FALSE
