----------------------------- MODULE VerifyQueue -----------------------------
(***************************************************************************)
(* Growth beyond the listed properties (DESIGN 3.7 item 3): the verify queue *)
(* in front of the transaction pool (tx-pool/src/component/verify_queue.rs;  *)
(* filled by resumeble_process_tx / process_orphan_tx, drained by the        *)
(* verify_mgr workers through pop_front).                                    *)
(*                                                                         *)
(* Universe (fixed per history): transactions 1..N with size[t].             *)
(* Mathematical model: `q`, a partial map                                    *)
(*    tx -> [time, large, prop, cyc, peer, var]                              *)
(* time = added_time (ms), peer = 0 for a local submission (remote = None),  *)
(* var = the witness variant stored (the queue is keyed by proposal short    *)
(* id), large = remote /\ declared cycles > LargeThreshold, prop = the       *)
(* transaction was announced as a proposal of a block.  `total` is the       *)
(* counter the structure keeps next to it.                                   *)
(*                                                                         *)
(* Declared priority rule of pop_front / peek(only_small):                   *)
(*   1. if the queue holds proposal transactions: the earliest of them;      *)
(*   2. else, for the small-cycle worker: the earliest entry that is not     *)
(*      large; for any other worker: the earliest entry;                     *)
(*   "earliest" = minimal added_time; the order among entries added in the   *)
(*   same millisecond is open (parameter t of Pop / Peek).                   *)
(* Fixed besides: no id is queued twice (a second Add answers false, or -    *)
(* announced as a proposal - replaces the entry and moves it to the back);   *)
(* an entry leaves exactly once (Pop / Remove / RemoveMany / RemoveByPeer /  *)
(* Clear / replacement); RemoveByPeer(p) removes exactly p's entries; the    *)
(* size counter is exact and stays below MaxSize; a refused Add (Full)       *)
(* changes nothing.                                                          *)
(***************************************************************************)
EXTENDS Naturals, FiniteSets, Sequences, TLC
CONSTANTS MaxSize,          \* DEFAULT_MAX_VERIFY_QUEUE_TX_SIZE
          LargeThreshold    \* pool_config.max_tx_verify_cycles
VARIABLES size, now, q, total, out
vars == <<size, now, q, total, out>>

Drop(f, S) == [x \in DOMAIN f \ S |-> f[x]]
Put(f, k, v) == [x \in DOMAIN f \cup {k} |-> IF x = k THEN v ELSE f[x]]
Txs == DOMAIN size
Queued == DOMAIN q
RECURSIVE SumSize(_)
SumSize(S) == IF S = {} THEN 0 ELSE LET t == CHOOSE t \in S : TRUE IN size[t] + SumSize(S \ {t})

\* ---- the priority rule (over a queue value Q, so that step properties can use it on the old state)
PropsOf(Q) == {x \in DOMAIN Q : Q[x].prop}
CandOf(Q, small) == IF PropsOf(Q) # {} THEN PropsOf(Q)
                    ELSE IF small THEN {x \in DOMAIN Q : ~Q[x].large} ELSE DOMAIN Q
EarliestOf(Q, S) == {x \in S : \A y \in S : Q[x].time <= Q[y].time}
Front(small) == EarliestOf(q, CandOf(q, small))

NoOut == [op |-> "none", t |-> 0, ret |-> 0, small |-> FALSE]
Empty == now = 0 /\ q = <<>> /\ total = 0 /\ out = NoOut

Advance(d) == /\ now' = now + d /\ out' = [NoOut EXCEPT !.op = "Advance", !.t = d]
              /\ UNCHANGED <<size, q, total>>

\* add_tx(tx, is_proposal_tx, remote): ret 1 = Ok(true), 0 = Ok(false), 2 = Err(Full)
Add(t, prop, cyc, peer, v) ==
  LET present == t \in Queued
      q0      == Drop(q, {t})
      total0  == IF present THEN total - size[t] ELSE total
  IN /\ IF present /\ ~prop
        THEN /\ out' = [NoOut EXCEPT !.op = "Add", !.t = t, !.ret = 0] /\ UNCHANGED <<q, total>>
        ELSE IF size[t] + total0 >= MaxSize
        THEN /\ out' = [NoOut EXCEPT !.op = "Add", !.t = t, !.ret = 2] /\ UNCHANGED <<q, total>>
        ELSE /\ q' = Put(q0, t, [time |-> now, large |-> (peer # 0 /\ cyc > LargeThreshold), prop |-> prop,
                                 cyc |-> cyc, peer |-> peer, var |-> v])
             /\ total' = total0 + size[t]
             /\ out' = [NoOut EXCEPT !.op = "Add", !.t = t, !.ret = 1]
     /\ UNCHANGED <<size, now>>

\* pop_front(only_small): t = the entry taken (0 = None)
Pop(small, t) ==
  /\ IF Front(small) = {} THEN t = 0 /\ UNCHANGED <<q, total>>
     ELSE t \in Front(small) /\ q' = Drop(q, {t}) /\ total' = total - size[t]
  /\ out' = [NoOut EXCEPT !.op = "Pop", !.t = t, !.ret = t, !.small = small]
  /\ UNCHANGED <<size, now>>
Peek(small, t) ==
  /\ IF Front(small) = {} THEN t = 0 ELSE t \in Front(small)
  /\ out' = [NoOut EXCEPT !.op = "Peek", !.t = t, !.ret = t, !.small = small]
  /\ UNCHANGED <<size, now, q, total>>
RemoveSet(op, S, arg) ==
  /\ q' = Drop(q, S) /\ total' = total - SumSize(S \cap Queued)
  /\ out' = [NoOut EXCEPT !.op = op, !.t = arg, !.ret = Cardinality(S \cap Queued)]
  /\ UNCHANGED <<size, now>>
RemoveOne(t) == RemoveSet("Remove", {t}, t)
RemoveMany(S) == RemoveSet("RemoveMany", S, 0)
RemoveByPeer(p) == p # 0 /\ RemoveSet("RemoveByPeer", {x \in Queued : q[x].peer = p}, p)
Clear == RemoveSet("Clear", Queued, 0)

-----------------------------------------------------------------------------
TotalExact == total = SumSize(Queued)
BelowLimit == total < MaxSize
LargeExact == \A x \in Queued : q[x].large <=> (q[x].peer # 0 /\ q[x].cyc > LargeThreshold)
\* declarative form of the priority rule, as a property of every Pop step
PopStep == (out'.op = "Pop" /\ out'.ret # 0) =>
             LET t == out'.ret IN
             /\ t \in Queued /\ t \notin DOMAIN q'                     \* taken from the queue, and gone
             /\ DOMAIN q' = Queued \ {t}                                \* nothing else leaves
             /\ PropsOf(q) # {} => q[t].prop                            \* proposals first
             /\ (PropsOf(q) = {} /\ out'.small) => ~q[t].large          \* the small-cycle worker never takes a large one
             /\ \A y \in Queued : (q[y].prop = q[t].prop /\ (out'.small /\ ~q[t].prop => ~q[y].large))
                                    => q[t].time <= q[y].time          \* first in, first out within its class
PopNoneStep == (out'.op = "Pop" /\ out'.ret = 0) =>
                 /\ q' = q
                 /\ PropsOf(q) = {} /\ (IF out'.small THEN \A x \in Queued : q[x].large ELSE Queued = {})
PopOrder == [][PopStep /\ PopNoneStep]_vars
\* an entry is never overwritten except by the proposal replacement; a refused Add changes nothing
AddStep == out'.op = "Add" =>
             /\ out'.ret \in {0, 2} => q' = q /\ total' = total
             /\ out'.ret = 0 => out'.t \in Queued
             /\ \A x \in Queued \ {out'.t} : x \in DOMAIN q' /\ q'[x] = q[x]
             /\ out'.ret = 1 => out'.t \in DOMAIN q' /\ q'[out'.t].time = now
AddRule == [][AddStep]_vars
StateView == <<size, now, q, total>>
=============================================================================
