SPECIFICATION Spec
CONSTANTS
 MaxTx = 4
 Buggy = FALSE
 Emit = TRUE
INVARIANT NeverADifferentBlock
INVARIANT MissingPrecise
INVARIANT Completeness
INVARIANT VerifierGuards
INVARIANT EmitCase
CHECK_DEADLOCK FALSE
