--------------------------- MODULE ConsensusRules ---------------------------
(***************************************************************************)
(* Declarative block validity of CKB, written from the consensus rules      *)
(* (RFC 0020 consensus protocol, 0027 block structure, 0031/0044 extension, *)
(* property C03), NOT from the verifiers.                                    *)
(*                                                                         *)
(* A context is a main chain `c` (sequence of block records; c[h] has       *)
(* height h, genesis = height 0 is implicit) plus a table `S` of side       *)
(* blocks (uncle candidates).  `Must(c,S,b)` is the set of rules a candidate *)
(* block b on top of c definitely breaks, `May(c,S,b)` the rules on which    *)
(* the rule text is silent for this b (the verdict is then unspecified).    *)
(*                                                                         *)
(* Constant difficulty: every epoch has L blocks and the same target (the   *)
(* difficulty adjustment itself is property C07); reward / DAO amounts are  *)
(* delegated to the calculators (C06): the block record only says whether   *)
(* the field equals the calculators' value or is perturbed.                 *)
(***************************************************************************)
EXTENDS Naturals, Sequences, FiniteSets, TLC

CONSTANTS L,             \* blocks per epoch
          WClose, WFar,  \* proposal window: a tx proposed at height p may be committed at p+WClose .. p+WFar
          K,             \* number of blocks of the past-median
          MaxUncles, MaxProposals,
          MaxBytes,      \* block size limit (abstract units; 0 in a block = "natural size, far below")
          MaxCycles, TxCycles,  \* block cycle limit / cost of one (always-success) transaction
          Future,        \* allowed distance of a timestamp into the future (ms)
          Now,           \* local clock (ms after genesis)
          Txs            \* transaction ids; tx t spends its own genesis cell (independent of the others)

Rng(s) == {s[i] : i \in DOMAIN s}
Min2(a, b) == IF a < b THEN a ELSE b
Max2(a, b) == IF a < b THEN b ELSE a
NoDup(s) == \A i, j \in DOMAIN s : i # j => s[i] # s[j]

-----------------------------------------------------------------------------
(* Accessors; genesis = height 0: timestamp 0, epoch 0 index 0, nothing proposed *)
TsAt(c, h) == IF h = 0 THEN 0 ELSE c[h].ts
EpochAt(c, h) == IF h = 0 THEN <<0, 0, L>> ELSE c[h].ep

(* past-median of the (at most K) blocks ending at the tip of c.  For an even number of samples the *)
(* rule text does not say which middle element is "the median": Lo/Hi bracket every convention.     *)
LastTs(c) == LET n == Len(c) IN [i \in 1..Min2(K, n + 1) |-> TsAt(c, n + 1 - i)]
SortedTs(c) == SortSeq(LastTs(c), LAMBDA a, b : a < b)
MedianHi(c) == LET s == SortedTs(c) IN s[(Len(s) \div 2) + 1]
MedianLo(c) == LET s == SortedTs(c) IN s[((Len(s) - 1) \div 2) + 1]

(* epoch continuity: same epoch and next index, or - after the tail block - the head of the next epoch *)
WellFormed(e) == e[3] > 0 /\ e[2] < e[3]
NextLen == L          \* delegated to the epoch calculator (C07); constant here
SuccEpoch(pe) == IF pe[2] + 1 = pe[3] THEN <<pe[1] + 1, 0, NextLen>> ELSE <<pe[1], pe[2] + 1, pe[3]>>

(* an uncle entry of a block: [ref (side / main block), v (variant, see U), target, pv (state of its proposals)] *)
(* side blocks: [par |-> [k |-> "m"|"s", i |-> height | side id], number, epn, props] *)
SideHeader(S, r) == S[r.i]
(* proposals carried by an embedded uncle reference *)
UncleProps(S, u) == IF u.ref.k = "s" /\ u.pv = "ok" /\ u.v = 0 THEN Rng(S[u.ref.i].props) ELSE {}
(* every id proposed by the main block at height h, including its uncles' proposals *)
PropsAt(c, S, h) == Rng(c[h].props) \cup UNION {UncleProps(S, c[h].uncles[j]) : j \in DOMAIN c[h].uncles}
(* the ids that may be committed at height n *)
Window(c, S, n) == UNION {PropsAt(c, S, h) : h \in {x \in 1..Len(c) : x + WClose <= n /\ n <= x + WFar}}
Committed(c) == UNION {Rng(c[h].commits) : h \in DOMAIN c}
(* side blocks already embedded as uncles by the chain *)
Embedded(c) == UNION {{c[h].uncles[j].ref : j \in DOMAIN c[h].uncles} : h \in DOMAIN c}

-----------------------------------------------------------------------------
(* Uncle rules for the j-th uncle of b (RFC 0020: same epoch and difficulty; lower height; its parent *)
(* is an ancestor of b or embedded in b or its ancestors as an uncle; b is the first to refer to it).  *)
(* Uncle headers are not verified as headers: an uncle entry may also be a FABRICATED header ("cs": child of side   *)
(* block i, "cm": child of main block i, "cc": child of the fabricated header cm(i) with dist 1) that names its    *)
(* parent by hash, claims the block's own epoch and claims the number parent.number + dist.  Proper descent needs  *)
(* dist = 1.                                                                                                       *)
UHdr(c, S, u) ==   \* number / epoch number / parent of the referenced header
  CASE u.ref.k = "s"  -> [number |-> S[u.ref.i].number, epn |-> S[u.ref.i].epn, par |-> S[u.ref.i].par]
    [] u.ref.k = "m"  -> [number |-> u.ref.i, epn |-> EpochAt(c, u.ref.i)[1], par |-> [k |-> "m", i |-> u.ref.i - 1]]
    [] u.ref.k = "cs" -> [number |-> S[u.ref.i].number + u.dist, epn |-> SuccEpoch(EpochAt(c, Len(c)))[1],
                          par |-> [k |-> "s", i |-> u.ref.i]]
    [] u.ref.k = "cm" -> [number |-> u.ref.i + u.dist, epn |-> SuccEpoch(EpochAt(c, Len(c)))[1],
                          par |-> [k |-> "m", i |-> u.ref.i]]
    [] u.ref.k = "cc" -> [number |-> u.ref.i + 1 + u.dist, epn |-> SuccEpoch(EpochAt(c, Len(c)))[1],
                          par |-> [k |-> "cm", i |-> u.ref.i]]

\* positions at which b embeds the (unmodified) block `par` as an uncle
EmbeddedAt(b, par) == {i \in DOMAIN b.uncles : b.uncles[i].ref = par /\ b.uncles[i].v = 0 /\ b.uncles[i].dist = 1}
ParNumber(S, par) == IF par.k = "s" THEN S[par.i].number ELSE par.i + 1     \* "s": side block; "cm": fabricated child of main i

UncleDescentMust(c, S, b, j) ==
  LET u == b.uncles[j]
      h == UHdr(c, S, u)
  IN \/ u.ref.k = "m"                                     \* an ancestor itself is not an uncle
     \/ /\ h.par.k = "m" /\ ~(h.par.i <= Len(c) /\ h.number = h.par.i + 1)
     \/ /\ h.par.k \in {"s", "cm"}
        /\ \/ h.par \notin Embedded(c) /\ EmbeddedAt(b, h.par) = {}
           \/ h.number # ParNumber(S, h.par) + 1          \* an embedded parent must be exactly one block lower, too
(* parent embedded in b itself but listed AFTER the child: the rule does not talk about order *)
UncleDescentMay(c, S, b, j) ==
  LET u == b.uncles[j]
      h == UHdr(c, S, u)
  IN /\ h.par.k \in {"s", "cm"} /\ h.par \notin Embedded(c)
     /\ (\E i \in EmbeddedAt(b, h.par) : i > j)
     /\ ~(\E i \in EmbeddedAt(b, h.par) : i < j)

-----------------------------------------------------------------------------
RuleNames == {"number", "parent", "epoch", "ts_median", "ts_future", "target", "cellbase", "roots", "bytes",
              "cycles", "proposals", "extension", "uncle_count", "uncle_target", "uncle_epoch", "uncle_number",
              "uncle_descent", "uncle_double", "uncle_proposals", "commit_window", "tx_valid", "reward", "dao"}

Violated(r, c, S, b) ==
  LET pos == Len(c) + 1                       \* height the block would have on this chain
      pe  == EpochAt(c, Len(c))
      us  == b.uncles
  IN CASE r = "number"    -> b.number # pos
       [] r = "parent"    -> b.parent # "tip"
       [] r = "epoch"     -> ~WellFormed(b.ep) \/ b.ep # SuccEpoch(pe)
       [] r = "ts_median" -> b.ts <= MedianLo(c)
       [] r = "ts_future" -> b.ts > Now + Future
       [] r = "target"    -> b.target # "epoch"
       [] r = "cellbase"  -> b.cb # "ok"
       [] r = "roots"     -> b.roots # "ok"
       [] r = "bytes"     -> b.bytes > MaxBytes
       [] r = "cycles"    -> Len(b.commits) * TxCycles > MaxCycles
       [] r = "proposals" -> Len(b.props) > MaxProposals \/ ~NoDup(b.props)
       [] r = "extension" -> b.ext \notin {"root", "root64"}
       [] r = "uncle_count"     -> Len(us) > MaxUncles
       [] r = "uncle_target"    -> \E j \in DOMAIN us : us[j].target # "epoch"
       [] r = "uncle_epoch"     -> \E j \in DOMAIN us : UHdr(c, S, us[j]).epn # SuccEpoch(pe)[1]
       [] r = "uncle_number"    -> \E j \in DOMAIN us : UHdr(c, S, us[j]).number >= pos
       [] r = "uncle_descent"   -> \E j \in DOMAIN us : UncleDescentMust(c, S, b, j)
       [] r = "uncle_double"    -> (\E j \in DOMAIN us : us[j].v = 0 /\ us[j].ref \in Embedded(c))
                                   \/ (\E i, j \in DOMAIN us : i # j /\ us[i].ref = us[j].ref /\ us[i].v = us[j].v /\ us[i].dist = us[j].dist)
       [] r = "uncle_proposals" -> \E j \in DOMAIN us : us[j].pv \notin {"ok", "atlimit"}
       [] r = "commit_window"   -> \E t \in Rng(b.commits) : t \notin Window(c, S, pos)
       [] r = "tx_valid"        -> (\E t \in Rng(b.commits) : t \in Committed(c)) \/ ~NoDup(b.commits)
       \* block pos finalises the reward of block pos - (WFar + 1); no such block before pos = WFar + 2
       [] r = "reward"    -> IF pos <= WFar + 1 THEN b.reward \notin {"ok", "none"} ELSE b.reward # "ok"
       [] r = "dao"       -> b.dao # "ok"

Must(c, S, b) == {r \in RuleNames : Violated(r, c, S, b)}
May(c, S, b) ==
  (IF b.ts > MedianLo(c) /\ b.ts <= MedianHi(c) THEN {"ts_median"} ELSE {})
  \cup (IF \E j \in DOMAIN b.uncles : UncleDescentMay(c, S, b, j) THEN {"uncle_descent"} ELSE {})

Verdict(c, S, b) == IF Must(c, S, b) # {} THEN "reject" ELSE IF May(c, S, b) # {} THEN "either" ELSE "accept"
Valid(c, S, b) == Must(c, S, b) = {} /\ May(c, S, b) = {}

-----------------------------------------------------------------------------
(* The plain valid block on top of c *)
Default(c) ==
  [number |-> Len(c) + 1, parent |-> "tip", ep |-> SuccEpoch(EpochAt(c, Len(c))), ts |-> MedianHi(c) + 1,
   target |-> "epoch", props |-> <<>>, commits |-> <<>>, uncles |-> <<>>, cb |-> "ok", roots |-> "ok",
   bytes |-> 0, ext |-> "root", reward |-> "ok", dao |-> "ok"]
\* v > 0: a DIFFERENT block with the same header fields except the proposals (a sibling of the referenced block)
U(r) == [ref |-> r, target |-> "epoch", pv |-> "ok", v |-> 0, dist |-> 1]
Fab(k, i, d) == [ref |-> [k |-> k, i |-> i], target |-> "epoch", pv |-> "ok", v |-> 0, dist |-> d]
MainRef(h) == [k |-> "m", i |-> h]
SideRef(i) == [k |-> "s", i |-> i]
=============================================================================
