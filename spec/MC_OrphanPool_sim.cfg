SPECIFICATION Spec
CONSTANTS
  Ids = {1, 2, 3, 4, 5, 6, 7}
  Roots = {0, 9}
  ExpiredEpoch = 6
  N = 7
  EpochSet = {0, 1}
  Tips = {6, 7, 8}
  Depth = 14
  NoMixed = TRUE
INVARIANT PoolIsParents
INVARIANT LeadersExact
INVARIANT GroupedExact
INVARIANT ReturnExact
INVARIANT EmitBeh
CHECK_DEADLOCK FALSE
