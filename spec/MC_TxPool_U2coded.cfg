SPECIFICATION MSpec
CONSTANTS
 Txs <- U2Txs
 Ins <- U2Ins
 Deps <- U2Deps
 Fee <- U2Fee
 Size <- U2Size
 HDeps <- NoHDeps
 Cycles <- UnitCycles
 Genesis <- MGenesis
 Coded = TRUE
 KeepHist = FALSE
 MaxProps = 1
 MaxChain = 4
 MaxOps = 6
 MConf <- MConf_U2coded
INVARIANT NoDoubleSpend
INVARIANT LinksExact
INVARIANT AggregatesExact
INVARIANT EdgesExact
INVARIANT CountsExact
INVARIANT AncestorLimit
INVARIANT RbfRule
VIEW PoolView
CHECK_DEADLOCK FALSE
