SPECIFICATION MSpec
CONSTANTS
 Txs <- U1Txs
 Ins <- U1Ins
 Deps <- U1Deps
 Fee <- U1Fee
 Size <- U1Size
 HDeps <- NoHDeps
 Cycles <- UnitCycles
 Genesis <- MGenesis
 Coded = FALSE
 KeepHist = TRUE
 MaxProps = 1
 MaxChain = 4
 MaxOps = 7
 MConf <- MConf_U1sim
INVARIANT NoDoubleSpend
INVARIANT LinksExact
INVARIANT AggregatesExact
INVARIANT EdgesExact
INVARIANT CountsExact
INVARIANT AncestorLimit
INVARIANT RbfRule
INVARIANT EmitHist
CHECK_DEADLOCK FALSE
