SPECIFICATION Spec
CONSTANTS
  MaxSize = 4
  Sizes = {1, 2, 3}
  MaxAppends = 5
  Buggy = FALSE
  Emit = FALSE
INVARIANT TypeOK
INVARIANT PrefixOK
INVARIANT HandleOK
INVARIANT NoLossInv
INVARIANT EmitCrash
CHECK_DEADLOCK FALSE
