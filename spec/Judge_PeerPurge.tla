--------------------------- MODULE Judge_PeerPurge ---------------------------
(* Judge of the purge that precedes a discovered address when the address book holds ADDR_COUNT_LIMIT entries       *)
(* (PeerStore::check_purge through add_addr; harness g_peernet purge fills a real PeerStore to the limit).  The rule *)
(* is PurgeOK of PeerNet.tla, restated over the SUMMARY of one experiment (group sizes before, groups of the removed  *)
(* addresses, the not-connectable entries) with the "top half of the groups by size" expressed through the size of    *)
(* the K-th largest group, so that books of 16 384 addresses in thousands of groups can be judged without            *)
(* enumerating subsets:                                                                                             *)
(*   dead # {}  : exactly the not-connectable entries go;                                                           *)
(*   otherwise  : two addresses go from every group of more than four in the top half (by size; equal sizes at the  *)
(*                cut: any K - |larger| of them), nothing else; nothing to remove = the add is refused ("full").    *)
EXTENDS Naturals, FiniteSets, Sequences, TLC, Json, IOUtils
Rec == ndJsonDeserialize(IOEnv.TRACE)
SeqRange(s) == {s[i] : i \in 1..Len(s)}
Count(s, x) == Cardinality({i \in 1..Len(s) : s[i] = x})
Judge(e) ==
  LET dead == SeqRange(e.dead)
      removed == SeqRange(e.removed)
      G == {e.groups[i].g : i \in 1..Len(e.groups)}
      size == [g \in G |-> LET i == CHOOSE i \in 1..Len(e.groups) : e.groups[i].g = g IN e.groups[i].n]
      K == Cardinality(G) \div 2
      r(g) == Count(e.removedGroups, g)
      T2 == {g \in G : r(g) # 0}
  IN /\ Len(e.removed) = Cardinality(removed)
     /\ (e.ret = "full") = (removed = {})
     /\ e.added = (e.ret = "ok")
     /\ e.count = e.limit - Cardinality(removed) + (IF e.added THEN 1 ELSE 0)
     /\ IF dead # {} THEN removed = dead
        ELSE /\ \A g \in T2 : r(g) = 2 /\ size[g] > 4
             /\ IF K = 0 THEN T2 = {}
                ELSE LET v == CHOOSE v \in {size[g] : g \in G} :
                                 /\ Cardinality({g \in G : size[g] > v}) < K
                                 /\ Cardinality({g \in G : size[g] >= v}) >= K
                         sure == {g \in G : size[g] > v}
                         tie == {g \in G : size[g] = v}
                         k == K - Cardinality(sure)
                     IN /\ {g \in sure : size[g] > 4} \subseteq T2
                        /\ T2 \subseteq sure \cup tie
                        /\ IF v > 4 THEN Cardinality(T2 \cap tie) = k ELSE T2 \cap tie = {}
VARIABLE i
Init == i = 1
Next == i <= Len(Rec) /\ i' = i + 1
Spec == Init /\ [][Next]_i
AllOK == i <= Len(Rec) => (Judge(Rec[i]) \/ Print(<<"PURGE-REJECTED", i, Rec[i].x, Rec[i].ret, Rec[i].removedGroups>>, FALSE))
=============================================================================
