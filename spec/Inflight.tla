------------------------------ MODULE Inflight ------------------------------
(***************************************************************************)
(* The in-flight block download table (sync/src/types/mod.rs InflightBlocks).*)
(*                                                                         *)
(*   st     block  -> [peer, ts]   who downloads the block, since when      *)
(*   sched  peer   -> set of blocks listed for the peer (tracked peers only) *)
(*   trace  block  -> time the block was marked as slow (mark_slow_block)   *)
(*   restart       highest block number released by a slow-block time-out;  *)
(*                 requests at or below it are marked at once                *)
(*   low           current slow-block time limit (adaptive; the adaptation  *)
(*                 policy is not part of the property: any value)           *)
(*   stale         ghost: entries whose peer was evicted by Prune - the one  *)
(*                 documented deviation: they stay in `st` (no longer listed *)
(*                 for any peer) until they time out or the block arrives    *)
(*                                                                         *)
(* What the property fixes: a block is never assigned to two peers; a block  *)
(* listed for a peer is in flight from exactly that peer; a block arriving,  *)
(* a tracked peer leaving, a request timing out (download time-out or        *)
(* slow-block time-out) release exactly the affected entries in all maps.    *)
(* What it leaves open, and the specification therefore leaves open too:     *)
(* how many tasks a peer may get, how it is punished, *which* tracked peers  *)
(* Prune evicts (parameter E), how `low` adapts (parameter nl).              *)
(***************************************************************************)
EXTENDS Naturals, FiniteSets, Sequences, TLC
CONSTANTS Peers, Blocks,
          W,            \* a block id b encodes its number: Num(b) = b \div W (W ids per height)
          Timeout,      \* BLOCK_DOWNLOAD_TIMEOUT (ms)
          PruneWindow,  \* Prune examines requests for numbers <= tip + 20
          SlowWindow    \* mark_slow_block marks requests for numbers <= tip + 1

VARIABLES now, st, sched, trace, restart, low, stale, out
vars == <<now, st, sched, trace, restart, low, stale, out>>

Num(b) == b \div W
Drop(f, S) == [x \in DOMAIN f \ S |-> f[x]]
Put(f, k, v) == [x \in DOMAIN f \cup {k} |-> IF x = k THEN v ELSE f[x]]
MaxOf(S, d) == IF S = {} THEN d ELSE CHOOSE x \in S : \A y \in S : y <= x
Tracked == DOMAIN sched
Listed(b) == b \in DOMAIN st /\ st[b].peer \in Tracked /\ b \in sched[st[b].peer]

Start(l0) == /\ now = 0 /\ st = <<>> /\ sched = <<>> /\ trace = <<>> /\ restart = 0 /\ low = l0
             /\ stale = {} /\ out = [op |-> "none", ret |-> 0]

Advance(d) == /\ now' = now + d /\ out' = [op |-> "Advance", ret |-> d]
              /\ UNCHANGED <<st, sched, trace, restart, low, stale>>

\* a request for b is sent to p
Insert(p, b) ==
  /\ IF b \in DOMAIN st
     THEN /\ out' = [op |-> "Insert", ret |-> 0]            \* already in flight: refused, nothing changes
          /\ UNCHANGED <<st, sched, trace, stale>>
     ELSE /\ st' = Put(st, b, [peer |-> p, ts |-> now])
          /\ sched' = Put(sched, p, (IF p \in Tracked THEN sched[p] ELSE {}) \cup {b})
          /\ trace' = IF restart >= Num(b) THEN Put(trace, b, now) ELSE trace
          /\ stale' = stale
          /\ out' = [op |-> "Insert", ret |-> 1]
  /\ UNCHANGED <<now, restart, low>>

\* block b arrives: its entry disappears from every map; `low` may adapt (nl)
RemoveByBlock(b, nl) ==
  /\ IF b \notin DOMAIN st
     THEN /\ out' = [op |-> "RemoveByBlock", ret |-> 0]
          /\ UNCHANGED <<st, sched, trace, stale, low>>
     ELSE /\ st' = Drop(st, {b})
          /\ sched' = [p \in Tracked |-> sched[p] \ {b}]
          /\ trace' = Drop(trace, {b})
          /\ stale' = stale \ {b}
          /\ low' = nl
          /\ out' = [op |-> "RemoveByBlock", ret |-> 1]
  /\ UNCHANGED <<now, restart>>

\* a tracked peer leaves: exactly the blocks listed for it are released
RemoveByPeer(p) ==
  /\ IF p \notin Tracked
     THEN /\ out' = [op |-> "RemoveByPeer", ret |-> 0]      \* (entries of an evicted peer are stale: they stay)
          /\ UNCHANGED <<st, sched, trace, stale>>
     ELSE /\ st' = Drop(st, sched[p])
          /\ trace' = Drop(trace, sched[p])
          /\ sched' = Drop(sched, {p})
          /\ stale' = stale
          /\ out' = [op |-> "RemoveByPeer", ret |-> Cardinality(sched[p])]
  /\ UNCHANGED <<now, restart, low>>

\* every request at or below tip + SlowWindow that is not yet marked is marked now
MarkSlow(tip) ==
  /\ LET M == {b \in DOMAIN st : Num(b) <= tip + SlowWindow}
     IN trace' = [b \in DOMAIN trace \cup M |-> IF b \in DOMAIN trace THEN trace[b] ELSE now]
  /\ out' = [op |-> "MarkSlow", ret |-> tip]
  /\ UNCHANGED <<now, st, sched, restart, low, stale>>

TimedOut(tip) == {b \in DOMAIN st : Num(b) <= tip + PruneWindow /\ st[b].ts + Timeout < now}

\* prune(tip): download time-outs, then eviction of the peers E (returned to the caller), then
\* slow-block time-outs.  E is the scheduling policy's choice; the entries of an evicted peer become stale.
Prune(tip, E) ==
  LET TO     == TimedOut(tip)
      st1    == Drop(st, TO)
      sched1 == [p \in Tracked |-> sched[p] \ TO]
      trace1 == Drop(trace, TO)
      sched2 == Drop(sched1, E)
      stale2 == (stale \ TO) \cup UNION {sched1[p] : p \in E}
      rst1   == IF restart # 0 /\ tip + 1 > restart THEN 0 ELSE restart
      X      == {b \in DOMAIN trace1 : now > low + trace1[b]}
  IN /\ E \subseteq Tracked
     /\ st' = Drop(st1, X)
     /\ sched' = [p \in DOMAIN sched2 |-> sched2[p] \ X]
     /\ trace' = Drop(trace1, X)
     /\ restart' = MaxOf({Num(b) : b \in X} \cup {rst1}, rst1)
     /\ stale' = stale2 \ X
     /\ out' = [op |-> "Prune", ret |-> E]
     /\ UNCHANGED <<now, low>>

-----------------------------------------------------------------------------
\* C17, in-flight table
OnePeerPerBlock == \A p, q \in Tracked : p # q => sched[p] \cap sched[q] = {}
ListedIsInflight == \A p \in Tracked : \A b \in sched[p] : b \in DOMAIN st /\ st[b].peer = p
\* conversely every in-flight entry is listed for its peer, except the stale ones (named deviation)
InflightIsListed == \A b \in DOMAIN st : b \in stale \/ Listed(b)
StaleOK == stale \subseteq DOMAIN st /\ \A b \in stale : ~Listed(b)
\* slow-block marks only exist for blocks in flight
TraceLive == DOMAIN trace \subseteq DOMAIN st
=============================================================================
