SPECIFICATION Spec
CONSTANTS
  OneDay = 8192
  Shape = "tree"
  MaxBlocks = 8
  MaxHeight = 100
  Emit = TRUE
INVARIANT TypeOK
INVARIANT SkipPointsToAncestor
INVARIANT WalkEqualsParentWalk
INVARIANT LocatorEqualsParentWalk
INVARIANT LocatorShape
INVARIANT EmitTree
CHECK_DEADLOCK FALSE
