--------------------------- MODULE Trace_SkipList ---------------------------
(* Trace validation for the skip list / locator on the real ActiveChain (c17 skiplist-drive): a real node    *)
(* with a stored main chain plus headers announced by peers (SyncShared::insert_valid_header -> build_skip,   *)
(* real HeaderMap).  Reset{stored}: genesis + `stored` mined blocks (ids 1..stored+1); Extend{p}: a header on  *)
(* block p; Ancestor{b,t,ret}: ActiveChain::get_ancestor; Locator{b,ret}: ActiveChain::get_locator (ids).     *)
(* Answers must be the parent-walk ancestors.  BigLocator (chains longer than ONE_DAY_BLOCK_NUMBER, too long  *)
(* for TLC to hold as sequences): the heights must be the ones the step rule prescribes; the driver walked     *)
(* parent links one by one itself and reports whether every entry lies on the path (`onpath`).               *)
EXTENDS SkipList, Json, IOUtils, TLCExt
Rec == ndJsonDeserialize(IOEnv.TRACE)
VARIABLE l
tvars == <<vars, l>>
Ev == Rec[l]
Is(e) == l <= Len(Rec) /\ Ev.ev = e /\ l' = l + 1
TInit == Genesis /\ l = 1
RECURSIVE Chain(_, _)
Chain(k, s) == IF k = 0 THEN s
               ELSE LET b == Len(s.par) + 1
                    IN Chain(k - 1, [par |-> Append(s.par, b - 1), ht |-> Append(s.ht, b - 1), skp |-> Append(s.skp, 0),
                                     anc |-> Append(s.anc, Append(s.anc[b - 1], b))])
\* stored blocks carry no skip pointer (their index views are rebuilt from the store)
TReset == /\ Is("Reset")
          /\ LET s == Chain(Ev.stored, [par |-> <<0>>, ht |-> <<0>>, skp |-> <<0>>, anc |-> << <<1>> >>])
             IN par' = s.par /\ ht' = s.ht /\ skp' = s.skp /\ anc' = s.anc
TExtend == Is("Extend") /\ Extend(Ev.p)
TAncestor == /\ Is("Ancestor") /\ UNCHANGED vars
             /\ Ev.ret = IF Ev.t <= ht[Ev.b] THEN ParentAncestor(Ev.b, Ev.t) ELSE 0
             /\ Ev.t <= ht[Ev.b] => SkipAncestor(Ev.b, Ev.t) = Ev.ret
TLocator == /\ Is("Locator") /\ UNCHANGED vars
            /\ Ev.ret = LocatorByParents(Ev.b)
            /\ Locator(Ev.b) = Ev.ret
TBigLocator == /\ Is("BigLocator") /\ UNCHANGED vars
               /\ Ev.heights = LocatorHeights(Ev.h)
               /\ Ev.onpath = TRUE
TNext == TReset \/ TExtend \/ TAncestor \/ TLocator \/ TBigLocator
TSpec == TInit /\ [][TNext]_tvars
Accepted == LET d == TLCGet("stats").diameter IN
            IF d - 1 = Len(Rec) THEN TRUE
            ELSE Print(<<"TRACE-REJECTED", d, Rec[d]>>, FALSE)
=============================================================================
