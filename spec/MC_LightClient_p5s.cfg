SPECIFICATION MCSpec
CONSTANTS
 MaxBlocks = 5
 Works = {1, 2}
 WrongSize = FALSE
 GenesisDiff = 1
 DiffUnit = 1
 AsCoded = FALSE
 SharedCellbase = TRUE
 Mode = "proofs"
 MaxReq = 2
 MaxDs = 2
CONSTRAINT OneFlaw
INVARIANT BlocksOK
INVARIANT TxsOK
INVARIANT DetachedNotProved
INVARIANT NoPanic
CHECK_DEADLOCK FALSE
