SPECIFICATION Spec
CONSTANTS
  MaxOrphans = 100
  ExpireTime = 4800
  N = 7
  MaxNow = 100000
  AdvSet = {1, 2400, 4799, 4800}
  Depth = 16
  Vars = {0, 1}
INVARIANT IndexExact
INVARIANT Bounded
INVARIANT EmitBeh
CHECK_DEADLOCK FALSE
