---------------------------- MODULE MCH_Indexer ----------------------------
(* History export for the R binding: behaviours of the indexer component (tree growth, then a walk of     *)
(* appends / rollbacks) and of the follow-the-chain setting (tree growth order only) as JSON.            *)
(* Exhaustive mode prints every behaviour of exactly HistLen steps; -simulate prints random ones.        *)
EXTENDS MC_Indexer
CONSTANTS HistLen
VARIABLE hist
hvars == <<ivars, hist>>

HInit == IdxInit /\ hist = <<>>
HMine == /\ Len(hist) < HistLen /\ MCMine
         /\ hist' = Append(hist, [op |-> "mine", parent |-> tree'[NextId].parent, txs |-> tree'[NextId].txs,
                                  cb |-> tree'[NextId].cb, b |-> NextId])
HAppend == /\ Len(hist) < HistLen /\ NextId > 1
           /\ \E b \in DOMAIN tree : IdxAppend(b) /\ hist' = Append(hist, [op |-> "append", b |-> b])
HRollback == /\ Len(hist) < HistLen /\ IdxRollback /\ ok'
             /\ hist' = Append(hist, [op |-> "rollback", b |-> IdxTip])
HWalkNext == HMine \/ HAppend \/ HRollback
HSpecWalk == HInit /\ [][HWalkNext]_hvars
\* tree growth only (the real node decides the reorganisations)
HGrowNext == /\ Len(hist) < HistLen
             /\ \E p \in DOMAIN tree : \E txs \in Bodies(Chain(p)) : MineBlock(p, txs)
             /\ hist' = Append(hist, [op |-> "mine", parent |-> tree'[NextId].parent, txs |-> tree'[NextId].txs,
                                      cb |-> tree'[NextId].cb, b |-> NextId])
             /\ UNCHANGED <<main, R, hw, ok, snap>>
HSpecGrow == HInit /\ [][HGrowNext]_hvars

EmitHist == (Len(hist) = HistLen) => PrintT(<<"HIST", ToJson(hist)>>)
=============================================================================
