SPECIFICATION Spec
CONSTANTS
 MaxBlocks = 6
 Works = {1, 2}
 WrongSize = FALSE
CONSTRAINT OneFlaw
INVARIANT TypeOK
INVARIANT CommittedRootIsAncestors
INVARIANT MainRootAfterReorg
INVARIANT NoStaleRead
INVARIANT ProofsVerifyOnlyOnOwnChain
CHECK_DEADLOCK FALSE
