SPECIFICATION PSpec
CONSTANTS
 Txs <- RTxs
 Ins <- RIns
 Deps <- RDeps
 HDeps <- RHDeps
 Fee <- RFee
 Size <- ROne
 Cycles <- ROne
 Genesis <- RGenesis
 Mutant = "keep_conflicts"
 MaxChain = 4
 MaxNotes = 2
 PConf <- PConf_a
INVARIANT TemplateSound
CHECK_DEADLOCK FALSE
