SPECIFICATION Spec
CONSTANTS
  Peers = {1, 2, 3}
  Blocks = {2, 3, 4, 5, 6, 50}
  W = 2
  Timeout = 30000
  PruneWindow = 20
  SlowWindow = 1
  Deltas = {1, 1000, 1250, 1500, 28500, 30000}
  MaxAdv = 7
  Tips = {0, 1, 5}
  InitTC = 32
  MaxTC = 128
  Protect = 0
  Fast = 1000
  Normal = 1250
  Low0 = 1500
  Depth = 18
  Free = FALSE
  EmitAll = TRUE
INVARIANT OnePeerPerBlock
INVARIANT ListedIsInflight
INVARIANT InflightIsListed
INVARIANT StaleOK
INVARIANT TraceLive
INVARIANT EmitBeh
CHECK_DEADLOCK FALSE
