SPECIFICATION Spec
CONSTANTS
 Schema <- CkbSchema
 Types = {"Uint32", "Uint64", "Uint128", "Byte32", "Uint256", "Bytes", "BytesOpt", "BytesOptVec", "BytesVec", "Byte32Vec", "ScriptOpt", "ProposalShortId", "UncleBlockVec", "TransactionVec", "ProposalShortIdVec", "CellDepVec", "CellInputVec", "CellOutputVec", "Script", "OutPoint", "CellInput", "CellOutput", "CellDep", "RawTransaction", "Transaction", "RawHeader", "Header", "UncleBlock", "Block", "CellbaseWitness", "WitnessArgs", "BoolOpt", "Byte32Opt", "Bool", "BeUint32", "BeUint64", "Uint32Vec", "Uint64Vec", "Uint256Vec", "CellOutputOpt", "HeaderVec", "OutPointVec", "Uint64VecOpt", "HeaderDigest", "HeaderView", "UncleBlockVecView", "TransactionView", "BlockExt", "BlockExtV1", "EpochExt", "TransactionKey", "NumberHash", "TransactionInfo", "CellEntry", "CellDataEntry", "RelayMessage", "CompactBlock", "RelayTransaction", "RelayTransactionVec", "RelayTransactions", "RelayTransactionHashes", "GetRelayTransactions", "GetBlockTransactions", "BlockTransactions", "GetBlockProposal", "BlockProposal", "IndexTransaction", "IndexTransactionVec", "BlockFilterMessage", "GetBlockFilters", "BlockFilters", "GetBlockFilterHashes", "BlockFilterHashes", "GetBlockFilterCheckPoints", "BlockFilterCheckPoints", "SyncMessage", "GetHeaders", "GetBlocks", "SendHeaders", "SendBlock", "FilteredBlock", "MerkleProof", "InIBD", "HeaderDigestVec", "VerifiableHeader", "VerifiableHeaderVec", "GetLastState", "SendLastState", "GetLastStateProof", "GetBlocksProof", "GetTransactionsProof", "Time", "RawAlert", "Alert", "Identify", "PingPayload", "PingMessage", "Ping", "Pong", "NodeVec", "Node2Vec", "Uint16", "PortOpt", "DiscoveryPayload", "DiscoveryMessage", "GetNodes", "GetNodes2", "Nodes", "Nodes2", "Node", "Node2", "AddressVec", "Address", "IdentifyMessage", "HolePunchingMessage", "ConnectionRequest", "ConnectionRequestDelivered", "ConnectionSync"}
 Deep = 3
 DoEmit = TRUE
 VarTypes = {"Block", "Transaction", "UncleBlock", "CompactBlock", "BlockTransactions", "SendBlock", "BlockProposal", "FilteredBlock", "RelayTransactions", "SendHeaders"}
 VarDepth = 3
INVARIANT ValidOK
INVARIANT TotalOK
INVARIANT ExtraOK
INVARIANT Emit
CHECK_DEADLOCK FALSE
