------------------------------ MODULE MC_Frame ------------------------------
(* Enumeration of frame cases for network/src/compress.rs, with the verdict of Frame.tla, for replay on the real      *)
(* `compress::decompress` and on the decoder of `LengthDelimitedCodecWithCompress` (harness/src/bin/g_frame.rs).       *)
(* A case: flag byte; kind "snappy" (the harness compresses a message of n bytes with the real encoder, then replaces   *)
(* the preamble as `tamper` says) or "raw" (n arbitrary bytes).                                                          *)
EXTENDS Frame, TLC, Json, FiniteSets
VARIABLES done
Flags == {0, 1, 127, 128, 129, 255}
Lens == {1, 2, 100, Threshold - 1, Threshold, Threshold + 1, MaxLen - 1, MaxLen, MaxLen + 1}
Tampers == {"none", "plus1", "minus1", "over", "wayover", "unterminated", "toolong", "cutafterpreamble"}

RECURSIVE EncVar(_)
EncVar(v) == IF v < 128 THEN <<v>> ELSE <<128 + (v % 128)>> \o EncVar(v \div 128)

\* the preamble the receiver sees
Pre(n, t) ==
  CASE t = "none" -> EncVar(n)
    [] t = "plus1" -> EncVar(n + 1)
    [] t = "minus1" -> EncVar(n - 1)
    [] t = "over" -> EncVar(MaxLen + 1)
    [] t = "wayover" -> <<128, 128, 128, 128, 15>>           \* 15 * 2^28: five canonical bytes, below 2^32
    [] t = "unterminated" -> <<128, 128>>                   \* the stream ends inside the preamble
    [] t = "toolong" -> <<128, 128, 128, 128, 128, 128, 128, 128, 128, 128, 128>>
    [] t = "cutafterpreamble" -> EncVar(n)                  \* a preamble and nothing behind it
\* the elements behind the preamble decode to exactly n bytes unless they were cut away
Payload(n, t) == IF t \in {"unterminated", "cutafterpreamble"} THEN -1 ELSE n

SnappyCases == {[flag |-> f, kind |-> "snappy", n |-> n, tamper |-> t,
                 verdict |-> Verdict(f, [pre |-> Pre(n, t), payload |-> Payload(n, t)]),
                 declared |-> Declared(Pre(n, t))] : f \in Flags, n \in Lens, t \in Tampers}
RawCases == {[flag |-> fn[1], kind |-> "raw", n |-> fn[2], tamper |-> "none",
              verdict |-> IF HasBit(fn[1]) THEN "err" ELSE "raw", declared |-> -1] :
                fn \in {x \in Flags \X {0, 1, 2, 100, Threshold, Threshold + 1} : HasBit(x[1]) => x[2] = 0}}   \* flag set + no stream at all
SenderCases == {[len |-> n, flag |-> SenderFlag(n)] : n \in {0, 1, Threshold - 2, Threshold - 1, Threshold, Threshold + 1, 5000}}

Init == done = FALSE
Next == ~done /\ done' = TRUE
Spec == Init /\ [][Next]_done

Laws == (done \in BOOLEAN) /\ \A c \in SnappyCases :
          LET b == [pre |-> Pre(c.n, c.tamper), payload |-> Payload(c.n, c.tamper)]
          IN Bounded(c.flag, b) /\ OtherBitsIgnored(c.flag, b)
\* vacuity probes (must be violated): a frame at exactly the bound is accepted, one above it is refused
NoOkAtBound == (done \in BOOLEAN) /\ ~\E c \in SnappyCases : c.n = MaxLen /\ c.verdict = "ok"
Emit == done => PrintT(<<"FRAMES", ToJson([snappy |-> SnappyCases, raw |-> RawCases, sender |-> SenderCases])>>)
=============================================================================
