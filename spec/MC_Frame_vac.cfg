SPECIFICATION Spec
CONSTANTS
 MaxLen = 8388608
 Threshold = 1024
INVARIANT Laws
INVARIANT NoOkAtBound
CHECK_DEADLOCK FALSE
