SPECIFICATION Spec
CONSTANTS
 Dags <- OneDag
 MaxInst = 2
 Tick = 2
 S = 5
 MaxCuts = 2
 Variant = "intended"
 Emit = TRUE
INVARIANT SuspendInvariance
INVARIANT RefEnds
INVARIANT InstBound
INVARIANT EmitRef
INVARIANT EmitEnd
CHECK_DEADLOCK FALSE
