SPECIFICATION Spec
CONSTANTS
  N = 2
  MaxWork = 2
  MaxDup = 1
  Verdicts = {"ok", "bad_nc", "bad_ctx"}
  Heavy = 0
  PreFix = FALSE
  Emit = TRUE
INVARIANT TypeOK
INVARIANT TipHeaviestValid
INVARIANT OrphansConnected
INVARIANT OnlyValidAttached
INVARIANT Accounted
INVARIANT NoGhostExt
INVARIANT EmitQuiescent
PROPERTY NeverLeaveTipForNotHeavier
CHECK_DEADLOCK FALSE
