SPECIFICATION MSpec
CONSTANTS
 Txs <- U3Txs
 Ins <- U3Ins
 Deps <- U3Deps
 Fee <- U3Fee
 Size <- U3Size
 HDeps <- NoHDeps
 Cycles <- UnitCycles
 Genesis <- MGenesis
 Coded = FALSE
 KeepHist = FALSE
 MaxProps = 1
 MaxChain = 4
 MaxOps = 6
 MConf <- MConf_U3
INVARIANT NoDoubleSpend
INVARIANT LinksExact
INVARIANT AggregatesExact
INVARIANT EdgesExact
INVARIANT CountsExact
INVARIANT AncestorLimit
INVARIANT RbfRule
VIEW PoolView
CHECK_DEADLOCK FALSE
