SPECIFICATION SpecX
CONSTANTS
  N = 8
  MaxWork = 1
  MaxDup = 1
  Verdicts = {"ok"}
  Heavy = 0
  PreFix = FALSE
  Emit = FALSE
  EpochLen = 1
  Horizon = 1
  Prefix = 3
  Extra = 2
  SideRoots = {0, 1}
INVARIANT TypeOK
INVARIANT TipHeaviestValidX
INVARIANT OrphansConnected
INVARIANT OnlyValidAttached
INVARIANT Accounted
INVARIANT NoGhostExt
INVARIANT GoneConsistent
INVARIANT EmitQuiescentX
PROPERTY NeverLeaveTipForNotHeavierX
PROPERTY RetainedWithinHorizon
CHECK_DEADLOCK FALSE
