---------------------------- MODULE MC_PoolReorg ----------------------------
(* C12 model: the chain service publishes reorg notifications (detached k blocks, attached blocks); the pool    *)
(* processes them later, one at a time, while submissions keep arriving and are resolved against the chain view *)
(* the pool has processed so far (its snapshot lags the chain).  PoolProcess is the processing order as         *)
(* intended (tx-pool/src/process.rs::update_tx_pool_for_reorg): remove committed, remove conflicts and          *)
(* header-dep conflicts with descendants, re-admit the detached transactions that are admissible, restage.      *)
(* The C12 post-conditions of TxPool.tla must hold after every step, with respect to the pool's own view, and   *)
(* the view equals the node's chain whenever no notification is outstanding.                                    *)
(* Mutant # "none" breaks one step (self-test of the post-conditions).                                          *)
EXTENDS Template
CONSTANTS Mutant, MaxChain, MaxNotes, PConf
VARIABLES node,     \* the chain service's main chain
          notes     \* notifications the pool has not processed yet: sequence of [k, blks]
pvars == <<vars, node, notes>>
G(i) == <<"g", i>>
\* universe: a <- b chain on g1; x conflicts with a (spends g1); h has a header dep on block id 2; e independent with a
\* cell dep on a's second output
RTxs == {"a", "b", "x", "e", "h"}
RIns == [t \in RTxs |-> CASE t = "a" -> {G(1)} [] t = "b" -> {<<"a", 0>>} [] t = "x" -> {G(1)} [] t = "e" -> {G(2)} [] t = "h" -> {G(3)}]
RDeps == [t \in RTxs |-> CASE t = "e" -> {<<"a", 1>>} [] OTHER -> {}]
RHDeps == [t \in RTxs |-> CASE t = "h" -> {2} [] OTHER -> {}]
RFee == [t \in RTxs |-> CASE t = "x" -> 9 [] OTHER -> 1]
ROne == [t \in RTxs |-> 1]
RGenesis == {G(1), G(2), G(3)}
PConf_b == [maxAnc |-> 3, maxSize |-> 100, rbf |-> FALSE, rbfRate |-> 1000, close |-> 2, far |-> 3, mine |-> TRUE]
PConf_a == [maxAnc |-> 3, maxSize |-> 100, rbf |-> FALSE, rbfRate |-> 1000, close |-> 1, far |-> 2, mine |-> TRUE]

Staged(P, ch) == [t \in P |-> Stage(t, ch, conf)]
Settle(P2, ch2, s2, op) ==
  /\ pool' = P2 /\ chain' = ch2 /\ st' = s2
  /\ book' = DBook(P2) /\ cnt' = DCnt(P2, s2) /\ edges' = DEdges(P2) /\ last' = op /\ UNCHANGED conf

PInit == /\ conf = PConf /\ chain = <<>> /\ node = <<>> /\ notes = <<>> /\ pool = {} /\ st = <<>> /\ book = <<>>
         /\ cnt = DCnt({}, <<>>) /\ edges = DEdges({}) /\ last = [op |-> "init"]

\* a submission is resolved against the pool's own view `chain`; accepted without evictions or rejected
Submit(t) ==
  /\ t \notin pool /\ t \notin Committed(chain) /\ DirectConflicts(t, pool) = {}
  /\ Resolvable(t, pool, chain) /\ AncCount(t, pool \cup {t}) <= conf.maxAnc
  /\ Settle(pool \cup {t}, chain, [x \in pool \cup {t} |-> IF x = t THEN Stage(t, chain, conf) ELSE st[x]],
            [op |-> "submit", t |-> t, ok |-> TRUE, repl |-> {}])
  /\ UNCHANGED <<node, notes>>

ValidCommits(C, ch) ==
  /\ C \subseteq WindowSet(ch, conf) \ Committed(ch)
  /\ \A t \in C : /\ \A o \in Ins[t] : (LiveOnChain(o, ch) \/ Creator(o) \in C) /\ o \notin SpentBy(C \ {t})
                  /\ \A o \in Deps[t] : (LiveOnChain(o, ch) \/ Creator(o) \in C) /\ o \notin SpentBy(C)
                  /\ HDeps[t] \subseteq BlockIds(ch)
Blk(ch, props, C) == [id |-> Len(ch) + 1 + 10 * Cardinality({i \in 1..Len(notes) : notes[i].k > 0}), props |-> props, commits |-> C]
\* the chain grows by one block (any small proposal set, any valid commit set)
NodeAttach ==
  /\ Len(node) < MaxChain /\ Len(notes) < MaxNotes
  /\ \E props \in { S \in SUBSET Txs : Cardinality(S) <= 1 } : \E C \in SUBSET (WindowSet(node, conf) \ Committed(node)) :
       /\ ValidCommits(C, node)
       /\ LET b == Blk(node, props, C) IN
          /\ node' = Append(node, b) /\ notes' = Append(notes, [k |-> 0, blks |-> <<b>>])
  /\ UNCHANGED vars
\* the last k blocks are replaced by a branch of k+1 blocks: the first may propose, the last may commit
NodeReorg(k) ==
  /\ k \in 1..Len(node) /\ Len(node) + 1 <= MaxChain /\ Len(notes) < MaxNotes
  /\ LET base == SubSeq(node, 1, Len(node) - k) IN
     \E props \in { S \in SUBSET Txs : Cardinality(S) <= 1 } :
       LET first == [id |-> 100 + Len(base) + 10 * Len(notes), props |-> props, commits |-> {}]
           mids  == [i \in 1..(k - 1) |-> [id |-> 200 + Len(base) + i + 10 * Len(notes), props |-> {}, commits |-> {}]]
           pre   == Append(base, first) \o mids
       IN \E C \in SUBSET (WindowSet(pre, conf) \ Committed(pre)) :
            /\ ValidCommits(C, pre)
            /\ LET lastb == [id |-> 300 + Len(pre) + 10 * Len(notes), props |-> {}, commits |-> C]
                   blks  == <<first>> \o mids \o <<lastb>>
               IN /\ node' = base \o blks /\ notes' = Append(notes, [k |-> k, blks |-> blks])
  /\ UNCHANGED vars

\* the pool processes the oldest outstanding notification
Processed(P, ch, k, blks) ==
  LET att  == AttachedTxs(blks)
      cand == DetachedTxs(ch, k) \ att
      ch2  == NewChain(ch, k, blks)
  IN CASE Mutant = "none" -> IntendedAfterReorg(P, ch, k, blks, conf)
       [] Mutant = "keep_conflicts" -> Readmit(cand, P \ att, ch2, conf)                 \* committed removed, their conflicts not
       [] Mutant = "keep_header_deps" -> Readmit(cand, (P \ DescOf(ConflictsOf(att, P), P)) \ att, ch2, conf)
       [] Mutant = "readd_first" -> AfterCommit(Readmit(cand, P, ch, conf), ch, k, blks) \* re-added against the old view
       [] Mutant = "no_readd" -> AfterCommit(P, ch, k, blks)
       [] Mutant = "keep_orphans" ->                                                     \* as coded (F9): nothing purges the
            LET Base == AfterCommit(P, ch, k, blks) IN Readmit(cand, Base, ch2, conf)     \* (same as intended here; orphans arise
       [] OTHER -> IntendedAfterReorg(P, ch, k, blks, conf)                               \*  from un-readmittable parents, below)
\* Intended: pooled transactions whose inputs vanished with the detached blocks (children of a detached transaction
\* that could not be re-admitted) leave the pool too: Purge of TxPool.tla.
PoolProcess ==
  /\ notes # <<>>
  /\ LET n   == Head(notes)
         ch2 == NewChain(chain, n.k, n.blks)
         P1  == Processed(pool, chain, n.k, n.blks)
         P2  == IF Mutant = "keep_orphans" THEN P1 ELSE Purge(P1, ch2)
         s2  == IF Mutant = "gap_sticky"
                THEN [t \in P2 |-> IF t \in pool /\ st[t] = "gap" /\ Stage(t, ch2, conf) = "pending" THEN "gap" ELSE Stage(t, ch2, conf)]
                ELSE Staged(P2, ch2)
     IN Settle(P2, ch2, s2, [op |-> "reorg", k |-> n.k, blks |-> n.blks, before |-> pool, chainBefore |-> chain, rec |-> {}])
  /\ notes' = Tail(notes) /\ UNCHANGED node

PNext == (\E t \in Txs : Submit(t)) \/ NodeAttach \/ (\E k \in 1..MaxChain : NodeReorg(k)) \/ PoolProcess
PSpec == PInit /\ [][PNext]_pvars

\* once every notification is processed the pool's view is the node's chain
Synced == (notes = <<>>) => chain = node
=============================================================================
