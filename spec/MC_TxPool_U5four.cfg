SPECIFICATION MSpec
CONSTANTS
 Txs <- U5Txs
 Ins <- U5Ins
 Deps <- U5Deps
 Fee <- U5Fee
 Size <- U5Size
 HDeps <- NoHDeps
 Cycles <- UnitCycles
 Genesis <- MGenesis
 Coded = FALSE
 KeepHist = TRUE
 MaxProps = 1
 MaxChain = 0
 MaxOps = 4
 MConf <- MConf_U5four
INVARIANT NoDoubleSpend
INVARIANT LinksExact
INVARIANT AggregatesExact
INVARIANT EdgesExact
INVARIANT CountsExact
INVARIANT AncestorLimit
INVARIANT RbfRule
INVARIANT EmitHist
CHECK_DEADLOCK FALSE
