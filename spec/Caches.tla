------------------------------- MODULE Caches -------------------------------
(***************************************************************************)
(* C14 - caches never change a verdict or an answer.                                         *)
(*                                                                                           *)
(* A small world: after a common prefix (heights 1..4) two branches X and Y grow from the    *)
(* same parent.  Three transactions were proposed in the prefix:                             *)
(*   W  - its lock executes the program found in its witness; it exists in two witness       *)
(*        variants with the SAME transaction hash: "wa" (passes) and "wb" (script fails)     *)
(*   S  - `since` = absolute block number SinceAt: valid only in a block of height >= SinceAt*)
(*   M  - spends a cellbase output with since = 0; the cellbase matures at height SinceAt     *)
(*        (the other context-dependent check the property names: maturity)                    *)
(* A history is a fixed sequence of slots: two pool submissions, blocks X5 X6, a pool        *)
(* submission, blocks Y5 Y6 Y7 (Y is longer: a reorg if all of it is valid).  Each block     *)
(* slot chooses the block's content (nothing / wa / wb / s / m).                             *)
(*                                                                                           *)
(* The module contains BOTH the cache-free semantics (operators Exp..) and the node with     *)
(* caches as coded (variables vcache, scache):                                               *)
(*   vcache  tx-verification cache: key -> completed entry; key = witness hash (= variant);  *)
(*           a hit re-runs only the time-relative checks and reuses cycles / fee             *)
(*   scache  store read caches: <<block, part>> filled on read, dropped when the block is    *)
(*           deleted (InvalidateOnDelete)                                                    *)
(* CacheTransparent: every verdict, every recorded cycles/fee source and every query answer  *)
(* of the cached node equals the cache-free one.  Bug switches break the cached node the way *)
(* the property's "catches" list describes (oracle self-test).                               *)
(***************************************************************************)
EXTENDS Naturals, Sequences, FiniteSets, TLC
CONSTANTS SinceAt,              \* S is mature in blocks of height >= SinceAt
          KeyByTxHash,          \* BUG: verification cache keyed by tx hash (both W variants share a key)
          SkipTimeOnHit,        \* BUG: a cache hit skips the time-relative checks
          SkipMaturityOnHit,    \* BUG: a cache hit of a transaction without `since` skips the maturity check
          InvalidateOnDelete,   \* FALSE = store caches survive delete_block (as coded before the repair)
          Warm                  \* TRUE: every variant was verified once before the history (node C)

VARIABLES slot,      \* next slot 1..8 (9 = done)
          pool,      \* set of transactions ("W","S") in the pool
          recv,      \* recv[g] = contents of the stored blocks of branch g (heights 5, 6, ...), verified or not
          nver,      \* nver[g] = how many of them have been verified (a prefix); the rest is stored unverified
          main,      \* the branch whose verified prefix is the main chain
          dead,      \* branches that had a block rejected and deleted (nothing more is delivered on them)
          rejected,  \* set of <<g, height>> of blocks that were stored and then deleted as invalid
          vcache,    \* set of <<key, variant>>: completed entries and the variant that produced each
          scache,    \* set of <<g, height>> of blocks whose parts sit in the read caches
          hist,      \* the history with the cache-free expectation of every step
          ok         \* the cached node agreed with the cache-free semantics so far
vars == <<slot, pool, recv, nver, main, dead, rejected, vcache, scache, hist, ok>>

Variants == {"wa", "wb", "s", "m"}
TxOf(v) == IF v = "s" THEN "S" ELSE IF v = "m" THEN "M" ELSE "W"
ScriptOK(v) == v # "wb"
TimeOK(v, h) == v \notin {"s", "m"} \/ h >= SinceAt
Key(v) == IF KeyByTxHash THEN TxOf(v) ELSE v

TxsOf(seq, n) == {TxOf(seq[i]) : i \in {j \in 1..n : seq[j] # "none"}}
Committed(g) == TxsOf(recv[g], nver[g])          \* transactions committed on the verified prefix of g
TipH == 4 + nver[main]

\* ---- one transaction: cache-free verdict, and the node with caches ---------------------
ExpTx(done, v, h) == IF TxOf(v) \in done THEN "dead"
                     ELSE IF ~TimeOK(v, h) THEN "immature"
                     ELSE IF ~ScriptOK(v) THEN "script" ELSE "ok"
Hit(vc, v) == \E e \in vc : e[1] = Key(v)
Entry(vc, v) == CHOOSE e \in vc : e[1] = Key(v)
\* <<verdict, variant whose cycles / fee get recorded>>
CachedTx(vc, done, v, h) ==
    IF TxOf(v) \in done THEN <<"dead", "-">>
    ELSE IF Hit(vc, v) THEN (IF ~SkipTimeOnHit /\ ~(SkipMaturityOnHit /\ v = "m") /\ ~TimeOK(v, h)
                             THEN <<"immature", "-">> ELSE <<"ok", Entry(vc, v)[2]>>)
    ELSE IF ~TimeOK(v, h) THEN <<"immature", "-">>
    ELSE IF ~ScriptOK(v) THEN <<"script", "-">> ELSE <<"ok", v>>
Fill(vc, v, r) == IF r[1] = "ok" /\ ~Hit(vc, v) THEN vc \cup {<<Key(v), v>>} ELSE vc
\* the pool judges `since` against the next block but cellbase maturity against the epoch of the tip itself
\* (TxVerifyEnv::epoch() of a submitted / proposed transaction is the tip's epoch): a documented, cache-independent
\* conservatism of the code
PoolH(v) == IF v = "m" THEN TipH ELSE TipH + 1
ExpPool(v) == IF TxOf(v) \in pool \/ TxOf(v) \in Committed(main) THEN "reject"
              ELSE IF ExpTx({}, v, PoolH(v)) = "ok" THEN "ok" ELSE "reject"

\* ---- verification of the stored blocks i..Len(seq) of a branch, in order (a reorg or a new tip) ----
\* result: [e |-> cache-free verdict ("ok" or the class of the first failure), n |-> blocks verified ok,
\*          vc |-> verification cache afterwards, agree |-> the cached node said the same at every step]
RECURSIVE VerifyFrom(_, _, _, _)
VerifyFrom(seq, i, vc, agree) ==
    IF i > Len(seq) THEN [e |-> "ok", n |-> Len(seq), vc |-> vc, agree |-> agree]
    ELSE LET c == seq[i]
             done == TxsOf(seq, i - 1)
             e == IF c = "none" THEN "ok" ELSE ExpTx(done, c, 4 + i)
             r == IF c = "none" THEN <<"ok", "-">> ELSE CachedTx(vc, done, c, 4 + i)
             a == agree /\ r[1] = e /\ (e = "ok" /\ c # "none" => r[2] = c)
             vc2 == IF c = "none" THEN vc ELSE Fill(vc, c, r)
         IN IF e = "ok" THEN VerifyFrom(seq, i + 1, vc2, a)
            ELSE [e |-> e, n |-> i - 1, vc |-> vc2, agree |-> a]

Init == /\ slot = 1 /\ pool = {} /\ recv = [g \in {"X", "Y"} |-> <<>>] /\ nver = [g \in {"X", "Y"} |-> 0]
        /\ main = "X" /\ dead = {} /\ rejected = {}
        /\ vcache = IF Warm THEN {<<Key("wa"), "wa">>} ELSE {}
        /\ scache = {} /\ hist = <<>> /\ ok = TRUE

PoolSlot(vs) ==
    \E v \in vs \cup {"skip"} :
        /\ slot' = slot + 1
        /\ IF v = "skip" THEN UNCHANGED <<pool, vcache, hist, ok>>
           ELSE LET e == ExpPool(v)
                    r == IF TxOf(v) \in pool \/ TxOf(v) \in Committed(main) THEN <<"reject", "-">>
                         ELSE CachedTx(vcache, {}, v, PoolH(v))
                    rv == IF r[1] = "ok" THEN "ok" ELSE "reject"
                IN /\ pool' = IF e = "ok" THEN pool \cup {TxOf(v)} ELSE pool
                   /\ vcache' = IF r[1] \in {"ok", "immature", "script"} THEN Fill(vcache, v, r) ELSE vcache
                   /\ hist' = Append(hist, [k |-> "pool", v |-> v, g |-> "-", h |-> 0, verdict |-> e, cyc |-> IF e = "ok" THEN v ELSE "-"])
                   /\ ok' = (ok /\ rv = e /\ (e = "ok" => r[2] = v))
        /\ UNCHANGED <<recv, nver, main, dead, rejected, scache>>

\* a block of branch g and height h arrives: it is stored; if its branch is now longer than the main chain the
\* unverified blocks of the branch are verified in order (first-seen wins a tie); a failure deletes the new block
BlockSlot(g, h) ==
    IF g \in dead \/ Len(recv[g]) # h - 5 THEN slot' = slot + 1 /\ UNCHANGED <<pool, recv, nver, main, dead, rejected, vcache, scache, hist, ok>>
    ELSE \E c \in {"none", "wa", "wb", "s", "m"} :
        LET seq == Append(recv[g], c)
            better == 4 + Len(seq) > TipH
            res == IF better THEN VerifyFrom(seq, nver[g] + 1, vcache, TRUE)
                   ELSE [e |-> "ok", n |-> nver[g], vc |-> vcache, agree |-> TRUE]
            kept == res.e = "ok"
        IN \* (a block spending an output twice on its own branch can only be built when it is verified at once)
           /\ better \/ c = "none" \/ TxOf(c) \notin TxsOf(recv[g], Len(recv[g]))
           /\ slot' = slot + 1
           /\ recv' = IF kept THEN [recv EXCEPT ![g] = seq] ELSE recv
           /\ nver' = IF better THEN [nver EXCEPT ![g] = IF kept THEN Len(seq) ELSE res.n] ELSE nver
           /\ main' = IF better /\ kept THEN g ELSE main
           /\ dead' = IF kept THEN dead ELSE dead \cup {g}
           /\ rejected' = IF kept THEN rejected ELSE rejected \cup {<<g, h>>}
           /\ vcache' = res.vc
           \* the import pipeline reads the stored block back through the caching getters
           /\ scache' = IF kept \/ ~InvalidateOnDelete THEN scache \cup {<<g, h>>} ELSE scache
           /\ pool' = IF better /\ kept THEN pool \ TxsOf(seq, Len(seq)) ELSE pool
           /\ hist' = Append(hist, [k |-> "block", v |-> c, g |-> g, h |-> h, verdict |-> res.e, cyc |-> IF better /\ kept THEN "verified" ELSE "-"])
           /\ ok' = (ok /\ res.agree)

Next == \/ slot = 1 /\ PoolSlot({"wa", "wb", "s", "m"})
        \/ slot = 2 /\ PoolSlot({"wa", "wb"})
        \/ slot = 3 /\ BlockSlot("X", 5)
        \/ slot = 4 /\ BlockSlot("X", 6)
        \/ slot = 5 /\ PoolSlot({"wa", "wb", "s", "m"})
        \/ slot = 6 /\ BlockSlot("Y", 5)
        \/ slot = 7 /\ BlockSlot("Y", 6)
        \/ slot = 8 /\ BlockSlot("Y", 7)
Spec == Init /\ [][Next]_vars

-----------------------------------------------------------------------------
\* a query on a block: the cached node answers "present" from a cache entry or from the store
ExpPresent(b) == b[2] - 4 <= Len(recv[b[1]])
CachedPresent(b) == b \in scache \/ ExpPresent(b)
QueriesTransparent == \A b \in rejected : CachedPresent(b) = ExpPresent(b)
CacheTransparent == ok /\ QueriesTransparent
TypeOK == slot \in 1..9
=============================================================================
