------------------------------- MODULE Hashes -------------------------------
(***************************************************************************)
(* What each CKB hash commits to (RFC 0006 merkle tree, RFC 0019 data       *)
(* structures, RFC 0031 extra_hash), over molecule VALUES of Molecule.tla.  *)
(*                                                                         *)
(* The hash function is an INJECTIVE CONSTRUCTOR: a hash is the term        *)
(*    H(args)  blake2b-256 (ckb personalisation) of the concatenation of    *)
(*             its arguments; every argument list used here is either ONE   *)
(*             byte string or a list of 32-byte hashes, so the concatenation*)
(*             determines the arguments and term equality is sound          *)
(*    B(bs)    a literal byte string;       Z   32 zero bytes               *)
(* Two hashes are equal iff their terms are equal.  The conformance harness *)
(* evaluates the same terms with the real blake2b and compares them with    *)
(* the values the real calc_* / *View::hash() functions return.             *)
(***************************************************************************)
EXTENDS MolValues, FiniteSets

B(bs) == [op |-> "B", args |-> <<>>, bytes |-> bs]
H(as) == [op |-> "H", args |-> as, bytes |-> <<>>]
Z     == [op |-> "Z", args |-> <<>>, bytes |-> <<>>]
Absent == [op |-> "absent", args |-> <<>>, bytes |-> <<>>]
HB(bs) == H(<<B(bs)>>)

\* Complete binary merkle tree (RFC 0006): n leaves occupy the last n slots of an array of 2n-1 nodes,
\* node i = merge(node 2i+1, node 2i+2); the root is node 0; no leaves: zero hash; one leaf: the leaf
RECURSIVE CbmtNode(_, _)
CbmtNode(leaves, i) ==
  LET n == Len(leaves)
  IN IF i >= n - 1 THEN leaves[i - (n - 1) + 1] ELSE H(<<CbmtNode(leaves, 2 * i + 1), CbmtNode(leaves, 2 * i + 2)>>)
MerkleRoot(leaves) == IF leaves = <<>> THEN Z ELSE CbmtNode(leaves, 0)

ScriptHash(sc)   == HB(Enc("Script", sc))
TxHash(tx)       == HB(Enc("RawTransaction", tx[1]))            \* everything except the witnesses
WitnessHash(tx)  == HB(Enc("Transaction", tx))                  \* everything
PowHash(raw)     == HB(Enc("RawHeader", raw))
HeaderHash(h)    == HB(Enc("Header", h))
ProposalsHash(ps) == IF ps = <<>> THEN Z ELSE HB(Flatten(ps))    \* the 10-byte ids back to back
UnclesHash(us)   == IF us = <<>> THEN Z ELSE H(Tup([i \in 1..Len(us) |-> HeaderHash(us[i][1])]))
ExtensionHash(ext) == HB(ext)                                   \* the raw bytes of the extension
\* ext = <<>> (no extension field) or <<bytes>>
ExtraHash(us, ext) == IF ext = <<>> THEN UnclesHash(us) ELSE H(<<UnclesHash(us), ExtensionHash(ext[1])>>)
RawTransactionsRoot(txs) == MerkleRoot(Tup([i \in 1..Len(txs) |-> TxHash(txs[i])]))
WitnessesRoot(txs)       == MerkleRoot(Tup([i \in 1..Len(txs) |-> WitnessHash(txs[i])]))
TransactionsRoot(txs)    == MerkleRoot(<<RawTransactionsRoot(txs), WitnessesRoot(txs)>>)

Digits == <<"0", "1", "2", "3", "4", "5", "6", "7", "8", "9">>
Name(prefix, i) == prefix \o "_" \o Digits[i + 1]

\* block fields: 1 header, 2 uncles, 3 transactions, 4 proposals, (5 extension: BlockV1 only)
BlockTerms(b, ext) ==
  << <<"header_hash", HeaderHash(b[1])>>, <<"proposals_hash", ProposalsHash(b[4])>>,
     <<"uncles_hash", UnclesHash(b[2])>>, <<"extra_hash", ExtraHash(b[2], ext)>>,
     <<"extension_hash", IF ext = <<>> THEN Absent ELSE ExtensionHash(ext[1])>>,
     <<"raw_transactions_root", RawTransactionsRoot(b[3])>>, <<"witnesses_root", WitnessesRoot(b[3])>>,
     <<"transactions_root", TransactionsRoot(b[3])>> >>
  \o Tup([i \in 1..Len(b[3]) |-> <<Name("tx_hash", i), TxHash(b[3][i])>>])
  \o Tup([i \in 1..Len(b[3]) |-> <<Name("witness_hash", i), WitnessHash(b[3][i])>>])
  \o Tup([i \in 1..Len(b[2]) |-> <<Name("uncle_hash", i), HeaderHash(b[2][i][1])>>])

\* the named hashes of a value of type t: sequence of <<name, term>>
HashTerms(t, v) ==
  CASE t = "Script"          -> << <<"script_hash", ScriptHash(v)>> >>
    [] t = "CellOutput"      -> << <<"lock_hash", ScriptHash(v[2])>> >>
    [] t = "RawTransaction"  -> << <<"tx_hash", HB(Enc("RawTransaction", v))>> >>
    [] t = "Transaction"     -> << <<"tx_hash", TxHash(v)>>, <<"witness_hash", WitnessHash(v)>> >>
    [] t = "RawHeader"       -> << <<"pow_hash", PowHash(v)>> >>
    [] t = "Header"          -> << <<"pow_hash", PowHash(v[1])>>, <<"header_hash", HeaderHash(v)>> >>
    [] t = "UncleBlock"      -> << <<"header_hash", HeaderHash(v[1])>>, <<"proposals_hash", ProposalsHash(v[2])>> >>
    [] t = "UncleBlockVec"   -> << <<"uncles_hash", UnclesHash(v)>> >>
    [] t = "ProposalShortIdVec" -> << <<"proposals_hash", ProposalsHash(v)>> >>
    [] t = "Block"           -> BlockTerms(v, <<>>)
    [] t = "BlockV1"         -> BlockTerms(v, <<v[5]>>)
    [] t \in {"CompactBlock", "CompactBlockV1"} -> << <<"header_hash", HeaderHash(v[1])>> >>
    [] t = "RawAlert"        -> << <<"alert_hash", HB(Enc("RawAlert", v))>> >>
    [] t = "Alert"           -> << <<"alert_hash", HB(Enc("RawAlert", v[1]))>> >>
    [] t = "HeaderDigest"    -> << <<"mmr_hash", HB(Enc("HeaderDigest", v))>> >>
    [] t = "Bytes"           -> << <<"raw_data_hash", HB(v)>> >>
    [] OTHER -> <<>>
HashedTypes == {"Script", "CellOutput", "RawTransaction", "Transaction", "RawHeader", "Header", "UncleBlock",
                "UncleBlockVec", "ProposalShortIdVec", "Block", "BlockV1", "CompactBlock", "CompactBlockV1",
                "RawAlert", "Alert", "HeaderDigest", "Bytes"}

NamesOf(ps) == {ps[i][1] : i \in 1..Len(ps)}
Lookup(ps, n) == IF n \in NamesOf(ps) THEN ps[CHOOSE i \in 1..Len(ps) : ps[i][1] = n][2] ELSE Absent
\* the hashes that differ between two values of one type
Moved(ps, qs) == {n \in NamesOf(ps) \cup NamesOf(qs) : Lookup(ps, n) # Lookup(qs, n)}

-----------------------------------------------------------------------------
(* THE COMMITMENT TABLE: which hashes a change of ONE field (at `path`, inside the field named by   *)
(* the path prefix) must move -- and no others.  "NA": not tabulated (whole-value replacement,       *)
(* vector length changes: there the set is computed from the terms only).                            *)
StartsWith(p, q) == Len(p) >= Len(q) /\ SubSeq(p, 1, Len(q)) = q
TxTable(p, i) ==      \* p relative to a Transaction; i: its position in the block (0: stand-alone)
  LET sfx == IF i = 0 THEN "" ELSE "_" \o Digits[i + 1]
  IN IF StartsWith(p, <<1>>) THEN {"tx_hash" \o sfx, "witness_hash" \o sfx}
     ELSE IF StartsWith(p, <<2>>) THEN {"witness_hash" \o sfx} ELSE {"NA"}
BlockTable(p) ==
  CASE StartsWith(p, <<1>>) -> {"header_hash"}                                   \* any header field: only the block hash
    [] Len(p) >= 3 /\ p[1] = 2 /\ p[3] = 1 -> {"uncles_hash", "extra_hash", Name("uncle_hash", p[2])}   \* an uncle's header
    [] Len(p) >= 3 /\ p[1] = 2 /\ p[3] = 2 -> {}                               \* an uncle's proposals: committed by that uncle's own header only
    [] Len(p) >= 3 /\ p[1] = 3 /\ p[3] = 1 ->
         {Name("tx_hash", p[2]), Name("witness_hash", p[2]), "raw_transactions_root", "witnesses_root", "transactions_root"}
    [] Len(p) >= 3 /\ p[1] = 3 /\ p[3] = 2 -> {Name("witness_hash", p[2]), "witnesses_root", "transactions_root"}
    [] Len(p) >= 2 /\ p[1] = 4 -> {"proposals_hash"}                             \* one proposal id
    [] Len(p) >= 1 /\ p[1] = 5 -> {"extension_hash", "extra_hash"}
    [] OTHER -> {"NA"}
CommitTable(t, p) ==
  CASE t = "Transaction" -> TxTable(p, 0)
    [] t = "Header"      -> IF StartsWith(p, <<1>>) THEN {"pow_hash", "header_hash"}
                            ELSE IF StartsWith(p, <<2>>) THEN {"header_hash"} ELSE {"NA"}
    [] t = "UncleBlock"  -> IF StartsWith(p, <<1>>) THEN {"header_hash"}
                            ELSE IF Len(p) >= 2 /\ p[1] = 2 THEN {"proposals_hash"} ELSE {"NA"}
    [] t \in {"Block", "BlockV1"} -> BlockTable(p)
    [] t = "CellOutput"  -> IF StartsWith(p, <<2>>) THEN {"lock_hash"} ELSE IF p = <<>> THEN {"NA"} ELSE {}
    [] t \in {"CompactBlock", "CompactBlockV1"} -> IF StartsWith(p, <<1>>) THEN {"header_hash"} ELSE IF p = <<>> THEN {"NA"} ELSE {}
    [] t = "Alert"       -> IF StartsWith(p, <<1>>) THEN {"alert_hash"} ELSE IF p = <<>> THEN {"NA"} ELSE {}
    [] OTHER -> {"NA"}
=============================================================================
