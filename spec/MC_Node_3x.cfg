SPECIFICATION MCSpec
CONSTANTS
 Txs <- UTxs
 Ins <- UIns
 Deps <- UNone
 HDeps <- UNone
 Fee <- UFee
 Size <- UOne
 Cycles <- UOne
 Genesis <- UGenesis
 CsTx <- UCsTx
 CsGenesis <- UCsGenesis
 TxNo <- UTxNo
 GNo <- UGNo
 L = 3
 CbBase = 100
 WClose = 1
 Mut = "none"
 WFar = 2
 NConf <- Conf12
 Universe = "chain"
 MaxBlocks = 3
 MaxProps = 1
 MaxForks = 1
 MaxNotes = 1
 Works = {1, 3}
 MaxTrunc = 1
 MaxRestart = 1
 MaxRemove = 1
 LagSubmit = TRUE
INVARIANT NoDoubleSpend
INVARIANT LinksExact
INVARIANT AggregatesExact
INVARIANT EdgesExact
INVARIANT CountsExact
INVARIANT AncestorLimit
INVARIANT NoCommitted
INVARIANT NoDeadOrUnknown
INVARIANT NoDetachedHeaderDep
INVARIANT DetachedReadmitted
INVARIANT StageMatchesWindow
INVARIANT TemplateSound
INVARIANT XPoolChainIsMain
INVARIANT XStageInWindow
INVARIANT XStageInPublishedView
INVARIANT XWindowsAgree
INVARIANT XPoolResolvesInStore
INVARIANT XNoPooledTxInfo
INVARIANT XTemplateFromPool
INVARIANT XTemplateContent
INVARIANT XExtIsMainRoot
INVARIANT XServedRoot
INVARIANT XMmrOfMain
INVARIANT XViewIsWindow
INVARIANT XReplay
CHECK_DEADLOCK FALSE
