SPECIFICATION Spec
CONSTANTS
  N = 34
  Lens = {2, 3}
  GenesisLen = 2
  Period = 2
  Starts = {1, 2, 3}
  Timeouts = {5, 7, 9}
  MinActs = {0, 9, 11}
  Thresholds <- ThrAll
  Coded = FALSE
  Queries = FALSE
  Emit = TRUE
INVARIANT TypeOK
INVARIANT EmitTree
CHECK_DEADLOCK FALSE
