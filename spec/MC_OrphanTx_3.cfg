SPECIFICATION Spec
CONSTANTS
  MaxOrphans = 2
  ExpireTime = 2
  N = 3
  MaxNow = 3
  AdvSet = {1}
  Depth = 0
  Vars = {0}
INVARIANT UniverseOK
INVARIANT IndexExact
INVARIANT Bounded
PROPERTY FindAlways
PROPERTY NoSilentLossMC
PROPERTY FirstCopyStaysMC
PROPERTY NoExpiredAfterAddMC
VIEW StateView
CHECK_DEADLOCK FALSE
