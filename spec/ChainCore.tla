------------------------------ MODULE ChainCore ------------------------------
(***************************************************************************)
(* C01 - block import pipeline of ckb-chain: the tip is the head of the heaviest fully     *)
(* valid chain, for any delivery order.                                                   *)
(*                                                                         *)
(* Three threads, one action per critical section of the code:                             *)
(*   ChainService  (chain_service.rs / orphan_broker.rs)                                   *)
(*       Receive        asynchronous_process_block: genesis case, non-contextual verdict   *)
(*       Insert         insert_block (durable commit of header/body rows)                  *)
(*       Broker         OrphanBroker::process_lonely_block: parent pending|stored ->       *)
(*                      is_pending_verify + preload queue; parent INVALID -> delete +      *)
(*                      INVALID; else orphan pool                                          *)
(*       ReleaseLeader  search_orphan_leader for every leader cloned at the start of       *)
(*                      search_orphan_leaders (any order: HashSet iteration)               *)
(*   Preload       (preload_unverified_blocks_channel.rs) moves the head of the preload    *)
(*                 queue to the verify queue (reads the block and its parent's header)     *)
(*   Verify        (verify.rs) consume_unverified_blocks -> verify_block (early exits,      *)
(*                 td > tip's td => find_fork/rollback/reconcile in one DB transaction,     *)
(*                 else store an unverified ext), on error delete + INVALID;                *)
(*       VerifyDone     is_pending_verify.remove + callback                                *)
(* Durable state: stored, ext, index, tip.  Volatile: status (block_status_map INVALID),    *)
(* orphans, pending, the two queues, the program counters.                                  *)
(*                                                                         *)
(* The scenario (block tree, per-block work, per-block verdict of the consensus rules) is   *)
(* minted block by block before the run; Deliver hands any minted block to the node at any   *)
(* time, in any order, before its ancestors, and repeatedly.                                 *)
(***************************************************************************)
EXTENDS Integers, Sequences, FiniteSets, TLC
CONSTANTS N,         \* at most N non-genesis blocks (ids 1..N; genesis = 0; parent[b] < b)
          MaxWork,   \* work (difficulty) of a block is in 1..MaxWork
          MaxDup,    \* total number of duplicate deliveries
          Heavy,     \* 0: any tree. W > 0: directed family "one heavy block against a light chain": block 1 has work W
                     \*    and is valid, blocks 2, 3, .. form a chain of work-1 blocks from genesis with any verdicts
                     \*    (the chain overtakes only when it is W+1 long, i.e. W blocks taller than the tip)
          PreFix,    \* TRUE: verify_block as coded before fix 9663883 (no check of the block's own INVALID status) - oracle self-test
          Verdicts   \* verdicts a minted block may have: subset of {"ok", "bad_nc", "bad_ctx"}
                     \*   ok       the block meets every rule in the context of its ancestors
                     \*   bad_nc   fails a non-contextual rule (rejected in Receive, never stored)
                     \*   bad_ctx  fails a contextual rule (found when the block is verified as part of a best chain)

VARIABLES parent, work, ok, minted, sealed,      \* scenario
          order, rcvd,                           \* deliveries so far; how many of them ChainService has taken
          stored, ext, index, tip,               \* durable
          status, orphans, pending, preQ, verQ,  \* volatile
          svc, vfy,                              \* program counters of ChainService / verify thread
          replies, lost                          \* callbacks executed per block and kind / callbacks dropped unexecuted
scen == <<parent, work, ok, minted, sealed>>
dur  == <<stored, ext, index, tip>>
vars == <<parent, work, ok, minted, sealed, order, rcvd, stored, ext, index, tip, status, orphans, pending, preQ, verQ,
          svc, vfy, replies, lost>>

Blocks == 1..N
All == 0..N
Idle == [pc |-> "idle"]
NoReply == [new |-> 0, dup |-> 0, err |-> 0]

RECURSIVE TD(_), ChainOf(_)
TD(b) == IF b = 0 THEN 0 ELSE work[b] + TD(parent[b])
ChainOf(b) == IF b = 0 THEN {0} ELSE {b} \cup ChainOf(parent[b])
Range(s) == {s[i] : i \in 1..Len(s)}
Count(s, x) == Cardinality({i \in 1..Len(s) : s[i] = x})

Init == /\ parent = [b \in Blocks |-> 0] /\ work = [b \in Blocks |-> 1] /\ ok = [b \in Blocks |-> "ok"]
        /\ minted = 0 /\ sealed = FALSE
        /\ order = <<>> /\ rcvd = 0
        /\ stored = {0} /\ ext = [b \in All |-> IF b = 0 THEN "ok" ELSE "none"] /\ index = {0} /\ tip = 0
        /\ status = {} /\ orphans = {} /\ pending = {} /\ preQ = <<>> /\ verQ = <<>>
        /\ svc = Idle /\ vfy = Idle
        /\ replies = [b \in All |-> NoReply] /\ lost = [b \in All |-> 0]

-----------------------------------------------------------------------------
(* scenario and environment *)
Mint(p, w, v) ==
  /\ ~sealed /\ minted < N /\ p \in 0..minted
  /\ Heavy > 0 => IF minted = 0 THEN p = 0 /\ w = Heavy /\ v = "ok"
                  ELSE p = (IF minted = 1 THEN 0 ELSE minted) /\ w = 1
  /\ parent' = [parent EXCEPT ![minted + 1] = p] /\ work' = [work EXCEPT ![minted + 1] = w]
  /\ ok' = [ok EXCEPT ![minted + 1] = v] /\ minted' = minted + 1
  /\ UNCHANGED <<sealed, order, rcvd, stored, ext, index, tip, status, orphans, pending, preQ, verQ, svc, vfy, replies, lost>>
Seal == /\ ~sealed /\ minted >= 1 /\ sealed' = TRUE
        /\ UNCHANGED <<parent, work, ok, minted, order, rcvd, stored, ext, index, tip, status, orphans, pending, preQ, verQ,
                       svc, vfy, replies, lost>>

Dups == Len(order) - Cardinality(Range(order) \ {0})       \* every delivery of genesis counts as a duplicate
Deliver(b) ==
  /\ sealed /\ b \in 0..minted
  /\ (b = 0 \/ b \in Range(order)) => Dups < MaxDup
  /\ order' = Append(order, b)
  /\ UNCHANGED <<scen, rcvd, dur, status, orphans, pending, preQ, verQ, svc, vfy, replies, lost>>

Reply(b, kind) == [replies EXCEPT ![b][kind] = @ + 1]

-----------------------------------------------------------------------------
(* ChainService thread *)
Receive ==
  /\ svc = Idle /\ rcvd < Len(order)
  /\ LET b == order[rcvd + 1] IN
     /\ rcvd' = rcvd + 1
     /\ IF b = 0 THEN                       \* our own genesis: callback Ok(false)
           /\ replies' = Reply(0, "dup") /\ UNCHANGED <<status, svc>>
        ELSE IF ok[b] = "bad_nc" THEN        \* non_contextual_verify fails: INVALID, callback Err; no orphan search
           /\ status' = status \cup {b} /\ replies' = Reply(b, "err") /\ UNCHANGED svc
        ELSE /\ svc' = [pc |-> "insert", b |-> b, conflict |-> FALSE] /\ UNCHANGED <<status, replies>>
  /\ UNCHANGED <<scen, order, dur, orphans, pending, preQ, verQ, vfy, lost>>

\* insert_block is an optimistic RocksDB transaction. When the verify (or preload) thread deletes the very same block
\* - an earlier copy of it failed - while the transaction is open, the commit fails ("Resource busy") and the
\* delivery is answered Err; the INVALID mark set by the other thread stays (fix 9d39564; before it the error path
\* erased the mark: PreFix). (The transaction is taken to be open from Receive on: a slight over-approximation.)
Insert ==
  /\ svc.pc = "insert"
  /\ IF svc.conflict
     THEN /\ status' = IF PreFix THEN status \ {svc.b} ELSE status
          /\ replies' = Reply(svc.b, "err") /\ svc' = Idle /\ UNCHANGED stored
     ELSE /\ stored' = stored \cup {svc.b} /\ svc' = [pc |-> "broker", b |-> svc.b] /\ UNCHANGED <<status, replies>>
  /\ UNCHANGED <<scen, order, rcvd, ext, index, tip, orphans, pending, preQ, verQ, vfy, lost>>
\* a delete of block b by another thread hits an open insert transaction of the same block
Hit(b) == IF svc.pc = "insert" /\ svc.b = b THEN [svc EXCEPT !.conflict = TRUE] ELSE svc

\* Shared::get_block_status(p): block_status_map first, then the ext of the published snapshot
Invalid(p) == p \in status
Stored(p)  == p \notin status /\ ext[p] # "none"
Leaders(o) == {parent[c] : c \in o} \ o

Broker ==
  /\ svc.pc = "broker"
  /\ LET b == svc.b
         p == parent[b]
     IN /\ IF p \in pending \/ Stored(p) THEN            \* process_descendant
              /\ pending' = pending \cup {b} /\ preQ' = Append(preQ, b)
              /\ UNCHANGED <<stored, status, orphans, replies, lost>>
           ELSE IF Invalid(p) THEN                        \* process_invalid_block
              /\ stored' = stored \ {b} /\ status' = status \cup {b} /\ replies' = Reply(b, "err")
              /\ UNCHANGED <<pending, preQ, orphans, lost>>
           ELSE                                           \* orphan pool (a second copy replaces the first, whose callback is dropped)
              /\ orphans' = orphans \cup {b}
              /\ lost' = IF b \in orphans THEN [lost EXCEPT ![b] = @ + 1] ELSE lost
              /\ UNCHANGED <<stored, status, pending, preQ, replies>>
        /\ svc' = LET ls == Leaders(orphans') IN IF ls = {} THEN Idle ELSE [pc |-> "search", todo |-> ls]
  /\ UNCHANGED <<scen, order, rcvd, ext, index, tip, verQ, vfy>>

RECURSIVE Desc(_, _)
Desc(S, pool) == LET nxt == {c \in pool : parent[c] \in S} \ S IN IF nxt = {} THEN S ELSE Desc(S \cup nxt, pool)
Depth(b) == Cardinality(ChainOf(b))
\* release order of remove_blocks_by_parent: breadth first, arbitrary among the children of one block
BfsOrders(D) == {s \in [1..Cardinality(D) -> D] :
                   /\ \A i, j \in 1..Cardinality(D) : i # j => s[i] # s[j]
                   /\ \A i, j \in 1..Cardinality(D) : i < j => Depth(s[i]) <= Depth(s[j])}

ReleaseLeader(l) ==
  /\ svc.pc = "search" /\ l \in svc.todo
  /\ LET D == IF l \in Leaders(orphans) THEN Desc({l}, orphans) \ {l} ELSE {}
         rest == svc.todo \ {l}
     IN /\ IF Invalid(l) THEN                              \* every descendant: delete, INVALID, callback Err
              /\ orphans' = orphans \ D /\ stored' = stored \ D /\ status' = status \cup D
              /\ replies' = [b \in All |-> IF b \in D THEN [replies[b] EXCEPT !.err = @ + 1] ELSE replies[b]]
              /\ UNCHANGED <<pending, preQ>>
           ELSE IF l \in pending \/ Stored(l) THEN          \* accept_descendants
              /\ \E s \in BfsOrders(D) : preQ' = preQ \o s
              /\ orphans' = orphans \ D /\ pending' = pending \cup D
              /\ UNCHANGED <<stored, status, replies>>
           ELSE UNCHANGED <<orphans, stored, status, replies, pending, preQ>>
        /\ svc' = IF rest = {} THEN Idle ELSE [pc |-> "search", todo |-> rest]
  /\ UNCHANGED <<scen, order, rcvd, ext, index, tip, verQ, vfy, lost>>

-----------------------------------------------------------------------------
(* preload thread. PreloadOK: the block and its parent's header can be read. It fails when a second copy *)
(* of a block, or a child of it, is still queued here while the verify thread deletes the failed block: *)
(* the entry is then rejected like any block with an invalid parent (delete, INVALID, callback Err).    *)
(* PreFix: before fix 7bd0f0e the two reads were `expect`s - the thread panicked and block import died  *)
(* (the panic was masked by stale store caches until delete_block learned to purge them).              *)
PreloadOK == preQ # <<>> => Head(preQ) \in stored /\ parent[Head(preQ)] \in stored
Preload ==
  /\ preQ # <<>> /\ (PreFix => PreloadOK)
  /\ preQ' = Tail(preQ)
  /\ LET b == Head(preQ) IN
     IF PreloadOK
     THEN /\ verQ' = Append(verQ, b) /\ UNCHANGED <<stored, status, pending, replies>>
     ELSE /\ stored' = stored \ {b} /\ status' = status \cup {b} /\ pending' = pending \ {b}
          /\ replies' = Reply(b, "err") /\ UNCHANGED verQ
  /\ svc' = IF PreloadOK THEN svc ELSE Hit(Head(preQ))
  /\ UNCHANGED <<scen, order, rcvd, ext, index, tip, orphans, vfy, lost>>

-----------------------------------------------------------------------------
(* verify thread *)
\* blocks find_fork attaches for new tip b: its ancestors that are not on the current main chain
Attached(b) == ChainOf(b) \ index
Verify ==
  /\ vfy = Idle /\ verQ # <<>>
  /\ LET b == Head(verQ)
         p == parent[b]
         Fail == /\ stored' = stored \ {b} /\ status' = status \cup {b}       \* delete_unverified_block + BLOCK_INVALID
                 /\ UNCHANGED <<ext, index, tip>>
                 /\ vfy' = [pc |-> "done", b |-> b, res |-> "err"]
     IN /\ verQ' = Tail(verQ)
        /\ IF (~PreFix /\ Invalid(b)) \/ Invalid(p) \/ ext[p] = "none"
           THEN Fail       \* an earlier copy of b failed / parent failed before / parent's ext not found
           ELSE IF ext[b] = "ok" THEN                       \* verified before: Ok(false)
              /\ vfy' = [pc |-> "done", b |-> b, res |-> "dup"] /\ UNCHANGED <<stored, status, ext, index, tip>>
           ELSE IF TD(b) > TD(tip) THEN                     \* strictly heavier: reorganise
              IF \E a \in Attached(b) : ext[a] # "ok" /\ ok[a] # "ok"
              THEN Fail                                     \* the transaction is dropped: nothing of the reorg is committed
              ELSE /\ ext' = [a \in All |-> IF a \in Attached(b) THEN "ok" ELSE ext[a]]
                   /\ index' = ChainOf(b) /\ tip' = b
                   /\ vfy' = [pc |-> "done", b |-> b, res |-> "new"] /\ UNCHANGED <<stored, status>>
           ELSE /\ ext' = [ext EXCEPT ![b] = "unv"]          \* not better: remember its total difficulty only
                /\ vfy' = [pc |-> "done", b |-> b, res |-> "new"] /\ UNCHANGED <<stored, status, index, tip>>
  /\ svc' = IF vfy'.res = "err" THEN Hit(Head(verQ)) ELSE svc
  /\ UNCHANGED <<scen, order, rcvd, orphans, pending, preQ, replies, lost>>

VerifyDone ==
  /\ vfy.pc = "done"
  /\ pending' = pending \ {vfy.b}
  /\ replies' = Reply(vfy.b, vfy.res)
  /\ vfy' = Idle
  /\ UNCHANGED <<scen, order, rcvd, dur, status, orphans, preQ, verQ, svc, lost>>

Next == \/ \E p \in 0..N, w \in 1..(IF Heavy > MaxWork THEN Heavy ELSE MaxWork), v \in Verdicts : Mint(p, w, v)
        \/ Seal
        \/ \E b \in All : Deliver(b)
        \/ Receive \/ Insert \/ Broker \/ (\E l \in All : ReleaseLeader(l))
        \/ Preload
        \/ Verify \/ VerifyDone
Spec == Init /\ [][Next]_vars

-----------------------------------------------------------------------------
Quiescent == rcvd = Len(order) /\ svc = Idle /\ preQ = <<>> /\ verQ = <<>> /\ vfy = Idle
Received == Range(order) \ {0}
\* heads of fully valid chains that can be formed from the blocks received
ValidHead(c) == \A a \in ChainOf(c) \ {0} : a \in Received /\ ok[a] = "ok"
BestTD == LET S == {TD(c) : c \in {x \in Received : ValidHead(x)} \cup {0}} IN CHOOSE m \in S : \A k \in S : k <= m

\* C01: at rest the tip is the head of a fully valid chain of maximal accumulated difficulty.
\* (BestTD is a function of the *set* of blocks received: delivery-order independence of the total difficulty.)
TipHeaviestValid == Quiescent => (TD(tip) = BestTD /\ (tip = 0 \/ ValidHead(tip)))
\* it never leaves its tip for a chain that is not strictly heavier (equal work: the first verified stays)
NeverLeaveTipForNotHeavier == [][tip' # tip => TD(tip') > TD(tip)]_vars
\* blocks whose ancestors were missing are connected as soon as the ancestor is there
OrphansConnected == Quiescent => (pending = {} /\ \A c \in orphans : ~Stored(parent[c]))
\* the main chain consists of valid blocks only, is a chain, and everything on it is stored and verified
OnlyValidAttached == /\ \A b \in index \ {0} : ok[b] = "ok" /\ parent[b] \in index
                     /\ index = ChainOf(tip) /\ \A b \in index : b \in stored /\ ext[b] = "ok"
\* every delivery is accounted for: answered, waiting in the orphan pool, or (duplicate of an orphan) dropped
Accounted == Quiescent => \A b \in All : Count(order, b) = replies[b].new + replies[b].dup + replies[b].err + lost[b]
                                                          + (IF b \in orphans THEN 1 ELSE 0)
\* PreFix only: the preload thread never meets a missing block / parent header (a panic that ends block import)
NoPreloadPanic == PreloadOK
\* an ext row never outlives its block (delete_block leaves COLUMN_BLOCK_EXT alone; must be unreachable)
NoGhostExt == \A b \in Blocks : ext[b] # "none" => b \in stored
TypeOK == /\ tip \in index /\ pending \subseteq All /\ orphans \subseteq Blocks /\ status \subseteq Blocks
          /\ orphans \cap pending = {}

-----------------------------------------------------------------------------
(* Growth beyond C01 (DESIGN.md 3.7 item 7): progress of block import under fairness.                     *)
(* Every pipeline action is the body of a thread's loop over a channel, so each gets weak fairness; the    *)
(* environment (Mint / Seal / Deliver) gets none: it may stop at any time.                                 *)
FairSpec == /\ Spec
            /\ WF_vars(Receive) /\ WF_vars(Insert) /\ WF_vars(Broker) /\ WF_vars(\E l \in All : ReleaseLeader(l))
            /\ WF_vars(Preload) /\ WF_vars(Verify) /\ WF_vars(VerifyDone)
\* b and all its ancestors have been handed to the node
Ready(b) == \A a \in ChainOf(b) \ {0} : a \in Range(order)
\* no copy of b is on its way through the pipeline or waiting in the orphan pool
Settled(b) == /\ \A i \in (rcvd + 1)..Len(order) : order[i] # b
              /\ ~(svc.pc \in {"insert", "broker"} /\ svc.b = b)
              /\ b \notin pending /\ b \notin orphans
\* verified and attached / stored with its total difficulty only / marked invalid
Judged(b) == Settled(b) /\ (b \in status \/ (b \in stored /\ ext[b] \in {"ok", "unv"}))
\* the one exception the code has: a block that fails the NON-contextual checks is marked invalid in
\* asynchronous_process_block WITHOUT a search of the orphan pool; its descendants that are already waiting there
\* are only invalidated by the search that follows the next brokered block (or by expiry).
RECURSIVE PoolRoot(_)
PoolRoot(b) == IF parent[b] \in orphans THEN PoolRoot(parent[b]) ELSE b      \* for b \in orphans: the orphan next to its leader
WaitsForNextBlock(b) == b \in orphans /\ ok[parent[PoolRoot(b)]] = "bad_nc" /\ parent[PoolRoot(b)] \in status
\* strict form: must FAIL with exactly that scenario (self-test that the liveness check bites)
EventuallyJudgedStrict == \A b \in Blocks : Ready(b) ~> Judged(b)
\* never stuck pending / orphaned forever
EventuallyJudged == \A b \in Blocks : Ready(b) ~> (Judged(b) \/ WaitsForNextBlock(b))
\* deliveries are finite, so the pipeline comes to rest (and at rest TipHeaviestValid / OrphansConnected hold)
EventuallyQuiescent == <>[]Quiescent
=============================================================================
