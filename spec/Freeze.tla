------------------------------- MODULE Freeze -------------------------------
(***************************************************************************)
(* C10 - freezing old blocks is invisible to every chain query and survives crashes.      *)
(*                                                                                         *)
(* Migration of ancient main-chain blocks from the key-value store (one row per block     *)
(* part) into the freezer (shared/src/shared.rs freeze / wipe_out_frozen_data,             *)
(* freezer/src/freezer.rs freeze).  Block contents are immutable functions of the block    *)
(* identity, so only the *presence* of rows / items is modelled.                           *)
(*                                                                                         *)
(*   blocks   <<"m", h>> main-chain block of height h, <<"s", h>> a side-chain block of    *)
(*            height h (sibling of the main-chain block)                                   *)
(*   kv[b]    set of parts of b that have a row;  dkv = what a power loss would leave      *)
(*   fz       freezer items (item i = a block), fzS = how many of them are fsync'ed        *)
(*   fn       the in-memory `Freezer::number` (first height not frozen)                    *)
(*                                                                                         *)
(* One freeze pass is the coded sequence, one action per critical section:                 *)
(*   Threshold -> FreezeAppend(n)* -> FreezerSync -> WipeBodies -> WipeSide                *)
(* Crash (process abort or power loss) may fall between any two; Restart reopens.          *)
(* `Bug` selects a deliberately broken variant (oracle self-test only).                    *)
(***************************************************************************)
EXTENDS Naturals, Sequences, FiniteSets, TLC
CONSTANTS EpochLen,     \* blocks per epoch (epoch e = heights e*EpochLen .. (e+1)*EpochLen-1)
          InitTip,      \* chain height at the start
          MaxTip,       \* the chain may grow up to this height
          Limit,        \* per-run cap (MAX_FREEZE_LIMIT)
          SideHeights,  \* heights at which a side-chain block exists / may arrive
          LateSides,    \* subset of SideHeights: the side block arrives later (possibly after the height froze)
          NoExt,        \* heights whose blocks carry no extension
          MaxPasses, MaxCrashes,
          Bug           \* "none" | "wipe_before_sync" | "le_threshold" | "wipe_main" | "skip_gap"

VARIABLES tip, have, kv, dkv, fz, fzS, fn, up, pc, thr, nxt, got, snap, sides, startN, passes, crashes
vars == <<tip, have, kv, dkv, fz, fzS, fn, up, pc, thr, nxt, got, snap, sides, startN, passes, crashes>>

Parts == {"header", "body", "uncles", "proposals", "extension", "numhash"}
Main(h) == <<"m", h>>
SideB(h) == <<"s", h>>
IsMain(b) == b[1] = "m"
H(b) == b[2]
AllBlocks == {Main(h) : h \in 0..MaxTip} \cup {SideB(h) : h \in SideHeights}
FullParts(b) == IF H(b) \in NoExt THEN Parts \ {"extension"} ELSE Parts
Min2(a, b) == IF a < b THEN a ELSE b

CurEpoch(t) == t \div EpochLen
\* number of the last block of epoch (current - 2): everything strictly below it is "ancient"
AncientBound(t) == (CurEpoch(t) - 1) * EpochLen - 1

Init == /\ tip = InitTip
        /\ have = {Main(h) : h \in 0..InitTip} \cup {SideB(h) : h \in SideHeights \ LateSides}
        /\ kv = [b \in AllBlocks |-> IF b \in have THEN FullParts(b) ELSE {}]
        /\ dkv = kv
        /\ fz = <<>> /\ fzS = 0 /\ fn = 1 /\ up = TRUE
        /\ pc = "idle" /\ thr = 0 /\ nxt = 0 /\ got = {} /\ snap = {} /\ sides = {} /\ startN = 1
        /\ passes = 0 /\ crashes = 0

\* the chain grows (block import is atomic and durable here: C08 owns import crashes)
Grow == /\ up /\ tip < MaxTip
        /\ tip' = tip + 1 /\ have' = have \cup {Main(tip + 1)}
        /\ kv' = [kv EXCEPT ![Main(tip + 1)] = FullParts(Main(tip + 1))]
        /\ dkv' = [dkv EXCEPT ![Main(tip + 1)] = FullParts(Main(tip + 1))]
        /\ UNCHANGED <<fz, fzS, fn, up, pc, thr, nxt, got, snap, sides, startN, passes, crashes>>

\* a side-chain block is stored (any time, also at a height that is already frozen)
InsertSide(h) ==
        /\ up /\ h \in SideHeights /\ h <= tip /\ SideB(h) \notin have
        /\ have' = have \cup {SideB(h)}
        /\ kv' = [kv EXCEPT ![SideB(h)] = FullParts(SideB(h))]
        /\ dkv' = [dkv EXCEPT ![SideB(h)] = FullParts(SideB(h))]
        /\ UNCHANGED <<tip, fz, fzS, fn, up, pc, thr, nxt, got, snap, sides, startN, passes, crashes>>

\* Shared::freeze up to the call of Freezer::freeze: snapshot, threshold from the epoch index, capped
Threshold ==
        /\ up /\ pc = "idle" /\ passes < MaxPasses /\ CurEpoch(tip) > 2
        /\ thr' = Min2(AncientBound(tip), fn + Limit) + (IF Bug = "le_threshold" THEN 1 ELSE 0)
        /\ nxt' = fn + (IF Bug = "skip_gap" /\ fn > 1 THEN 1 ELSE 0)
        /\ startN' = fn /\ got' = {} /\ snap' = have /\ sides' = {}
        /\ pc' = "append" /\ passes' = passes + 1
        /\ UNCHANGED <<tip, have, kv, dkv, fz, fzS, fn, up, crashes>>

\* one iteration of the loop in Freezer::freeze: read block `nxt` from the kv store, append it
FreezeAppend ==
        /\ up /\ pc = "append" /\ nxt < thr
        /\ FullParts(Main(nxt)) \subseteq kv[Main(nxt)]         \* get_unfrozen_block finds every part
        /\ fz' = Append(fz, Main(nxt)) /\ fn' = Len(fz) + 2
        /\ got' = got \cup {nxt} /\ nxt' = nxt + 1
        /\ UNCHANGED <<tip, have, kv, dkv, fzS, up, pc, thr, snap, sides, startN, passes, crashes>>

AppendDone == /\ up /\ pc = "append" /\ nxt >= thr
              /\ pc' = IF Bug = "wipe_before_sync" THEN "wipeBodies" ELSE "sync"
              /\ UNCHANGED <<tip, have, kv, dkv, fz, fzS, fn, up, thr, nxt, got, snap, sides, startN, passes, crashes>>

FreezerSync ==
        /\ up /\ pc = "sync"
        /\ fzS' = Len(fz)
        /\ pc' = IF Bug = "wipe_before_sync" THEN "wipeSide" ELSE "wipeBodies"
        /\ UNCHANGED <<tip, have, kv, dkv, fz, fn, up, thr, nxt, got, snap, sides, startN, passes, crashes>>

\* first, synced batch of wipe_out_frozen_data: every row of the frozen blocks but the header;
\* side-chain blocks at those heights are collected from the pass's snapshot
WipeBodies ==
        /\ up /\ pc = "wipeBodies"
        /\ kv' = [b \in AllBlocks |-> IF IsMain(b) /\ H(b) \in got THEN kv[b] \cap {"header"} ELSE kv[b]]
        /\ dkv' = kv'                                             \* write_sync: durable, flushes the log
        /\ sides' = {b \in snap : ~IsMain(b) /\ H(b) \in got}
        /\ pc' = IF Bug = "wipe_before_sync" THEN "sync" ELSE "wipeSide"
        /\ UNCHANGED <<tip, have, fz, fzS, fn, up, thr, nxt, got, snap, startN, passes, crashes>>

\* second, unsynced batch: side-chain blocks at frozen heights are removed entirely
WipeSide ==
        /\ up /\ pc = "wipeSide"
        /\ kv' = [b \in AllBlocks |->
                    IF Bug = "wipe_main" /\ IsMain(b) /\ H(b) \in got /\ sides # {} THEN {}
                    ELSE IF b \in sides THEN {} ELSE kv[b]]
        /\ pc' = "idle"
        /\ UNCHANGED <<tip, have, dkv, fz, fzS, fn, up, thr, nxt, got, snap, sides, startN, passes, crashes>>

\* the operating system writes the log back at any time
Flush == /\ up /\ dkv # kv /\ dkv' = kv
         /\ UNCHANGED <<tip, have, kv, fz, fzS, fn, up, pc, thr, nxt, got, snap, sides, startN, passes, crashes>>

\* crash: `keep` freezer items survive (all of them on a process abort, at least the synced ones when the
\* unsynced tail of the files is lost - what C09 guarantees for a re-open); independently the kv store keeps
\* everything (power = FALSE) or only its durable part (power = TRUE)
CrashTo(keep, power) ==
        /\ up /\ crashes < MaxCrashes
        /\ keep \in fzS..Len(fz)
        /\ fz' = SubSeq(fz, 1, keep)
        /\ kv' = IF power THEN dkv ELSE kv
        /\ up' = FALSE /\ pc' = "idle" /\ crashes' = crashes + 1
        /\ UNCHANGED <<tip, have, dkv, fzS, fn, thr, nxt, got, snap, sides, startN, passes>>
Crash == \E keep \in 0..MaxTip, power \in BOOLEAN : CrashTo(keep, power)

Restart == /\ ~up /\ up' = TRUE
           /\ fn' = Len(fz) + 1 /\ fzS' = Len(fz) /\ dkv' = kv /\ startN' = Len(fz) + 1
           /\ got' = {} /\ sides' = {} /\ snap' = {}
           /\ UNCHANGED <<tip, have, kv, fz, pc, thr, nxt, passes, crashes>>

Next == Grow \/ (\E h \in SideHeights : InsertSide(h)) \/ Threshold \/ FreezeAppend \/ AppendDone
        \/ FreezerSync \/ WipeBodies \/ WipeSide \/ Flush \/ Crash \/ Restart
Spec == Init /\ [][Next]_vars

-----------------------------------------------------------------------------
(* Queries.  A part of block b is answered from its kv row, else - for a block below the     *)
(* frozen number whose freezer item is b itself - from the freezer; that is the answer every *)
(* observation point of the property must give.  Baseline = the answer before any freezing   *)
(* = "present" for every part a stored block has.                                            *)
Frozen(b) == IsMain(b) /\ H(b) >= 1 /\ H(b) < fn /\ H(b) <= Len(fz) /\ fz[H(b)] = b
Query(b, p) == p \in kv[b] \/ Frozen(b)
Baseline(b, p) == p \in FullParts(b)

\* every query on a main-chain block answers as before freezing, in every state of a running node
QueryUnchanged == up => \A h \in 0..tip : \A p \in FullParts(Main(h)) : Query(Main(h), p) = Baseline(Main(h), p)
\* a side-chain block is either still there in full or removed in full, and never answered by another block
SideAllOrNothing == \A b \in have : ~IsMain(b) => (kv[b] = FullParts(b) \/ kv[b] = {})
\* no crash loses a main-chain block: every part is durable in the kv store or in the synced freezer prefix
NoMainChainBlockLost == \A h \in 0..tip : \A p \in FullParts(Main(h)) :
                            p \in dkv[Main(h)] \/ (h >= 1 /\ h <= fzS /\ fz[h] = Main(h))
\* only ancient blocks are moved: strictly older than the last block of epoch current-2
OnlyAncientMoved == \A i \in 1..Len(fz) : CurEpoch(tip) > 2 /\ i < AncientBound(tip)
\* item i of the freezer is the main-chain block of height i (contiguous from the previous frozen height)
Contiguous == \A i \in 1..Len(fz) : fz[i] = Main(i)
\* at most Limit blocks per run
AtMostLimit == up => fn - startN <= Limit
\* the only rows ever removed: non-header rows of frozen main-chain blocks, side-chain blocks at frozen heights
OnlySideChainRemoved ==
    \A b \in have : \A p \in FullParts(b) :
        p \notin kv[b] => \/ IsMain(b) /\ p # "header" /\ H(b) >= 1 /\ H(b) <= Len(fz)
                          \/ ~IsMain(b) /\ H(b) <= Len(fz)
TypeOK == /\ fn \in 1..(MaxTip + 2) /\ fzS <= Len(fz) /\ (up => fn = Len(fz) + 1)
          /\ pc \in {"idle", "append", "sync", "wipeBodies", "wipeSide"}
=============================================================================
