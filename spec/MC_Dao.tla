------------------------------- MODULE MC_Dao -------------------------------
(* Exhaustive TLC configuration of Dao.tla: every chain of <= MaxLen blocks over the deposits Cells, every     *)
(* assignment of life-cycle operations to blocks (several deposits may act in one block).  Chains that finish at   *)
(* least one withdrawal are printed for replay on the real node (harness/src/bin/c06.rs dao).                      *)
EXTENDS Dao, TLC, Json
CONSTANTS MaxLen, Emit

MCCells == {1, 2}
MCCap == <<2000, 3500>>
MCOcc == <<610, 1020>>
MCDao0 == [ar |-> 10000, c |-> 20000, s |-> 0, u |-> 5000]

MCNext == Height < MaxLen /\ DNext
MCSpec == DInit /\ [][MCNext]_dvars

Finished == {c \in Cells : st[c].ph = "out"}
\* full-length chains only (shorter ones are prefixes), at least one finished withdrawal
EmitChain == (Emit /\ Height = MaxLen /\ Finished # {}) =>
   PrintT(<<"DAOCHAIN", ToJson([ops |-> [n \in 1..Height |-> [c \in 1..Cardinality(Cells) |-> IF c \in DOMAIN chain[n].ops THEN chain[n].ops[c] ELSE "none"]],
                                 both |-> Cardinality(Finished) = 2,
                                 sameBlock |-> \E n \in 1..Height : Cardinality({c \in DOMAIN chain[n].ops : chain[n].ops[c] = "withdraw"}) = 2])>>)
\* vacuity probes (must be VIOLATED): a withdrawal with strictly positive interest exists; S is really drawn upon
NoInterestEver == \A c \in Cells : st[c].ph = "out" => st[c].paid = Cap[c]
=============================================================================
