SPECIFICATION HSpec
CONSTANTS
 MaxBlocks = 6
 Works = {1, 3}
 WrongSize = FALSE
 HistLen = 6
CONSTRAINT OneFlaw
INVARIANT EmitHist
CHECK_DEADLOCK FALSE
