---------------------------- MODULE MC_BlockFilter ----------------------------
EXTENDS BlockFilter
\* at most one spending block per tree (the interesting interleavings need one spend only)
OneSpend == Cardinality({b \in DOMAIN tree : tree[b].spends >= 0}) <= 1
=============================================================================
