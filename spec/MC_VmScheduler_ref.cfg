SPECIFICATION Spec
CONSTANTS
 Dags <- FileDags
 MaxInst = 4
 Tick = 2
 S = 5
 MaxCuts = 0
 Variant = "intended"
 Emit = TRUE
INVARIANT SuspendInvariance
INVARIANT RefEnds
INVARIANT InstBound
INVARIANT EmitRef
INVARIANT EmitEnd
CHECK_DEADLOCK FALSE
