SPECIFICATION TSpec
CONSTANTS
  CST = 720000
  EHRT = 120000
  MaxProtect = 4
INVARIANT IdleClean
INVARIANT InboundUntouched
INVARIANT ProtectBound
INVARIANT WorkNotAboveTip
INVARIANT TimerMatchesGhost
INVARIANT OneGetHeadersPerTimer
INVARIANT NoOverdue
PROPERTY NeverEvictCaughtUp
PROPERTY OnlyOutboundUnprotected
PROPERTY GraceRespected
PROPERTY GetHeadersRight
PROPERTY PromptGetHeaders
PROPERTY PromptEviction
PROPERTY CatchUpResets
PROPERTY BestKnownMonotone
PROPERTY RecordStable
POSTCONDITION Accepted
CHECK_DEADLOCK FALSE
