SPECIFICATION SSpec
CONSTANTS
 MaxBlocks = 5
 Works = {1, 2}
 LiveReads = FALSE
 Batch = 2
 Interval = 2
CONSTRAINT OneSpend
INVARIANT FilterComplete
INVARIANT FilterHashChained
INVARIANT NoPanic
INVARIANT ServedOnMain
INVARIANT ServedFiltersComplete
INVARIANT ServedHashesChain
INVARIANT CheckPointsAgree
CHECK_DEADLOCK FALSE
