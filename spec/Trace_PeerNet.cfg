SPECIFICATION TSpec
CONSTANTS
  Protect = 8
  MaxBR = 2
  AddrLimit = 16384
  DefaultScore = 100
  DialInterval = 15
  Minute = 60
  TryTimeout = 259200
  AddrTimeout = 604800
  MaxRetries = 3
  MaxFailures = 10
INVARIANT OneSessionPerPeer
INVARIANT WithinLimits
INVARIANT WhitelistOnlyHolds
INVARIANT WhitelistFlagRight
INVARIANT RegistryInStore
INVARIANT AnchorsAreBR
INVARIANT BookBounded
PROPERTY NoBannedAdmitted
PROPERTY EvictionRight
POSTCONDITION Accepted
CHECK_DEADLOCK FALSE
