SPECIFICATION Spec
CONSTANTS
 SinceAt = 6
 KeyByTxHash = TRUE
 SkipTimeOnHit = FALSE
 SkipMaturityOnHit = FALSE
 InvalidateOnDelete = TRUE
 Warm = FALSE
 Emit = FALSE
INVARIANT TypeOK
INVARIANT CacheTransparent
INVARIANT EmitHist
CHECK_DEADLOCK FALSE
