---------------------------- MODULE MC_CrashRecovery ----------------------------
(* Exhaustive configuration of CrashRecovery.tla: every block tree with <= MaxBlocks blocks (forks, one invalid  *)
(* block, one commit per block over the C02 universe A) is minted first, then delivered parent-first with a     *)
(* crash possible in every state (<= MaxCrashes, also during recovery).                                          *)
EXTENDS CrashRecovery, Json
CONSTANTS MaxBlocks, MaxCommits, MaxBad, CbFrom, Emit

MCGenesis == <<1, 2, 3>>
G(n) == [ins |-> {}, deps |-> {}, nouts |-> n, fee |-> 0]
T(i, d, n, f) == [ins |-> i, deps |-> d, nouts |-> n, fee |-> f]
MCTx == <<G(1), G(1), G(1), T({<<2, 0>>}, {}, 2, 3), T({<<4, 0>>}, {}, 1, 5), T({<<2, 0>>}, {}, 1, 7),
          T({<<3, 0>>}, {<<2, 0>>}, 1, 2)>>
Spendable == {t \in DOMAIN MCTx : MCTx[t].ins # {}}
RECURSIVE ValidSeq(_, _, _)
ValidSeq(live, cs, i) ==
  IF i > Len(cs) THEN TRUE
  ELSE LET t == cs[i] IN
       /\ Tx[t].ins \subseteq live /\ Tx[t].deps \subseteq live
       /\ ValidSeq((live \ Tx[t].ins) \cup {<<t, k>> : k \in 0..(Tx[t].nouts - 1)}, cs, i + 1)
ChainOk(p) == \A a \in ToSet(Chain(p)) : blocks[a].ok
CommitSeqs == {<<>>} \cup (IF MaxCommits >= 1 THEN {<<t>> : t \in Spendable} ELSE {})
NBad == Cardinality({b \in DOMAIN blocks : ~blocks[b].ok})

MintR ==
  /\ H = <<>> /\ NBlocks <= MaxBlocks
  /\ \E p \in DOMAIN blocks : \E cs \in CommitSeqs :
       LET live == DOMAIN Replay(Chain(p)).cells
           okv == IF ChainOk(p) THEN ValidSeq(live, cs, 1) ELSE TRUE
           rec == [parent |-> p, num |-> Num(p) + 1, commits |-> cs, uncles |-> {},
                   cbo |-> IF Num(p) + 1 >= CbFrom THEN 1 ELSE 0, ok |-> okv, work |-> 1]
       IN /\ ChainOk(p)      \* nothing is built on an invalid block (descendants of invalid blocks go through the orphan broker: C01)
          /\ okv \/ NBad < MaxBad
          /\ Mint(rec)
  /\ UNCHANGED <<pc, inflight, failing, half, found, H, next, ncrash>>
Start == /\ H = <<>> /\ NBlocks >= 2
         /\ H' = [i \in 1..(NBlocks - 1) |-> i]
         /\ UNCHANGED <<vars, pc, inflight, failing, half, found, next, ncrash>>
GCrash == H # <<>> /\ Crash     \* no crash while the tree is still being minted
MCNext == MintR \/ Start \/ InsertC \/ VerifyC \/ VerifyC2 \/ DeleteC \/ GCrash \/ Restart \/ InitStep \/ InitDone
MCSpec == RInit /\ [][MCNext]_rvars

\* every distinct crash state (durable state while the process is down) with the history that is being delivered
EmitCrash == (Emit /\ pc = "down") => PrintT(<<"CRASH", ToJson([n |-> NBlocks - 1, tip |-> db.tip, next |-> next])>>)
EmitTree == (Emit /\ H # <<>> /\ next = 1 /\ ncrash = 0 /\ inflight = NoBlock) =>
               PrintT(<<"TREE", ToJson([b \in 1..(NBlocks - 1) |-> [p |-> blocks[b].parent, cs |-> blocks[b].commits, ok |-> blocks[b].ok]])>>)
ASSUME PrintT(<<"UNIVERSE", ToJson(MCTx)>>)
=============================================================================
