------------------------------ MODULE MMR ------------------------------
(***************************************************************************)
(* The chain-root Merkle mountain range (RFC 0044) over reorganisations.   *)
(*                                                                         *)
(* A digest is the INTERVAL of header ids it covers, written as the        *)
(* sequence of those ids; merge = concatenation (as MergeHeaderDigest      *)
(* hashes left|right), so two roots are equal iff they commit to the same  *)
(* sequence of headers.  `mmr` is COLUMN_CHAIN_ROOT_MMR: position ->       *)
(* digest.  A reorganisation (chain/src/verify.rs reconcile_main_chain)    *)
(* re-opens the MMR at mmr_size(fork point) and pushes the digest of each  *)
(* attached block, overwriting position by position; positions above the   *)
(* new size keep whatever the abandoned branch wrote there.                *)
(*                                                                         *)
(* Blocks carry `ext`, the chain root they commit to (BlockExtensionVerifier*)
(* compares it with the root of the MMR opened for the parent) and `work`  *)
(* (the heavier chain wins, also when it is shorter).                      *)
(***************************************************************************)
EXTENDS Integers, Sequences, FiniteSets, TLC

CONSTANTS MaxBlocks,      \* bound on non-genesis blocks
          Works,          \* per-block work values
          WrongSize       \* TRUE: reconcile re-opens the MMR at the OLD size instead of mmr_size(fork point) (self-test)

VARIABLES tree,   \* block id -> [parent, number, work, ext]
          main,   \* main chain, main[1] = 0
          mmr,    \* sequence of digests: mmr[pos + 1] is the node at position pos (stale tail allowed)
          bad,    \* blocks whose commitment check failed
          dropped \* blocks that arrived on top of a chain containing such a block: the node discards the arriving
                  \* block together with the verdict (delete_unverified_block + BLOCK_INVALID)

vars == <<tree, main, mmr, bad, dropped>>
Last(s) == s[Len(s)]

-----------------------------------------------------------------------------
(* MMR arithmetic (ckb-merkle-mountain-range helper.rs) *)
RECURSIVE Pow2(_)
Pow2(k) == IF k = 0 THEN 1 ELSE 2 * Pow2(k - 1)
RECURSIVE BitLen(_)
BitLen(n) == IF n = 0 THEN 0 ELSE 1 + BitLen(n \div 2)
AllOnes(n) == n + 1 = Pow2(BitLen(n))
RECURSIVE PH(_)                       \* pos_height_in_tree on 1-based positions
PH(p) == IF AllOnes(p) THEN BitLen(p) - 1 ELSE PH(p - (Pow2(BitLen(p) - 1) - 1))
PosHeight(pos) == PH(pos + 1)
RECURSIVE PopCount(_)
PopCount(n) == IF n = 0 THEN 0 ELSE (n % 2) + PopCount(n \div 2)
LeafPos(i) == 2 * i - PopCount(i)                       \* leaf_index_to_pos
MMRSize(i) == 2 * (i + 1) - PopCount(i + 1)             \* leaf_index_to_mmr_size: leaves 0..i

\* peaks of an MMR of `size` nodes, left to right: [pos, h, first] (first = index of the leftmost leaf below)
RECURSIVE PeaksFrom(_, _, _)
PeaksFrom(off, leaf, rem) ==
  IF rem = 0 THEN <<>>
  ELSE LET h  == CHOOSE h \in 0..BitLen(rem) : Pow2(h + 1) - 1 <= rem /\ Pow2(h + 2) - 1 > rem
           sz == Pow2(h + 1) - 1
       IN <<[pos |-> off + sz - 1, h |-> h, first |-> leaf]>> \o PeaksFrom(off + sz, leaf + Pow2(h), rem - sz)
Peaks(size) == PeaksFrom(0, 0, size)

Merge(l, r) == l \o r

\* MMR::push on a store `st` of `size` nodes: the new store and size
RECURSIVE Climb(_, _, _)
Climb(st, pos, h) ==
  IF PosHeight(pos + 1) > h
  THEN LET p == pos + 1
           left == st[p - Pow2(h + 1) + 1]                \* position p - 2^(h+1)
           right == st[p]                                  \* position p - 1
           node == Merge(left, right)
           st2 == IF Len(st) >= p + 1 THEN [st EXCEPT ![p + 1] = node] ELSE Append(st, node)
       IN Climb(st2, p, h + 1)
  ELSE [st |-> st, size |-> pos + 1]
Push(st, size, leaf) ==
  LET st1 == IF Len(st) >= size + 1 THEN [st EXCEPT ![size + 1] = leaf] ELSE Append(st, leaf)
  IN Climb(st1, size, 0)

\* MMR::get_root: bag the peaks (right to left with merge_peaks = merge swapped: header order is kept)
RECURSIVE Bag(_, _)
Bag(st, pk) == IF Len(pk) = 1 THEN st[pk[1].pos + 1] ELSE Merge(st[pk[1].pos + 1], Bag(st, Tail(pk)))
Root(st, size) == Bag(st, Peaks(size))

\* what an honest MMR over the chain `ch` (ids) holds at every position below `size`
RECURSIVE Fill(_, _, _, _)
Fill(ch, pos, h, first) ==
  IF h = 0 THEN (pos :> <<ch[first + 1]>>)
  ELSE (pos :> SubSeq(ch, first + 1, first + Pow2(h)))
       @@ Fill(ch, pos - Pow2(h), h - 1, first) @@ Fill(ch, pos - 1, h - 1, first + Pow2(h - 1))
RECURSIVE FillPeaks(_, _)
FillPeaks(ch, pk) == IF pk = <<>> THEN <<>> ELSE Fill(ch, pk[1].pos, pk[1].h, pk[1].first) @@ FillPeaks(ch, Tail(pk))
Honest(ch, size) == FillPeaks(ch, Peaks(size))

-----------------------------------------------------------------------------
(* Membership proofs: the nodes a verifier cannot derive from the claimed leaves *)
LeavesUnder(first, h) == first..(first + Pow2(h) - 1)
RECURSIVE Items(_, _, _, _)
Items(S, pos, h, first) ==              \* proof positions inside the subtree rooted at pos
  IF LeavesUnder(first, h) \cap S = {} THEN {pos}
  ELSE IF h = 0 THEN {}
  ELSE Items(S, pos - Pow2(h), h - 1, first) \cup Items(S, pos - 1, h - 1, first + Pow2(h - 1))
ProofPositions(size, S) == UNION {Items(S, p.pos, p.h, p.first) : p \in {Peaks(size)[i] : i \in DOMAIN Peaks(size)}}
\* gen_proof: the digests of those positions as the store holds them
GenProof(st, size, S) == [p \in ProofPositions(size, S) |-> st[p + 1]]
\* the verifier recomputes the root from its own leaves (the headers it believes in) and the proof
RECURSIVE Calc(_, _, _, _, _)
Calc(proof, leafval, pos, h, first) ==
  IF pos \in DOMAIN proof THEN proof[pos]
  ELSE IF h = 0 THEN leafval[first]
  ELSE Merge(Calc(proof, leafval, pos - Pow2(h), h - 1, first), Calc(proof, leafval, pos - 1, h - 1, first + Pow2(h - 1)))
RECURSIVE CalcBag(_, _, _)
CalcBag(proof, leafval, pk) ==
  IF Len(pk) = 1 THEN Calc(proof, leafval, pk[1].pos, pk[1].h, pk[1].first)
  ELSE Merge(Calc(proof, leafval, pk[1].pos, pk[1].h, pk[1].first), CalcBag(proof, leafval, Tail(pk)))
\* MerkleProof::verify(root, leaves)
Verify(proof, size, leafval, root) == CalcBag(proof, leafval, Peaks(size)) = root

-----------------------------------------------------------------------------
(* Chain *)
RECURSIVE Chain(_)
Chain(b) == IF b = 0 THEN <<0>> ELSE Append(Chain(tree[b].parent), b)
RECURSIVE TD(_)
TD(b) == IF b = 0 THEN 0 ELSE tree[b].work + TD(tree[b].parent)
Tip == Last(main)
NextId == Cardinality(DOMAIN tree)
Flawed == <<999>>                       \* a committed root that belongs to no chain
Prefix(s, n) == SubSeq(s, 1, n)
CommonLen(a, b) == CHOOSE n \in 0..Len(a) : /\ n <= Len(b) /\ Prefix(a, n) = Prefix(b, n)
                                             /\ (n = Len(a) \/ n = Len(b) \/ a[n + 1] # b[n + 1])

Init == /\ tree = [b \in {0} |-> [parent |-> 0, number |-> 0, work |-> 0, ext |-> <<>>]]
        /\ main = <<0>>
        /\ mmr = <<<<0>>>>                \* genesis digest at position 0 (init_genesis)
        /\ bad = {} /\ dropped = {}

\* reconcile_main_chain for the attached blocks att (in order): the MMR is re-opened at `size`; for each block
\* BlockExtensionVerifier compares its commitment with the root of the MMR so far, then its digest is pushed.
\* T = the tree including the arriving block.
RECURSIVE Reconcile(_, _, _, _)
Reconcile(T, st, size, att) ==
  IF att = <<>> THEN [ok |-> TRUE, st |-> st, failed |-> -1]
  ELSE LET b == att[1] IN
       IF T[b].ext # Root(st, size) THEN [ok |-> FALSE, st |-> st, failed |-> b]
       ELSE LET r == Push(st, size, <<b>>) IN Reconcile(T, r.st, r.size, Tail(att))

\* a new block arrives (its parent is known, not invalid); the heavier chain becomes the main chain
Mine(p, w, honest) ==
  /\ NextId <= MaxBlocks /\ p \in DOMAIN tree /\ p \notin bad \cup dropped
  /\ LET b  == NextId
         ch == Chain(p)
         nt == [x \in DOMAIN tree \cup {b} |->
                  IF x = b THEN [parent |-> p, number |-> tree[p].number + 1, work |-> w,
                                 ext |-> IF honest THEN ch ELSE Flawed]
                  ELSE tree[x]]
     IN /\ tree' = nt
        /\ IF TD(p) + w > TD(Tip)
           THEN LET keep == CommonLen(main, ch)                    \* blocks kept: main[1..keep]
                    att  == SubSeq(ch, keep + 1, Len(ch)) \o <<b>>
                    size == IF WrongSize THEN MMRSize(Len(main) - 1) ELSE MMRSize(keep - 1)
                    r    == Reconcile(nt, mmr, size, att)
                IN IF r.ok
                   THEN /\ mmr' = r.st /\ main' = Append(ch, b) /\ UNCHANGED <<bad, dropped>>   \* txn committed
                   ELSE /\ UNCHANGED <<mmr, main>> /\ bad' = bad \cup {r.failed}                 \* txn dropped
                        /\ dropped' = IF r.failed = b THEN dropped ELSE dropped \cup {b}
           ELSE UNCHANGED <<mmr, main, bad, dropped>>

Next == \E p \in DOMAIN tree, w \in Works, honest \in BOOLEAN : Mine(p, w, honest)
Spec == Init /\ [][Next]_vars

-----------------------------------------------------------------------------
Ids(n) == Prefix(main, n + 1)                      \* the main chain up to block number n

TypeOK == /\ main[1] = 0 /\ \A k \in 2..Len(main) : tree[main[k]].parent = main[k - 1]
          /\ Len(mmr) >= MMRSize(Len(main) - 1)

\* every block that made it to the main chain committed to the root over exactly its ancestors, on every fork;
\* and no block with an honest commitment and honest ancestors is ever refused
CommittedRootIsAncestors ==
  /\ \A k \in 2..Len(main) : tree[main[k]].ext = Prefix(main, k - 1)
  /\ \A b \in bad : tree[b].ext # Chain(tree[b].parent)
  /\ \A b \in dropped : \E a \in bad : \E k \in DOMAIN Chain(b) : Chain(b)[k] = a
\* after any reorganisation the root served for every main-chain height is the root over that chain
MainRootAfterReorg == \A n \in 0..(Len(main) - 1) : Root(mmr, MMRSize(n)) = Ids(n)
\* no position below the current size holds a node of an abandoned branch
NoStaleRead == LET h == Honest(main, MMRSize(Len(main) - 1)) IN \A p \in DOMAIN h : mmr[p + 1] = h[p]
\* proofs served for the main chain verify against the committed root of that chain and against the
\* committed root of no other chain of the tree
ProofsVerifyOnlyOnOwnChain ==
  \A n \in 0..(Len(main) - 1) :
    \A S \in (SUBSET (0..n)) \ {{}} :
      LET size  == MMRSize(n)
          proof == GenProof(mmr, size, S)
          leaf  == [i \in S |-> <<main[i + 1]>>]
      IN /\ Verify(proof, size, leaf, Ids(n))
         /\ \A c \in DOMAIN tree : (tree[c].number = n /\ c # main[n + 1]) => ~Verify(proof, size, leaf, Chain(c))
=============================================================================
