------------------------------ MODULE Freezer ------------------------------
(***************************************************************************)
(* Byte-level model of ckb-freezer's FreezerFiles (freezer/src/freezer_files.rs). *)
(*                                                                         *)
(* On disk: data files blk000000, blk000001, ... (only their lengths matter: the *)
(* bytes of item i are a function of i, kept as ground truth in `items`) and an  *)
(* INDEX file of 12-byte entries <<file id, end offset>>; entry 1 is the sentinel *)
(* <<0,0>>.  In memory: the head handle (`hf` = file it really refers to), the    *)
(* `head_id` field (`hif`), `number`.                                             *)
(*                                                                         *)
(* One action per public operation / fault:                                *)
(*   AppendItem(sz)  FreezerFiles::append   (roll-over: create next file, data,   *)
(*                                           then index entry)                    *)
(*   Sync            FreezerFiles::sync_all (head file + index)                   *)
(*   Truncate(k)     FreezerFiles::truncate                                       *)
(*   CrashTo(..)     process/power loss: the head data file and the index are    *)
(*                   independently cut to any length between synced and written  *)
(*   Reopen          FreezerFilesBuilder::build - the repair loop *as intended*  *)
(*                   (Buggy = TRUE transcribes the loop as it was coded before   *)
(*                   the fix: it reopens the old head file after walking back)   *)
(***************************************************************************)
EXTENDS Naturals, Sequences, FiniteSets, TLC
CONSTANTS MaxSize,     \* max bytes per data file
          Sizes,       \* item sizes explored by the model checker
          MaxAppends,  \* bound on the number of appends (and on file ids)
          Buggy        \* TRUE: repair loop as coded before the fix (self-test of the invariants)

VARIABLES data,      \* data[f] = current length of data file f (0 = empty or missing)
          index,     \* full index entries on disk
          torn,      \* TRUE iff a partial (torn) entry follows the last full one
          items,     \* ground truth: items[i] = [file, start, end] for every item appended and not truncated
          sData, sIdx, sHead, \* what the last sync made durable: head length, #entries, which file was head
          open,      \* a FreezerFiles object exists
          hif, hf,   \* head_id field / file the head handle refers to
          number,    \* the `number` field (= items + 1)
          fw,        \* number of fully written items at the last crash (data and index entry complete)
          fwKept     \* obligation carried over the following Reopen
vars == <<data, index, torn, items, sData, sIdx, sHead, open, hif, hf, number, fw, fwKept>>

Files == 0..MaxAppends
Min2(a, b) == IF a < b THEN a ELSE b
Last(s) == s[Len(s)]

Init == /\ data = [f \in Files |-> 0] /\ index = << <<0, 0>> >> /\ torn = FALSE /\ items = <<>>
        /\ sData = 0 /\ sIdx = 1 /\ sHead = 0
        /\ open = TRUE /\ hif = 0 /\ hf = 0 /\ number = 1 /\ fw = 0 /\ fwKept = 0

AppendItem(sz) ==
  /\ open /\ Len(items) < MaxAppends
  /\ LET roll == data[hf] + sz > MaxSize
         f    == IF roll THEN hif + 1 ELSE hf      \* open_truncated(next_id): new empty head file
         st   == IF roll THEN 0 ELSE data[hf]
     IN /\ f \in Files
        /\ data' = [data EXCEPT ![f] = st + sz]
        /\ index' = Append(index, <<f, st + sz>>)
        /\ items' = Append(items, [file |-> f, start |-> st, end |-> st + sz])
        /\ hif' = f /\ hf' = f /\ number' = number + 1
  /\ UNCHANGED <<torn, sData, sIdx, sHead, open, fw>> /\ fwKept' = 0

Sync == /\ open /\ sData' = data[hf] /\ sIdx' = Len(index) /\ sHead' = hf
        /\ UNCHANGED <<data, index, torn, items, open, hif, hf, number, fw>> /\ fwKept' = 0

\* truncate(k): keep items 1..k.  Out of range => no effect (not a step).
Truncate(k) ==
  /\ open /\ k >= 1 /\ k + 1 < number
  /\ LET ne == index[k + 1]
         nf == ne[1]
     IN /\ index' = SubSeq(index, 1, k + 1)
        /\ data' = [f \in Files |-> IF f > nf THEN 0 ELSE IF f = nf THEN ne[2] ELSE data[f]]
        /\ hif' = nf /\ hf' = nf
        /\ sIdx' = Min2(sIdx, k + 1)
        /\ sHead' = nf
        /\ sData' = IF sHead = nf THEN Min2(sData, ne[2]) ELSE ne[2]
  /\ items' = SubSeq(items, 1, k) /\ number' = k + 1
  /\ UNCHANGED <<torn, open, fw>> /\ fwKept' = 0

\* number of items (prefix) whose data and index entry survive entirely in (d, idx)
FullPrefix(d, idx) ==
  LET good(i) == i + 1 <= Len(idx) /\ d[items[i].file] >= items[i].end
      S == {k \in 0..Len(items) : \A i \in 1..k : good(i)}
  IN  CHOOSE k \in S : \A j \in S : j <= k

\* crash: index cut to `icut` full entries (+ a torn one iff t), head data file cut to `c` bytes
CrashTo(icut, t, c) ==
  /\ open
  /\ icut \in sIdx..Len(index) /\ (t => icut < Len(index))
  /\ c <= data[hf] /\ (hf = sHead => c >= sData)
  /\ data' = [data EXCEPT ![hf] = c]
  /\ index' = SubSeq(index, 1, icut) /\ torn' = t
  /\ fw' = FullPrefix(data', index')
  /\ open' = FALSE
  /\ UNCHANGED <<items, sData, sIdx, sHead, hif, hf, number>> /\ fwKept' = 0

Crash == \E icut \in 1..(MaxAppends + 1), t \in BOOLEAN, c \in 0..MaxSize : CrashTo(icut, t, c)

\* The repair loop of FreezerFilesBuilder::build.
\*   idx: index entries, hi: head_index.file_id, h: file behind the head handle, hsize: its length,
\*   expect: expected head size, d: file lengths
RECURSIVE Repair(_, _, _, _, _, _)
Repair(idx, hi, h, hsize, expect, d) ==
  IF expect = hsize THEN [idx |-> idx, hi |-> hi, h |-> h, d |-> d]
  ELSE IF expect < hsize THEN Repair(idx, hi, h, expect, expect, [d EXCEPT ![h] = expect])
  ELSE LET idx2 == SubSeq(idx, 1, Len(idx) - 1)
           ne   == Last(idx2)
           slipped == ne[1] # hi
           nh   == IF slipped THEN (IF Buggy THEN hi ELSE ne[1]) ELSE h
           nsz  == IF slipped THEN d[nh] ELSE hsize
       IN Repair(idx2, ne[1], nh, nsz, ne[2], d)

Repaired == LET he == Last(index) IN Repair(index, he[1], he[1], data[he[1]], he[2], data)

Reopen ==
  /\ ~open
  /\ LET r == Repaired
     IN /\ index' = r.idx /\ data' = r.d /\ torn' = FALSE
        /\ hif' = r.hi /\ hf' = r.h /\ number' = Len(r.idx)
        /\ sData' = r.d[r.h] /\ sIdx' = Len(r.idx) /\ sHead' = r.h      \* build() ends with sync_all
        /\ items' = SubSeq(items, 1, Min2(Len(items), Len(r.idx) - 1))
  /\ open' = TRUE /\ fwKept' = fw
  /\ UNCHANGED fw

Next == (\E sz \in Sizes : AppendItem(sz)) \/ Sync \/ (\E k \in 1..MaxAppends : Truncate(k)) \/ Crash \/ Reopen
Spec == Init /\ [][Next]_vars

-----------------------------------------------------------------------------
\* Item i is retrievable byte-for-byte: get_bounds(i) as coded yields exactly the item's extent,
\* and the file is long enough.
Bounds(i) == IF i = 1 \/ index[i][1] # index[i + 1][1] THEN <<0, index[i + 1][2], index[i + 1][1]>>
             ELSE <<index[i][2], index[i + 1][2], index[i + 1][1]>>
Retrievable(i) == /\ Bounds(i) = <<items[i].start, items[i].end, items[i].file>>
                  /\ data[items[i].file] >= items[i].end

TypeOK    == /\ number \in 1..(MaxAppends + 1) /\ hif \in Files /\ hf \in Files
             /\ Len(index) >= 1 /\ index[1] = <<0, 0>>
\* C09: re-opening yields a contiguous prefix, each item byte-for-byte as written
PrefixOK  == open => /\ number = Len(index) /\ Len(items) = number - 1
                     /\ \A i \in 1..(number - 1) : Retrievable(i)
\* subsequent appends and retrievals work on that prefix: the handle is the head file and is in sync with the index
HandleOK  == open => /\ hf = hif /\ hif = Last(index)[1] /\ data[hf] = Last(index)[2]
\* n is at least the number of fully written items
NoLossInv == open => number - 1 >= fwKept
\* nothing beyond the head file exists after a reopen/truncate (so a later roll-over starts clean)
=============================================================================
