---------------------------- MODULE CompactBlock ----------------------------
(***************************************************************************)
(* Compact-block relay (RFC 0004 block relay; sync/src/relayer): what a     *)
(* node may conclude from a compact block plus what it has locally and what *)
(* the peer supplies afterwards.                                            *)
(*                                                                         *)
(* A block = header + body.  The header COMMITS to the whole body:          *)
(*   transactions_root -> the transaction list (order, content, witnesses), *)
(*   proposals_hash    -> the proposal ids,                                 *)
(*   extra_hash        -> the uncles and the extension.                     *)
(* Hashes are injective, so "the header commits to body x" is "x = the body *)
(* the header was made for" (Committed).                                    *)
(*                                                                         *)
(* A compact block is chosen BY THE PEER: a header, some transactions       *)
(* prefilled at stated indexes, short ids for the other positions, uncle    *)
(* HASHES, proposals, extension.  Everything except the header may disagree *)
(* with what the header commits to.                                         *)
(*                                                                         *)
(* Abstract universe: block transactions 1..n (1 = cellbase); 0 = X, a      *)
(* transaction that is NOT in the block but may sit in the local pool; the  *)
(* short id of t is t itself (a "collision" is the peer naming X's short id *)
(* for a position).  Uncle blocks "u" (the block's uncle), "w" (another     *)
(* locally known block).  Proposals "P" / extension "E" honest, "Q" / "F"   *)
(* tampered.                                                                *)
(*                                                                         *)
(* One action per step of the protocol:                                     *)
(*   ChooseBlock, PeerSends (compact block), LocalState, Verify             *)
(*   (CompactBlockVerifier), Reconstruct1, PeerAnswers (BlockTransactions), *)
(*   VerifyAnswer (BlockTransactionsVerifier + BlockUnclesVerifier),        *)
(*   Reconstruct2.                                                          *)
(* Buggy = TRUE is the acceptance test as the code had it (only the         *)
(* transactions root is compared) -- a self-test of NeverADifferentBlock.   *)
(***************************************************************************)
EXTENDS Naturals, Sequences, FiniteSets, TLC
CONSTANTS MaxTx, Buggy

VARIABLES phase,    \* "block" -> "sent" -> "local" -> "verified" -> "r1" -> "answered" -> "checked" -> "r2" / "end"
          n,        \* number of transactions of the committed block
          hasUncle, hasExt,
          msg,      \* the compact block: [pre, sids, props, uhashes, ext, tamper]
          pool,     \* transactions available locally (tx-pool / verify queue / orphan pool): subset of 0..n
          known,    \* uncle blocks available locally
          verdict,  \* CompactBlockVerifier: "ok" / "reject"
          r1,       \* first reconstruction result
          ans,      \* the peer's BlockTransactions answer [txs, uncles, kind]
          averdict, \* BlockTransactionsVerifier + BlockUnclesVerifier
          r2        \* second reconstruction result
vars == <<phase, n, hasUncle, hasExt, msg, pool, known, verdict, r1, ans, averdict, r2>>

None == [kind |-> "none"]
Committed == [txs |-> [i \in 1..n |-> i], props |-> "P",
              uncles |-> IF hasUncle THEN <<"u">> ELSE <<>>, ext |-> IF hasExt THEN "E" ELSE "none"]

RECURSIVE SeqOfSet(_)
SeqOfSet(S) == IF S = {} THEN <<>> ELSE LET m == CHOOSE x \in S : \A y \in S : x <= y IN <<m>> \o SeqOfSet(S \ {m})
Range(s) == {s[i] : i \in 1..Len(s)}

Init == /\ phase = "block" /\ n = 0 /\ hasUncle = FALSE /\ hasExt = FALSE /\ msg = None /\ pool = {} /\ known = {}
        /\ verdict = "-" /\ r1 = None /\ ans = None /\ averdict = "-" /\ r2 = None

ChooseBlock == /\ phase = "block" /\ n = 0
               /\ n' \in 1..MaxTx /\ hasUncle' \in BOOLEAN /\ hasExt' \in BOOLEAN
               /\ phase' = "sent" /\ UNCHANGED <<msg, pool, known, verdict, r1, ans, averdict, r2>>

\* <<i, t>> pairs ordered by index
PreSeq(S, f) == LET idx == SeqOfSet(S) IN [j \in 1..Len(idx) |-> <<idx[j], f[idx[j]]>>]

PeerSends ==
  /\ phase = "sent" /\ msg = None
  /\ \E S \in SUBSET (2..n) :
       LET P == S \cup {1}
           h == [pre |-> PreSeq(P, [i \in P |-> i]), sids |-> SeqOfSet((1..n) \ P), props |-> "P",
                 uhashes |-> IF hasUncle THEN <<"u">> ELSE <<>>, ext |-> IF hasExt THEN "E" ELSE "none", tamper |-> "none"]
       IN \/ msg' = h
          \* --- fields the transactions root does not cover
          \/ msg' = [h EXCEPT !.props = "Q", !.tamper = "proposals"]
          \/ msg' = [h EXCEPT !.uhashes = IF hasUncle THEN <<>> ELSE <<"w">>, !.tamper = "uncles"]
          \/ hasUncle /\ msg' = [h EXCEPT !.uhashes = <<"w">>, !.tamper = "uncles"]
          \/ msg' = [h EXCEPT !.ext = IF hasExt THEN "F" ELSE "E", !.tamper = "extension"]
          \/ hasExt /\ msg' = [h EXCEPT !.ext = "none", !.tamper = "extension"]
          \* --- a wrong transaction: prefilled position i carries X / position i is announced with X's short id
          \/ \E i \in S : msg' = [h EXCEPT !.pre = PreSeq(P, [j \in P |-> IF j = i THEN 0 ELSE j]), !.tamper = "prefilled-tx"]
          \/ \E i \in (1..n) \ P : msg' = [h EXCEPT !.sids = [j \in 1..Len(h.sids) |-> IF h.sids[j] = i THEN 0 ELSE h.sids[j]],
                                                   !.tamper = "short-id"]
          \* --- two positions swapped (order is committed)
          \/ \E i \in (1..n) \ P : \E j \in (1..n) \ P : i < j /\
                msg' = [h EXCEPT !.sids = [x \in 1..Len(h.sids) |-> IF h.sids[x] = i THEN j ELSE IF h.sids[x] = j THEN i ELSE h.sids[x]],
                                 !.tamper = "order"]
          \* --- ill-formed prefilled lists / short ids (for the verifier)
          \/ n >= 2 /\ msg' = [h EXCEPT !.pre = Tail(h.pre), !.sids = <<1>> \o h.sids, !.tamper = "no-cellbase"]
          \/ Len(h.pre) >= 3 /\ msg' = [h EXCEPT !.pre = <<h.pre[1], h.pre[Len(h.pre)]>> \o SubSeq(h.pre, 2, Len(h.pre) - 1), !.tamper = "unordered"]
          \/ Len(h.pre) >= 2 /\ msg' = [h EXCEPT !.pre = [j \in 1..Len(h.pre) |-> IF j = Len(h.pre) THEN <<n + 1, h.pre[j][2]>> ELSE h.pre[j]], !.tamper = "out-of-range"]
          \* an index stated twice (sorted, but not STRICTLY increasing): the last prefilled entry repeats its predecessor's index
          \/ Len(h.pre) >= 2 /\ msg' = [h EXCEPT !.pre = [j \in 1..Len(h.pre) |-> IF j = Len(h.pre) THEN <<h.pre[j - 1][1], h.pre[j][2]>> ELSE h.pre[j]],
                                                   !.tamper = "dup-prefilled-index"]
          \/ Len(h.pre) >= 2 /\ msg' = [h EXCEPT !.pre = h.pre \o <<h.pre[Len(h.pre)]>>, !.tamper = "dup-prefilled-entry"]
          \/ Len(h.sids) >= 1 /\ msg' = [h EXCEPT !.sids = h.sids \o <<h.sids[1]>>, !.tamper = "dup-short-id"]
          \/ Len(h.pre) >= 2 /\ msg' = [h EXCEPT !.sids = h.sids \o <<h.pre[2][2]>>, !.tamper = "prefilled-in-short-ids"]
  /\ phase' = "local" /\ UNCHANGED <<n, hasUncle, hasExt, pool, known, verdict, r1, ans, averdict, r2>>

LocalState ==
  /\ phase = "local"
  /\ pool' \in SUBSET (0..n \ {1})          \* the cellbase is never in a pool
  /\ known' \in SUBSET {"u", "w"} /\ "w" \in known'
  /\ phase' = "verified0" /\ UNCHANGED <<n, hasUncle, hasExt, msg, verdict, r1, ans, averdict, r2>>

\* CompactBlockVerifier: the cellbase is prefilled at index 1, indexes strictly increase and stay inside the block,
\* short ids are pairwise different and none of them is the short id of a prefilled (non-cellbase) transaction
SlotCount(m) == Len(m.pre) + Len(m.sids)
WellFormedMsg(m) ==
  /\ Len(m.pre) >= 1 /\ m.pre[1][1] = 1
  /\ \A j \in 1..(Len(m.pre) - 1) : m.pre[j][1] < m.pre[j + 1][1]
  /\ m.pre[Len(m.pre)][1] <= SlotCount(m)
  /\ \A a \in 1..Len(m.sids) : \A b \in 1..Len(m.sids) : a # b => m.sids[a] # m.sids[b]
  /\ \A j \in 2..Len(m.pre) : m.pre[j][2] \notin Range(m.sids)
Verify == /\ phase = "verified0"
          /\ verdict' = IF WellFormedMsg(msg) THEN "ok" ELSE "reject"
          /\ phase' = IF WellFormedMsg(msg) THEN "verified" ELSE "end"
          /\ UNCHANGED <<n, hasUncle, hasExt, msg, pool, known, r1, ans, averdict, r2>>

-----------------------------------------------------------------------------
(* Reconstruction *)
PreIdx(m) == {m.pre[j][1] : j \in 1..Len(m.pre)}
PreTx(m, i) == m.pre[CHOOSE j \in 1..Len(m.pre) : m.pre[j][1] = i][2]
\* the short id announced for slot i: the short ids fill the slots that are not prefilled, in order
SidOf(m, i) == m.sids[Cardinality({x \in 1..i : x \notin PreIdx(m)})]
\* the transaction for slot i: -1 if nothing available carries the announced short id
SlotTx(m, i, recv, pl) ==
  IF i \in PreIdx(m) THEN PreTx(m, i)
  ELSE IF SidOf(m, i) \in recv THEN SidOf(m, i)        \* supplied by the peer (checked against the short id by the verifier)
  ELSE IF SidOf(m, i) \in pl THEN SidOf(m, i) ELSE 0 - 1
MissingTx(m, recv, pl) == {i \in 1..SlotCount(m) : SlotTx(m, i, recv, pl) < 0}
MissingUncles(m, urecv, kn) == {j \in 1..Len(m.uhashes) : m.uhashes[j] \notin kn /\ j \notin urecv}

Reconstruct(m, recv, urecv, pl, kn) ==
  LET mt == MissingTx(m, recv, pl) mu == MissingUncles(m, urecv, kn)
  IN IF mt # {} \/ mu # {} THEN [kind |-> "Missing", txs |-> mt, uncles |-> mu]
     ELSE LET cand == [txs |-> [i \in 1..SlotCount(m) |-> SlotTx(m, i, recv, pl)], props |-> m.props,
                       uncles |-> m.uhashes, ext |-> m.ext]
          IN IF cand.txs # Committed.txs
             THEN [kind |-> "Refused", why |-> "transactions"]           \* collision or invalid: never a block
             ELSE IF ~Buggy /\ cand # Committed
             THEN [kind |-> "Refused", why |-> "body"]
             ELSE [kind |-> "Block", block |-> cand]

Reconstruct1 == /\ phase = "verified"
                /\ r1' = Reconstruct(msg, {}, {}, pool, known)
                /\ phase' = IF r1'.kind = "Missing" THEN "r1" ELSE "end"
                /\ UNCHANGED <<n, hasUncle, hasExt, msg, pool, known, verdict, ans, averdict, r2>>

\* the peer answers the request for r1.txs / r1.uncles: honestly, with a wrong transaction, with too few / too many
\* transactions, without the uncle, with another uncle
WantedSids == LET idx == SeqOfSet(r1.txs) IN [j \in 1..Len(idx) |-> SidOf(msg, idx[j])]      \* in slot order
PeerAnswers ==
  /\ phase = "r1"
  /\ LET ws == WantedSids
         us == [j \in 1..Cardinality(r1.uncles) |-> msg.uhashes[SeqOfSet(r1.uncles)[j]]]
         honest == [txs |-> ws, uncles |-> us, kind |-> "honest"]
     IN \/ ans' = honest
        \/ Len(ws) >= 1 /\ ans' = [honest EXCEPT !.txs = [j \in 1..Len(ws) |-> IF j = 1 THEN (IF ws[1] = 0 THEN 2 ELSE 0) ELSE ws[j]], !.kind = "wrong-tx"]
        \/ Len(ws) >= 1 /\ ans' = [honest EXCEPT !.txs = Tail(ws), !.kind = "fewer-txs"]
        \/ Len(us) >= 1 /\ ans' = [honest EXCEPT !.uncles = <<>>, !.kind = "no-uncle"]
        \/ Len(us) >= 1 /\ ans' = [honest EXCEPT !.uncles = <<IF us[1] = "u" THEN "w" ELSE "u">>, !.kind = "wrong-uncle"]
  /\ phase' = "answered" /\ UNCHANGED <<n, hasUncle, hasExt, msg, pool, known, verdict, r1, averdict, r2>>

\* BlockTransactionsVerifier / BlockUnclesVerifier: exactly the requested items, in order, each matching its short id / hash
AnswerOK == /\ ans.txs = WantedSids
            /\ ans.uncles = [j \in 1..Cardinality(r1.uncles) |-> msg.uhashes[SeqOfSet(r1.uncles)[j]]]
VerifyAnswer == /\ phase = "answered"
                /\ averdict' = IF AnswerOK THEN "ok" ELSE "reject"
                /\ phase' = IF AnswerOK THEN "checked" ELSE "end"
                /\ UNCHANGED <<n, hasUncle, hasExt, msg, pool, known, verdict, r1, ans, r2>>

Reconstruct2 == /\ phase = "checked"
                /\ r2' = Reconstruct(msg, Range(ans.txs), r1.uncles, pool, known)
                /\ phase' = "end"
                /\ UNCHANGED <<n, hasUncle, hasExt, msg, pool, known, verdict, r1, ans, averdict>>

Next == ChooseBlock \/ PeerSends \/ LocalState \/ Verify \/ Reconstruct1 \/ PeerAnswers \/ VerifyAnswer \/ Reconstruct2
Spec == Init /\ [][Next]_vars

-----------------------------------------------------------------------------
(* Properties *)
\* a reconstructed block is exactly the block the header commits to (so its hash is the compact block's header hash)
NeverADifferentBlock == /\ r1.kind = "Block" => r1.block = Committed
                        /\ r2.kind = "Block" => r2.block = Committed
\* a "missing" report names exactly the positions nothing available can fill
Resolvable(i, recv) == i \in PreIdx(msg) \/ SidOf(msg, i) \in recv \cup pool
MissingPrecise ==
  /\ r1.kind = "Missing" => /\ r1.txs = {i \in 1..SlotCount(msg) : ~Resolvable(i, {})}
                            /\ r1.uncles = {j \in 1..Len(msg.uhashes) : msg.uhashes[j] \notin known}
  /\ r2.kind = "Missing" => r2.txs = {i \in 1..SlotCount(msg) : ~Resolvable(i, Range(ans.txs))}
\* an honest message with everything available locally is reconstructed
Completeness == (phase = "end" /\ verdict = "ok" /\ msg.tamper = "none" /\ r1.kind # "Missing") => r1.kind = "Block"
\* ill-formed lists never reach reconstruction
VerifierGuards == r1 # None => WellFormedMsg(msg)
=============================================================================
