---------------------------- MODULE MC_Indexer ----------------------------
(* Small universe for exhaustive TLC: 3 always-success scripts with args (s1 = 01 is a prefix of        *)
(* s2 = 0102; s3 = 03), the miner/genesis lock s0 (empty args, a prefix of all), the deploy cell's       *)
(* default lock sd (other code hash); search keys also q10 (args 0100: zero-extension of s1) and q2      *)
(* (args 02: matches nothing).  4 transactions: t1 (two outputs), t2 spends t1's first output (so        *)
(* [t1, t2] in one block = created and consumed in one block), t3, t4 joins outputs of t1 and t3.       *)
(* Every transaction may appear on every branch.                                                         *)
EXTENDS Indexer, Json
CONSTANTS Emit

O(l, t, c, d) == [lock |-> l, type |-> t, cap |-> c, dlen |-> d]
MCTxDef ==
  (1  :> [ins |-> << <<5, 0>> >>, outs |-> << O("s1", "s3", 20000, 0), O("s2", "none", 29999, 4) >>]) @@
  (2  :> [ins |-> << <<1, 0>> >>,  outs |-> << O("s3", "none", 19999, 0) >>]) @@
  (3  :> [ins |-> << <<6, 0>> >>, outs |-> << O("s2", "s1", 25000, 2), O("s1", "none", 24999, 0) >>]) @@
  (4  :> [ins |-> << <<1, 1>>, <<3, 0>> >>, outs |-> << O("s1", "s3", 54998, 1) >>]) @@
  (5 :> [ins |-> <<>>, outs |-> << O("s0", "none", 50000, 8) >>]) @@
  (6 :> [ins |-> <<>>, outs |-> << O("s0", "none", 50000, 8) >>]) @@
  (7 :> [ins |-> <<>>, outs |-> << O("s0", "none", 50000, 8) >>])
MCGenesis == [parent |-> 0, number |-> 0, txs |-> <<5, 6, 7>>, cb |-> << O("sd", "none", 344, 344) >>]
MCCbOut == O("s0", "none", 1500, 0)
MCRaw == ("sd" :> <<0>>) @@ ("s0" :> <<9>>) @@ ("s1" :> <<9, 1>>) @@ ("s2" :> <<9, 1, 2>>) @@ ("s3" :> <<9, 3>>) @@
         ("q10" :> <<9, 1, 0>>) @@ ("q2" :> <<9, 2>>)
MCQueryScripts == {"s0", "s1", "s2", "s3", "q10"}
Ascending(s) == \A i \in 1..(Len(s) - 1) : s[i] < s[i + 1]

\* state-space reduction (sound for the safety properties: mining commutes with everything else):
\* the tree is built first, in canonical order (parents non-decreasing)
MineFirst == hw = 0 /\ IdxTip = 0 /\ main = <<0>>
Canonical == NextId > 1 => tree'[NextId].parent >= tree[NextId - 1].parent
MCMine == MineFirst /\ Mine /\ Canonical
MCIdxAppend == \E b \in DOMAIN tree : IdxAppend(b)
MCWalkNext == MCMine \/ MCIdxAppend \/ IdxRollback
MCSyncNext == MCMine \/ Attach \/ Detach \/ SyncStep
MCSpecWalk == IdxInit /\ [][MCWalkNext]_ivars
MCSpecSync == IdxInit /\ [][MCSyncNext]_ivars

\* a few filtered queries on top of the unfiltered ones
FilterQueries ==
  {[NoFilter("lock", "s1", FALSE) EXCEPT !.fs = "s3"], [NoFilter("lock", "s0", FALSE) EXCEPT !.slen = <<0, 1>>],
   [NoFilter("type", "s3", TRUE) EXCEPT !.fs = "s1"],  [NoFilter("lock", "s0", FALSE) EXCEPT !.cap = <<20000, 30000>>],
   [NoFilter("lock", "s1", FALSE) EXCEPT !.blk = <<2, 4>>], [NoFilter("lock", "s2", TRUE) EXCEPT !.dlen = <<1, 5>>],
   [NoFilter("type", "s1", FALSE) EXCEPT !.fs = "s2", !.blk = <<1, 3>>]}
FilteredAnswers == ok => AnswersFor(FilterQueries)
=============================================================================
