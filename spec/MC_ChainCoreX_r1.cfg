SPECIFICATION SpecX
CONSTANTS
  N = 13
  MaxWork = 1
  MaxDup = 0
  Verdicts = {"ok"}
  Heavy = 0
  PreFix = FALSE
  Emit = TRUE
  EpochLen = 1
  Horizon = 6
  Prefix = 8
  Extra = 2
  SideRoots = {0, 1}
INVARIANT TypeOK
INVARIANT TipHeaviestValidX
INVARIANT OrphansConnected
INVARIANT OnlyValidAttached
INVARIANT Accounted
INVARIANT NoGhostExt
INVARIANT GoneConsistent
INVARIANT EmitQuiescentX
PROPERTY NeverLeaveTipForNotHeavierX
PROPERTY RetainedWithinHorizon
CHECK_DEADLOCK FALSE
