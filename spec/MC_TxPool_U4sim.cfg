SPECIFICATION MSpec
CONSTANTS
 Txs <- U4Txs
 Ins <- U4Ins
 Deps <- U4Deps
 Fee <- U4Fee
 Size <- U4Size
 HDeps <- NoHDeps
 Cycles <- UnitCycles
 Genesis <- MGenesis
 Coded = FALSE
 KeepHist = TRUE
 MaxProps = 1
 MaxChain = 4
 MaxOps = 7
 MConf <- MConf_U4sim
INVARIANT NoDoubleSpend
INVARIANT LinksExact
INVARIANT AggregatesExact
INVARIANT EdgesExact
INVARIANT CountsExact
INVARIANT AncestorLimit
INVARIANT RbfRule
INVARIANT EmitHist
CHECK_DEADLOCK FALSE
