---------------------------- MODULE Economics_A ----------------------------
(* Apalache entry module of C06 (binding "A"): every block of the REAL chains recorded by harness/src/bin/c06.rs  *)
(* is judged at real magnitude by the operators of EconomicsArith.tla and Epoch.tla:                              *)
(*   DaoOK        the header's DAO field (AR, C, S, U) = accumulate rule on the parent's field                     *)
(*   UIsOccupied  U = occupied capacity of the live-cell set (measured by scanning COLUMN_CELL)                    *)
(*   CellbaseOK   capacity created by the cellbase = Reward(target): primary + miner's secondary share +           *)
(*                committer fees + proposer fees (the two fee components are judged by Judge_Economics.tla),       *)
(*                nothing when there is no target or the reward cannot pay for its cell                            *)
(*   NoOtherMint  total live capacity changes exactly by cellbase - fees of the block's transactions + the         *)
(*                NervosDAO interest of its withdrawals (WithdrawAmount of the two header fields each one names)   *)
(*   ClaimOK      the amount the harness made a phase-2 transaction create = WithdrawAmount (oracle self-check)   *)
(*   WithdrawFee  the fee the chain recorded for the phase-2 transactions = WithdrawAmount + other inputs - outputs *)
(* checks/c06.py generates ConstInit (Blocks + constants).  Census == FALSE on purpose, see Epoch_A.tla.           *)
EXTENDS Epoch, EconomicsArith

CONSTANTS
  \* @type: Seq({n: Int, hasTarget: Bool, par: {ar: Int, c: Int, s: Int, u: Int}, dao: {ar: Int, c: Int, s: Int, u: Int}, estart: Int, elen: Int, ebase: Int, erem: Int, added: Int, freed: Int, wdN: Int, w1cap: Int, w1occ: Int, w1arD: Int, w1arW: Int, w2cap: Int, w2occ: Int, w2arD: Int, w2arW: Int, w3cap: Int, w3occ: Int, w3arD: Int, w3arW: Int, wClaim: Int, wPlainIn: Int, wOut: Int, wFeeObs: Int, cbCap: Int, cbOutputs: Int, tn: Int, tstart: Int, tlen: Int, tbase: Int, trem: Int, tparU: Int, tparC: Int, tfee: Int, tprop: Int, cellOcc: Int, liveCap: Int, parLiveCap: Int, liveOcc: Int, fees: Int});
  Blocks

VARIABLES
  \* @type: Set(Int);
  badDao,
  \* @type: Int -> {ar: Int, c: Int, s: Int, u: Int};
  expDao,
  \* @type: Set(Int);
  badOccupied,
  \* @type: Set(Int);
  badCellbase,
  \* @type: Int -> Int;
  expCellbase,
  \* @type: Set(Int);
  badMint,
  \* @type: Set(Int);
  badClaim,
  \* @type: Set(Int);
  badWithdrawFee,
  \* @type: Int -> Int;
  expWithdraw
evars == <<badDao, expDao, badOccupied, badCellbase, expCellbase, badMint, badClaim, badWithdrawFee, expWithdraw>>

\* @type: (Int, Int, Int, Int) => {number: Int, start: Int, len: Int, base: Int, rem: Int, prevHR: Int, compact: Int};
Ep(start, len, base, rem) == [number |-> 0, start |-> start, len |-> len, base |-> base, rem |-> rem, prevHR |-> 0, compact |-> 0]

\* NervosDAO phase-2 inputs of the block (at most three are recorded): what they may create, their own capacity
\* @type: (Int) => Int;
WSum(i) ==
  LET b == Blocks[i]
  IN (IF b.wdN >= 1 THEN WithdrawAmount(b.w1cap, b.w1occ, b.w1arD, b.w1arW) ELSE 0)
   + (IF b.wdN >= 2 THEN WithdrawAmount(b.w2cap, b.w2occ, b.w2arD, b.w2arW) ELSE 0)
   + (IF b.wdN >= 3 THEN WithdrawAmount(b.w3cap, b.w3occ, b.w3arD, b.w3arW) ELSE 0)
\* @type: (Int) => Int;
WCaps(i) ==
  LET b == Blocks[i]
  IN (IF b.wdN >= 1 THEN b.w1cap ELSE 0) + (IF b.wdN >= 2 THEN b.w2cap ELSE 0) + (IF b.wdN >= 3 THEN b.w3cap ELSE 0)
\* the interest the block's withdrawals take out of S
\* @type: (Int) => Int;
Interest(i) == WSum(i) - WCaps(i)

\* @type: (Int) => {ar: Int, c: Int, s: Int, u: Int};
SpecDao(i) ==
  LET b  == Blocks[i]
      ep == Ep(b.estart, b.elen, b.ebase, b.erem)
      p  == BlockReward(ep, b.n)
      g2 == SecondaryIssuance(ep, b.n)
  IN DaoNext(b.par, p, g2, b.added, b.freed, Interest(i))

\* @type: (Int) => Int;
SpecCellbase(i) ==
  LET b  == Blocks[i]
      ep == Ep(b.tstart, b.tlen, b.tbase, b.trem)
      p  == BlockReward(ep, b.tn)
      g2 == SecondaryIssuance(ep, b.tn)
      ms == MinerSecondary(g2, b.tparU, b.tparC)
      rw == p + ms + b.tfee + b.tprop
  IN IF b.hasTarget THEN CellbasePays(rw, b.cellOcc) ELSE 0

EInit ==
  /\ InitWith(GenesisEpoch(MinLen, 0, 0))
  /\ expDao = [i \in DOMAIN Blocks |-> SpecDao(i)]
  /\ badDao = {i \in DOMAIN Blocks : Blocks[i].dao # expDao[i]}
  /\ badOccupied = {i \in DOMAIN Blocks : Blocks[i].dao.u # Blocks[i].liveOcc}
  /\ expCellbase = [i \in DOMAIN Blocks |-> SpecCellbase(i)]
  /\ badCellbase = {i \in DOMAIN Blocks : Blocks[i].cbCap # expCellbase[i] \/ (expCellbase[i] = 0 /\ Blocks[i].cbOutputs # 0)}
  /\ badMint = {i \in DOMAIN Blocks : Blocks[i].liveCap # Blocks[i].parLiveCap + Blocks[i].cbCap - Blocks[i].fees + Interest(i)}
  /\ expWithdraw = [i \in DOMAIN Blocks |-> WSum(i)]
  /\ badClaim = {i \in DOMAIN Blocks : Blocks[i].wClaim # expWithdraw[i]}
  /\ badWithdrawFee = {i \in DOMAIN Blocks : Blocks[i].wdN > 0 /\ Blocks[i].wFeeObs # expWithdraw[i] + Blocks[i].wPlainIn - Blocks[i].wOut}
ENext == UNCHANGED vars /\ UNCHANGED evars

AllBlocksAgree == badDao = {} /\ badOccupied = {} /\ badCellbase = {} /\ badMint = {} /\ badClaim = {} /\ badWithdrawFee = {}
Census == FALSE
=============================================================================
