---------------------------- MODULE Economics_A ----------------------------
(* Apalache entry module of C06 (binding "A"): every block of the REAL chains recorded by harness/src/bin/c06.rs  *)
(* is judged at real magnitude by the operators of EconomicsArith.tla and Epoch.tla:                              *)
(*   DaoOK        the header's DAO field (AR, C, S, U) = accumulate rule on the parent's field                     *)
(*   UIsOccupied  U = occupied capacity of the live-cell set (measured by scanning COLUMN_CELL)                    *)
(*   CellbaseOK   capacity created by the cellbase = Reward(target): primary + miner's secondary share +           *)
(*                committer fees + proposer fees (the two fee components are judged by Judge_Economics.tla),       *)
(*                nothing when there is no target or the reward cannot pay for its cell                            *)
(*   NoOtherMint  total live capacity changes exactly by cellbase - fees of the block's transactions               *)
(* checks/c06.py generates ConstInit (Blocks + constants).  Census == FALSE on purpose, see Epoch_A.tla.           *)
EXTENDS Epoch, EconomicsArith

CONSTANTS
  \* @type: Seq({n: Int, hasTarget: Bool, par: {ar: Int, c: Int, s: Int, u: Int}, dao: {ar: Int, c: Int, s: Int, u: Int}, estart: Int, elen: Int, ebase: Int, erem: Int, added: Int, freed: Int, interest: Int, cbCap: Int, cbOutputs: Int, tn: Int, tstart: Int, tlen: Int, tbase: Int, trem: Int, tparU: Int, tparC: Int, tfee: Int, tprop: Int, cellOcc: Int, liveCap: Int, parLiveCap: Int, liveOcc: Int, fees: Int});
  Blocks

VARIABLES
  \* @type: Set(Int);
  badDao,
  \* @type: Int -> {ar: Int, c: Int, s: Int, u: Int};
  expDao,
  \* @type: Set(Int);
  badOccupied,
  \* @type: Set(Int);
  badCellbase,
  \* @type: Int -> Int;
  expCellbase,
  \* @type: Set(Int);
  badMint
evars == <<badDao, expDao, badOccupied, badCellbase, expCellbase, badMint>>

\* @type: (Int, Int, Int, Int) => {number: Int, start: Int, len: Int, base: Int, rem: Int, prevHR: Int, compact: Int};
Ep(start, len, base, rem) == [number |-> 0, start |-> start, len |-> len, base |-> base, rem |-> rem, prevHR |-> 0, compact |-> 0]

\* @type: (Int) => {ar: Int, c: Int, s: Int, u: Int};
SpecDao(i) ==
  LET b  == Blocks[i]
      ep == Ep(b.estart, b.elen, b.ebase, b.erem)
      p  == BlockReward(ep, b.n)
      g2 == SecondaryIssuance(ep, b.n)
  IN DaoNext(b.par, p, g2, b.added, b.freed, b.interest)

\* @type: (Int) => Int;
SpecCellbase(i) ==
  LET b  == Blocks[i]
      ep == Ep(b.tstart, b.tlen, b.tbase, b.trem)
      p  == BlockReward(ep, b.tn)
      g2 == SecondaryIssuance(ep, b.tn)
      ms == MinerSecondary(g2, b.tparU, b.tparC)
      rw == p + ms + b.tfee + b.tprop
  IN IF b.hasTarget THEN CellbasePays(rw, b.cellOcc) ELSE 0

EInit ==
  /\ InitWith(GenesisEpoch(MinLen, 0, 0))
  /\ expDao = [i \in DOMAIN Blocks |-> SpecDao(i)]
  /\ badDao = {i \in DOMAIN Blocks : Blocks[i].dao # expDao[i]}
  /\ badOccupied = {i \in DOMAIN Blocks : Blocks[i].dao.u # Blocks[i].liveOcc}
  /\ expCellbase = [i \in DOMAIN Blocks |-> SpecCellbase(i)]
  /\ badCellbase = {i \in DOMAIN Blocks : Blocks[i].cbCap # expCellbase[i] \/ (expCellbase[i] = 0 /\ Blocks[i].cbOutputs # 0)}
  /\ badMint = {i \in DOMAIN Blocks : Blocks[i].liveCap # Blocks[i].parLiveCap + Blocks[i].cbCap - Blocks[i].fees + Blocks[i].interest}
ENext == UNCHANGED vars /\ UNCHANGED evars

AllBlocksAgree == badDao = {} /\ badOccupied = {} /\ badCellbase = {} /\ badMint = {}
Census == FALSE
=============================================================================
