------------------------------ MODULE Epoch_A ------------------------------
(* Apalache entry module of C07 (binding "A": arithmetic at real magnitude).                         *)
(*                                                                                                   *)
(* checks/c07.py generates ConstInit from the records printed by harness/src/bin/c07.rs: the           *)
(* (input, output) observations of the real Rust functions as constant sequences, and the consensus    *)
(* parameters of the batch.  Init evaluates the operators of Epoch.tla on every input   *)
(* and compares:  bad* = indices whose observed output differs from the specification's value,        *)
(* exp* = the specification's values (for the report), tag* = which branch of the rules the input     *)
(* took (census: the real-magnitude inputs must reach every clamp / rounding branch too).             *)
(*                                                                                                   *)
(*   apalache-mc check --length=0 --cinit=ConstInit --init=AInit --next=ANext                        *)
(*                     --inv=AllCasesAgree,Census Epoch_A.tla                                        *)
(* AllCasesAgree must hold; Census is FALSE on purpose: its "counterexample" is the evaluated state,  *)
(* from which the check reads bad*, exp*, tag* (all bad* empty <=> AllCasesAgree held).               *)
EXTENDS Epoch

\* the observations of the batch; set by the generated ConstInit (a constant is one value for the solver, an
\* operator defined as a big literal would be copied to every place it is used)
CONSTANTS
  \* @type: Seq({number: Int, start: Int, len: Int, base: Int, rem: Int, prevHR: Int, compact: Int, uncles: Int, ms: Int, panic: Bool, o: {number: Int, start: Int, len: Int, base: Int, rem: Int, prevHR: Int, compact: Int}});
  NextCases,
  \* @type: Seq({start: Int, len: Int, base: Int, rem: Int, secondary: Int, ns: Seq(Int), primary: Seq(Int), secondaryOut: Seq(Int), sum1: Int, sum2: Int});
  RewardCases,
  \* @type: Seq({number: Int, panic: Bool, reward: Int});
  HalvingCases,
  \* @type: Seq({c: Int, panic: Bool, target: Int, overflow: Bool, difficulty: Int});
  C2TCases,
  \* @type: Seq({t: Int, panic: Bool, c: Int});
  T2CCases,
  \* @type: Seq({d: Int, panic: Bool, c: Int});
  D2CCases,
  \* @type: Seq({hash: Int, c: Int, accept: Bool});
  PowCases,
  \* @type: Seq({number: Int, index: Int, length: Int, full: Int, wf: Bool, bnumber: Int, bindex: Int, blength: Int});
  FieldCases,
  \* @type: Seq({pnumber: Int, pindex: Int, plength: Int, snumber: Int, sindex: Int, slength: Int, succ: Bool});
  SuccCases

VARIABLES
  \* @type: Set(Int);
  badNext,
  \* @type: Set(Int);
  skipNext,
  \* @type: Int -> {number: Int, start: Int, len: Int, base: Int, rem: Int, prevHR: Int, compact: Int};
  expNext,
  \* @type: Int -> {hr: Str, len: Str, diff: Str, one: Bool, diffIn: Int, up: Int, lo: Int};
  tagNext,
  \* @type: Set(Int);
  badReward,
  \* @type: Set(Int);
  badHalving,
  \* @type: Int -> Int;
  expHalving,
  \* @type: Set(Int);
  badC2T,
  \* @type: Int -> {target: Int, overflow: Bool, difficulty: Int};
  expC2T,
  \* @type: Set(Int);
  badT2C,
  \* @type: Int -> Int;
  expT2C,
  \* @type: Set(Int);
  badD2C,
  \* @type: Int -> Int;
  expD2C,
  \* @type: Set(Int);
  badPow,
  \* @type: Set(Int);
  badField,
  \* @type: Set(Int);
  badSucc

avars == <<badNext, skipNext, expNext, tagNext, badReward, badHalving, expHalving, badC2T, expC2T,
           badT2C, expT2C, badD2C, expD2C, badPow, badField, badSucc>>

\* values above this are outside the domain on which the 256-bit implementation can be expected to agree with
\* exact arithmetic (intermediate products of the rules must fit a word)
Magnitude == Pw(WordDigits - 8)          \* 2^192

\* @type: ({number: Int, start: Int, len: Int, base: Int, rem: Int, prevHR: Int, compact: Int, uncles: Int, ms: Int, panic: Bool, o: {number: Int, start: Int, len: Int, base: Int, rem: Int, prevHR: Int, compact: Int}}) => {number: Int, start: Int, len: Int, base: Int, rem: Int, prevHR: Int, compact: Int};
PrevOf(c) == [number |-> c.number, start |-> c.start, len |-> c.len, base |-> c.base, rem |-> c.rem,
              prevHR |-> c.prevHR, compact |-> c.compact]

\* domain of the property: previous length within the consensus bounds, at most MaxUncles(=2) uncles per block,
\* reward fields of the closing epoch on schedule, magnitudes that fit
\* @type: ({number: Int, start: Int, len: Int, base: Int, rem: Int, prevHR: Int, compact: Int, uncles: Int, ms: Int, panic: Bool, o: {number: Int, start: Int, len: Int, base: Int, rem: Int, prevHR: Int, compact: Int}}) => Bool;
InDomainNext(c) ==
  /\ LenInBounds(c.len) /\ c.uncles <= 2 * c.len
  /\ RewardFieldsOK(PrevOf(c))
  /\ c.number + 1 < NumberSpace
  /\ DifficultyOfCompact(c.compact) < Magnitude /\ c.prevHR < Magnitude

\* @type: (Int) => {number: Int, start: Int, len: Int, base: Int, rem: Int, prevHR: Int, compact: Int};
SpecNext(i) == LET c == NextCases[i]
                   d == DifficultyOfCompact(c.compact)
                   p == PrevOf(c)
               IN NextEpoch(p, c.uncles, c.ms, d)

\* up / lo: distance of the raw hash-rate estimate from the upper bound prev * Tau / the lower bound prev \div Tau
\* @type: (Int) => {hr: Str, len: Str, diff: Str, one: Bool, diffIn: Int, up: Int, lo: Int};
SpecTags(i) ==
  LET c == NextCases[i]
      d == DifficultyOfCompact(c.compact)
      a == Adjustment(c.len, c.prevHR, d, c.uncles, c.ms)
  IN [hr |-> a.hrCase, len |-> a.lenCase, diff |-> a.diffCase, one |-> a.q.n < a.q.d, diffIn |-> d,
      up |-> a.hps - c.prevHR * Tau, lo |-> a.hps - (c.prevHR \div Tau)]

\* @type: (Int) => Bool;
RewardAgrees(i) ==
  LET c == RewardCases[i]
      ep == [number |-> 0, start |-> c.start, len |-> c.len, base |-> c.base, rem |-> c.rem, prevHR |-> 0, compact |-> 0]
  IN /\ c.rem < c.len
     /\ Len(c.primary) = Len(c.ns) /\ Len(c.secondaryOut) = Len(c.ns)
     /\ \A j \in DOMAIN c.ns :
          /\ c.primary[j] = BlockReward(ep, c.ns[j])
          /\ c.secondaryOut[j] = BlockShare(c.secondary, c.start, c.len, c.ns[j])
     /\ c.sum1 = c.base * c.len + c.rem          \* RewardsSumToEpoch (primary): the per-block values add up to the epoch's issuance
     /\ c.sum2 = c.secondary                     \* ... and to the secondary issuance

\* @type: (Int) => {target: Int, overflow: Bool, difficulty: Int};
SpecC2T(i) == LET r == CompactToTarget(C2TCases[i].c)
              IN [target |-> r.target, overflow |-> r.overflow, difficulty |-> DifficultyOfCompact(C2TCases[i].c)]
\* @type: (Int) => Bool;
C2TAgrees(i) == LET c == C2TCases[i]
                    s == expC2T[i]
                IN ~c.panic /\ c.overflow = s.overflow /\ (~s.overflow => c.target = s.target) /\ c.difficulty = s.difficulty

\* @type: (Int) => Bool;
FieldAgrees(i) ==
  LET c == FieldCases[i]
      f == [number |-> c.number, index |-> c.index, length |-> c.length]
  IN /\ c.full = FieldValue(c.number, c.index, c.length)
     /\ c.wf = IsWellFormed(f)
     /\ FieldOf(c.full) = [number |-> c.bnumber, index |-> c.bindex, length |-> c.blength]

\* @type: (Int) => Bool;
SuccAgrees(i) ==
  LET c == SuccCases[i]
      p == [number |-> c.pnumber, index |-> c.pindex, length |-> c.plength]
      s == [number |-> c.snumber, index |-> c.sindex, length |-> c.slength]
  IN IsWellFormed(p) => (c.succ = IsSuccessorOf(s, p))

AInit ==
  /\ InitWith(GenesisEpoch(MinLen, 0, 0))
  /\ skipNext = {i \in DOMAIN NextCases : ~InDomainNext(NextCases[i])}
  /\ expNext = [i \in DOMAIN NextCases |-> SpecNext(i)]
  /\ badNext = {i \in DOMAIN NextCases : InDomainNext(NextCases[i]) /\ (NextCases[i].panic \/ NextCases[i].o # expNext[i])}
  /\ tagNext = [i \in DOMAIN NextCases |-> SpecTags(i)]
  /\ badReward = {i \in DOMAIN RewardCases : ~RewardAgrees(i)}
  /\ expHalving = [i \in DOMAIN HalvingCases |-> ScheduledPrimary(HalvingCases[i].number)]
  /\ badHalving = {i \in DOMAIN HalvingCases : HalvingCases[i].panic \/ HalvingCases[i].reward # expHalving[i]}
  /\ expC2T = [i \in DOMAIN C2TCases |-> SpecC2T(i)]
  /\ badC2T = {i \in DOMAIN C2TCases : ~C2TAgrees(i)}
  /\ expT2C = [i \in DOMAIN T2CCases |-> TargetToCompact(T2CCases[i].t)]
  /\ badT2C = {i \in DOMAIN T2CCases : T2CCases[i].panic \/ T2CCases[i].c # expT2C[i]}
  /\ expD2C = [i \in DOMAIN D2CCases |-> CompactOfDifficulty(D2CCases[i].d)]
  /\ badD2C = {i \in DOMAIN D2CCases : D2CCases[i].panic \/ D2CCases[i].c # expD2C[i]}
  /\ badPow = {i \in DOMAIN PowCases : PowCases[i].accept # PowAccept(PowCases[i].hash, PowCases[i].c)}
  /\ badField = {i \in DOMAIN FieldCases : ~FieldAgrees(i)}
  /\ badSucc = {i \in DOMAIN SuccCases : ~SuccAgrees(i)}

ANext == UNCHANGED vars /\ UNCHANGED avars

AllCasesAgree == /\ PowTabOK /\ TwoTabOK /\ badNext = {} /\ badReward = {} /\ badHalving = {} /\ badC2T = {} /\ badT2C = {} /\ badD2C = {}
                 /\ badPow = {} /\ badField = {} /\ badSucc = {}
Census == FALSE
=============================================================================
