---------------------------- MODULE MC_ChainState ----------------------------
(* Exhaustive configuration of ChainState.tla: block trees are minted incrementally over a small  *)
(* transaction universe chosen to hit the undo corner cases; every delivery order (parent first),  *)
(* truncations; one history per distinct state is exported for replay on the real node.           *)
EXTENDS ChainState, Json
CONSTANTS Universe,    \* "A" | "B": which transaction universe
          MaxBlocks,   \* non-genesis blocks
          MaxCommits,  \* commits per block
          MaxBad,      \* invalid blocks in the tree
          MaxTrunc,    \* truncations
          CbFrom,      \* blocks with number >= CbFrom have one cellbase output
          MaxForks,    \* blocks minted on a parent that already has a child (tree shape bound)
          Uncles,      \* allow uncles
          Emit         \* print histories

VARIABLES hist,        \* the actions taken so far (history variable, hidden by the VIEW)
          delivered,   \* blocks delivered so far (each block is delivered once here; redelivery is C08)
          ntr

mcvars == <<blocks, db, snap, invalid, delivered, ntr>>

\* genesis: tx 1 = the always-success deployment (never spent), tx 2..3 = spendable cells
MCGenesis == <<1, 2, 3>>
G(n) == [ins |-> {}, deps |-> {}, nouts |-> n, fee |-> 0]
T(i, d, n, f) == [ins |-> i, deps |-> d, nouts |-> n, fee |-> f]
\* A: t4 spends g2 (2 outputs); t5 spends an output of t4 (in-block chain / cell created and spent on a detached
\*    branch); t6 spends g2 as well (the common-prefix cell is spent on both branches by different txs);
\*    t7 spends g3 with a dep on g2 (dep on a cell a sibling branch consumes)
UniverseA == <<G(1), G(1), G(1), T({<<2, 0>>}, {}, 2, 3), T({<<4, 0>>}, {}, 1, 5), T({<<2, 0>>}, {}, 1, 7),
               T({<<3, 0>>}, {<<2, 0>>}, 1, 2)>>
\* B: t4 joins both genesis cells; t5 and t6 spend its two outputs, t6 with a dep on t5's output;
\*    t7 conflicts with t4 on g3
UniverseB == <<G(1), G(1), G(1), T({<<2, 0>>, <<3, 0>>}, {}, 2, 1), T({<<4, 1>>}, {}, 1, 2),
               T({<<4, 0>>}, {<<5, 0>>}, 2, 3), T({<<3, 0>>}, {<<4, 1>>}, 1, 4)>>
MCTx == IF Universe = "A" THEN UniverseA ELSE UniverseB
Spendable == {t \in DOMAIN MCTx : MCTx[t].ins # {}}

\* contextual validity of a commit sequence on top of chain ch (inputs and deps live, in-block chains allowed)
RECURSIVE ValidSeq(_, _, _)
ValidSeq(live, cs, i) ==
  IF i > Len(cs) THEN TRUE
  ELSE LET t == cs[i] IN
       /\ Tx[t].ins \subseteq live /\ Tx[t].deps \subseteq live
       /\ ValidSeq((live \ Tx[t].ins) \cup {<<t, k>> : k \in 0..(Tx[t].nouts - 1)}, cs, i + 1)
ChainOk(p) == \A a \in ToSet(Chain(p)) : blocks[a].ok
CommitSeqs == {<<>>} \cup (IF MaxCommits >= 1 THEN {<<t>> : t \in Spendable} ELSE {})
              \cup (IF MaxCommits >= 2 THEN {<<t, u>> : <<t, u>> \in {x \in Spendable \X Spendable : x[1] # x[2]}} ELSE {})
HasChild(p) == \E b \in DOMAIN blocks : b # 0 /\ Par(b) = p
NForks == Cardinality({b \in DOMAIN blocks : b # 0 /\ \E o \in DOMAIN blocks : o # 0 /\ o < b /\ Par(o) = Par(b)})
NBad == Cardinality({b \in DOMAIN blocks : ~blocks[b].ok})
\* an uncle: a minted block off the parent's chain whose parent is on it, same epoch, not yet included
UncleChoices(p) ==
  LET ch == ToSet(Chain(p))
      inc == UNION {blocks[a].uncles : a \in ch}
  IN {{}} \cup IF ~Uncles THEN {} ELSE {{u} : u \in {u \in DOMAIN blocks \ ch :
                              /\ Par(u) \in ch /\ u \notin inc /\ blocks[u].ok
                              /\ Num(u) <= Num(p) /\ EpochNo(Num(u)) = EpochNo(Num(p) + 1)}}

MCMint ==
  /\ NBlocks <= MaxBlocks
  /\ \E p \in DOMAIN blocks : \E cs \in CommitSeqs : \E us \in UncleChoices(p) :
       LET live == DOMAIN Replay(Chain(p)).cells
           okv == IF ChainOk(p) THEN ValidSeq(live, cs, 1) ELSE TRUE
           rec == [parent |-> p, num |-> Num(p) + 1, commits |-> cs, uncles |-> us,
                   cbo |-> IF Num(p) + 1 >= CbFrom THEN 1 ELSE 0, ok |-> okv, work |-> 1]
       IN /\ ChainOk(p) \/ cs = <<>>
          /\ ~HasChild(p) \/ NForks < MaxForks
          /\ okv \/ NBad < MaxBad
          /\ Mint(rec)
          /\ hist' = Append(hist, [a |-> "Mint", b |-> NBlocks, p |-> p, cs |-> cs, us |-> us, ok |-> okv])
  /\ UNCHANGED <<delivered, ntr>>

MCDeliver ==
  \E b \in DOMAIN blocks \ delivered :
     /\ Par(b) \in delivered
     /\ Deliver(b)
     /\ delivered' = delivered \cup {b}
     /\ hist' = Append(hist, [a |-> "Deliver", b |-> b, res |-> DeliverRes(b).res])
     /\ UNCHANGED ntr

MCTruncate ==
  /\ ntr < MaxTrunc
  /\ \E t \in DOMAIN blocks : /\ Truncate(t)
                              /\ hist' = Append(hist, [a |-> "Truncate", b |-> t])
  /\ ntr' = ntr + 1 /\ UNCHANGED delivered

MCInit == Init /\ hist = <<>> /\ delivered = {0} /\ ntr = 0
MCNext == MCMint \/ MCDeliver \/ MCTruncate
MCSpec == MCInit /\ [][MCNext]_<<mcvars, hist>>

\* one history per distinct state in which everything minted has been delivered
Terminal == NBlocks = MaxBlocks + 1 /\ delivered = DOMAIN blocks
EmitHist == (Emit /\ Terminal) => PrintT(<<"HIST", ToJson(hist)>>)
\* self-tests (Bug # "none"): print the history that breaks the invariant
BugHist == ReplayConsistent \/ PrintT(<<"BUGHIST", ToJson(hist)>>)
ASSUME PrintT(<<"UNIVERSE", ToJson(MCTx)>>)
=============================================================================
