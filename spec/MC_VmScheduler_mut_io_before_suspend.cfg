SPECIFICATION Spec
CONSTANTS
 Dags <- FileDags
 MaxInst = 2
 Tick = 2
 S = 5
 MaxCuts = 1
 Variant = "io-before-suspend"
 Emit = FALSE
INVARIANT SuspendInvariance
INVARIANT RefEnds
INVARIANT InstBound
INVARIANT EmitRef
INVARIANT EmitEnd
CHECK_DEADLOCK FALSE
