-------------------------- MODULE Trace_OrphanPool --------------------------
(* Trace validation: an ndjson trace recorded from the real OrphanBlockPool (c17 orphan-drive) must be *)
(* a behaviour of OrphanPool.tla; every invariant is evaluated after every event.  A Reset event      *)
(* starts a new history on a new forest (par / ep arrays over ids 1..N).                              *)
EXTENDS OrphanPool, Json, IOUtils, TLCExt
Rec == ndJsonDeserialize(IOEnv.TRACE)
VARIABLE l
tvars == <<vars, l>>
Ev == Rec[l]
Is(e) == l <= Len(Rec) /\ Ev.ev = e /\ l' = l + 1
TInit == /\ par = [b \in Ids |-> 0] /\ ep = [b \in Ids |-> 0] /\ Empty /\ l = 1
\* what the code reported after the operation must be what the specification computes
Observed == /\ Cardinality(pool') = Ev.len
            /\ leaders' = Range(Ev.leaders)
            /\ Len(Ev.leaders) = Cardinality(leaders')
Returned == /\ Range(Ev.ret) = out'.exp              \* exactly the blocks the model releases ...
            /\ Len(Ev.ret) = Cardinality(out'.exp)   \* ... each once
TReset   == /\ Is("Reset")
            /\ par' = [b \in Ids |-> Ev.par[b]] /\ ep' = [b \in Ids |-> Ev.ep[b]]
            /\ pool' = {} /\ blocks' = [n \in Nodes |-> {}] /\ parents' = {} /\ leaders' = {} /\ out' = NoOut
TInsert  == Is("Insert") /\ Insert(Ev.b) /\ Observed
TRelease == Is("Release") /\ (Release(Ev.p) \/ ReleaseHeld(Ev.p)) /\ Observed /\ Returned
\* the leaders the code chose to clean are read off the returned blocks; CleanExpired demands that
\* the choice lies between MustClean and MayClean
TClean   == /\ Is("Clean")
            /\ CleanExpired(Ev.tip, {par[b] : b \in (Range(Ev.ret) \cap pool)} \cap Leaders(pool))
            /\ Observed /\ Returned
TNext == TReset \/ TInsert \/ TRelease \/ TClean
TSpec == TInit /\ [][TNext]_tvars
Accepted == LET d == TLCGet("stats").diameter IN
            IF d - 1 = Len(Rec) THEN TRUE
            ELSE Print(<<"TRACE-REJECTED", d, Rec[d]>>, FALSE)
=============================================================================
