SPECIFICATION Spec
CONSTANTS
  L = 4
  WClose = 2
  WFar = 4
  K = 3
  Maturity = 3
  MaxCycles = 20
  GroupCycles = 10
  Rfc0028 = FALSE
  NBlocks = 10
  TsSteps = {1, 2, 3}
  ForceT = TRUE
  Emit = TRUE
INVARIANT EmitCtx
CHECK_DEADLOCK FALSE
