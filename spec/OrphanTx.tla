------------------------------ MODULE OrphanTx ------------------------------
(***************************************************************************)
(* Growth beyond the listed properties (DESIGN 3.7 item 3): the orphan-      *)
(* transaction pool of the tx relay path                                     *)
(* (tx-pool/src/component/orphan.rs; used by tx-pool/src/process.rs          *)
(* add_orphan / find_orphan_by_previous / process_orphan_tx).                *)
(*                                                                         *)
(* Universe (fixed per history): transactions 1..N; ins[t] = the out-points  *)
(* <<creator, index>> t spends (creator 0 = a cell no transaction of the     *)
(* universe creates), nout[t] = number of outputs of t.                      *)
(*                                                                         *)
(* Mathematical model: `pool`, a partial map  tx -> [peer, cycle, exp, var]  *)
(* (var = which witness variant of the transaction was stored: the pool is   *)
(* keyed by proposal short id, i.e. by the transaction hash without          *)
(* witnesses).  Structure next to it: `byop`, out-point -> set of stored     *)
(* spenders, maintained incrementally as the code does.                      *)
(*                                                                         *)
(* What is fixed: a stored id is never stored twice (the first copy stays);  *)
(* Find(t) = exactly the stored transactions spending an output of t, each   *)
(* once; an entry leaves only by Remove / RemoveMany, or inside Add because  *)
(* it has expired (all expired entries leave) or because the pool is over    *)
(* its limit (exactly as many as needed leave).  What is open: WHICH entries *)
(* the size limit evicts (parameter E; the code takes HashMap order).        *)
(***************************************************************************)
EXTENDS Naturals, FiniteSets, Sequences, TLC
CONSTANTS MaxOrphans,   \* DEFAULT_MAX_ORPHAN_TRANSACTIONS
          ExpireTime    \* ORPHAN_TX_EXPIRE_TIME (seconds)
VARIABLES ins, nout, now, pool, byop, out
vars == <<ins, nout, now, pool, byop, out>>

Drop(f, S) == [x \in DOMAIN f \ S |-> f[x]]
Put(f, k, v) == [x \in DOMAIN f \cup {k} |-> IF x = k THEN v ELSE f[x]]
Txs == DOMAIN ins
Stored == DOMAIN pool
OutPts(t) == {<<t, i>> : i \in 0..(nout[t] - 1)}
\* the model's answers
Children(t) == {x \in Stored : ins[x] \cap OutPts(t) # {}}
IndexOf(S) == [o \in UNION {ins[x] : x \in S} |-> {x \in S : o \in ins[x]}]
\* the structure's index, updated as the code updates it
AddIdx(idx, t) == [o \in DOMAIN idx \cup ins[t] |->
                     (IF o \in DOMAIN idx THEN idx[o] ELSE {}) \cup (IF o \in ins[t] THEN {t} ELSE {})]
DelIdx(idx, t) == LET m == [o \in DOMAIN idx |-> IF o \in ins[t] THEN idx[o] \ {t} ELSE idx[o]]
                  IN [o \in {o \in DOMAIN m : m[o] # {}} |-> m[o]]
RECURSIVE DelAll(_, _)
DelAll(idx, S) == IF S = {} THEN idx ELSE LET t == CHOOSE t \in S : TRUE IN DelAll(DelIdx(idx, t), S \ {t})
\* find_by_previous reads the index
FindIdx(t) == UNION {byop[o] : o \in OutPts(t) \cap DOMAIN byop}
\* how often x would be listed if the per-out-point sets were simply concatenated
Listings(t, x) == Cardinality({o \in OutPts(t) \cap DOMAIN byop : x \in byop[o]})

NoOut == [op |-> "none", t |-> 0, ret |-> {}, exp |-> {}, added |-> FALSE]
Empty == now = 0 /\ pool = <<>> /\ byop = <<>> /\ out = NoOut

Advance(d) == /\ now' = now + d /\ out' = [NoOut EXCEPT !.op = "Advance", !.t = d]
              /\ UNCHANGED <<ins, nout, pool, byop>>

\* add_orphan_tx: E = the evicted entries (returned)
Add(t, p, c, v, E) ==
  /\ IF t \in Stored
     THEN /\ E = {} /\ UNCHANGED <<pool, byop>>
          /\ out' = [NoOut EXCEPT !.op = "Add", !.t = t]
     ELSE LET pool1 == Put(pool, t, [peer |-> p, cycle |-> c, exp |-> now + ExpireTime, var |-> v])
              X     == {x \in DOMAIN pool1 : pool1[x].exp <= now}
              rest  == Cardinality(DOMAIN pool1) - Cardinality(X)
              over  == IF rest > MaxOrphans THEN rest - MaxOrphans ELSE 0
          IN /\ X \subseteq E /\ E \subseteq DOMAIN pool1
             /\ Cardinality(E \ X) = over
             /\ pool' = Drop(pool1, E)
             /\ byop' = DelAll(AddIdx(byop, t), E)
             /\ out' = [NoOut EXCEPT !.op = "Add", !.t = t, !.ret = E, !.added = TRUE]
  /\ UNCHANGED <<ins, nout, now>>
\* the evictions Add(t, ..) may choose from (for generators)
Evictions(t) == IF t \in Stored THEN {{}}
                ELSE LET D == Stored \cup {t}
                         X == {x \in Stored : pool[x].exp <= now}      \* (ExpireTime > 0: t itself is fresh)
                         rest == Cardinality(D) - Cardinality(X)
                         over == IF rest > MaxOrphans THEN rest - MaxOrphans ELSE 0
                     IN {X \cup C : C \in {C \in SUBSET (D \ X) : Cardinality(C) = over}}

RemoveOne(t) ==
  /\ pool' = Drop(pool, {t})
  /\ byop' = IF t \in Stored THEN DelIdx(byop, t) ELSE byop
  /\ out' = [NoOut EXCEPT !.op = "Remove", !.t = t, !.ret = {t} \cap Stored]
  /\ UNCHANGED <<ins, nout, now>>
\* remove_orphan_txs(S): out.exp records the argument
RemoveMany(S) ==
  /\ pool' = Drop(pool, S)
  /\ byop' = DelAll(byop, S \cap Stored)
  /\ out' = [NoOut EXCEPT !.op = "RemoveMany", !.ret = S \cap Stored, !.exp = S]
  /\ UNCHANGED <<ins, nout, now>>
\* find_by_previous(t): t itself need not be stored (it is the transaction that just arrived)
Find(t) == /\ out' = [NoOut EXCEPT !.op = "Find", !.t = t, !.ret = FindIdx(t), !.exp = Children(t)]
           /\ UNCHANGED <<ins, nout, now, pool, byop>>

-----------------------------------------------------------------------------
UniverseOK == /\ DOMAIN nout = Txs
              /\ \A t \in Txs : \A o \in ins[t] : o[1] = 0 \/ (o[1] \in Txs /\ o[1] < t)
IndexExact == byop = IndexOf(Stored)
Bounded == Cardinality(Stored) <= MaxOrphans
FindExact == out.op = "Find" => out.ret = out.exp
\* each child is found through at least one out-point; a flat concatenation of the per-out-point sets lists a
\* child once per spent output of t (the self-test configuration asserts that this exceeds 1 somewhere)
FlatListsOnce == out.op = "Find" => \A x \in out.ret : Listings(out.t, x) = 1
NoExpiredAfterAdd == (out.op = "Add" /\ out.added) => \A x \in Stored : pool[x].exp > now
\* nothing is lost except by the documented policy (step property)
LossStep == \A x \in Stored \ DOMAIN pool' :
              \/ out'.op \in {"Remove", "RemoveMany"} /\ x \in out'.ret
              \/ /\ out'.op = "Add" /\ out'.added /\ x \in out'.ret
                 /\ (pool[x].exp <= now \/ Cardinality(Stored) + 1 > MaxOrphans)
NoSilentLoss == [][LossStep]_vars
\* a stored entry is never overwritten
KeepStep == \A x \in Stored \cap DOMAIN pool' : pool'[x] = pool[x]
FirstCopyStays == [][KeepStep]_vars
StateView == <<ins, nout, now, pool, byop>>
=============================================================================
