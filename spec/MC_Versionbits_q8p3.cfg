SPECIFICATION Spec
CONSTANTS
  N = 8
  Lens = {1}
  GenesisLen = 1
  Period = 3
  Starts = {2}
  Timeouts = {8}
  MinActs = {0}
  Thresholds <- Thr12
  Coded = FALSE
  Queries = TRUE
  Emit = FALSE
INVARIANT TypeOK
INVARIANT StateIsFunctionOfAncestors
INVARIANT Monotone
INVARIANT ThresholdExact
INVARIANT TimeoutExact
CHECK_DEADLOCK FALSE
