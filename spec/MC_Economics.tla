---------------------------- MODULE MC_Economics ----------------------------
(* Exhaustive TLC configuration of Economics.tla: every valid chain of <= MaxLen blocks over the transactions   *)
(* Txs in which at most MaxProposals proposals are made (by blocks or by their uncles, re-proposals included),    *)
(* every commit offset inside the window and every commit order.  Full-length chains are printed for replay on    *)
(* the real node (harness/src/bin/c06.rs).                                                                       *)
EXTENDS Economics, TLC, Json
CONSTANTS Txs, MaxLen, MaxProposals, Emit, Clip
VARIABLE ch

Fee(id) == IF id = 1 THEN 7 ELSE IF id = 2 THEN 13 ELSE 9      \* floor(4/10): 2, 5, 3 - all three roundings differ

ProposalCount == SumSeq([c \in Numbers(ch) |-> Cardinality(ch[c].props) + Cardinality(ch[c].uprops)])
Committed == UNION {CommittedIds(ch, c) : c \in Numbers(ch)}
\* ids that may be committed in the next block
Committable == LET c == Len(ch) + 1
               IN {id \in Txs \ Committed : \E p \in Numbers(ch) : c - WFar <= p /\ p <= c - WClose /\ id \in AllProps(ch, p)}
Orderings(S) == {f \in [1..Cardinality(S) -> S] : \A i, j \in 1..Cardinality(S) : i # j => f[i] # f[j]}

MCInit == ch = <<>>
AddBlock == /\ Len(ch) < MaxLen
            /\ \E P \in SUBSET Txs, U \in SUBSET Txs :
                 /\ ProposalCount + Cardinality(P) + Cardinality(U) <= MaxProposals
                 /\ (U # {} => Len(ch) >= 1)              \* an uncle is a sibling of the parent: not for block 1
                 /\ \E S \in SUBSET Committable : \E o \in Orderings(S) :
                      ch' = Append(ch, [ props |-> P, uprops |-> U,
                                         commits |-> [k \in DOMAIN o |-> [id |-> o[k], fee |-> Fee(o[k])]],
                                         primary |-> 10, g2 |-> 3, added |-> 0, freed |-> 0 ])
MCSpec == MCInit /\ [][AddBlock]_ch

Valid == ValidChain(ch)
Shares == SharesSumToFee(ch)
Conserved == FeesConserved(ch)
WalkOK == WalkMatchesSpec(ch, Clip)
\* a proposer share is credited for a commit at every offset of the window (vacuity guard, must be VIOLATED per offset)
HasCommit == \E c \in Numbers(ch) : ch[c].commits # <<>>
EmitChain == (Emit /\ Len(ch) = MaxLen /\ HasCommit) =>
               PrintT(<<"CHAIN", ToJson([ch |-> ch, classes |-> Classes(ch), rewards |-> [t \in Numbers(ch) |->
                          IF Finalised(ch, t) THEN [cf |-> CommitterFees(ch, t), pf |-> ProposerFees(ch, t)] ELSE [cf |-> -1, pf |-> -1]]])>>)
=============================================================================
