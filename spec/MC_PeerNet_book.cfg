SPECIFICATION MSpec
CONSTANTS
  Protect = 1
  MaxBR = 1
  AddrLimit = 3
  DefaultScore = 100
  DialInterval = 1
  Minute = 2
  TryTimeout = 4
  AddrTimeout = 6
  MaxRetries = 1
  MaxFailures = 2
  UU <- UU_book
  Ticks = {6}
  Pings = {}
  Ages = {}
  BanTimes = {}
  Untils = {}
  MaxNow = 16
  MaxSeq = 1
  CodedClose = FALSE
  WithBook = TRUE
INVARIANT OneSessionPerPeer
INVARIANT WithinLimits
INVARIANT WhitelistOnlyHolds
INVARIANT WhitelistFlagRight
INVARIANT RegistryInStore
INVARIANT AnchorsAreBR
INVARIANT NoStaleConnected
INVARIANT BanExact
INVARIANT FetchAnswerExists
INVARIANT FetchNeverConnected
INVARIANT BookBounded
PROPERTY NoBannedAdmitted
PROPERTY EvictionRight
CHECK_DEADLOCK FALSE
VIEW MView
