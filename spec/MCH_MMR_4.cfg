SPECIFICATION HSpec
CONSTANTS
 MaxBlocks = 4
 Works = {1, 3}
 WrongSize = FALSE
 HistLen = 4
CONSTRAINT OneFlaw
INVARIANT EmitHist
CHECK_DEADLOCK FALSE
