---------------------------- MODULE Trace_CrashScan ----------------------------
(* Trace validation of LONG crash experiments (C08) against CrashScan.tla: the same event stream as              *)
(* Trace_CrashRecovery (Reset, Mint*, Start, Ins/Ver/Del, Crash, Restart, InitDone, Ins/Ver/Del, Final), of      *)
(* which only the header-level content is used: the stored set follows Ins / Del, Restart must find the tip and  *)
(* the block rows the commits before the crash produced, InitDone must leave no stored block unverified and      *)
(* publish a heaviest valid tip of the stored blocks, Final = heaviest valid tip of everything delivered.         *)
EXTENDS CrashScan, Json, IOUtils, TLCExt
Rec == ndJsonDeserialize(IOEnv.TRACE)
VARIABLE l
tvars == <<csvars, l>>
Ev == Rec[l]
Is(e) == l <= Len(Rec) /\ Ev.ev = e /\ l' = l + 1
Say(what, a, b) == Print(<<"OBS-MISMATCH", l, what, {what}, a, b>>, FALSE)
SeqSet(s) == {s[i] : i \in 1..Len(s)}

TInit == CSInit /\ l = 2
TReset == Is("Reset") /\ info' = [b \in {0} |-> Genesis(Ev.w0)] /\ stored' = {0} /\ pc' = "run"
TMint == Is("Mint") /\ MintS(Ev.b, Ev.p, Ev.num, Ev.ok, Ev.work) /\ UNCHANGED <<stored, pc>>
TStart == Is("Start") /\ UNCHANGED csvars
TIns == Is("Ins") /\ InsS(Ev.b) /\ UNCHANGED <<info, pc>>
\* a verification commit changes no block row; its verdict must agree with the chain's validity: a refusal only of an
\* invalid block; a block that BECAME THE TIP is valid.  "ok" without becoming the tip says nothing: a block that is not
\* heavier than the tip is stored as an unverified side block without being verified (an invalid equal-work sibling of the
\* tip gets "ok" - corrected false alarm, design.d/C08.md)
TVer == /\ Is("Ver") /\ Ev.b \in stored
        /\ IF Ev.res = "err" THEN ~info[Ev.b].valid ELSE ((Ev.res = "ok" /\ Ev.tipd) => info[Ev.b].valid)
        /\ UNCHANGED csvars
TDel == Is("Del") /\ DelS(Ev.b) /\ UNCHANGED <<info, pc>>
TCrash == Is("Crash") /\ pc' = "down" /\ UNCHANGED <<info, stored>>
\* what is on disk: the number -> hash index names the chain of the persisted tip, which is a verified stored block
TRestart == /\ Is("Restart") /\ pc = "down" /\ pc' = "up"
            /\ Ev.empty \/ (IF Ev.obs.tip \in Candidates(stored) THEN TRUE ELSE Say("disk-tip", Ev.obs.tip, stored))
            /\ UNCHANGED <<info, stored>>
\* InitLoadUnverified has resubmitted what it found and the node is quiescent: invalid stored blocks are gone
TInitDone == /\ Is("InitDone") /\ pc = "up" /\ pc' = "done"
             /\ stored' = Candidates(stored)
             /\ IF PickedUp(SeqSet(Ev.unverified)) THEN TRUE ELSE Say("unverified-left", {}, Ev.unverified)
             /\ IF Ev.snap.tip \in Best(stored) /\ Ev.snap.td = info[Ev.snap.tip].td THEN TRUE
                ELSE Say("initload-tip", Best(stored), Ev.snap.tip)
             /\ UNCHANGED info
TFinal == /\ Is("Final")
          /\ IF Ev.tip \in Best(DOMAIN info) /\ Ev.td = info[Ev.tip].td THEN TRUE ELSE Say("final-tip", Best(DOMAIN info), Ev.tip)
          /\ UNCHANGED csvars
TNext == TReset \/ TMint \/ TStart \/ TIns \/ TVer \/ TDel \/ TCrash \/ TRestart \/ TInitDone \/ TFinal
TSpec == TInit /\ [][TNext]_tvars
Accepted == IF TLCGet("stats").diameter >= Len(Rec) THEN TRUE
            ELSE Print(<<"TRACE-REJECTED", TLCGet("stats").diameter + 1, Rec[TLCGet("stats").diameter + 1].ev>>, FALSE)
================================================================================
