SPECIFICATION Spec
CONSTANTS
  Peers = {1, 2}
  Blocks = {2, 3, 4, 5}
  W = 2
  Timeout = 2
  PruneWindow = 20
  SlowWindow = 1
  Window = 1
  Limit = 1
  MaxHeaders = 2
  OneDay = 8192
  Deltas = {3}
  MaxAdv = 1
  Low0 = 1
  GH = FALSE
  Depth = 0
  Trees <- TreesTwoChains
INVARIANT TreeOK
INVARIANT StoreOK
INVARIANT PeersOK
INVARIANT InflightOK
INVARIANT IBOnePeerPerBlock
INVARIANT IBListedIsInflight
INVARIANT IBInflightIsListed
INVARIANT IBStaleOK
INVARIANT IBTraceLive
PROPERTY RequestSafeMC
PROPERTY RequestLiveMC
PROPERTY LastCommonMC
PROPERTY NeverTwiceMC
PROPERTY OnlyReleasedByMC
VIEW AgeView
CHECK_DEADLOCK FALSE
