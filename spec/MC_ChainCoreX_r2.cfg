SPECIFICATION SpecX
CONSTANTS
  N = 20
  MaxWork = 1
  MaxDup = 0
  Verdicts = {"ok"}
  Heavy = 0
  PreFix = FALSE
  Emit = TRUE
  EpochLen = 2
  Horizon = 6
  Prefix = 15
  Extra = 2
  SideRoots = {0, 1}
INVARIANT TypeOK
INVARIANT TipHeaviestValidX
INVARIANT OrphansConnected
INVARIANT OnlyValidAttached
INVARIANT Accounted
INVARIANT NoGhostExt
INVARIANT GoneConsistent
INVARIANT EmitQuiescentX
PROPERTY NeverLeaveTipForNotHeavierX
PROPERTY RetainedWithinHorizon
CHECK_DEADLOCK FALSE
