SPECIFICATION Spec
INVARIANT AllOK
CHECK_DEADLOCK FALSE
