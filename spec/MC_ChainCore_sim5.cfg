SPECIFICATION Spec
CONSTANTS
  N = 5
  MaxWork = 2
  MaxDup = 2
  Verdicts = {"ok", "bad_nc", "bad_ctx"}
  Heavy = 0
  PreFix = FALSE
  Emit = FALSE
INVARIANT TypeOK
INVARIANT TipHeaviestValid
INVARIANT OrphansConnected
INVARIANT OnlyValidAttached
INVARIANT Accounted
INVARIANT NoGhostExt
INVARIANT EmitQuiescent
PROPERTY NeverLeaveTipForNotHeavier
CHECK_DEADLOCK FALSE
