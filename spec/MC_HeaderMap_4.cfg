SPECIFICATION Spec
CONSTANTS
  None = 0
  Keys = {1, 2, 3, 4}
  Vals = {1, 2}
  Limits = {1, 2}
  Depth = 0
PROPERTY AnswersAlways
VIEW StateView
INVARIANT HoldsExactlyPlain
INVARIANT MemOK
CHECK_DEADLOCK FALSE
