SPECIFICATION MCSpec
CONSTANTS
 MaxBlocks = 5
 Works = {1, 2}
 WrongSize = FALSE
 GenesisDiff = 1
 DiffUnit = 1
 AsCoded = TRUE
 SharedCellbase = FALSE
 Mode = "sampling"
 MaxReq = 2
 MaxDs = 2
CONSTRAINT OneFlaw
INVARIANT NoPanic
CHECK_DEADLOCK FALSE
