------------------------------- MODULE CrashScan -------------------------------
(***************************************************************************************************)
(* Header-level abstraction of CrashRecovery.tla for LONG chains (hundreds of blocks): the          *)
(* canonical-chain columns (cells, tx index, MMR, epochs) are left to CrashRecovery.tla and its     *)
(* short histories - its replay operators are quadratic in the chain length.  What is kept is what  *)
(* the restart path computes from block NUMBERS: which blocks are stored, which of them are         *)
(* verified, the tip - i.e. InitLoadUnverified's scan over COLUMN_NUMBER_HASH (number-prefixed keys *)
(* in the store's byte order, not in numeric order: heights at and above 256 are where the two      *)
(* differ) and the tip / total-difficulty reload.                                                   *)
(*                                                                                                 *)
(* info[b] = [p, num, ok, work, td, valid] per minted block (td and validity of the whole chain     *)
(* ending in b are accumulated at Mint, so nothing walks a chain).  Deliveries are parent-first and  *)
(* nothing is built on an invalid block (as in C08).                                                *)
(***************************************************************************************************)
EXTENDS Naturals, FiniteSets, Sequences, TLC
VARIABLES info,     \* minted blocks
          stored,   \* blocks whose rows are in the store (durable)
          pc        \* "run" | "down" | "up" (restarted, InitLoad pending) | "done"
csvars == <<info, stored, pc>>

Genesis(w0) == [p |-> 0, num |-> 0, ok |-> TRUE, work |-> w0, td |-> w0, valid |-> TRUE]
CSInit == info = [b \in {0} |-> Genesis(0)] /\ stored = {0} /\ pc = "run"
MintS(b, p, num, ok, work) ==
  /\ b \notin DOMAIN info /\ p \in DOMAIN info /\ num = info[p].num + 1
  /\ info' = [x \in DOMAIN info \cup {b} |->
                IF x = b THEN [p |-> p, num |-> num, ok |-> ok, work |-> work, td |-> info[p].td + work, valid |-> ok /\ info[p].valid]
                ELSE info[x]]
InsS(b) == b \in DOMAIN info /\ info[b].p \in stored /\ stored' = stored \cup {b}
DelS(b) == b \in stored /\ ~info[b].valid /\ stored' = stored \ {b}

\* the fully valid chains that can be formed from the stored blocks, and the heaviest of them (equal work: either)
Candidates(S) == {b \in S : info[b].valid}
Best(S) == {b \in Candidates(S) : \A c \in Candidates(S) : info[c].td <= info[b].td}

\* C08 at header level -----------------------------------------------------------------------------
\* after InitLoadUnverified and quiescence: no stored block is left without a verdict (an invalid one is deleted),
\* and the published tip is the head of a heaviest fully valid chain among the stored blocks
PickedUp(unverified) == unverified = {}
TipOK(t, td) == t \in Best(stored) /\ td = info[t].td
================================================================================
