SPECIFICATION Spec
CONSTANTS
  Peers = {1, 2}
  Blocks = {2, 3, 50}
  W = 2
  Timeout = 2
  PruneWindow = 20
  SlowWindow = 1
  Deltas = {1, 2}
  MaxAdv = 3
  Tips = {0, 5}
  InitTC = 32
  MaxTC = 128
  Protect = 0
  Fast = 1000
  Normal = 1250
  Low0 = 1
  Depth = 0
  Free = TRUE
  EmitAll = TRUE
INVARIANT OnePeerPerBlock
INVARIANT ListedIsInflight
INVARIANT InflightIsListed
INVARIANT StaleOK
INVARIANT TraceLive
CHECK_DEADLOCK FALSE
VIEW AgeView
