--------------------------- MODULE MC_CompactBlock ---------------------------
(* Exhaustive configuration of CompactBlock.tla and export of every terminal case for replay on the real   *)
(* Relayer::reconstruct_block / relay verifiers.                                                            *)
EXTENDS CompactBlock, Json
CONSTANT Emit
SetSeq(S) == SeqOfSet(S)
Res(r) == IF r.kind = "Missing" THEN [kind |-> "Missing", txs |-> SetSeq(r.txs), uncles |-> SetSeq(r.uncles)]
          ELSE IF r.kind = "Block" THEN [kind |-> "Block", txs |-> <<>>, uncles |-> <<>>]
          ELSE [kind |-> r.kind, txs |-> <<>>, uncles |-> <<>>]
Case == [n |-> n, uncle |-> hasUncle, ext |-> hasExt,
         pre |-> msg.pre, sids |-> msg.sids, props |-> msg.props, uhashes |-> msg.uhashes, mext |-> msg.ext, tamper |-> msg.tamper,
         pool |-> SetSeq(pool), known |-> SetSeq({IF x = "u" THEN 1 ELSE 2 : x \in known}),
         verdict |-> verdict, r1 |-> Res(r1),
         ans |-> IF ans = None THEN [kind |-> "none", txs |-> <<>>, uncles |-> <<>>] ELSE [kind |-> ans.kind, txs |-> ans.txs, uncles |-> ans.uncles],
         averdict |-> averdict, r2 |-> Res(r2)]
\* evaluated once per distinct state; always TRUE
EmitCase == (Emit /\ phase = "end") => PrintT(<<"CASE", ToJson(Case)>>)
=============================================================================
