---------------------------- MODULE MC_Freeze ----------------------------
(* Exhaustive configurations of Freeze.tla (constants in the .cfg files). *)
EXTENDS Freeze
Sides2 == {2, 3}
Late1 == {3}
NoExt1 == {1, 3}
Sides3 == {1, 2, 4}
Late3 == {2}
=============================================================================
