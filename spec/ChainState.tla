------------------------------ MODULE ChainState ------------------------------
(***************************************************************************************************)
(* C02 - the canonical-chain view a CKB node stores (the RocksDB columns written by                *)
(* chain/src/verify.rs::verify_block through store/src/{transaction,cell}.rs) and every published  *)
(* snapshot equal a replay of the main chain from genesis.                                         *)
(*                                                                                                 *)
(* The durable state `db` mirrors the columns:                                                      *)
(*   stored   block rows (COLUMN_BLOCK_HEADER/BODY/..., COLUMN_NUMBER_HASH)                         *)
(*   ext      COLUMN_BLOCK_EXT        block |-> [td, ver, unc, fees, ncyc, nsz]                     *)
(*   cells    COLUMN_CELL(+DATA,+DATA_HASH)  out-point <<tx, i>> |-> [b: creating block, x: tx idx] *)
(*   txInfo   COLUMN_TRANSACTION_INFO tx |-> [b, x]                                                 *)
(*   numIdx / hashIdx  COLUMN_INDEX   number |-> block,  block |-> number                           *)
(*   uncles   COLUMN_UNCLES           set of included uncle blocks                                  *)
(*   tip, cur META_TIP_HEADER_KEY, META_CURRENT_EPOCH_KEY                                           *)
(*   bep      COLUMN_BLOCK_EPOCH      block |-> epoch index (last block of the previous epoch)      *)
(*   erec     COLUMN_EPOCH (32-byte keys)  epoch index |-> epoch record                             *)
(*   enum     COLUMN_EPOCH (8-byte keys)   epoch number |-> epoch index                             *)
(*   mmr      COLUMN_CHAIN_ROOT_MMR   position |-> sequence of the blocks (leaves) the node covers  *)
(*                                                                                                 *)
(* One action per database commit: Deliver (insert + verify_block: side block, extension or        *)
(* reorganisation = rollback + reconcile, or refusal as a whole) and Truncate.  AttachBlock /      *)
(* AttachCells / DetachBlock / DetachCells are transcribed in the order the code performs them;    *)
(* Replay(chain) is the declarative fold they are compared with.  The specification states the     *)
(* INTENDED behaviour; `Bug` re-creates known/seeded deviations of the code for oracle self-tests. *)
(***************************************************************************************************)
EXTENDS Integers, Sequences, FiniteSets, TLC

CONSTANTS Tx,          \* tx id |-> [ins: set of out-points, deps: set of out-points, nouts, fee]
          GenesisTxs,  \* sequence of the tx ids of the genesis block (no inputs)
          L,           \* epoch length (constant difficulty: every epoch has L blocks)
          CbBase,      \* the cellbase of block b is tx id CbBase + b
          Bug          \* "none" = intended behaviour; other values: see EpochRows, ProcessOp, Detach/Attach

VARIABLES blocks,      \* every block ever minted: id |-> [parent, num, commits, uncles, cbo, ok, work]
          db,          \* the durable column state (a record, see above)
          snap,        \* the published snapshot [tip, td, cur, db] (immutable copy of db at publication)
          invalid      \* block_status_map: blocks marked BLOCK_INVALID (volatile)

vars == <<blocks, db, snap, invalid>>
NoBlock == -1

\* ---------------------------------------------------------------- helpers
ToSet(s) == {s[i] : i \in DOMAIN s}
Index(s, e) == CHOOSE i \in DOMAIN s : s[i] = e
Put(f, k, v) == [x \in DOMAIN f \cup {k} |-> IF x = k THEN v ELSE f[x]]
PutAll(f, g) == [x \in DOMAIN f \cup DOMAIN g |-> IF x \in DOMAIN g THEN g[x] ELSE f[x]]
DelAll(f, K) == [x \in DOMAIN f \ K |-> f[x]]
Restrict(f, S) == [x \in DOMAIN f \cap S |-> f[x]]
RECURSIVE SumSeq(_)
SumSeq(s) == IF s = <<>> THEN 0 ELSE Head(s) + SumSeq(Tail(s))

\* ---------------------------------------------------------------- blocks and transactions
NBlocks == Cardinality(DOMAIN blocks)
Num(b) == blocks[b].num
Par(b) == blocks[b].parent
RECURSIVE Chain(_)
Chain(b) == IF b = 0 THEN <<0>> ELSE Append(Chain(Par(b)), b)
IsCb(t) == t >= CbBase
TxsOf(b) == IF b = 0 THEN GenesisTxs ELSE <<CbBase + b>> \o blocks[b].commits
NOuts(t) == IF IsCb(t) THEN blocks[t - CbBase].cbo ELSE Tx[t].nouts
Ins(t) == IF IsCb(t) THEN {} ELSE Tx[t].ins
Deps(t) == IF IsCb(t) THEN {} ELSE Tx[t].deps
OutsOfTx(t) == {<<t, i>> : i \in 0..(NOuts(t) - 1)}
OutsOf(b) == UNION {OutsOfTx(t) : t \in ToSet(TxsOf(b))}
\* inputs consumed by a block: the code skips the first transaction (cellbase)
InputsOf(b) == UNION {Ins(TxsOf(b)[k]) : k \in 2..Len(TxsOf(b))}
TD(b) == SumSeq([i \in 1..Len(Chain(b)) |-> blocks[Chain(b)[i]].work])
TotalUncles(b) == SumSeq([i \in 1..Len(Chain(b)) |-> Cardinality(blocks[Chain(b)[i]].uncles)])

\* ---------------------------------------------------------------- epochs (constant length L)
EpochNo(n) == n \div L
IsHead(b) == Num(b) > 0 /\ Num(b) % L = 0
\* the epoch index of b: the last block of the previous epoch on b's own chain
EpochIdx(b) == IF EpochNo(Num(b)) = 0 THEN NoBlock ELSE Chain(b)[EpochNo(Num(b)) * L]
EpochOf(b) == [n |-> EpochNo(Num(b)), s |-> EpochNo(Num(b)) * L, l |-> L, p |-> EpochIdx(b)]

\* ---------------------------------------------------------------- chain-root MMR positions
RECURSIVE PopCount(_)
PopCount(n) == IF n = 0 THEN 0 ELSE (n % 2) + PopCount(n \div 2)
RECURSIVE TZ(_)
TZ(n) == IF n % 2 = 1 THEN 0 ELSE 1 + TZ(n \div 2)
LeafPos(i) == 2 * i - PopCount(i)              \* position of leaf i (= block number i)
MmrSize(i) == 2 * (i + 1) - PopCount(i + 1)    \* leaf_index_to_mmr_size(i)
\* MMR::push: write the leaf, then merge with the stored left sibling while the new node is a right child
RECURSIVE PushK(_, _, _, _, _)
PushK(m, base, k, kmax, node) ==
  LET m1 == Put(m, base + k, node) IN
  IF k = kmax THEN m1
  ELSE PushK(m1, base, k + 1, kmax, m1[base + k - (2^(k + 1) - 1)] \o node)
PushLeaf(m, i, b) == PushK(m, LeafPos(i), 0, TZ(i + 1), <<b>>)
\* declaratively: leaf i (block number i) closes the nodes of heights 0..TZ(i+1) at the positions LeafPos(i) + k; the node of
\* height k covers the last 2^k blocks ending at i  (written leaf by leaf so that chains of some hundred blocks stay cheap)
RECURSIVE MmrUpTo(_, _)
MmrUpTo(ch, i) ==
  IF i < 0 THEN <<>>
  ELSE LET base == LeafPos(i) IN
       [p \in base..(base + TZ(i + 1)) |-> SubSeq(ch, i + 2 - 2^(p - base), i + 1)] @@ MmrUpTo(ch, i - 1)
MmrOf(ch) == MmrUpTo(ch, Len(ch) - 1)

\* ---------------------------------------------------------------- the code's attach / detach
OkExt(e, b) == [e EXCEPT !.ver = "ok",
                         !.fees = IF b = 0 THEN <<>> ELSE [i \in 1..Len(blocks[b].commits) |-> Tx[blocks[b].commits[i]].fee],
                         !.ncyc = IF b = 0 THEN 0 ELSE Len(blocks[b].commits),
                         !.nsz = IF b = 0 THEN 0 ELSE Len(blocks[b].commits) + 1]

\* StoreTransaction::attach_block: tx-info rows, number->hash, uncles, hash->number
\* (and - intended - the epoch-number index follows the attached epoch heads)
AttachBlock(d, b) ==
  LET txs == TxsOf(b)
      info == [t \in ToSet(txs) |-> [b |-> b, x |-> Index(txs, t) - 1]]
  IN [d EXCEPT !.txInfo = PutAll(@, info), !.numIdx = Put(@, Num(b), b),
               !.uncles = @ \cup blocks[b].uncles, !.hashIdx = Put(@, b, Num(b)),
               !.enum = IF Bug # "f3" /\ IsHead(b) THEN Put(@, EpochNo(Num(b)), EpochIdx(b)) ELSE @]

\* attach_block_cell: insert every output of the block, then delete the inputs of the non-cellbase txs
AttachCells(d, b) ==
  LET txs == TxsOf(b)
      new == [c \in OutsOf(b) |-> [b |-> b, x |-> Index(txs, c[1]) - 1]]
  IN IF Bug = "attach-order"
     THEN [d EXCEPT !.cells = PutAll(DelAll(@, InputsOf(b)), new)]
     ELSE [d EXCEPT !.cells = DelAll(PutAll(@, new), InputsOf(b))]

\* StoreTransaction::detach_block
DetachBlock(d, b) ==
  [d EXCEPT !.txInfo = IF Bug = "keep-txinfo" THEN @ ELSE DelAll(@, ToSet(TxsOf(b))),
            !.uncles = @ \ blocks[b].uncles,
            !.numIdx = DelAll(@, {Num(b)}), !.hashIdx = DelAll(@, {b})]

\* detach_block_cell (runs after detach_block): restore the inputs whose creating transaction still
\* has a tx-info row, then delete every output of the block
DetachCells(d, b) ==
  LET restorable == {c \in InputsOf(b) : c[1] \in DOMAIN d.txInfo /\ c[2] < NOuts(c[1])}
      undo == [c \in restorable |-> d.txInfo[c[1]]]
  IN [d EXCEPT !.cells = DelAll(PutAll(@, IF Bug = "norestore" THEN <<>> ELSE undo),
                                IF Bug = "keep-outputs" THEN {} ELSE OutsOf(b))]

\* rollback: detach in reverse order
RECURSIVE Rollback(_, _)
Rollback(d, det) ==
  IF det = <<>> THEN d
  ELSE LET b == det[Len(det)] IN Rollback(DetachCells(DetachBlock(d, b), b), SubSeq(det, 1, Len(det) - 1))

AttachAll(d, a) == LET d1 == AttachCells(AttachBlock(d, a), a) IN [d1 EXCEPT !.mmr = PushLeaf(@, Num(a), a)]

\* reconcile_main_chain: already verified blocks are attached; the others are verified first; the first
\* invalid block makes the whole transaction fail
RECURSIVE Recon(_, _, _)
Recon(d, att, i) ==
  IF i > Len(att) THEN [ok |-> TRUE, d |-> d]
  ELSE LET a == att[i] IN
       IF d.ext[a].ver = "ok" THEN Recon(AttachAll(d, a), att, i + 1)
       ELSE IF blocks[a].ok
            THEN Recon([AttachAll(d, a) EXCEPT !.ext = Put(@, a, OkExt(d.ext[a], a))], att, i + 1)
            ELSE [ok |-> FALSE, d |-> d]

\* find_fork through the number index: latest ancestor of b that is indexed at its height
InMain(d, a) == Num(a) \in DOMAIN d.numIdx /\ d.numIdx[Num(a)] = a
FindFork(d, tipnum, b) ==
  LET ch == Chain(b)
      common == CHOOSE h \in 0..(Len(ch) - 2) :
                   /\ InMain(d, ch[h + 1])
                   /\ \A g \in (h + 1)..(Len(ch) - 2) : ~InMain(d, ch[g + 1])
  IN [att |-> SubSeq(ch, common + 2, Len(ch)),
      det |-> [i \in 1..(tipnum - common) |-> d.numIdx[common + i]]]

\* insert_block_epoch_index; insert_epoch_ext for an epoch head.  In the code as found insert_epoch_ext also
\* writes the epoch-number index for EVERY processed head, side chains included (Bug = "f3").
EpochRows(d, b) ==
  LET d1 == [d EXCEPT !.bep = Put(@, b, EpochIdx(b))]
  IN IF IsHead(b)
     THEN [d1 EXCEPT !.erec = Put(@, EpochIdx(b), EpochOf(b)),
                     !.enum = IF Bug = "f3" THEN Put(@, EpochNo(Num(b)), EpochIdx(b)) ELSE @]
     ELSE d1

\* verify_block for a stored block whose parent has an ext row. `std`/`stip` = total difficulty and tip of
\* the published snapshot.  Result: res in {"dup", "side", "attached", "failed"} and the committed db.
ProcessOp(d, std, stip, b) ==
  IF b \in DOMAIN d.ext /\ d.ext[b].ver = "ok" THEN [res |-> "dup", d |-> d]
  ELSE
  LET p == Par(b)
      td == d.ext[p].td + blocks[b].work
      ext0 == [td |-> td, ver |-> "none", unc |-> d.ext[p].unc + Cardinality(blocks[b].uncles),
               fees |-> <<>>, ncyc |-> -1, nsz |-> -1]
      d1 == EpochRows(d, b)
  IN IF td > std
     THEN LET f == FindFork(d, Num(stip), b)
              d2 == Rollback(d1, f.det)
              r == Recon([d2 EXCEPT !.ext = Put(@, b, ext0)], f.att, 1)
          IN IF r.ok
             THEN [res |-> "attached",
                   d |-> [r.d EXCEPT !.tip = b,
                                     !.cur = IF Bug # "epochmeta" \/ IsHead(b) \/ Len(f.det) > 0
                                             THEN EpochOf(b) ELSE @]]
             \* the transaction is dropped; delete_unverified_block removes the triggering block
             ELSE [res |-> "failed", d |-> [d EXCEPT !.stored = @ \ {b}]]
     ELSE [res |-> "side", d |-> [d1 EXCEPT !.ext = Put(@, b, ext0)]]

\* ---------------------------------------------------------------- the declarative replay
Replay(ch) ==
  LET n == Len(ch)
      tipb == ch[n]
      alltx == UNION {ToSet(TxsOf(ch[i])) : i \in 1..n}
      locs == [t \in alltx |-> LET i == CHOOSE i \in 1..n : t \in ToSet(TxsOf(ch[i]))
                               IN [b |-> ch[i], x |-> Index(TxsOf(ch[i]), t) - 1]]
      created == UNION {OutsOf(ch[i]) : i \in 1..n}
      spent == UNION {Ins(t) : t \in alltx}
      eps == 0..EpochNo(Num(tipb))
      first(e) == ch[e * L + 1]          \* first block of epoch e on this chain
  IN [ cells   |-> [c \in created \ spent |-> locs[c[1]]],
       txInfo  |-> locs,
       numIdx  |-> [h \in 0..(n - 1) |-> ch[h + 1]],
       hashIdx |-> [b \in ToSet(ch) |-> Num(b)],
       uncles  |-> UNION {blocks[ch[i]].uncles : i \in 1..n},
       tip     |-> tipb,
       cur     |-> EpochOf(tipb),
       bep     |-> [b \in ToSet(ch) |-> EpochIdx(b)],
       erec    |-> [p \in {EpochIdx(first(e)) : e \in eps} |->
                      LET e == CHOOSE e \in eps : EpochIdx(first(e)) = p IN EpochOf(first(e))],
       enum    |-> [e \in eps |-> EpochIdx(first(e))],
       ext     |-> [b \in ToSet(ch) |-> OkExt([td |-> TD(b), ver |-> "ok", unc |-> TotalUncles(b),
                                               fees |-> <<>>, ncyc |-> -1, nsz |-> -1], b)],
       mmr     |-> MmrOf(ch) ]

\* What the property speaks about: the cell set, tx-info, both indices and the uncle index completely
\* ("nothing else"); epoch records, verification records and MMR nodes as far as they belong to the chain.
ViewOf(d, ch) ==
  LET main == ToSet(ch)
      tipb == ch[Len(ch)]
      eps == 0..EpochNo(Num(tipb))
  IN [ cells |-> d.cells, txInfo |-> d.txInfo, numIdx |-> d.numIdx, hashIdx |-> d.hashIdx, uncles |-> d.uncles,
       tip |-> d.tip, cur |-> d.cur,
       bep |-> Restrict(d.bep, main),
       erec |-> Restrict(d.erec, {EpochIdx(ch[e * L + 1]) : e \in eps}),
       enum |-> Restrict(d.enum, eps),
       ext |-> Restrict(d.ext, main),
       mmr |-> Restrict(d.mmr, 0..(MmrSize(Num(tipb)) - 1)) ]
View(d) == ViewOf(d, Chain(d.tip))

\* ---------------------------------------------------------------- initial state (ChainDB::init)
GenesisBlock(w) == [parent |-> NoBlock, num |-> 0, commits |-> <<>>, uncles |-> {}, cbo |-> 0, ok |-> TRUE, work |-> w]
EmptyDb == [stored |-> {}, ext |-> <<>>, cells |-> <<>>, txInfo |-> <<>>, numIdx |-> <<>>, hashIdx |-> <<>>,
            uncles |-> {}, tip |-> NoBlock, cur |-> [n |-> 0, s |-> 0, l |-> L, p |-> NoBlock],
            bep |-> <<>>, erec |-> <<>>, enum |-> <<>>, mmr |-> <<>>]
GenesisDb(w) ==
  LET d1 == AttachCells(EmptyDb, 0)
      d2 == [d1 EXCEPT !.stored = {0},
                       !.ext = Put(@, 0, OkExt([td |-> w, ver |-> "ok", unc |-> 0, fees |-> <<>>, ncyc |-> 0, nsz |-> 0], 0)),
                       !.tip = 0, !.bep = Put(@, 0, NoBlock),
                       !.erec = Put(@, NoBlock, [n |-> 0, s |-> 0, l |-> L, p |-> NoBlock]),
                       !.enum = Put(@, 0, NoBlock)]
      d3 == AttachBlock(d2, 0)
  IN [d3 EXCEPT !.mmr = PushLeaf(@, 0, 0)]
SnapOf(d, ep) == [tip |-> d.tip, td |-> d.ext[d.tip].td, cur |-> ep, db |-> d]

InitW(w) == /\ blocks = [i \in {0} |-> GenesisBlock(w)]
            /\ db = GenesisDb(w)
            /\ snap = [tip |-> 0, td |-> w, cur |-> [n |-> 0, s |-> 0, l |-> L, p |-> NoBlock], db |-> GenesisDb(w)]
            /\ invalid = {}
Init == InitW(1)

\* ---------------------------------------------------------------- actions
\* The environment creates a block (any content; `ok` is the verdict full verification gives it in its context).
Mint(rec) == /\ rec.parent \in DOMAIN blocks
             /\ rec.num = Num(rec.parent) + 1
             /\ blocks' = [i \in DOMAIN blocks \cup {NBlocks} |-> IF i \in DOMAIN blocks THEN blocks[i] ELSE rec]
             /\ UNCHANGED <<db, snap, invalid>>

\* A block whose parent is known is delivered: insert_block commit, then verify_block (one commit) and the
\* publication of the new snapshot - or the deletion of the block when it (or its fork) is refused.
\* DeliverOp is the pure form over a state record [db, snap, invalid] (used by CrashRecovery for the crash-free run).
DeliverOp(st, b) ==
  LET r == IF Par(b) \in st.invalid THEN [res |-> "failed", d |-> st.db]   \* process_invalid_block: inserted and deleted again
           ELSE ProcessOp([st.db EXCEPT !.stored = @ \cup {b}], st.snap.td, st.snap.tip, b)
  IN [res |-> r.res, db |-> r.d,
      snap |-> CASE r.res = "attached" -> SnapOf(r.d, EpochOf(b))
                 [] r.res = "side" -> [st.snap EXCEPT !.db = r.d]       \* refresh_snapshot
                 [] OTHER -> st.snap,
      invalid |-> IF r.res = "failed" THEN st.invalid \cup {b} ELSE st.invalid]
DeliverRes(b) == DeliverOp([db |-> db, snap |-> snap, invalid |-> invalid], b)
Deliver(b) ==
  /\ b \in DOMAIN blocks /\ b # 0
  /\ Par(b) \in invalid \/ Par(b) \in DOMAIN db.ext
  /\ LET r == DeliverRes(b) IN db' = r.db /\ snap' = r.snap /\ invalid' = r.invalid
  /\ UNCHANGED blocks

\* ChainController::truncate (test-only API, part of the property)
Truncate(t) ==
  /\ t \in DOMAIN blocks /\ InMain(snap.db, t) /\ t # snap.tip
  /\ LET det == [i \in 1..(Num(snap.tip) - Num(t)) |-> db.numIdx[Num(t) + i]]
         d2 == Rollback(db, det)
         ep == db.erec[db.bep[t]]
         d3 == [d2 EXCEPT !.tip = t, !.cur = ep]
     IN db' = d3 /\ snap' = SnapOf(d3, ep)
  /\ UNCHANGED <<blocks, invalid>>

\* ---------------------------------------------------------------- properties
ReplayConsistent == View(db) = Replay(Chain(db.tip))
SnapshotConsistent == /\ View(snap.db) = Replay(Chain(snap.tip))
                      /\ snap.db.tip = snap.tip
                      /\ snap.td = TD(snap.tip)
                      /\ snap.cur = EpochOf(snap.tip)
OnlyValidAttached == \A b \in ToSet(Chain(db.tip)) : blocks[b].ok
=============================================================================
