SPECIFICATION MCSpec
CONSTANTS
 InitGroups <- Abs1
 Limits <- L12
 Budgets <- L12
 MaxChunks = 3
 Variant = "intended"
 Emit = TRUE
 WithSignal = FALSE
INVARIANT ChunkInvariance
INVARIANT BudgetExact
INVARIANT Accounting
INVARIANT EmitHist
CHECK_DEADLOCK FALSE
