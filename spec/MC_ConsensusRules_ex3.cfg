SPECIFICATION Spec
CONSTANTS
  L = 2
  WClose = 1
  WFar = 2
  K = 3
  MaxUncles = 2
  MaxProposals = 2
  MaxBytes = 100
  MaxCycles = 20
  TxCycles = 10
  Future = 15000
  Now = 1000
  Txs = {1, 2}
  NBlocks = 3
  MaxSides = 1
  Directed = FALSE
  Emit = FALSE
INVARIANT ChainValid
INVARIANT CommitsOK
INVARIANT MedianMonotone
INVARIANT UnclesOK
INVARIANT ProbesFocused
INVARIANT EmitCtx
CHECK_DEADLOCK FALSE
