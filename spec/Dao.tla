-------------------------------- MODULE Dao --------------------------------
(***************************************************************************)
(* C06 - NervosDAO life cycle on top of the DAO-field accumulate rule        *)
(* (RFC 0023): deposit -> prepare (withdraw phase 1) -> withdraw (phase 2).  *)
(*                                                                         *)
(* A deposit c is a cell of capacity Cap[c] of which Occ[c] is occupied      *)
(* (typed with the NervosDAO script, 8 data bytes).  Phase 1 re-creates the   *)
(* cell unchanged and records the deposit block; phase 2 consumes the phase-1 *)
(* cell and may create up to                                                 *)
(*      WithdrawAmount(Cap, Occ, AR(deposit block), AR(phase-1 block))       *)
(* of capacity: the free (counted) part grows with the accumulated rate, the  *)
(* occupied part does not.  What exceeds the capacity of the consumed cell    *)
(* is the INTEREST; the block's DAO field takes it out of S (the issuance     *)
(* put aside for NervosDAO and not yet claimed).                              *)
(*                                                                         *)
(* One action per block (the unit of atomicity of the chain: all effects of   *)
(* a block are one database commit).  The block's accounting is transcribed   *)
(* from DaoCalculator::dao_field_with_current_epoch: freed / added occupied   *)
(* capacity over ALL transactions, withdrawn interest = sum of the maximum    *)
(* withdraws minus the capacity of the consumed cells.                        *)
(* Rewards are modelled without the finalisation delay (the delay is          *)
(* Economics.tla's subject): the cellbase of block n pays primary(n) + the    *)
(* miner's share of secondary(n).                                            *)
(*                                                                         *)
(* Properties (design level, scaled amounts; the same operators are evaluated *)
(* at real magnitude on real chains by spec/apa/Economics_A.tla):             *)
(*   Conservation   live capacity + S - C is constant: no capacity appears     *)
(*                  other than scheduled issuance and NervosDAO interest       *)
(*   UExact         U = occupied capacity of the live-cell set                *)
(*   Solvent        S covers the interest every outstanding deposit could      *)
(*                  claim now (so the `safe_sub` of the code never fails)     *)
(*   ARMonotone, InterestNonNegative, LaterPaysMore                          *)
(*   PaysExactly    what a finished withdrawal created = WithdrawAmount of the *)
(*                  two header fields it named                                 *)
(***************************************************************************)
EXTENDS EconomicsArith, Sequences, FiniteSets

CONSTANTS Cells,      \* ids of the (potential) deposits
          Cap, Occ,   \* Cap[c] capacity, Occ[c] occupied capacity of the NervosDAO cell of deposit c
          PlainOcc,   \* occupied capacity of a plain cell (funding cell of a deposit, cell created by a withdrawal)
          CbOcc,      \* occupied capacity of a cellbase output
          Dao0,       \* DAO field of the genesis block [ar, c, s, u]
          Live0,      \* capacity of the live cells after genesis
          Variant     \* "ok"; oracle self-tests: "interest_not_taken_from_s", "occupied_part_grows"
VARIABLES chain,      \* chain[n] = [dao, ops, g2, primary]: block n
          st          \* st[c] = [ph, dH, pH, paid]: phase "free" | "dep" | "prep" | "out", heights of deposit / phase 1, amount created by phase 2
dvars == <<chain, st>>

Kinds == {"deposit", "prepare", "withdraw"}

\* issuance schedule: every third block carries one unit more (epoch remainders)
Primary(n) == 100
Secondary(n) == IF n % 3 = 0 THEN 138 ELSE 137

Height == Len(chain)
DaoAt(n) == IF n = 0 THEN Dao0 ELSE chain[n].dao
TipDao == DaoAt(Height)
ArAt(n) == DaoAt(n).ar

RECURSIVE SumOver(_, _)
SumOver(S, f) == IF S = {} THEN 0 ELSE LET x == CHOOSE y \in S : TRUE IN f[x] + SumOver(S \ {x}, f)

\* what phase 2 of deposit c may create when its phase-1 cell was committed at height p
Withdrawable(c, d, p) ==
  IF Variant = "occupied_part_grows" THEN (Cap[c] * ArAt(p)) \div ArAt(d)
  ELSE WithdrawAmount(Cap[c], Occ[c], ArAt(d), ArAt(p))

\* the operation the life cycle allows for c in the NEXT block: the header a later phase names must already be on the
\* chain (a header dep / the block of the consumed cell), so two phases of one deposit never share a block
Allowed(c, k) ==
  \/ k = "deposit"  /\ st[c].ph = "free"
  \/ k = "prepare"  /\ st[c].ph = "dep"
  \/ k = "withdraw" /\ st[c].ph = "prep"

DInit ==
  /\ chain = <<>>
  /\ st = [c \in Cells |-> [ph |-> "free", dH |-> 0, pH |-> 0, paid |-> 0]]

\* a block carrying the operations ops (a function from a subset of Cells to Kinds)
NextBlock(ops) ==
  LET n   == Height + 1
      par == TipDao
      D   == DOMAIN ops
      Wd  == {c \in D : ops[c] = "withdraw"}
      Dep == {c \in D : ops[c] = "deposit"}
      paidNow == [c \in Cells |-> IF c \in Wd THEN Withdrawable(c, st[c].dH, st[c].pH) ELSE 0]
      \* DaoCalculator: freed / added occupied capacity of every consumed / created cell, cellbase included
      freed == SumOver(D, [c \in Cells |-> IF ops[c] = "deposit" THEN PlainOcc ELSE Occ[c]])
      added == SumOver(D, [c \in Cells |-> IF ops[c] = "withdraw" THEN PlainOcc ELSE Occ[c]]) + CbOcc
      \* withdrawed_interests = sum of maximum withdraws - capacity of the consumed cells
      interest == SumOver(Wd, paidNow) - SumOver(Wd, Cap)
      dao == DaoNext(par, Primary(n), Secondary(n), added, freed, IF Variant = "interest_not_taken_from_s" THEN 0 ELSE interest)
  IN /\ \A c \in D : Allowed(c, ops[c])
     /\ dao.s >= 0            \* `safe_sub`: a block whose withdrawals exceed S is invalid
     /\ chain' = Append(chain, [dao |-> dao, ops |-> ops, primary |-> Primary(n), g2 |-> Secondary(n)])
     /\ st' = [c \in Cells |->
                 IF c \notin D THEN st[c]
                 ELSE IF ops[c] = "deposit" THEN [st[c] EXCEPT !.ph = "dep", !.dH = n]
                 ELSE IF ops[c] = "prepare" THEN [st[c] EXCEPT !.ph = "prep", !.pH = n]
                 ELSE [st[c] EXCEPT !.ph = "out", !.paid = paidNow[c]]]

OpsChoices == UNION {[D -> Kinds] : D \in SUBSET Cells}
DNext == \E ops \in OpsChoices : NextBlock(ops)
DSpec == DInit /\ [][DNext]_dvars

-----------------------------------------------------------------------------
\* capacity of the live-cell set, declaratively: genesis + every cellbase + every interest paid
MinerPaid(n) == Primary(n) + MinerSecondary(Secondary(n), DaoAt(n - 1).u, DaoAt(n - 1).c)
RECURSIVE PaidUpTo(_)
PaidUpTo(n) == IF n = 0 THEN 0 ELSE MinerPaid(n) + PaidUpTo(n - 1)
InterestPaid == SumOver({c \in Cells : st[c].ph = "out"}, [c \in Cells |-> st[c].paid - Cap[c]])
Live == Live0 + PaidUpTo(Height) + InterestPaid

\* no capacity appears other than scheduled issuance and NervosDAO interest: what is live plus what is put aside for
\* NervosDAO (and the treasury) differs from the total issuance C by the same constant as in genesis
Conservation == Live + TipDao.s - TipDao.c = Live0 + Dao0.s - Dao0.c

\* U = occupied capacity of the live cells: genesis cells, one cellbase cell per block, and per deposit either its
\* funding / withdrawn plain cell or its NervosDAO cell
UExact ==
  TipDao.u = Dao0.u + Height * CbOcc
             + SumOver(Cells, [c \in Cells |-> IF st[c].ph \in {"dep", "prep"} THEN Occ[c] - PlainOcc ELSE 0])

\* interest a deposit could claim if it finished as early as possible from here
Claimable(c) ==
  IF st[c].ph = "dep" THEN Withdrawable(c, st[c].dH, Height) - Cap[c]
  ELSE IF st[c].ph = "prep" THEN Withdrawable(c, st[c].dH, st[c].pH) - Cap[c]
  ELSE 0
Solvent == TipDao.s >= SumOver(Cells, [c \in Cells |-> Claimable(c)])

ARMonotone == \A n \in 1..Height : ArAt(n) >= ArAt(n - 1)
InterestNonNegative == \A c \in Cells : st[c].ph = "out" => st[c].paid >= Cap[c]
PaysExactly == \A c \in Cells : st[c].ph = "out" =>
                 st[c].paid = (((Cap[c] - Occ[c]) * ArAt(st[c].pH)) \div ArAt(st[c].dH)) + Occ[c]
\* a phase 1 committed later never pays less
LaterPaysMore == \A c \in Cells : \A p, q \in 1..Height :
                   (st[c].ph # "free" /\ st[c].dH < p /\ p <= q) => Withdrawable(c, st[c].dH, p) <= Withdrawable(c, st[c].dH, q)
LifeCycleOrder == \A c \in Cells :
                   /\ st[c].ph \in {"dep", "prep", "out"} => st[c].dH >= 1
                   /\ st[c].ph \in {"prep", "out"} => st[c].dH < st[c].pH
                   /\ st[c].ph = "out" => \E n \in 1..Height : n > st[c].pH /\ c \in DOMAIN chain[n].ops /\ chain[n].ops[c] = "withdraw"
=============================================================================
