SPECIFICATION Spec
CONSTANTS
 SinceAt = 6
 KeyByTxHash = FALSE
 SkipTimeOnHit = FALSE
 SkipMaturityOnHit = FALSE
 InvalidateOnDelete = FALSE
 Warm = FALSE
 Emit = FALSE
INVARIANT TypeOK
INVARIANT CacheTransparent
INVARIANT EmitHist
CHECK_DEADLOCK FALSE
