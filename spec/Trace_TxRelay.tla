---------------------------- MODULE Trace_TxRelay ----------------------------
(* Trace validation of the end-to-end scenario (g_txrelay e2e): transactions delivered through               *)
(* TxPoolController::submit_remote_tx to a real node; after each delivery has been processed (verify queue    *)
(* empty) the pool's contents, the orphan count and the results handed to the relayer are compared.           *)
EXTENDS TxRelay, Json, IOUtils, TLCExt
Rec == ndJsonDeserialize(IOEnv.TRACE)
VARIABLE l
tvars == <<vars, l>>
Ev == Rec[l]
Is(e) == l <= Len(Rec) /\ Ev.ev = e /\ l' = l + 1
RangeOf(s) == {s[i] : i \in 1..Len(s)}
TInit == /\ ins = <<>> /\ nout = <<>> /\ Init0 /\ l = 1
TReset == /\ Is("Reset")
          /\ ins' = [t \in 1..Len(Ev.ins) |-> RangeOf(Ev.ins[t])]
          /\ nout' = [t \in 1..Len(Ev.nout) |-> Ev.nout[t]]
          /\ delivered' = {} /\ pooled' = {} /\ orph' = {} /\ notes' = <<>>
\* what the relayer is told (TxVerificationResult): for a delivery that is not a duplicate, "ok" exactly for the
\* admitted transactions, each once; no "reject" (the universe is conflict-free); "unknown parents" at least for a
\* transaction that becomes an orphan (a released orphan with a second missing parent may be announced again).
\* For a duplicate delivery the specification is silent about the verdicts.
Once(sq) == Len(sq) = Cardinality(RangeOf(sq))
OksOf(ns) == {ns[i].t : i \in {j \in 1..Len(ns) : ns[j].k = "ok"}}
Verdicts == \/ Ev.t \in pooled \cup orph
            \/ /\ RangeOf(Ev.oks) = OksOf(notes') /\ Once(Ev.oks)
               /\ Ev.rejects = <<>>
               /\ (Ev.t \in orph' => Ev.t \in RangeOf(Ev.unknowns))
TDeliver == /\ Is("Deliver") /\ Deliver(Ev.t)
            /\ pooled' = RangeOf(Ev.pooled)
            /\ Cardinality(orph') = Ev.orphans
            /\ Verdicts
TNext == TReset \/ TDeliver
TSpec == TInit /\ [][TNext]_tvars
Accepted == LET d == TLCGet("stats").diameter IN
            IF d - 1 = Len(Rec) THEN TRUE
            ELSE Print(<<"TRACE-REJECTED", d, Rec[d]>>, FALSE)
=============================================================================
