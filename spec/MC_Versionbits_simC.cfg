SPECIFICATION Spec
CONSTANTS
  N = 36
  Lens = {3}
  GenesisLen = 3
  Period = 3
  Starts = {2, 3}
  Timeouts = {8}
  MinActs = {0, 11}
  Thresholds <- ThrAll
  Coded = FALSE
  Queries = FALSE
  Emit = TRUE
INVARIANT TypeOK
INVARIANT EmitTree
CHECK_DEADLOCK FALSE
