------------------------------ MODULE PeerNet ------------------------------
(***************************************************************************)
(* Growth beyond the listed properties: the node's view of its PEERS.       *)
(*   network/src/peer_registry.rs      PeerRegistry::accept_peer,           *)
(*                                     try_evict_inbound_peer, remove_peer   *)
(*   network/src/peer_store/           PeerStore (connected peers, anchors), *)
(*                                     BanList, AddrManager (+ the four      *)
(*                                     fetch_* rules), peer_store_db         *)
(*   network/src/network.rs            NetworkController::ban / unban        *)
(*   rpc/src/module/net.rs             set_ban                               *)
(*                                                                         *)
(* Universe U (fixed per history): addresses 1..N; address a belongs to     *)
(* peer id U.peerOf[a] and has ip U.ipOf[a]; an ip i lies in the network     *)
(* group i \div U.gw (the code: the first two octets).  Configuration:       *)
(* U.white (peer ids), U.whiteOnly, U.maxIn, U.maxOut, U.noBR.               *)
(*                                                                         *)
(* What the module fixes (invariants + the action definitions the real code  *)
(* is validated against):                                                    *)
(*  - one session per session id and per peer id;                            *)
(*  - a peer that is not whitelisted is refused in whitelist-only mode, is   *)
(*    refused while its ip is covered by an unexpired ban, and counts        *)
(*    against max_inbound / max_outbound / the block-relay-only slots;       *)
(*  - a full inbound side evicts ONE inbound, not whitelisted peer that is   *)
(*    not protected: not among the Protect lowest pings, then not among the  *)
(*    Protect most recent senders, then not among the older half by          *)
(*    connection time; it comes from a largest network group of the rest;    *)
(*    ties (equal keys, equal group sizes, which member) are open;           *)
(*  - a ban lasts exactly until the instant asked for, covers every address  *)
(*    of the ip / the group, and removes the address from the address book;  *)
(*  - the address book answers get / count / iteration like a plain map;     *)
(*    a re-announced address keeps its record unless the new record is at    *)
(*    least as recently connected; the four fetch rules return a maximal     *)
(*    set of distinct-ip addresses that pass the rule's filter, at most the  *)
(*    number asked for; WHICH maximal set is open;                           *)
(*  - a dump followed by a load preserves the address book and the ban list; *)
(*    at most MaxBR anchors survive.                                         *)
(***************************************************************************)
EXTENDS Naturals, FiniteSets, Sequences, TLC
CONSTANTS Protect,        \* EVICTION_PROTECT_PEERS
          MaxBR,          \* MAX_OUTBOUND_BLOCK_RELAY
          AddrLimit,      \* ADDR_COUNT_LIMIT
          DefaultScore,
          DialInterval, Minute, TryTimeout, AddrTimeout,     \* seconds
          MaxRetries, MaxFailures
VARIABLES U, now, peers, seq, connected, anchors, bans, store, out
vars == <<U, now, peers, seq, connected, anchors, bans, store, out>>

INF == 1000000000
Monus(a, b) == IF a >= b THEN a - b ELSE 0
Drop(f, S) == [x \in DOMAIN f \ S |-> f[x]]
Put(f, k, v) == [x \in DOMAIN f \cup {k} |-> IF x = k THEN v ELSE f[x]]
Pid(a) == U.peerOf[a]
Ip(a) == U.ipOf[a]
Grp(i) == i \div U.gw

(* ----------------------------- ban list ----------------------------- *)
\* a network is <<"ip", i>> (one address) or <<"grp", g>> (the whole group g)
Covers(n, i) == IF n[1] = "ip" THEN n[2] = i ELSE Grp(i) = n[2]
IpBanned(i) == \E n \in DOMAIN bans : bans[n] > now /\ Covers(n, i)

(* --------------------------- peer registry --------------------------- *)
Sessions == DOMAIN peers
NW(ty) == {s \in Sessions : ~peers[s].wl /\ peers[s].ty = ty}
FreshInfo(lc, fl) == [score |-> DefaultScore, lc |-> lc, lt |-> 0, at |-> 0, fl |-> fl]

\* one protection round of try_evict_inbound_peer: the n members of C with the smallest key leave the candidates;
\* with at most n candidates nobody leaves (sort_then_drop); equal keys: any of them
DropBest(C, n, key(_)) ==
  IF Cardinality(C) <= n \/ n = 0 THEN {C}
  ELSE LET v == CHOOSE v \in {key(c) : c \in C} :
                   /\ Cardinality({c \in C : key(c) < v}) < n
                   /\ Cardinality({c \in C : key(c) <= v}) >= n
           sure == {c \in C : key(c) < v}
           tie == {c \in C : key(c) = v}
           k == n - Cardinality(sure)
       IN {C \ (sure \cup T) : T \in {T \in SUBSET tie : Cardinality(T) = k}}
KPing(s) == peers[s].ping
KAge(s) == peers[s].age
KConn(s) == peers[s].conn
LargestGroups(C) ==
  LET G(s) == Grp(Ip(peers[s].addr))
      size(s) == Cardinality({t \in C : G(t) = G(s)})
  IN {s \in C : \A t \in C : size(t) <= size(s)}
Evictable ==
  UNION { UNION { UNION { {LargestGroups(R3)} : R3 \in DropBest(R2, Cardinality(R2) \div 2, KConn) }
                  : R2 \in DropBest(R1, Protect, KAge) }
          : R1 \in DropBest(NW("in"), Protect, KPing) }
EvictableSet == UNION Evictable

Registered(s, a, ty, wl) ==
  /\ peers' = Put(peers, s, [addr |-> a, ty |-> ty, wl |-> wl, ping |-> INF, age |-> INF, conn |-> seq])
  /\ seq' = seq + 1
  /\ connected' = Put(connected, Pid(a), [addr |-> a, ty |-> ty])
Refuse(why) == out' = [op |-> "Accept", ret |-> why, ev |-> 0] /\ UNCHANGED <<peers, seq, connected, anchors>>

\* a session s to address a opens (raw = "in" | "out"); e = the session evicted for it (0: none)
Accept(a, s, raw, e) ==
  /\ UNCHANGED <<U, now, bans, store>>
  /\ IF s \in Sessions THEN Refuse("SessionExists") /\ e = 0
     ELSE IF \E t \in Sessions : Pid(peers[t].addr) = Pid(a) THEN Refuse("PeerIdExists") /\ e = 0
     ELSE IF Pid(a) \in U.white
          THEN /\ e = 0 /\ Registered(s, a, raw, TRUE) /\ anchors' = anchors
               /\ out' = [op |-> "Accept", ret |-> "ok", ev |-> 0]
     ELSE IF U.whiteOnly THEN Refuse("NonReserved") /\ e = 0
     ELSE IF IpBanned(Ip(a)) THEN Refuse("Banned") /\ e = 0
     ELSE IF raw = "in"
          THEN IF Cardinality(NW("in")) >= U.maxIn
               THEN IF EvictableSet = {} THEN Refuse("ReachMaxInboundLimit") /\ e = 0
                    ELSE /\ e \in EvictableSet
                         /\ peers' = Put(Drop(peers, {e}), s,
                                         [addr |-> a, ty |-> "in", wl |-> FALSE, ping |-> INF, age |-> INF, conn |-> seq])
                         /\ seq' = seq + 1
                         /\ connected' = Put(connected, Pid(a), [addr |-> a, ty |-> "in"])
                         /\ anchors' = anchors
                         /\ out' = [op |-> "Accept", ret |-> "ok", ev |-> e]
               ELSE /\ e = 0 /\ Registered(s, a, "in", FALSE) /\ anchors' = anchors
                    /\ out' = [op |-> "Accept", ret |-> "ok", ev |-> 0]
     ELSE IF Cardinality(NW("out")) >= U.maxOut
          THEN IF U.noBR \/ Cardinality(NW("br")) >= MaxBR
               THEN Refuse("ReachMaxOutboundLimit") /\ e = 0
               ELSE /\ e = 0 /\ Registered(s, a, "br", FALSE) /\ anchors' = anchors \cup {a}
                    /\ out' = [op |-> "Accept", ret |-> "ok", ev |-> 0]
          ELSE /\ e = 0 /\ Registered(s, a, "out", FALSE) /\ anchors' = anchors
               /\ out' = [op |-> "Accept", ret |-> "ok", ev |-> 0]

\* the session closes: the registry entry goes; the peer store forgets the peer id of that address
Disconnect(s) ==
  /\ s \in Sessions
  /\ peers' = Drop(peers, {s})
  /\ connected' = Drop(connected, {Pid(peers[s].addr)})
  /\ out' = [op |-> "Disconnect", ret |-> "ok", ev |-> 0]
  /\ UNCHANGED <<U, now, seq, anchors, bans, store>>
\* the close of an EVICTED session reaches the peer store later (the registry entry went at the eviction)
Closed(a) ==
  /\ ~\E s \in Sessions : Pid(peers[s].addr) = Pid(a)
  /\ connected' = Drop(connected, {Pid(a)})
  /\ out' = [op |-> "Closed", ret |-> "ok", ev |-> 0]
  /\ UNCHANGED <<U, now, peers, seq, anchors, bans, store>>
\* measurements that feed the eviction rule
SetPing(s, p) == /\ s \in Sessions /\ peers' = [peers EXCEPT ![s].ping = p]
                 /\ out' = [op |-> "SetPing", ret |-> "ok", ev |-> 0]
                 /\ UNCHANGED <<U, now, seq, connected, anchors, bans, store>>
SetAge(s, g) == /\ s \in Sessions /\ peers' = [peers EXCEPT ![s].age = g]
                /\ out' = [op |-> "SetAge", ret |-> "ok", ev |-> 0]
                /\ UNCHANGED <<U, now, seq, connected, anchors, bans, store>>
Tick(d) == /\ now' = now + d /\ out' = [op |-> "Tick", ret |-> "ok", ev |-> 0]
           /\ UNCHANGED <<U, peers, seq, connected, anchors, bans, store>>

(* ------------------------------- bans ------------------------------- *)
\* misbehaviour ban of one address for t seconds: its ip is banned until now + t, the address leaves the book.
\* Every insertion may sweep EXPIRED entries (the code does so at every 1024th): S, never a live one
Expired(b) == {n \in DOMAIN b : b[n] <= now}
BanAddr(a, t, S) ==
  /\ LET b1 == Put(bans, <<"ip", Ip(a)>>, now + t) IN
       /\ S \subseteq Expired(b1)
       /\ bans' = Drop(b1, S)
  /\ store' = Drop(store, {a})
  /\ out' = [op |-> "BanAddr", ret |-> "ok", ev |-> 0]
  /\ UNCHANGED <<U, now, peers, seq, connected, anchors>>
\* the operator's ban of a network UNTIL an instant (rpc set_ban -> NetworkController::ban)
BanUntil(n, until, S) ==
  /\ LET b1 == Put(bans, n, until) IN
       /\ S \subseteq Expired(b1)
       /\ bans' = Drop(b1, S)
  /\ out' = [op |-> "BanUntil", ret |-> "ok", ev |-> 0]
  /\ UNCHANGED <<U, now, peers, seq, connected, anchors, store>>
Unban(n) ==
  /\ bans' = Drop(bans, {n})
  /\ out' = [op |-> "Unban", ret |-> "ok", ev |-> 0]
  /\ UNCHANGED <<U, now, peers, seq, connected, anchors, store>>
ClearBans ==
  /\ bans' = <<>>
  /\ out' = [op |-> "ClearBans", ret |-> "ok", ev |-> 0]
  /\ UNCHANGED <<U, now, peers, seq, connected, anchors, store>>
\* expired entries may be swept at any time (every 1024th insertion); never an unexpired one
Sweep(S) ==
  /\ S \subseteq {n \in DOMAIN bans : bans[n] <= now}
  /\ bans' = Drop(bans, S)
  /\ out' = [op |-> "Sweep", ret |-> "ok", ev |-> 0]
  /\ UNCHANGED <<U, now, peers, seq, connected, anchors, store>>

(* --------------------------- address book --------------------------- *)
Book == DOMAIN store
Tried(i) == i.lt >= Monus(now, Minute)
Connectable(i) == \/ Tried(i)
                  \/ ~ \/ (i.lc = 0 /\ i.at >= MaxRetries)
                       \/ (Monus(now, i.lc) > AddrTimeout /\ i.at >= MaxFailures)
\* the record of a known address is replaced only by one connected at least as recently
Merge(a, info) == IF a \in Book /\ info.lc < store[a].lc THEN store ELSE Put(store, a, info)

\* the purge that precedes a discovered address when the book is full: R = what it removed
PurgeOK(R) ==
  LET dead == {a \in Book : ~Connectable(store[a])}
      G(a) == Grp(Ip(a))
      groups == {G(a) : a \in Book}
      size(g) == Cardinality({a \in Book : G(a) = g})
  IN IF dead # {} THEN R = dead
     ELSE \E top \in SUBSET groups :
            /\ Cardinality(top) = Cardinality(groups) \div 2
            /\ \A g \in top, h \in groups \ top : size(g) >= size(h)
            /\ \A g \in groups : LET r == {a \in R : G(a) = g} IN
                 IF g \in top /\ size(g) > 4 THEN Cardinality(r) = 2 ELSE r = {}
\* a discovered (not yet verified) address; R = removed by the purge; res = "ok" | "full"
AddAddr(a, fl, R, res) ==
  /\ UNCHANGED <<U, now, peers, seq, connected, anchors, bans>>
  /\ IF IpBanned(Ip(a)) THEN R = {} /\ res = "ok" /\ store' = store
     ELSE IF Cardinality(Book) < AddrLimit
          THEN R = {} /\ res = "ok" /\ store' = Merge(a, FreshInfo(0, fl))
     ELSE /\ R \subseteq Book /\ PurgeOK(R)
          /\ IF R = {} THEN res = "full" /\ store' = store
             ELSE /\ res = "ok"
                  /\ LET st1 == Drop(store, R) IN
                     store' = IF a \in DOMAIN st1 /\ 0 < st1[a].lc THEN st1 ELSE Put(st1, a, FreshInfo(0, fl))
  /\ out' = [op |-> "AddAddr", ret |-> res, ev |-> 0]
\* an address we connected to (outbound, after identify / feeler)
AddOutbound(a, fl) ==
  /\ store' = IF IpBanned(Ip(a)) THEN store ELSE Merge(a, FreshInfo(now, fl))
  /\ out' = [op |-> "AddOutbound", ret |-> "ok", ev |-> 0]
  /\ UNCHANGED <<U, now, peers, seq, connected, anchors, bans>>
Touch(a) ==
  /\ store' = IF IpBanned(Ip(a)) \/ a \notin Book THEN store ELSE [store EXCEPT ![a].lc = now]
  /\ out' = [op |-> "Touch", ret |-> "ok", ev |-> 0]
  /\ UNCHANGED <<U, now, peers, seq, connected, anchors, bans>>
MarkTried(a) ==
  /\ a \in Book
  /\ store' = [store EXCEPT ![a].lt = now, ![a].at = @ + 1]
  /\ out' = [op |-> "MarkTried", ret |-> "ok", ev |-> 0]
  /\ UNCHANGED <<U, now, peers, seq, connected, anchors, bans>>
MarkConnected(a) ==
  /\ a \in Book
  /\ store' = [store EXCEPT ![a].lc = now, ![a].at = 0]
  /\ out' = [op |-> "MarkConnected", ret |-> "ok", ev |-> 0]
  /\ UNCHANGED <<U, now, peers, seq, connected, anchors, bans>>
Remove(a) ==
  /\ store' = Drop(store, {a})
  /\ out' = [op |-> "Remove", ret |-> IF a \in Book THEN "some" ELSE "none", ev |-> 0]
  /\ UNCHANGED <<U, now, peers, seq, connected, anchors, bans>>

\* flags: sets of bit numbers; 0 COMPATIBILITY 1 DISCOVERY 2 SYNC 3 RELAY
FullNode == {1, 2, 3}
FlagsOK(req, t) == IF req = FullNode THEN req \subseteq t \/ 0 \in t ELSE req \subseteq t
NotConnected(a) == Pid(a) \notin DOMAIN connected
Rule(kind, req, a) ==
  LET i == store[a] IN
  CASE kind = "attempt" -> /\ NotConnected(a) /\ i.lc > Monus(now, TryTimeout) /\ i.lc <= Monus(now, DialInterval)
                           /\ FlagsOK(req, i.fl)
    [] kind = "feeler"  -> /\ NotConnected(a) /\ ~Tried(i) /\ ~(i.lc > Monus(now, TryTimeout))
    [] kind = "nat"     -> /\ FlagsOK(req, i.fl) /\ NotConnected(a) /\ i.lc = 0
    [] kind = "random"  -> /\ FlagsOK(req, i.fl) /\ i.lc > Monus(now, AddrTimeout)
Eligible(kind, req) == {a \in Book : Connectable(store[a]) /\ Rule(kind, req, a)}
\* the answer R to fetch_*(n, ..): distinct ips, all eligible, and maximal up to n
FetchOK(kind, req, n, R) ==
  /\ R \subseteq Eligible(kind, req)
  /\ \A a, b \in R : a # b => Ip(a) # Ip(b)
  /\ Cardinality(R) <= n
  /\ Cardinality(R) = n \/ \A a \in Eligible(kind, req) \ R : \E b \in R : Ip(b) = Ip(a)
Fetch(kind, req, n, R) ==
  /\ FetchOK(kind, req, n, R)
  /\ out' = [op |-> "Fetch", ret |-> "ok", ev |-> 0]
  /\ UNCHANGED <<U, now, peers, seq, connected, anchors, bans, store>>

(* ---------------------------- persistence ---------------------------- *)
\* dump_to_dir, process exit, load_from_dir_or_default: sessions are gone, the book and the bans are kept, at most
\* MaxBR anchors are kept (A)
Restart(A) ==
  /\ A \subseteq anchors /\ Cardinality(A) = (IF Cardinality(anchors) < MaxBR THEN Cardinality(anchors) ELSE MaxBR)
  /\ anchors' = A /\ peers' = <<>> /\ connected' = <<>>
  /\ out' = [op |-> "Restart", ret |-> "ok", ev |-> 0]
  /\ UNCHANGED <<U, now, seq, bans, store>>

(* ----------------------------- invariants ----------------------------- *)
OneSessionPerPeer == \A s, t \in Sessions : s # t => Pid(peers[s].addr) # Pid(peers[t].addr)
WithinLimits == /\ Cardinality(NW("in")) <= U.maxIn
                /\ Cardinality(NW("out")) <= U.maxOut
                /\ Cardinality(NW("br")) <= MaxBR
                /\ U.noBR => NW("br") = {}
WhitelistOnlyHolds == U.whiteOnly => \A s \in Sessions : peers[s].wl
WhitelistFlagRight == \A s \in Sessions : peers[s].wl = (Pid(peers[s].addr) \in U.white)
\* every session is known to the peer store (the converse waits for the close of evicted sessions)
RegistryInStore == \A s \in Sessions : Pid(peers[s].addr) \in DOMAIN connected
AnchorsAreBR == \A s \in NW("br") : peers[s].addr \in anchors
BookBounded == Cardinality(Book) <= AddrLimit
\* action property: nothing is admitted from a banned ip (checked on every Accept step)
NoBannedAdmitted ==
  [][\A s \in DOMAIN peers' \ DOMAIN peers :
        ~peers'[s].wl => ~IpBanned(Ip(peers'[s].addr))]_vars
\* action property: an eviction removes exactly one inbound, not whitelisted session, only at the limit
EvictionRight ==
  [][\A s \in DOMAIN peers \ DOMAIN peers' :
        out'.op = "Accept" => /\ peers[s].ty = "in" /\ ~peers[s].wl
                               /\ Cardinality(NW("in")) >= U.maxIn
                               /\ Cardinality(DOMAIN peers \ DOMAIN peers') = 1]_vars
=============================================================================
