------------------------------ MODULE ChainCoreX ------------------------------
(***************************************************************************)
(* Growth beyond C01: ChainCore.tla + expiry of the orphan pool.                              *)
(*   chain_service.rs     start_process_block: a 60 s tick of the ChainService thread calls    *)
(*   orphan_broker.rs     clean_expired_orphans: tip epoch from the STORE's tip header;         *)
(*   orphan_block_pool.rs clean_expired_blocks / need_clean: for every leader whose (first)      *)
(*                        child has  epoch(child) + EXPIRED_EPOCH < epoch(tip)  ALL descendants   *)
(*                        of the leader leave the pool; each is deleted from the store, its      *)
(*                        header-map entry and block status are removed, its callback is         *)
(*                        dropped unexecuted.                                                    *)
(* The extension is a separate module (additive: ChainCore.tla and its cfgs stay as they are):    *)
(* it adds the history variable `gone` (blocks dropped by expiry and not received again since),     *)
(* starts from a chain of `Prefix` valid blocks that is already attached (so that the tip can be   *)
(* several epochs ahead of an orphan with few blocks), and restricts the scenario to the family     *)
(*     main chain 1..Prefix (attached) + Extra more main blocks, a side branch L <- c <- d         *)
(*     (or d a sibling of c) rooted at a main block within reach,                                   *)
(* delivered in any order with duplicates, the tick at any moment the ChainService thread idles.    *)
(* Epoch of a block = its number \div EpochLen.                                                    *)
(***************************************************************************)
EXTENDS ChainCore
CONSTANTS EpochLen,    \* blocks per epoch
          Horizon,     \* EXPIRED_EPOCH (6 in the code)
          Prefix,      \* blocks 1..Prefix: a valid chain from genesis, attached before the scenario starts
          Extra,       \* further main-chain blocks Prefix+1..Prefix+Extra (delivered by the scenario)
          SideRoots    \* main-chain blocks (0..Prefix) the side branch may start from
ASSUME N >= Prefix + Extra + 1

VARIABLE gone
varsX == <<vars, gone>>

Number(b) == Cardinality(ChainOf(b)) - 1
Epoch(b) == Number(b) \div EpochLen

InitX == /\ parent = [b \in Blocks |-> IF b <= Prefix THEN b - 1 ELSE 0] /\ work = [b \in Blocks |-> 1] /\ ok = [b \in Blocks |-> "ok"]
         /\ minted = Prefix /\ sealed = FALSE
         /\ order = [i \in 1..Prefix |-> i] /\ rcvd = Prefix
         /\ stored = 0..Prefix /\ ext = [b \in All |-> IF b <= Prefix THEN "ok" ELSE "none"] /\ index = 0..Prefix /\ tip = Prefix
         /\ status = {} /\ orphans = {} /\ pending = {} /\ preQ = <<>> /\ verQ = <<>>
         /\ svc = Idle /\ vfy = Idle
         /\ replies = [b \in All |-> IF b \in 1..Prefix THEN [new |-> 1, dup |-> 0, err |-> 0] ELSE NoReply] /\ lost = [b \in All |-> 0]
         /\ gone = {}

\* the directed family
MintX == \E p \in 0..minted :
           /\ LET c == minted + 1 IN
              IF c <= Prefix + Extra THEN p = c - 1                       \* main chain continues
              ELSE IF c = Prefix + Extra + 1 THEN p \in SideRoots         \* L: first block of the side branch
              ELSE p > Prefix + Extra                                     \* c, d, ..: anywhere on the side branch
           /\ Mint(p, 1, "ok")

\* the timer tick of the ChainService thread
ExpiredLeaders == {l \in Leaders(orphans) : \E c \in orphans : parent[c] = l /\ Epoch(c) + Horizon < Epoch(tip)}
CleanExpired ==
  /\ svc = Idle /\ ExpiredLeaders # {}
  /\ LET D == UNION {Desc({l}, orphans) \ {l} : l \in ExpiredLeaders} IN
     /\ orphans' = orphans \ D /\ stored' = stored \ D
     /\ lost' = [b \in All |-> IF b \in D THEN lost[b] + 1 ELSE lost[b]]
     /\ gone' = gone \cup D
  /\ UNCHANGED <<scen, order, rcvd, ext, index, tip, status, pending, preQ, verQ, svc, vfy, replies>>

\* the core model's actions leave `gone` alone, except that a block that is received again is no longer "gone"
XMint == MintX /\ UNCHANGED gone
XSeal == Seal /\ UNCHANGED gone
XDeliver == (\E b \in All : Deliver(b)) /\ UNCHANGED gone
XReceive == Receive /\ gone' = gone \ {order[rcvd + 1]}
XInsert == Insert /\ UNCHANGED gone
XBroker == Broker /\ UNCHANGED gone
XRelease == (\E l \in All : ReleaseLeader(l)) /\ UNCHANGED gone
XPreload == Preload /\ UNCHANGED gone
XVerify == Verify /\ UNCHANGED gone
XVerifyDone == VerifyDone /\ UNCHANGED gone
NextX == XMint \/ XSeal \/ XDeliver \/ XReceive \/ XInsert \/ XBroker \/ XRelease \/ XPreload \/ XVerify \/ XVerifyDone \/ CleanExpired
SpecX == InitX /\ [][NextX]_varsX
FairSpecX == /\ SpecX
             /\ WF_varsX(XReceive) /\ WF_varsX(XInsert) /\ WF_varsX(XBroker) /\ WF_varsX(XRelease)
             /\ WF_varsX(XPreload) /\ WF_varsX(XVerify) /\ WF_varsX(XVerifyDone)
             /\ WF_varsX(CleanExpired)                                  \* the tick keeps coming

-----------------------------------------------------------------------------
\* blocks the node has and has not dropped
Kept == Received \ gone
ValidHeadX(c) == \A a \in ChainOf(c) \ {0} : a \in Kept /\ ok[a] = "ok"
BestTDX == LET S == {TD(c) : c \in {x \in Kept : ValidHeadX(x)} \cup {0}} IN CHOOSE m \in S : \A k \in S : k <= m
\* C01 with expiry: at rest the tip is the head of the heaviest valid chain among the blocks that were not expired
TipHeaviestValidX == Quiescent => (TD(tip) = BestTDX /\ (tip = 0 \/ ValidHeadX(tip)))
\* only groups beyond the retention horizon are dropped: an orphan whose pool root (the orphan next to the missing
\* ancestor) is at most Horizon epochs behind the tip survives every tick - and is therefore connected when the
\* missing ancestor arrives (TipHeaviestValidX, OrphansConnected)
RetainedWithinHorizon == [][\A b \in gone' \ gone : Epoch(PoolRoot(b)) + Horizon < Epoch(tip)]_varsX
\* what is gone is really gone, what is not gone is where the core model says it is
GoneConsistent == \A b \in gone : b \notin stored /\ b \notin orphans /\ b \notin pending /\ ext[b] = "none" /\ b \notin status
NeverLeaveTipForNotHeavierX == [][tip' # tip => TD(tip') > TD(tip)]_varsX
\* progress: judged, or waiting for the next block (ChainCore.tla), or the block / one of its ancestors was dropped by
\* expiry and has not been delivered again (the sync layer has to ask for it once more)
DroppedAbove(b) == \E a \in ChainOf(b) \ {0} : a \in gone
EventuallyJudgedX == \A b \in Blocks : Ready(b) ~> (Judged(b) \/ WaitsForNextBlock(b) \/ DroppedAbove(b))
EventuallyQuiescentX == <>[]Quiescent
\* the tick does its work: in the end nothing beyond the horizon is left in the pool
EventuallyCleaned == <>[](ExpiredLeaders = {})
=============================================================================
