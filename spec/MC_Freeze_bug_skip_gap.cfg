SPECIFICATION Spec
CONSTANTS
 EpochLen = 3
 InitTip = 8
 MaxTip = 11
 Limit = 2
 SideHeights <- Sides2
 LateSides <- Late1
 NoExt <- NoExt1
 MaxPasses = 2
 MaxCrashes = 1
 Bug = "skip_gap"
INVARIANT TypeOK
INVARIANT QueryUnchanged
INVARIANT SideAllOrNothing
INVARIANT NoMainChainBlockLost
INVARIANT OnlyAncientMoved
INVARIANT Contiguous
INVARIANT AtMostLimit
INVARIANT OnlySideChainRemoved
CHECK_DEADLOCK FALSE
