SPECIFICATION MCSpec
CONSTANTS
 MinLen = 2
 MaxLen = 8
 TargetDur = 16
 OrphanNum = 1
 OrphanDen = 4
 Tau = 2
 MsPerSec = 2
 InitialPrimary = 23
 Secondary = 13
 HalvingInterval = 2
 Base = 4
 MantDigits = 3
 WordDigits = 6
 PowTab <- MCPowTab
 TwoTab <- MCTwoTab
 NumberSpace = 8
 IndexSpace = 16
 MaxUncles = 2
 MaxMs = 70
 GenLens = {2, 3, 5, 8}
 GenCompacts = {416, 336, 296}
 GenRates = {0, 7, 40}
 MaxNumber = 2
 MaxRate = 300
CONSTRAINT Bound
INVARIANT TypeOK
INVARIANT LenOK
INVARIANT DiffNonZero
INVARIANT RewardsSumToEpoch
INVARIANT StepOK
PROPERTY EpochGapFree
CHECK_DEADLOCK FALSE
