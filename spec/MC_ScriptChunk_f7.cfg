SPECIFICATION MCSpec
CONSTANTS
 InitGroups <- Abs1
 Limits <- L12
 Budgets <- L12
 MaxChunks = 2
 Variant = "complete-ignores-suspended-group"
 Emit = FALSE
 WithSignal = TRUE
INVARIANT ChunkInvariance
INVARIANT BudgetExact
INVARIANT Accounting
INVARIANT EmitHist
CHECK_DEADLOCK FALSE
