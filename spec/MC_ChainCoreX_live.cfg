SPECIFICATION FairSpecX
CONSTANTS
  N = 8
  MaxWork = 1
  MaxDup = 0
  Verdicts = {"ok"}
  Heavy = 0
  PreFix = FALSE
  Emit = FALSE
  EpochLen = 1
  Horizon = 1
  Prefix = 3
  Extra = 2
  SideRoots = {0, 1}
INVARIANT TypeOK
PROPERTY EventuallyJudgedX
PROPERTY EventuallyQuiescentX
PROPERTY EventuallyCleaned
CHECK_DEADLOCK FALSE
