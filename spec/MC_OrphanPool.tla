--------------------------- MODULE MC_OrphanPool ---------------------------
(* Small constants for OrphanPool.tla.                                                             *)
(*  Depth = 0  exhaustive: every forest over N topologically numbered ids and two outside roots,   *)
(*           every epoch assignment, every interleaving of the operations (history not recorded).  *)
(*  Depth > 0  behaviours with a recorded history `hist`, printed at length Depth for replay on    *)
(*           the real OrphanBlockPool (run with -simulate).  With NoMixed = TRUE a CleanExpired is *)
(*           only taken when the specification determines its outcome (no leader with mixed        *)
(*           children), so that the recorded results are the only allowed ones.                    *)
EXTENDS OrphanPool, Json
CONSTANTS N, EpochSet, Tips, Depth, NoMixed
VARIABLE hist
mcvars == <<vars, hist>>

ParentMaps == {f \in [Ids -> Nodes] : \A b \in Ids : f[b] \in Roots \/ f[b] < b}

\* Depth = 0: all forests as initial states.  Depth > 0 (simulation): the forest is drawn at random by
\* the first step (TLC enumerates all initial states before simulating, a random first step is cheaper).
MCInit == /\ IF Depth = 0 THEN par \in ParentMaps /\ ep \in [Ids -> EpochSet]
             ELSE par = [b \in Ids |-> 0] /\ ep = [b \in Ids |-> 0]
          /\ Empty /\ hist = <<>>
Planted == Depth = 0 \/ out.op # "none"
DoPlant == /\ ~Planted
           /\ par' = [b \in Ids |-> RandomElement(Roots \cup {x \in Ids : x < b})]
           /\ ep' = [b \in Ids |-> RandomElement(EpochSet)]
           /\ out' = [out EXCEPT !.op = "Plant"]
           /\ UNCHANGED <<pool, blocks, parents, leaders, hist>>

\* Depth = 0: no history (exhaustive exploration); Depth > 0: record the history, stop at length Depth
Rec == IF Depth = 0 THEN UNCHANGED hist
       ELSE /\ Len(hist) < Depth
            /\ hist' = Append(hist, [op |-> out'.op, arg |-> out'.arg, ret |-> out'.ret,
                                     len |-> Cardinality(pool'), leaders |-> SetToSeq(leaders')])
DoInsert      == Planted /\ (\E b \in Ids : Insert(b)) /\ Rec
DoRelease     == Planted /\ (\E p \in Nodes : Release(p)) /\ Rec
DoReleaseHeld == Planted /\ (\E p \in Nodes : ReleaseHeld(p)) /\ Rec
DoClean       == /\ Planted
                 /\ \E t \in Tips : \E C \in SUBSET MayClean(t) :
                      /\ NoMixed => MustClean(t) = MayClean(t)
                      /\ CleanExpired(t, C)
                 /\ Rec
MCNext == DoPlant \/ DoInsert \/ DoRelease \/ DoReleaseHeld \/ DoClean
Spec == MCInit /\ [][MCNext]_mcvars

EmitBeh == (Len(hist) = Depth) => PrintT(<<"BEH", ToJson([par |-> par, ep |-> ep, steps |-> hist])>>)
=============================================================================
