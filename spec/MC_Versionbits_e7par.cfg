SPECIFICATION Spec
CONSTANTS
  N = 7
  Lens = {1}
  GenesisLen = 1
  Period = 2
  Starts = {0, 1, 2, 3}
  Timeouts = {3, 5}
  MinActs = {0, 7}
  Thresholds <- ThrAll
  Coded = FALSE
  Queries = FALSE
  Emit = TRUE
INVARIANT TypeOK
INVARIANT EmitTree
CHECK_DEADLOCK FALSE
