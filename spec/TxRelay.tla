------------------------------ MODULE TxRelay ------------------------------
(***************************************************************************)
(* Growth beyond the listed properties (DESIGN 3.7 item 3): the remote       *)
(* submission path as a composition                                          *)
(*   submit_remote_tx -> verify queue -> worker -> pool / orphan pool        *)
(*   -> process_orphan_tx (release of the children of an admitted tx).       *)
(*                                                                         *)
(* Universe: transactions 1..N, ins[t] = out-points <<creator, index>>       *)
(* (creator 0 = a live cell of the chain), nout[t]; no two transactions      *)
(* spend the same out-point (conflicts are C11's subject).                   *)
(* State: `pooled` (admitted to the pool), `orph` (waiting in the orphan     *)
(* pool).  Deliver(t) is one remote submission processed to the end: the     *)
(* release is written as the breadth-first walk of process_orphan_tx (only   *)
(* the children of a just admitted transaction are re-examined).             *)
(* The property is stated independently of the walk: after every delivery    *)
(*   pooled = the delivered transactions all of whose ancestors (through     *)
(*            spendable outputs) were delivered,                              *)
(*   orph   = the other delivered ones -                                      *)
(* a child is admitted exactly when its last missing parent arrives.         *)
(* `notes` collects what the relayer is told: "ok" once per admitted tx,     *)
(* "unknown" when a tx becomes an orphan, never a "reject" (in this          *)
(* conflict-free universe).                                                  *)
(***************************************************************************)
EXTENDS Naturals, FiniteSets, Sequences, TLC
VARIABLES ins, nout, delivered, pooled, orph, notes
vars == <<ins, nout, delivered, pooled, orph, notes>>
Txs == DOMAIN ins
Available(o, P) == o[1] = 0 \/ (o[1] \in P /\ o[2] < nout[o[1]])
Ready(t, P) == \A o \in ins[t] : Available(o, P)
ChildrenOf(t, S) == {x \in S : \E o \in ins[x] : o[1] = t /\ o[2] < nout[t]}

\* process_orphan_tx(t): queue = sequence of admitted transactions still to be expanded
RECURSIVE Walk(_, _, _, _)
Walk(queue, P, O, oks) ==
  IF queue = <<>> THEN [pooled |-> P, orph |-> O, oks |-> oks]
  ELSE LET prev == Head(queue)
           kids == ChildrenOf(prev, O)
           \* the children are examined one after the other; an admitted one may make a later sibling ready
           RECURSIVE Each(_, _, _, _, _)
           Each(K, P1, O1, q1, ok1) ==
             IF K = {} THEN Walk(q1, P1, O1, ok1)
             ELSE LET x == CHOOSE x \in K : \A y \in K : x <= y
                  IN IF Ready(x, P1) THEN Each(K \ {x}, P1 \cup {x}, O1 \ {x}, Append(q1, x), Append(ok1, x))
                     ELSE Each(K \ {x}, P1, O1, q1, ok1)
       IN Each(kids, P, O, Tail(queue), oks)

Init0 == delivered = {} /\ pooled = {} /\ orph = {} /\ notes = <<>>
Deliver(t) ==
  /\ delivered' = delivered \cup {t}
  /\ IF t \in pooled \cup orph
     THEN UNCHANGED <<pooled, orph>> /\ notes' = <<>>                   \* duplicate: refused before the queue
     ELSE IF ~Ready(t, pooled)
     THEN orph' = orph \cup {t} /\ pooled' = pooled /\ notes' = <<[k |-> "unknown", t |-> t]>>
     ELSE LET w == Walk(<<t>>, pooled \cup {t}, orph, <<t>>)
          IN /\ pooled' = w.pooled /\ orph' = w.orph
             /\ notes' = [i \in 1..Len(w.oks) |-> [k |-> "ok", t |-> w.oks[i]]]
  /\ UNCHANGED <<ins, nout>>

-----------------------------------------------------------------------------
\* the declarative side: least fixed point of "all inputs available" over the delivered set
RECURSIVE Grow(_)
Grow(P) == LET more == {t \in delivered \ P : Ready(t, P)} IN IF more = {} THEN P ELSE Grow(P \cup more)
Admissible == Grow({})
AdmittedExact == pooled = Admissible
OrphansExact == orph = delivered \ pooled
OkOnce == \A i, j \in 1..Len(notes) : (i # j /\ notes[i].k = "ok" /\ notes[j].k = "ok") => notes[i].t # notes[j].t
NoConflicts == \A a, b \in Txs : a # b => ins[a] \cap ins[b] = {}
=============================================================================
