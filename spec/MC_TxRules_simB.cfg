SPECIFICATION Spec
CONSTANTS
  L = 3
  WClose = 1
  WFar = 2
  K = 4
  Maturity = 2
  MaxCycles = 29
  GroupCycles = 10
  Rfc0028 = TRUE
  NBlocks = 9
  TsSteps = {1, 2, 3}
  ForceT = FALSE
  Emit = TRUE
INVARIANT EmitCtx
CHECK_DEADLOCK FALSE
