--------------------------- MODULE EconomicsArith ---------------------------
(***************************************************************************)
(* C06 - the arithmetic of issuance accounting (RFC 0015 / RFC 0023):        *)
(* fee split, miner share of secondary issuance, the DAO field accumulate    *)
(* rule (AR, C, S, U), NervosDAO withdraw amount.  Pure operators, exact     *)
(* integers, Apalache-typed (comments for TLC); used by Economics.tla (TLC,  *)
(* scaled amounts) and spec/apa/Economics_A.tla (real magnitude).            *)
(***************************************************************************)
EXTENDS Integers

CONSTANTS
  \* @type: Int;
  RatioNum,      \* proposer share of a fee = floor(fee * RatioNum / RatioDen)   (4)
  \* @type: Int;
  RatioDen       \*                                                              (10)

\* the committer's share is what is left of the fee: the two shares always sum to the fee
\* @type: (Int) => Int;
ProposerShare(fee) == (fee * RatioNum) \div RatioDen
\* @type: (Int) => Int;
CommitterShare(fee) == fee - ProposerShare(fee)

\* secondary issuance g2 of a block is split by the ratio occupied / total of the PARENT's DAO field:
\* the miner gets floor(g2 * U / C), NervosDAO depositors (and the treasury) the rest
\* @type: (Int, Int, Int) => Int;
MinerSecondary(g2, parU, parC) == (g2 * parU) \div parC

\* DAO field of a block from its parent's field (ar, c, s, u):
\*   g  = primary + secondary issuance of the block (scheduled amounts, not what its cellbase pays)
\*   added / freed = occupied capacity of the cells the block creates / consumes, interest = NervosDAO interest withdrawn
\* @type: ({ar: Int, c: Int, s: Int, u: Int}, Int, Int, Int, Int, Int) => {ar: Int, c: Int, s: Int, u: Int};
DaoNext(par, primary, g2, added, freed, interest) ==
  [ ar |-> par.ar + ((par.ar * g2) \div par.c),
    c  |-> par.c + primary + g2,
    s  |-> par.s + (g2 - MinerSecondary(g2, par.u, par.c)) - interest,
    u  |-> par.u + added - freed ]

\* NervosDAO withdrawal: the counted (= free) capacity grows with the accumulated rate, the occupied part does not
\* @type: (Int, Int, Int, Int) => Int;
WithdrawAmount(capacity, occupied, arDeposit, arWithdraw) ==
  (((capacity - occupied) * arWithdraw) \div arDeposit) + occupied

\* a cellbase pays the reward unless the reward cannot pay for the cell that would hold it
\* @type: (Int, Int) => Int;
CellbasePays(reward, cellOccupied) == IF reward < cellOccupied THEN 0 ELSE reward
=============================================================================
