SPECIFICATION Spec
CONSTANTS
  L = 3
  WClose = 1
  WFar = 1
  K = 3
  Maturity = 2
  MaxCycles = 20
  GroupCycles = 10
  Rfc0028 = FALSE
  NBlocks = 4
  TsSteps = {1, 3}
  ForceT = FALSE
  Emit = FALSE
INVARIANT ContextTxsValid
INVARIANT PoolSound
INVARIANT EmitCtx
CHECK_DEADLOCK FALSE
