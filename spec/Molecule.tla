------------------------------ MODULE Molecule ------------------------------
(***************************************************************************)
(* The molecule serialisation rules (github.com/nervosnetwork/molecule,    *)
(* docs/encoding_spec.md), written as an executable oracle: canonical       *)
(* encoding Enc, well-formedness WF (strict and "compatible"), decoding Dec *)
(* and the positions of all header words of an encoding (Words).            *)
(*                                                                         *)
(* The SCHEMA is data (CONSTANT Schema: type name -> descriptor, generated  *)
(* from the .mol files by bin/molgen into CkbSchema.tla).  Kinds:           *)
(*   byte              one byte                                             *)
(*   array  [T; n]     n items of fixed size, concatenated                  *)
(*   struct {f: T..}   fields of fixed size, concatenated                   *)
(*   fixvec <T>        item count (u32 LE), then the fixed-size items       *)
(*   dynvec <T>        total size, one offset per item, then the items      *)
(*   table  {f: T..}   total size, one offset per field, then the fields    *)
(*   option (T)        nothing, or the item                                 *)
(*   union  {T: id..}  item id (u32 LE), then the item                      *)
(*                                                                         *)
(* Values: byte = 0..255; array/struct/table/fixvec/dynvec = sequence of    *)
(* item values (positional); option = <<>> or <<v>>; union = <<id, v>>.     *)
(* Encodings: sequences of 0..255.                                          *)
(*                                                                         *)
(* TLC integers are 32 bit: a header word is read by Num, which maps every  *)
(* word >= 2^24 to BIG ("larger than any buffer of the model").  Every rule *)
(* below compares words with buffer lengths only, so this is exact for      *)
(* buffers shorter than 2^24 bytes.                                         *)
(***************************************************************************)
EXTENDS Naturals, Sequences
CONSTANT Schema

BIG == 16777216
\* TLC keeps [i \in S |-> e] as an unevaluated lambda and re-evaluates e at every application; Tup forces it
\* into a concrete tuple once (semantically the identity on sequences)
Tup(f) == f \o <<>>
Kind(t) == IF t = "byte" THEN "byte" ELSE Schema[t].k
Le32(n) == <<n % 256, (n \div 256) % 256, (n \div 65536) % 256, (n \div 16777216) % 256>>
\* the word at 1-based position p of b (needs p + 3 <= Len(b))
Num(b, p) == IF b[p + 3] # 0 THEN BIG ELSE b[p] + 256 * b[p + 1] + 65536 * b[p + 2]
Slice(b, from, to) == SubSeq(b, from + 1, to)          \* 0-based half-open [from, to), like the Rust slices

RECURSIVE Flatten(_)
Flatten(ss) == IF ss = <<>> THEN <<>> ELSE Head(ss) \o Flatten(Tail(ss))
RECURSIVE SumLen(_, _)
SumLen(ss, k) == IF k = 0 THEN 0 ELSE Len(ss[k]) + SumLen(ss, k - 1)     \* total length of ss[1..k]

IsFixed(t) == Kind(t) \in {"byte", "array", "struct"}
RECURSIVE FixedSize(_)
RECURSIVE SumFixed(_, _)
SumFixed(ts, k) == IF k = 0 THEN 0 ELSE FixedSize(ts[k]) + SumFixed(ts, k - 1)
FixedSize(t) == IF t = "byte" THEN 1
                ELSE IF Schema[t].k = "array" THEN Schema[t].n * FixedSize(Schema[t].item)
                ELSE SumFixed(Schema[t].fields, Len(Schema[t].fields))      \* struct

UnionIndex(t, id) == CHOOSE i \in 1..Len(Schema[t].ids) : Schema[t].ids[i] = id
UnionItemType(t, id) == Schema[t].fields[UnionIndex(t, id)]
UnionHasId(t, id) == \E i \in 1..Len(Schema[t].ids) : Schema[t].ids[i] = id

-----------------------------------------------------------------------------
(* Canonical encoding *)

\* total size word, one offset word per part, the parts
DynLayout(parts) ==
  LET n == Len(parts)
      hdr == 4 * (n + 1)
  IN Le32(hdr + SumLen(parts, n)) \o Flatten(Tup([i \in 1..n |-> Le32(hdr + SumLen(parts, i - 1))])) \o Flatten(parts)

\* (arrays and vectors OF BYTES are handled without a per-byte recursion: their value is the byte string itself)
RECURSIVE Enc(_, _)
Enc(t, v) ==
  IF t = "byte" THEN <<v>> ELSE
  LET d == Schema[t] kd == d.k IN
  CASE kd = "array"  -> IF d.item = "byte" THEN v ELSE Flatten(Tup([i \in 1..d.n |-> Enc(d.item, v[i])]))
    [] kd = "struct" -> Flatten(Tup([i \in 1..Len(d.fields) |-> Enc(d.fields[i], v[i])]))
    [] kd = "fixvec" -> IF d.item = "byte" THEN Le32(Len(v)) \o v
                        ELSE Le32(Len(v)) \o Flatten(Tup([i \in 1..Len(v) |-> Enc(d.item, v[i])]))
    [] kd = "dynvec" -> DynLayout(Tup([i \in 1..Len(v) |-> Enc(d.item, v[i])]))
    [] kd = "table"  -> DynLayout(Tup([i \in 1..Len(d.fields) |-> Enc(d.fields[i], v[i])]))
    [] kd = "option" -> IF v = <<>> THEN <<>> ELSE Enc(d.item, v[1])
    [] kd = "union"  -> Le32(v[1]) \o Enc(UnionItemType(t, v[1]), v[2])

-----------------------------------------------------------------------------
(* Well-formedness.  compatible = TRUE is the forward-compatible reading: a table may carry MORE    *)
(* fields than the schema declares (their bytes are not interpreted); everything else is unchanged. *)

\* b (>= 8 bytes, total-size word already checked) starts with a header of offsets:
\* first offset a multiple of 4, >= 8 and inside b; offsets non-decreasing and <= Len(b)
HeaderCount(b) == Num(b, 5) \div 4 - 1
Offset(b, i) == IF i = HeaderCount(b) + 1 THEN Len(b) ELSE Num(b, 4 * i + 1)      \* i-th part is [Offset(i), Offset(i+1))
HeaderOK(b) ==
  LET first == Num(b, 5)
  IN /\ first % 4 = 0 /\ first >= 8 /\ first <= Len(b)
     /\ \A i \in 1..HeaderCount(b) : Offset(b, i) <= Offset(b, i + 1)
Part(b, i) == Slice(b, Offset(b, i), Offset(b, i + 1))

RECURSIVE WF(_, _, _)
WF(t, b, compatible) ==
  LET kd == Kind(t) IN
  CASE kd \in {"byte", "array", "struct"} -> Len(b) = FixedSize(t)
    [] kd = "fixvec" ->
         /\ Len(b) >= 4
         /\ LET n == Num(b, 1) IN n <= Len(b) /\ Len(b) = 4 + n * FixedSize(Schema[t].item)
    [] kd = "dynvec" ->
         /\ Len(b) >= 4 /\ Num(b, 1) = Len(b)
         /\ \/ Len(b) = 4                                                   \* the empty vector
            \/ /\ Len(b) >= 8 /\ HeaderOK(b)
               /\ \A i \in 1..HeaderCount(b) : WF(Schema[t].item, Part(b, i), compatible)
    [] kd = "table" ->
         LET nf == Len(Schema[t].fields) IN
         /\ Len(b) >= 4 /\ Num(b, 1) = Len(b)
         /\ IF Len(b) = 4 THEN nf = 0                                        \* only a table without fields is 4 bytes
            ELSE /\ Len(b) >= 8 /\ HeaderOK(b)
                 /\ IF compatible THEN HeaderCount(b) >= nf ELSE HeaderCount(b) = nf
                 /\ \A i \in 1..nf : WF(Schema[t].fields[i], Part(b, i), compatible)
    [] kd = "option" -> b = <<>> \/ WF(Schema[t].item, b, compatible)
    [] kd = "union" ->
         /\ Len(b) >= 4
         /\ UnionHasId(t, Num(b, 1))
         /\ WF(UnionItemType(t, Num(b, 1)), Slice(b, 4, Len(b)), compatible)

-----------------------------------------------------------------------------
(* Decoding (defined on well-formed encodings; in compatible mode the extra fields are dropped) *)
RECURSIVE Dec(_, _)
RECURSIVE DecFixedSeq(_, _, _)
\* decode the fixed-size types ts[k..] laid out back to back in b starting at 0-based offset `at`
DecFixedSeq(ts, b, at) ==
  IF ts = <<>> THEN <<>>
  ELSE <<Dec(Head(ts), Slice(b, at, at + FixedSize(Head(ts))))>> \o DecFixedSeq(Tail(ts), b, at + FixedSize(Head(ts)))
Dec(t, b) ==
  IF t = "byte" THEN b[1] ELSE
  LET d == Schema[t] kd == d.k IN
  CASE kd = "array"  -> IF d.item = "byte" THEN b ELSE DecFixedSeq(Tup([i \in 1..d.n |-> d.item]), b, 0)
    [] kd = "struct" -> DecFixedSeq(d.fields, b, 0)
    [] kd = "fixvec" -> IF d.item = "byte" THEN Slice(b, 4, Len(b)) ELSE DecFixedSeq(Tup([i \in 1..Num(b, 1) |-> d.item]), b, 4)
    [] kd = "dynvec" -> IF Len(b) = 4 THEN <<>> ELSE Tup([i \in 1..HeaderCount(b) |-> Dec(d.item, Part(b, i))])
    [] kd = "table"  -> Tup([i \in 1..Len(d.fields) |-> Dec(d.fields[i], Part(b, i))])
    [] kd = "option" -> IF b = <<>> THEN <<>> ELSE <<Dec(d.item, b)>>
    [] kd = "union"  -> <<Num(b, 1), Dec(UnionItemType(t, Num(b, 1)), Slice(b, 4, Len(b)))>>

\* number of fields beyond the declared ones that a compatible table carries
ExtraFields(t, b) == IF Len(b) = 4 THEN 0 ELSE HeaderCount(b) - Len(Schema[t].fields)

-----------------------------------------------------------------------------
(* Positions (0-based byte offsets) of every header word of the canonical encoding of v: total-size *)
(* words, offsets, item counts, union ids -- at every nesting depth.  Used to enumerate single-word  *)
(* corruptions.  Each entry is <<position, role>>.                                                   *)
RECURSIVE Words(_, _, _)
RECURSIVE WordsOfParts(_, _, _, _)
\* ts: types of the parts, vs: their values, at: offset of the first part
WordsOfParts(ts, vs, at, k) ==
  IF k > Len(ts) THEN <<>>
  ELSE Words(ts[k], vs[k], at) \o WordsOfParts(ts, vs, at + Len(Enc(ts[k], vs[k])), k + 1)
Words(t, v, at) ==
  CASE Kind(t) = "byte" -> <<>>
    [] Kind(t) = "array"  -> <<>>
    [] Kind(t) = "struct" -> <<>>
    [] Kind(t) = "fixvec" -> << <<at, "count">> >>
    [] Kind(t) = "dynvec" ->
         LET n == Len(v) ts == Tup([i \in 1..n |-> Schema[t].item])
         IN << <<at, "total">> >> \o Tup([i \in 1..n |-> <<at + 4 * i, "offset">>]) \o WordsOfParts(ts, v, at + 4 * (n + 1), 1)
    [] Kind(t) = "table" ->
         LET ts == Schema[t].fields n == Len(ts)
         IN << <<at, "total">> >> \o Tup([i \in 1..n |-> <<at + 4 * i, "offset">>]) \o WordsOfParts(ts, v, at + 4 * (n + 1), 1)
    [] Kind(t) = "option" -> IF v = <<>> THEN <<>> ELSE Words(Schema[t].item, v[1], at)
    [] Kind(t) = "union"  -> << <<at, "id">> >> \o Words(UnionItemType(t, v[1]), v[2], at + 4)

\* b with the word at 0-based position p replaced by the 4 bytes w
SetWord(b, p, w) == SubSeq(b, 1, p) \o w \o SubSeq(b, p + 5, Len(b))
=============================================================================
