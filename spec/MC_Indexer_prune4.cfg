SPECIFICATION MCSpecWalk
CONSTANTS
 TxDef <- MCTxDef
 GenesisBlock <- MCGenesis
 CbFrom = 3
 CbOut <- MCCbOut
 NoScript = "none"
 MaxBlocks = 4
 MaxBody = 1
 BodyOK <- Ascending
 Raw <- MCRaw
 QueryScripts <- MCQueryScripts
 KeepNum = 1
 PruneInterval = 1
 AliasBug = FALSE
 Emit = FALSE
INVARIANT LedgerTypeOK
INVARIANT TipOK
INVARIANT AnswersAreFilters
INVARIANT FilteredAnswers
PROPERTY RollbackInverts
CHECK_DEADLOCK FALSE
