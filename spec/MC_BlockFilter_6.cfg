SPECIFICATION Spec
CONSTANTS
 MaxBlocks = 6
 Works = {1}
 LiveReads = FALSE
CONSTRAINT OneSpend
INVARIANT FilterComplete
INVARIANT FilterHashChained
INVARIANT NoPanic
INVARIANT CaughtUp
CHECK_DEADLOCK FALSE
