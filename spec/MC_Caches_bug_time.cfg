SPECIFICATION Spec
CONSTANTS
 SinceAt = 6
 KeyByTxHash = FALSE
 SkipTimeOnHit = TRUE
 SkipMaturityOnHit = FALSE
 InvalidateOnDelete = TRUE
 Warm = FALSE
 Emit = FALSE
INVARIANT TypeOK
INVARIANT CacheTransparent
INVARIANT EmitHist
CHECK_DEADLOCK FALSE
