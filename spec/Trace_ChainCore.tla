--------------------------- MODULE Trace_ChainCore ---------------------------
(* Trace validation (T binding of C01): the events recorded by the H2 hooks of ckb-chain (chain/src/verif.rs;     *)
(* chain_service.rs, orphan_broker.rs, preload_unverified_blocks_channel.rs, verify.rs) while `c01 trace` runs      *)
(* scenarios on a real node must be a behaviour of ChainCore.tla; every invariant is evaluated after every event.   *)
(* While recording, each emitting critical section runs under one global lock (verif::section), so the recorded     *)
(* order is a linearization at the granularity of the specification's actions.                                      *)
EXTENDS ChainCore, Json, IOUtils, TLCExt
Rec == ndJsonDeserialize(IOEnv.TRACE)
VARIABLE l
tvars == <<vars, l>>
TInit == Init /\ l = 1
Ev == Rec[l]
Is(e) == l <= Len(Rec) /\ Ev.ev = e /\ l' = l + 1

\* a new scenario on a node that is back at genesis: tree, work and verdicts are constants of the scenario
TReset ==
  /\ Is("Reset")
  /\ parent' = [b \in Blocks |-> Ev.parent[b]] /\ work' = [b \in Blocks |-> Ev.work[b]] /\ ok' = [b \in Blocks |-> Ev.ok[b]]
  /\ minted' = Ev.n /\ sealed' = TRUE
  /\ order' = <<>> /\ rcvd' = 0
  /\ stored' = {0} /\ ext' = [b \in All |-> IF b = 0 THEN "ok" ELSE "none"] /\ index' = {0} /\ tip' = 0
  /\ status' = {} /\ orphans' = {} /\ pending' = {} /\ preQ' = <<>> /\ verQ' = <<>>
  /\ svc' = Idle /\ vfy' = Idle
  /\ replies' = [b \in All |-> NoReply] /\ lost' = [b \in All |-> 0]

TDeliver == Is("Deliver") /\ Deliver(Ev.b)
TReceive == /\ Is("Receive") /\ Receive /\ order[rcvd + 1] = Ev.b
            /\ CASE Ev.res = "genesis" -> Ev.b = 0
                 [] Ev.res = "bad_nc"  -> Ev.b \in status' /\ svc' = Idle
                 [] Ev.res = "pass"    -> svc'.pc = "insert"
TInsert  == Is("Insert") /\ Insert /\ svc.b = Ev.b /\ ~svc.conflict
TInsertFail == Is("InsertFail") /\ Insert /\ svc.b = Ev.b /\ svc.conflict
TBroker  == /\ Is("Broker") /\ Broker /\ svc.b = Ev.b
            /\ CASE Ev.dec = "pending" -> Ev.b \in pending' /\ Len(preQ') = Len(preQ) + 1
                 [] Ev.dec = "invalid" -> Ev.b \in status' /\ Ev.b \notin stored'
                 [] Ev.dec = "orphan"  -> Ev.b \in orphans'
TRelease == /\ Is("Release") /\ ReleaseLeader(Ev.l)
            /\ CASE Ev.kind = "none"    -> UNCHANGED <<orphans, pending, preQ, status>>
                 [] Ev.kind = "invalid" -> status' = status \cup Range(Ev.rel) /\ orphans' = orphans \ Range(Ev.rel)
                 [] Ev.kind = "accept"  -> preQ' = preQ \o Ev.rel /\ orphans' = orphans \ Range(Ev.rel)
TPreload == Is("Preload") /\ Preload /\ Head(preQ) = Ev.b /\ PreloadOK
TPreloadReject == Is("PreloadReject") /\ Preload /\ Head(preQ) = Ev.b /\ ~PreloadOK
TVerify  == /\ Is("Verify") /\ Verify /\ Head(verQ) = Ev.b
            /\ vfy'.res = Ev.res /\ tip' = Ev.tip
TVerifyDone == Is("VerifyDone") /\ VerifyDone /\ vfy.b = Ev.b
TNext == TReset \/ TDeliver \/ TReceive \/ TInsert \/ TInsertFail \/ TBroker \/ TRelease \/ TPreload \/ TPreloadReject \/ TVerify \/ TVerifyDone
TSpec == TInit /\ [][TNext]_tvars
\* the action property of C01, exempting the harness's reset of the node between scenarios
TNeverLeave == [][(tip' # tip /\ l <= Len(Rec) /\ Rec[l].ev # "Reset") => TD(tip') > TD(tip)]_tvars
Accepted == LET d == TLCGet("stats").diameter IN
            IF d - 1 = Len(Rec) THEN TRUE
            ELSE Print(<<"TRACE-REJECTED", d, Rec[d]>>, FALSE)
=============================================================================
