SPECIFICATION HSpecWalk
CONSTANTS
 TxDef <- MCTxDef
 GenesisBlock <- MCGenesis
 CbFrom = 3
 CbOut <- MCCbOut
 NoScript = "none"
 MaxBlocks = 3
 MaxBody = 2
 BodyOK <- Ascending
 Raw <- MCRaw
 QueryScripts <- MCQueryScripts
 KeepNum = 10
 PruneInterval = 1
 AliasBug = FALSE
 Emit = TRUE
 HistLen = 8
INVARIANT EmitHist
CHECK_DEADLOCK FALSE
