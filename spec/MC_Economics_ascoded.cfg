SPECIFICATION MCSpec
CONSTANTS
 RatioNum = 4
 RatioDen = 10
 WClose = 1
 WFar = 2
 Txs = {1, 2}
 MaxLen = 6
 MaxProposals = 3
 Emit = FALSE
 Clip = TRUE
INVARIANT Valid
INVARIANT Shares
INVARIANT Conserved
INVARIANT WalkOK
INVARIANT EmitChain
CHECK_DEADLOCK FALSE
