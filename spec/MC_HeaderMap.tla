---------------------------- MODULE MC_HeaderMap ----------------------------
(* Small constants for HeaderMap.tla.  Depth = 0: exhaustive (history not recorded).  Depth > 0: the history *)
(* is recorded and printed at length Depth for replay on the real HeaderMap (run with -simulate).          *)
EXTENDS HeaderMap, Json
CONSTANTS Keys, Vals, Limits, Depth
VARIABLE hist
mcvars == <<vars, hist>>
MCInit == (\E L \in Limits : Start(L)) /\ hist = <<>>
Rec(k, v) == IF Depth = 0 THEN UNCHANGED hist
             ELSE /\ Len(hist) < Depth
                  /\ hist' = Append(hist, [op |-> out'.op, k |-> k, v |-> v, exp |-> out'.exp, spilled |-> out'.spilled])
DoInsert   == \E k \in Keys, v \in Vals : Insert(k, v) /\ Rec(k, v)
DoGet      == \E k \in Keys : Get(k) /\ Rec(k, 0)
DoContains == \E k \in Keys : Contains(k) /\ Rec(k, 0)
DoRemove   == \E k \in Keys : Remove(k) /\ Rec(k, 0)
DoSpill    == Spill /\ Rec(0, 0)
MCNext == DoInsert \/ DoGet \/ DoContains \/ DoRemove \/ DoSpill
Spec == MCInit /\ [][MCNext]_mcvars
EmitBeh == (Len(hist) = Depth) => PrintT(<<"BEH", ToJson([limit |-> limit, steps |-> hist])>>)
=============================================================================
