SPECIFICATION Spec
CONSTANTS
 Schema <- CkbSchema
 MaxWords = 4
 WordLows = {0, 1, 2, 4, 5, 8, 12, 16, 20}
 HighWord = TRUE
 OddByte = 7
 DoEmit = TRUE
INVARIANT CanonOK
INVARIANT ModesOK
INVARIANT Emit
CHECK_DEADLOCK FALSE
