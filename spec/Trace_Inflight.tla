--------------------------- MODULE Trace_Inflight ---------------------------
(* Trace validation: an ndjson trace recorded from the real InflightBlocks (c17 inflight-drive, or the  *)
(* real events of a replayed TLC behaviour) must be a behaviour of Inflight.tla.  Every event carries   *)
(* the complete observable state after the operation (model time = real time - BASE); the eviction set  *)
(* of Prune and the adapted `low` are the two policy outcomes the specification leaves open: they are   *)
(* read from the event.  All invariants are evaluated after every event.                               *)
EXTENDS Inflight, Json, IOUtils, TLCExt
Rec == ndJsonDeserialize(IOEnv.TRACE)
VARIABLE l
tvars == <<vars, l>>
Ev == Rec[l]
Is(e) == l <= Len(Rec) /\ Ev.ev = e /\ l' = l + 1
SeqRange(s) == {s[i] : i \in 1..Len(s)}
StOf(a)  == [b \in {a[i].b : i \in 1..Len(a)} |->
               LET i == CHOOSE i \in 1..Len(a) : a[i].b = b IN [peer |-> a[i].peer, ts |-> a[i].ts]]
ScOf(a)  == [p \in {a[i].p : i \in 1..Len(a)} |->
               LET i == CHOOSE i \in 1..Len(a) : a[i].p = p IN SeqRange(a[i].hashes)]
TrOf(a)  == [b \in {a[i].b : i \in 1..Len(a)} |->
               LET i == CHOOSE i \in 1..Len(a) : a[i].b = b IN a[i].t]
NoDup(a, f(_)) == \A i, j \in 1..Len(a) : i # j => f(a[i]) # f(a[j])
GetB(e) == e.b
GetP(e) == e.p
\* what the code shows after the operation must be what the specification computes
Observed == /\ now' = Ev.now /\ restart' = Ev.restart /\ low' = Ev.low
            /\ NoDup(Ev.st, GetB) /\ NoDup(Ev.sched, GetP) /\ NoDup(Ev.trace, GetB)
            /\ st' = StOf(Ev.st)
            /\ sched' = ScOf(Ev.sched)
            /\ \A i \in 1..Len(Ev.sched) : Len(Ev.sched[i].hashes) = Cardinality(SeqRange(Ev.sched[i].hashes))
            /\ trace' = TrOf(Ev.trace)
            /\ Ev.api_ok = TRUE
TInit == Start(0) /\ l = 1
TReset == /\ Is("Reset")
          /\ now' = 0 /\ st' = <<>> /\ sched' = <<>> /\ trace' = <<>> /\ restart' = 0 /\ low' = Ev.low
          /\ stale' = {} /\ out' = [op |-> "none", ret |-> 0]
TAdvance == Is("Advance") /\ Advance(Ev.d) /\ Observed
TInsert  == Is("Insert") /\ Insert(Ev.p, Ev.b) /\ out'.ret = Ev.ret /\ Observed
TRemoveByBlock == Is("RemoveByBlock") /\ RemoveByBlock(Ev.b, Ev.low) /\ out'.ret = Ev.ret /\ Observed
TRemoveByPeer  == Is("RemoveByPeer") /\ RemoveByPeer(Ev.p) /\ out'.ret = Ev.ret /\ Observed
TMarkSlow == Is("MarkSlow") /\ MarkSlow(Ev.tip) /\ Observed
TPrune == /\ Is("Prune") /\ Prune(Ev.tip, SeqRange(Ev.evicted))
          /\ Len(Ev.evicted) = Cardinality(SeqRange(Ev.evicted)) /\ Observed
TNext == TReset \/ TAdvance \/ TInsert \/ TRemoveByBlock \/ TRemoveByPeer \/ TMarkSlow \/ TPrune
TSpec == TInit /\ [][TNext]_tvars
Accepted == LET d == TLCGet("stats").diameter IN
            IF d - 1 = Len(Rec) THEN TRUE
            ELSE Print(<<"TRACE-REJECTED", d, Rec[d]>>, FALSE)
=============================================================================
