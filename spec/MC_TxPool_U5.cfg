SPECIFICATION MSpec
CONSTANTS
 Txs <- U5Txs
 Ins <- U5Ins
 Deps <- U5Deps
 Fee <- U5Fee
 Size <- U5Size
 HDeps <- NoHDeps
 Cycles <- UnitCycles
 Genesis <- MGenesis
 Coded = FALSE
 KeepHist = FALSE
 MaxProps = 1
 MaxChain = 2
 MaxOps = 6
 MConf <- MConf_U5
INVARIANT NoDoubleSpend
INVARIANT LinksExact
INVARIANT AggregatesExact
INVARIANT EdgesExact
INVARIANT CountsExact
INVARIANT AncestorLimit
INVARIANT RbfRule
VIEW PoolView
CHECK_DEADLOCK FALSE
