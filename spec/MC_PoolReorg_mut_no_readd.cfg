SPECIFICATION PSpec
CONSTANTS
 Txs <- RTxs
 Ins <- RIns
 Deps <- RDeps
 HDeps <- RHDeps
 Fee <- RFee
 Size <- ROne
 Cycles <- ROne
 Genesis <- RGenesis
 Mutant = "no_readd"
 MaxChain = 4
 MaxNotes = 2
 PConf <- PConf_a
INVARIANT NoDoubleSpend
INVARIANT NoCommitted
INVARIANT NoDeadOrUnknown
INVARIANT NoDetachedHeaderDep
INVARIANT DetachedReadmitted
INVARIANT StageMatchesWindow
INVARIANT Synced
INVARIANT AncestorLimit
CHECK_DEADLOCK FALSE
