SPECIFICATION Spec
CONSTANTS
  N = 9
  Lens = {1}
  GenesisLen = 1
  Period = 3
  Starts = {2}
  Timeouts = {5, 8}
  MinActs = {0}
  Thresholds <- Thr12
  Coded = FALSE
  Queries = FALSE
  Emit = TRUE
INVARIANT TypeOK
INVARIANT EmitTree
CHECK_DEADLOCK FALSE
