---------------------------- MODULE Trace_TxPool ----------------------------
(* Trace validation for C11 (and the base of C12): an ndjson trace recorded from a real node (ckbv c11 /    *)
(* c12, harness/src/poolfix.rs) must be a behaviour of TxPool.tla.                                          *)
(*   record 1        {"ev":"Universe","txs":{name:{ins,deps,hdeps,fee,size,cycles}},"genesis":[..]}         *)
(*   {"ev":"Reset","conf":{..}}   starts a history (fresh node)                                             *)
(*   Submit / Remove / Reorg      one per operation, each carrying the dump of the pool taken afterwards    *)
(* The contents step must satisfy the operation's relation; what the pool *reports* (links, aggregates,     *)
(* edge indexes, counters, stages) becomes the value of book / cnt / edges / st, so that every invariant of *)
(* TxPool.tla is evaluated by TLC on the implementation's own values after every operation.                 *)
EXTENDS Template, Json, IOUtils, TLCExt
Rec == ndJsonDeserialize(IOEnv.TRACE)
U == Rec[1]
SetOfSeq(s) == { s[i] : i \in 1..Len(s) }
PairSet(s) == { <<s[i][1], s[i][2]>> : i \in 1..Len(s) }
TrTxs == DOMAIN U.txs
TrIns == [t \in TrTxs |-> SetOfSeq(U.txs[t].ins)]
TrDeps == [t \in TrTxs |-> SetOfSeq(U.txs[t].deps)]
TrHDeps == [t \in TrTxs |-> SetOfSeq(U.txs[t].hdeps)]
TrFee == [t \in TrTxs |-> U.txs[t].fee]
TrSize == [t \in TrTxs |-> U.txs[t].size]
TrCycles == [t \in TrTxs |-> U.txs[t].cycles]
TrGenesis == SetOfSeq(U.genesis)

VARIABLE l
tvars == <<vars, l>>
Ev == Rec[l]
Is(e) == l <= Len(Rec) /\ Ev.ev = e /\ l' = l + 1
ObsPool == DOMAIN Ev.st
\* The pool re-submits on its own transactions it had recorded as conflicts (process_rbf -> verify queue): they
\* show up in the dump that follows.  `recovered` lists them (parents first); the harness ends a history in which
\* such a transaction replaced or evicted something, so here each one is a plain accepted submission.
OpPool == ObsPool \ SetOfSeq(Ev.recovered)          \* the contents right after the operation itself
RECURSIVE SubmitChain(_, _, _, _, _)
SubmitChain(ts, P, ch, cf, P2) ==
  IF ts = <<>> THEN P2 = P
  ELSE /\ Head(ts) \in P2
       /\ SubmitRel(Head(ts), P, ch, cf, P \cup {Head(ts)})
       /\ SubmitChain(Tail(ts), P \cup {Head(ts)}, ch, cf, P2)
\* what the pool reported after the operation
Observed ==
  /\ pool' = ObsPool /\ st' = Ev.st
  /\ book' = [t \in DOMAIN Ev.book |-> [ par |-> SetOfSeq(Ev.book[t].par), chi |-> SetOfSeq(Ev.book[t].chi),
                                         anc |-> Ev.book[t].anc, desc |-> Ev.book[t].desc ]]
  /\ cnt' = Ev.cnt
  /\ edges' = [ins |-> PairSet(Ev.ein), deps |-> PairSet(Ev.edep), hdrs |-> PairSet(Ev.ehdr)]
Fresh(c) == /\ conf' = c /\ chain' = <<>> /\ pool' = {} /\ st' = <<>> /\ book' = <<>>
            /\ cnt' = DCnt({}, <<>>) /\ edges' = DEdges({}) /\ last' = [op |-> "init", bad |-> <<>>]
TInit == /\ l = 1 /\ conf = Rec[2].conf /\ chain = <<>> /\ pool = {} /\ st = <<>> /\ book = <<>>
         /\ cnt = DCnt({}, <<>>) /\ edges = DEdges({}) /\ last = [op |-> "init", bad |-> <<>>]
TUniverse == Is("Universe") /\ UNCHANGED vars
TReset == Is("Reset") /\ Fresh(Ev.conf)
TSubmit ==
  /\ Is("Submit")
  /\ SubmitRel(Ev.t, pool, chain, conf, OpPool)
  /\ SubmitChain(Ev.recovered, OpPool, chain, conf, ObsPool)
  /\ Ev.ok => Ev.t \in OpPool
  /\ (~Ev.ok /\ Ev.t \notin pool) => Ev.t \notin OpPool
  /\ last' = [op |-> "submit", t |-> Ev.t, ok |-> Ev.ok /\ Ev.t \notin pool,
              repl |-> IF Ev.ok /\ Ev.t \notin pool THEN Replaced(Ev.t, pool) ELSE {}, bad |-> Ev.bad]
  /\ Observed /\ UNCHANGED <<conf, chain>>
TRemove ==
  /\ Is("Remove")
  /\ IF Ev.t \in pool THEN RemoveRel(Ev.t, pool, OpPool) ELSE OpPool = pool
  /\ SubmitChain(Ev.recovered, OpPool, chain, conf, ObsPool)
  /\ last' = [op |-> "remove", t |-> Ev.t, bad |-> Ev.bad]
  /\ Observed /\ UNCHANGED <<conf, chain>>
\* nothing was asked of the pool; transactions submitted by another thread / recovered by the pool may have arrived
TIdle ==
  /\ Is("Idle")
  /\ OpPool = pool
  /\ SubmitChain(Ev.recovered, OpPool, chain, conf, ObsPool)
  /\ last' = [op |-> "idle", bad |-> Ev.bad]
  /\ Observed /\ UNCHANGED <<conf, chain>>
\* C13: a block template the node handed out at this moment (harness c13): nothing changes; the template is
\* remembered in `last` and judged by the invariant TemplateValid
TTemplate ==
  /\ Is("Template")
  /\ last' = [op |-> "template", tpl |-> Ev, bad |-> Ev.bad]
  /\ UNCHANGED <<conf, chain, pool, st, book, cnt, edges>>
\* the main chain up to the parent the template names (<<>> with found = FALSE when it is not on the main chain)
ParentIdx(id) == IF id = "genesis" THEN 0
                 ELSE IF \E i \in 1..Len(chain) : chain[i].id = id THEN CHOOSE i \in 1..Len(chain) : chain[i].id = id ELSE 0 - 1
TemplateValid ==
  (last.op = "template") =>
     LET tp == last.tpl
         pi == ParentIdx(tp.parent)
     IN /\ tp.judge = "ok"                                            \* the node's own full verification accepts it
        /\ tp.bytes <= tp.maxBytes /\ tp.cycles <= tp.maxCycles /\ Len(tp.props) <= tp.maxProps
        /\ pi >= 0 => ContentValid(tp.txs, SubSeq(chain, 1, pi), conf)
        /\ (pi = Len(chain) /\ tp.settled) => AncestorClosed(tp.txs, pool)
BlocksOf(a) == [i \in 1..Len(a) |-> [id |-> a[i].id, props |-> SetOfSeq(a[i].props), commits |-> SetOfSeq(a[i].commits)]]
TReorg ==
  /\ Is("Reorg")
  /\ LET blks == BlocksOf(Ev.attach) IN
     /\ ReorgRel(Ev.detach, blks, SetOfSeq(Ev.expirable), pool, chain, conf, OpPool)
     /\ SubmitChain(Ev.recovered, OpPool, NewChain(chain, Ev.detach, blks), conf, ObsPool)
     /\ chain' = NewChain(chain, Ev.detach, blks)
     /\ Ev.ptip = blks[Len(blks)].id                    \* the pool's snapshot follows the chain
     /\ last' = [op |-> "reorg", k |-> Ev.detach, blks |-> blks, before |-> pool, chainBefore |-> chain,
                 rec |-> SetOfSeq(Ev.recovered), bad |-> Ev.bad]
  /\ Observed /\ UNCHANGED conf
TNext == TUniverse \/ TReset \/ TSubmit \/ TRemove \/ TIdle \/ TReorg \/ TTemplate
TSpec == TInit /\ [][TNext]_tvars

\* structural anomalies the dump translation found (hash the history never produced, link to a non-entry, ...)
NoAnomaly == last.bad = <<>>
Accepted == LET d == TLCGet("stats").diameter IN
            IF d - 1 = Len(Rec) THEN TRUE
            ELSE Print(<<"TRACE-REJECTED", d, Rec[d].ev>>, FALSE)
=============================================================================
