SPECIFICATION Spec
CONSTANTS
  N = 7
  Lens = {1, 2}
  GenesisLen = 1
  Period = 2
  Starts = {1}
  Timeouts = {3, 5}
  MinActs = {0}
  Thresholds <- Thr34
  Coded = FALSE
  Queries = FALSE
  Emit = TRUE
INVARIANT TypeOK
INVARIANT EmitTree
CHECK_DEADLOCK FALSE
