---------------------------- MODULE Trace_CrashRecovery ----------------------------
(* Trace validation for C08: one crash experiment on the real node = one history of this trace:                  *)
(*   Reset, Mint*, Start        the blocks and the delivery order                                                *)
(*   Ins / Ver / Del            the database commits (and refusals) the child performed before it was aborted    *)
(*   Crash, Restart             what is on disk when the directory is reopened (projection of the columns, read  *)
(*                              with a bare store) and the snapshot the node builds from it                      *)
(*   InitDone                   state after InitLoadUnverified and quiescence (internal model steps InitStep /   *)
(*                              VerifyC / DeleteC are taken without consuming events)                            *)
(*   Ins / Ver / Del            redelivery of the whole history                                                  *)
(*   Final                      state, tip, total difficulty = those of the crash-free run (CrashConvergence)    *)
(* Persisted / FinalFree are the stateless forms used after repeated crashes (the commit prefix is not known).   *)
EXTENDS CrashRecovery, Trace_ChainState

trvars == <<rvars, l, pubs>>
IsR(e) == Is(e) /\ UNCHANGED pubs
\* evaluated last in every event wrapper: the event at l has been matched
Mark == TLCSet(42, l + 1)
VerdictOf(b) == IF Par(b) \in invalid THEN "err"
                ELSE IF Par(b) \notin DOMAIN db.ext THEN "orphan"
                ELSE ResClass(ProcessOp(db, snap.td, snap.tip, b).res)
Say(what, cols, a, b) == Print(<<"OBS-MISMATCH", l, what, cols, a, b>>, FALSE)

RTInit == /\ InitW(1) /\ l = 2 /\ pubs = {0} /\ TLCSet(42, 2)
          /\ pc = "run" /\ inflight = NoBlock /\ failing = NoBlock /\ half = NoHalf /\ found = <<>>
          /\ H = <<>> /\ next = 1 /\ ncrash = 0
RTReset == /\ IsR("Reset")
           /\ blocks' = [i \in {0} |-> GenesisBlock(Ev.w0)]
           /\ db' = GenesisDb(Ev.w0) /\ snap' = SnapOf(GenesisDb(Ev.w0), EpochOf(0)) /\ invalid' = {}
           /\ pc' = "run" /\ inflight' = NoBlock /\ failing' = NoBlock /\ half' = NoHalf /\ found' = <<>>
           /\ H' = <<>> /\ next' = 1 /\ ncrash' = 0
           /\ Mark
RTMint == /\ IsR("Mint") /\ Ev.b = NBlocks
          /\ Mint([parent |-> Ev.p, num |-> Ev.num, commits |-> Ev.cs, uncles |-> ToSet(Ev.us), cbo |-> Ev.cbo,
                   ok |-> Ev.ok, work |-> Ev.work])
          /\ UNCHANGED <<pc, inflight, failing, half, found, H, next, ncrash>>
          /\ Mark
RTStart == /\ IsR("Start") /\ H' = Ev.h
           /\ UNCHANGED <<vars, pc, inflight, failing, half, found, next, ncrash>>
           /\ Mark
RTIns == IsR("Ins") /\ InsertC /\ inflight' = Ev.b /\ Mark
RTVer == /\ IsR("Ver") /\ inflight = Ev.b
         /\ IF VerdictOf(Ev.b) = Ev.res THEN TRUE ELSE Say("verdict", {"verdict"}, VerdictOf(Ev.b), Ev.res)
         /\ VerifyC
         /\ Mark
RTDel == IsR("Del") /\ failing = Ev.b /\ DeleteC /\ Mark
RTCrash == IsR("Crash") /\ Crash
           /\ Mark
RTRestart == /\ IsR("Restart")
             /\ IF CanRestart(db) THEN TRUE ELSE Say("restart", {"cannot-restart"}, db.tip, 0)
             /\ Restart
             /\ Ev.empty \/ CheckObs("disk", Ev.obs, Chain(db.tip))
             /\ Mark
\* InitLoadUnverified and the verification of what it resubmitted are not observable one by one
RTInternal == pc = "init" /\ (InitStep \/ VerifyC \/ DeleteC) /\ UNCHANGED <<l, pubs>>
RTInitDone == /\ IsR("InitDone") /\ InitDone
              /\ IF Ev.unverified = <<>> THEN TRUE ELSE Say("initload", {"unverified-left"}, {}, Ev.unverified)
              /\ CheckObs("initload", Ev.obs, Chain(db.tip))
              \* the published snapshot (init_snapshot reads tip, total difficulty and current epoch from the store)
              /\ IF Ev.snap.tip = snap.tip /\ Ev.snap.td = snap.td
                    /\ [n |-> Ev.snap.cur.n, s |-> Ev.snap.cur.s, l |-> Ev.snap.cur.l, p |-> Ev.snap.cur.p] = snap.cur THEN TRUE
                 ELSE Say("restart", {"snapshot"}, <<snap.tip, snap.td, snap.cur>>, <<Ev.snap.tip, Ev.snap.td, Ev.snap.cur>>)
              /\ Mark
RTFinal == /\ IsR("Final") /\ Quiescent /\ UNCHANGED rvars
           /\ CheckObs("final", Ev.obs, Chain(db.tip))
           /\ LET f == FreeRun(blocks[0].work) IN
              IF Ev.tip = f.db.tip /\ Ev.td = f.db.ext[f.db.tip].td /\ View(db) = View(f.db) THEN TRUE
              ELSE Say("final", {"convergence"}, <<f.db.tip, f.db.ext[f.db.tip].td>>, <<Ev.tip, Ev.td>>)
           /\ Mark
\* stateless forms (repeated crashes): the persisted state is a replay of its own tip, which lies on a delivered chain;
\* the final state is the crash-free one
RTPersisted == /\ IsR("Persisted") /\ UNCHANGED rvars
               /\ IF Ev.obs.tip \in DOMAIN blocks /\ Ev.obs.tip >= 0 THEN CheckObs("disk", Ev.obs, Chain(Ev.obs.tip))
                  ELSE Say("disk", {"tip"}, DOMAIN blocks, Ev.obs.tip)
               /\ IF Ev.unverified = <<>> THEN TRUE ELSE Say("initload", {"unverified-left"}, {}, Ev.unverified)
               /\ Mark
RTFinalFree == /\ IsR("FinalFree") /\ UNCHANGED rvars
               /\ LET f == FreeRun(blocks[0].work) IN
                  /\ IF Ev.tip = f.db.tip /\ Ev.td = f.db.ext[f.db.tip].td THEN TRUE
                     ELSE Say("final", {"convergence"}, <<f.db.tip, f.db.ext[f.db.tip].td>>, <<Ev.tip, Ev.td>>)
                  /\ CheckObs("final", Ev.obs, Chain(f.db.tip))
               /\ Mark
RTNext == RTReset \/ RTMint \/ RTStart \/ RTIns \/ RTVer \/ RTDel \/ RTCrash \/ RTRestart \/ RTInternal \/ RTInitDone
          \/ RTFinal \/ RTPersisted \/ RTFinalFree
RTSpec == RTInit /\ [][RTNext]_trvars
\* the cursor reached the end of the trace
RAccepted == IF TLCGet(42) = Len(Rec) + 1 THEN TRUE
             ELSE Print(<<"TRACE-REJECTED", TLCGet(42), Rec[TLCGet(42)].ev>>, FALSE)
=============================================================================
