-------------------------- MODULE Trace_HeaderSync --------------------------
(* Trace validation: a history recorded from a REAL node (g_headersync: real SyncShared / Synchronizer on a real  *)
(* chain; headers and blocks delivered as wire messages through Synchronizer::received, requests taken from       *)
(* Synchronizer::get_blocks_to_fetch, time-outs from InflightBlocks::prune, getheaders answered through           *)
(* GetHeadersProcess) must be a behaviour of HeaderSync.tla.  After EVERY event the complete observable state of   *)
(* the node (stored / received blocks, tip, in-flight table with request times, per-peer lists, slow-block marks,  *)
(* best known and last common headers, connected peers) is compared with the specification's.  What the            *)
(* specification leaves open is read from the event: the requested set, the last common header, the evicted peers, *)
(* the adaptive limits.                                                                                            *)
EXTENDS HeaderSync, Json, IOUtils, TLCExt
Rec == ndJsonDeserialize(IOEnv.TRACE)
VARIABLE l
tvars == <<vars, l>>
Ev == Rec[l]
Is(e) == l <= Len(Rec) /\ Ev.ev = e /\ l' = l + 1
RangeOf(s) == {s[i] : i \in 1..Len(s)}
TrPeers == 1..6
TrBlocks == 1..4000
TInit == /\ par = <<>> /\ Init0 /\ low = 0 /\ l = 1
\* the complete observable state after the event
Obs == /\ stored' = RangeOf(Ev.stored) /\ recvd' = RangeOf(Ev.recvd) /\ tip' = Ev.tip
       /\ conn' = RangeOf(Ev.conn)
       /\ \A p \in Peers : best'[p] = Ev.best[p] /\ lastc'[p] = Ev.lastc[p]
       /\ DOMAIN st' = {Ev.st[i][1] : i \in 1..Len(Ev.st)} /\ Len(Ev.st) = Cardinality(DOMAIN st')
       /\ \A i \in 1..Len(Ev.st) : st'[Ev.st[i][1]] = [peer |-> Ev.st[i][2], ts |-> Ev.st[i][3]]
       /\ DOMAIN sched' = {Ev.sched[i][1] : i \in 1..Len(Ev.sched)} /\ Len(Ev.sched) = Cardinality(DOMAIN sched')
       /\ \A i \in 1..Len(Ev.sched) : sched'[Ev.sched[i][1]] = RangeOf(Ev.sched[i][2])
                                      /\ Len(Ev.sched[i][2]) = Cardinality(RangeOf(Ev.sched[i][2]))
       /\ DOMAIN trace' = {Ev.trace[i][1] : i \in 1..Len(Ev.trace)}
       /\ \A i \in 1..Len(Ev.trace) : trace'[Ev.trace[i][1]] = Ev.trace[i][2]
       /\ restart' = Ev.restart
TReset == /\ Is("Reset")
          /\ par' = [b \in {Ev.par[i][1] : i \in 1..Len(Ev.par)} |-> Ev.par[CHOOSE i \in 1..Len(Ev.par) : Ev.par[i][1] = b][2]]
          /\ known' = {} /\ stored' = {} /\ recvd' = {} /\ tip' = 0
          /\ conn' = {} /\ best' = [p \in Peers |-> 0] /\ lastc' = [p \in Peers |-> 0] /\ slots' = [p \in Peers |-> Limit]
          /\ now' = 0 /\ st' = <<>> /\ sched' = <<>> /\ trace' = <<>> /\ restart' = 0 /\ stale' = {} /\ low' = Ev.low
          /\ out' = [op |-> "none", ret |-> 0] /\ req' = NoReq
TConnect == Is("Connect") /\ Connect(Ev.p) /\ Obs
TDisconnect == Is("Disconnect") /\ Disconnect(Ev.p) /\ Obs
\* a SendHeaders message: the headers of the chain of b that the node did not know, in order
THeaders == Is("Headers") /\ RecvHeaders(Ev.p, Ev.b) /\ Obs
TSlots == Is("Slots") /\ Adapt([p \in Peers |-> Ev.tc[p]])
TFetch == Is("Fetch") /\ Fetch(Ev.p, RangeOf(Ev.ret), Ev.lastc[Ev.p]) /\ Len(Ev.ret) = Cardinality(RangeOf(Ev.ret)) /\ Obs
\* a SendBlock message; a block that was not requested (or is a second copy) changes nothing
TArrive == /\ Is("Arrive")
           /\ IF Ev.b \in DOMAIN st THEN Arrive(Ev.b, Ev.low, Ev.tip)
              ELSE UNCHANGED vars
           /\ Obs
TRelay == Is("Relay") /\ Relay(Ev.b, Ev.tip) /\ Obs
TAdvance == Is("Advance") /\ Advance(Ev.d)
TPrune == Is("Prune") /\ PruneStep(RangeOf(Ev.evicted)) /\ Obs
\* a GetHeaders message with the locator the node's own get_locator builds for the header b; the answer is what
\* the node sent back
TGetHeaders == /\ Is("GetHeaders")
               /\ Ev.loc = LocatorOf(Ev.b)                    \* the locator names the heights SkipList.tla prescribes
               /\ GetHeaders(Ev.loc, Ev.resp)
TNext == TReset \/ TConnect \/ TDisconnect \/ THeaders \/ TSlots \/ TFetch \/ TArrive \/ TRelay \/ TAdvance \/ TPrune \/ TGetHeaders
TSpec == TInit /\ [][TNext]_tvars
Accepted == LET d == TLCGet("stats").diameter IN
            IF d - 1 = Len(Rec) THEN TRUE
            ELSE Print(<<"TRACE-REJECTED", d, Rec[d]>>, FALSE)
=============================================================================
