SPECIFICATION Spec
CONSTANTS
  N = 5
  Lens = {1, 2}
  GenesisLen = 1
  Period = 1
  Starts = {0, 2}
  Timeouts = {3}
  MinActs = {0, 4}
  Thresholds <- Thr12
  Coded = FALSE
  Queries = TRUE
  Emit = FALSE
INVARIANT TypeOK
INVARIANT StateIsFunctionOfAncestors
INVARIANT Monotone
INVARIANT ThresholdExact
INVARIANT TimeoutExact
CHECK_DEADLOCK FALSE
