SPECIFICATION Spec
CONSTANTS
  N = 6
  Lens = {1}
  GenesisLen = 1
  Period = 2
  Starts = {1}
  Timeouts = {3, 5}
  MinActs = {0}
  Thresholds <- Thr34
  Coded = TRUE
  Queries = TRUE
  Emit = FALSE
INVARIANT TypeOK
INVARIANT StateIsFunctionOfAncestors
INVARIANT Monotone
INVARIANT ThresholdExact
INVARIANT TimeoutExact
CHECK_DEADLOCK FALSE
