SPECIFICATION Spec
CONSTANTS
  MaxOrphans = 1
  ExpireTime = 2
  N = 2
  MaxNow = 3
  AdvSet = {1}
  Depth = 0
  Vars = {0}
PROPERTY FlatListsOnceMC
VIEW StateView
CHECK_DEADLOCK FALSE
