-------------------------- MODULE Trace_VerifyQueue --------------------------
(* Trace validation: an ndjson trace recorded from the real VerifyQueue (g_txrelay vq-drive) must be a        *)
(* behaviour of VerifyQueue.tla.  The entry a Pop / Peek returns is read from the event (ties of added_time   *)
(* are open); the specification decides whether it is at the front.                                           *)
EXTENDS VerifyQueue, Json, IOUtils, TLCExt
Rec == ndJsonDeserialize(IOEnv.TRACE)
VARIABLE l
tvars == <<vars, l>>
Ev == Rec[l]
Is(e) == l <= Len(Rec) /\ Ev.ev = e /\ l' = l + 1
RangeOf(s) == {s[i] : i \in 1..Len(s)}
TInit == /\ size = <<>> /\ Empty /\ l = 1
Observed == Cardinality(DOMAIN q') = Ev.len /\ total' = Ev.total
TReset == /\ Is("Reset") /\ size' = [t \in 1..Len(Ev.size) |-> Ev.size[t]]
          /\ now' = 0 /\ q' = <<>> /\ total' = 0 /\ out' = NoOut
TAdvance == Is("Advance") /\ Advance(Ev.d)
TAdd == Is("Add") /\ Add(Ev.t, Ev.prop = 1, Ev.cyc, Ev.peer, Ev.var) /\ out'.ret = Ev.ret /\ Observed
\* the entry handed out is the one that was queued (variant, declared cycles, peer)
Same(t) == q[t].var = Ev.got[1] /\ q[t].cyc = Ev.got[2] /\ q[t].peer = Ev.got[3]
TPop == Is("Pop") /\ Pop(Ev.small = 1, Ev.ret) /\ (Ev.ret # 0 => Same(Ev.ret)) /\ Observed
TPeek == Is("Peek") /\ Peek(Ev.small = 1, Ev.ret) /\ Observed
TRemove == Is("Remove") /\ RemoveOne(Ev.t) /\ out'.ret = Ev.ret /\ (Ev.ret = 1 => Same(Ev.t)) /\ Observed
TRemoveMany == Is("RemoveMany") /\ RemoveMany(RangeOf(Ev.ts)) /\ Observed
TRemoveByPeer == Is("RemoveByPeer") /\ RemoveByPeer(Ev.p) /\ Observed
TClear == Is("Clear") /\ Clear /\ Observed
TGet == /\ Is("Get") /\ UNCHANGED vars
        /\ IF Ev.t \in Queued THEN Ev.ret = 1 /\ Same(Ev.t) ELSE Ev.ret = 0
TNext == TReset \/ TAdvance \/ TAdd \/ TPop \/ TPeek \/ TRemove \/ TRemoveMany \/ TRemoveByPeer \/ TClear \/ TGet
TSpec == TInit /\ [][TNext]_tvars
Accepted == LET d == TLCGet("stats").diameter IN
            IF d - 1 = Len(Rec) THEN TRUE
            ELSE Print(<<"TRACE-REJECTED", d, Rec[d]>>, FALSE)
=============================================================================
