---------------------------- MODULE MC_SkipList ----------------------------
(* Small constants for SkipList.tla.                                                                     *)
(*  Shape = "tree"   every tree shape with at most MaxBlocks blocks (any block may be extended).          *)
(*  Shape = "forks"  a main chain of any length up to MaxHeight, then a fork from any of its blocks growing *)
(*                   up to MaxHeight: every pair (chain length, fork point, fork length).                  *)
(* Emit = TRUE prints every distinct tree with the model's answers for its newest block (all target        *)
(* heights, visited path, locator) for replay on the real HeaderIndexView.                                 *)
EXTENDS SkipList, Json
CONSTANTS Shape, MaxBlocks, MaxHeight, Emit
Forked == \E b \in 2..N : par[b] # b - 1
MCNext == /\ N < MaxBlocks
          /\ \E p \in 1..N :
               /\ ht[p] < MaxHeight
               /\ Shape = "forks" => (p = N \/ ~Forked)
               /\ Extend(p)
Spec == Genesis /\ [][MCNext]_vars
Answers == [t \in 1..(ht[N] + 1) |-> SkipPath(N, t - 1)]
EmitTree == Emit => PrintT(<<"TREE", ToJson([par |-> par, skp |-> skp, paths |-> Answers, locator |-> Locator(N),
                                            heights |-> LocatorHeights(ht[N])])>>)
=============================================================================
