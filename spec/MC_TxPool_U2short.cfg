SPECIFICATION MSpec
CONSTANTS
 Txs <- U2Txs
 Ins <- U2Ins
 Deps <- U2Deps
 Fee <- U2Fee
 Size <- U2Size
 HDeps <- NoHDeps
 Cycles <- UnitCycles
 Genesis <- MGenesis
 Coded = FALSE
 KeepHist = TRUE
 MaxProps = 1
 MaxChain = 4
 MaxOps = 2
 MConf <- MConf_U2short
INVARIANT NoDoubleSpend
INVARIANT LinksExact
INVARIANT AggregatesExact
INVARIANT EdgesExact
INVARIANT CountsExact
INVARIANT AncestorLimit
INVARIANT RbfRule
INVARIANT EmitShort
CHECK_DEADLOCK FALSE
