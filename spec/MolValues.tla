----------------------------- MODULE MolValues -----------------------------
(***************************************************************************)
(* Small-domain value generation for any molecule schema (C15/C16).        *)
(*                                                                         *)
(*   Base(t, s, d)   a NON-DEFAULT value of type t; siblings get distinct   *)
(*                   salts s, so all fields of the same type are pairwise   *)
(*                   distinct; vectors have 2 items near the top (d <= 2)   *)
(*                   and 1 item deeper; options are present; unions take    *)
(*                   their first item                                       *)
(*   Zero(t)         the default value (all zero / empty / absent)          *)
(*   MaxV(t, d)      the all-extremes value (0xff.., 2 items, present, last *)
(*                   union item)                                            *)
(*   Dom(t, v, s, d) the small domain a node of type t ranges over:         *)
(*                   bytes 0,1,2,255; integers/hashes 0, 1, max; vectors of *)
(*                   length 0,1,2 (3 for byte strings) and the two items    *)
(*                   swapped; option absent/present; every union item;      *)
(*                   composite: default and all-extremes                    *)
(*   Variants(t,v,s,d,maxd) every value that differs from v in EXACTLY ONE  *)
(*                   node (at depth <= maxd) taken through its Dom:         *)
(*                   <<path, v'>>                                           *)
(* Collections are sequences, never sets: values of different types are not *)
(* comparable in TLC.                                                       *)
(***************************************************************************)
EXTENDS Molecule

Salt(s, i) == (s * 7 + i * 13) % 241

RECURSIVE Zero(_)
Zero(t) ==
  CASE Kind(t) = "byte"   -> 0
    [] Kind(t) = "array"  -> Tup([i \in 1..Schema[t].n |-> Zero(Schema[t].item)])
    [] Kind(t) \in {"struct", "table"} -> Tup([i \in 1..Len(Schema[t].fields) |-> Zero(Schema[t].fields[i])])
    [] Kind(t) \in {"fixvec", "dynvec", "option"} -> <<>>
    [] Kind(t) = "union"  -> <<Schema[t].ids[1], Zero(Schema[t].fields[1])>>

VecLen(d) == IF d <= 2 THEN 2 ELSE 1

RECURSIVE MaxV(_, _)
MaxV(t, d) ==
  CASE Kind(t) = "byte"   -> 255
    [] Kind(t) = "array"  -> Tup([i \in 1..Schema[t].n |-> MaxV(Schema[t].item, d + 1)])
    [] Kind(t) \in {"struct", "table"} -> Tup([i \in 1..Len(Schema[t].fields) |-> MaxV(Schema[t].fields[i], d + 1)])
    [] Kind(t) \in {"fixvec", "dynvec"} -> Tup([i \in 1..VecLen(d) |-> MaxV(Schema[t].item, d + 1)])
    [] Kind(t) = "option" -> <<MaxV(Schema[t].item, d + 1)>>
    [] Kind(t) = "union"  -> LET n == Len(Schema[t].ids) IN <<Schema[t].ids[n], MaxV(Schema[t].fields[n], d + 1)>>

RECURSIVE Base(_, _, _)
Base(t, s, d) ==
  CASE Kind(t) = "byte"   -> 1
    [] Kind(t) = "array"  -> IF Schema[t].item = "byte"
                             THEN Tup([i \in 1..Schema[t].n |-> 1 + ((s * 17 + i * 3) % 250)])
                             ELSE Tup([i \in 1..Schema[t].n |-> Base(Schema[t].item, Salt(s, i), d + 1)])
    [] Kind(t) \in {"struct", "table"} -> Tup([i \in 1..Len(Schema[t].fields) |-> Base(Schema[t].fields[i], Salt(s, i), d + 1)])
    [] Kind(t) \in {"fixvec", "dynvec"} ->
         IF Schema[t].item = "byte" THEN Tup([i \in 1..VecLen(d) |-> 1 + ((s * 11 + i * 5) % 250)])
         ELSE Tup([i \in 1..VecLen(d) |-> Base(Schema[t].item, Salt(s, 20 + i), d + 1)])
    [] Kind(t) = "option" -> <<Base(Schema[t].item, Salt(s, 1), d + 1)>>
    [] Kind(t) = "union"  -> <<Schema[t].ids[1], Base(Schema[t].fields[1], Salt(s, 1), d + 1)>>

ByteDom == <<0, 1, 2, 255>>
SelectNe(seq, v) == SelectSeq(seq, LAMBDA x : x # v)

\* alternatives for the node itself (never equal to v)
Dom(t, v, s, d) ==
  CASE Kind(t) = "byte"  -> SelectNe(ByteDom, v)
    [] Kind(t) = "array" ->
         IF Schema[t].item = "byte"
         THEN SelectNe(<< Tup([i \in 1..Schema[t].n |-> 0]), Tup([i \in 1..Schema[t].n |-> IF i = 1 THEN 1 ELSE 0]),
                          Tup([i \in 1..Schema[t].n |-> 255]) >>, v)
         ELSE <<>>
    [] Kind(t) \in {"struct", "table"} -> SelectNe(<<Zero(t), MaxV(t, d)>>, v)
    [] Kind(t) \in {"fixvec", "dynvec"} ->
         LET it == Schema[t].item
             x(i) == IF it = "byte" THEN 1 + ((s * 11 + i * 5) % 250) ELSE Base(it, Salt(s, 20 + i), d + 1)
             swapped == IF Len(v) = 2 THEN << <<v[2], v[1]>> >> ELSE <<>>
             longer == IF it = "byte" THEN << <<x(1), x(2), x(3)>> >> ELSE <<>>
         IN SelectNe(<< <<>>, <<x(1)>>, <<x(1), x(2)>> >> \o swapped \o longer, v)
    [] Kind(t) = "option" -> SelectNe(<< <<>>, <<Base(Schema[t].item, Salt(s, 1), d + 1)>> >>, v)
    [] Kind(t) = "union" ->
         \* every other item of the union (same item id with another payload is reached through the child)
         LET alts == Tup([i \in 1..Len(Schema[t].ids) |-> <<Schema[t].ids[i], Base(Schema[t].fields[i], Salt(s, i), d + 1)>>])
         IN SelectSeq(alts, LAMBDA a : a[1] # v[1])

RECURSIVE Variants(_, _, _, _, _)
RECURSIVE ChildVariants(_, _, _, _, _, _)
\* variants obtained by changing one node inside child k.. of the composite v (child types ts)
ChildVariants(ts, v, s, d, k, maxd) ==
  IF k > Len(ts) THEN <<>>
  ELSE LET sub == Variants(ts[k], v[k], s + k, d + 1, maxd)
       IN Tup([j \in 1..Len(sub) |-> << <<k>> \o sub[j][1], [v EXCEPT ![k] = sub[j][2]] >>]) \o ChildVariants(ts, v, s, d, k + 1, maxd)
Variants(t, v, s, d, maxd) ==
  LET here == LET dm == Dom(t, v, s, d) IN Tup([j \in 1..Len(dm) |-> << <<>>, dm[j] >>])
      below ==
        CASE d >= maxd -> <<>>
          [] Kind(t) \in {"byte"} -> <<>>
          [] Kind(t) = "array" -> <<>>
          [] Kind(t) \in {"struct", "table"} -> ChildVariants(Schema[t].fields, v, Salt(s, 3), d, 1, maxd)
          [] Kind(t) \in {"fixvec", "dynvec"} ->
               IF Schema[t].item = "byte" THEN <<>>
               ELSE ChildVariants(Tup([i \in 1..Len(v) |-> Schema[t].item]), v, Salt(s, 5), d, 1, maxd)
          [] Kind(t) = "option" ->
               IF v = <<>> THEN <<>>
               ELSE LET sub == Variants(Schema[t].item, v[1], Salt(s, 7), d + 1, maxd)
                    IN Tup([j \in 1..Len(sub) |-> << <<1>> \o sub[j][1], <<sub[j][2]>> >>])
          [] Kind(t) = "union" ->
               LET sub == Variants(UnionItemType(t, v[1]), v[2], Salt(s, 9), d + 1, maxd)
               IN Tup([j \in 1..Len(sub) |-> << <<2>> \o sub[j][1], <<v[1], sub[j][2]>> >>])
  IN here \o below

\* all cases of a type: the base value first, then every variant of it that differs in one node at depth <= maxd
Cases(t, maxd) == << << <<>>, Base(t, 1, 0) >> >> \o Variants(t, Base(t, 1, 0), 1, 0, maxd)
=============================================================================
