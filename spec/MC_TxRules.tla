---------------------------- MODULE MC_TxRules ----------------------------
(* Ledger-context builder + probe enumeration for TxRules.tla (property C04).                          *)
(*                                                                                                     *)
(* A behaviour grows a main chain block by block: each block draws its timestamp (above the past-median) *)
(* and commits a subset of a fixed palette of context transactions:                                     *)
(*    X   : g1 -> x1, x2(args 1)        Y : x1 -> y1(args 2)                                            *)
(*    DG  : g2 -> dg (dep group <<code, x2>>), dgd (dep group <<code, x1>>)                             *)
(*    DEP : g3 -> dfail, dloop (code cells of the always-failure / infinite-loop scripts)               *)
(*    F   : g4 -> f1 (lock = always failure), l1 (lock = infinite loop)                                 *)
(*    T   : g8 -> t1 (type script = always success, args 9)                                             *)
(* g5..g7 stay untouched for the probes; every block from WFar+2 on has a cellbase output cb<h>.        *)
(* `EmitCtx` prints the context and, for every prefix m, the probe transactions with the verdicts the   *)
(* SPEC assigns for a commit in block m+1 and for admission to the pool at tip m.                       *)
EXTENDS TxRules, SequencesExt, FiniteSetsExt, Json

CONSTANTS NBlocks, WFar, Emit,
          ForceT,     \* TRUE: the first block commits T (simulation configurations: every context has the typed cell t1)
          TsSteps     \* distances above the past-median a block timestamp may take

VARIABLES ts, sched, pc
vars == <<ts, sched, pc>>

Names == <<"X", "Y", "DG", "DEP", "F", "T">>
PIns  == [X |-> <<"g1">>, Y |-> <<"x1">>, DG |-> <<"g2">>, DEP |-> <<"g3">>, F |-> <<"g4">>, T |-> <<"g8">>]
POuts == [X |-> <<"x1", "x2">>, Y |-> <<"y1">>, DG |-> <<"dg", "dgd">>, DEP |-> <<"dfail", "dloop">>, F |-> <<"f1", "l1">>, T |-> <<"t1">>]
Genesis == {"g1", "g2", "g3", "g4", "g5", "g6", "g7", "g8", "code"}
LockOf(id) == IF id = "f1" THEN "fail" ELSE IF id = "l1" THEN "loop" ELSE "ok"
ArgsOf(id) == IF id = "x2" THEN 1 ELSE IF id = "y1" THEN 2 ELSE 0
GroupOf(id) == IF id = "dg" THEN <<"code", "x2">> ELSE IF id = "dgd" THEN <<"code", "x1">> ELSE <<>>

Init == ts = <<>> /\ sched = [n \in Rng(Names) |-> 0] /\ pc = "ts"

Ctx0(t) == [ts |-> t, cells |-> {}, side |-> {1}]
ChooseTs ==
  /\ pc = "ts" /\ Len(ts) < NBlocks
  /\ \E d \in TsSteps : ts' = Append(ts, MedianHi(Ctx0(ts), Len(ts)) + d)
  /\ pc' = "txs" /\ UNCHANGED sched
ChooseTxs ==
  /\ pc = "txs"
  /\ \E s \in SUBSET {n \in Rng(Names) : sched[n] = 0} :
       /\ ("Y" \in s => (sched["X"] # 0 \/ "X" \in s))
       /\ Cardinality(s) <= 2
       /\ ((ForceT /\ Len(ts) = 1) => s = {"T"})
       /\ ("T" \in s => Cardinality(s) = 1 /\ Len(ts) = 1)   \* T runs two script groups: alone it fills the block's cycle limit;
                                                              \* only in the first block (keeps the exhaustive configurations small)
       /\ sched' = [n \in Rng(Names) |-> IF n \in s THEN Len(ts) ELSE sched[n]]
  /\ pc' = IF Len(ts) = NBlocks THEN "done" ELSE "ts"
  /\ UNCHANGED ts
Next == ChooseTs \/ ChooseTxs
Spec == Init /\ [][Next]_vars

-----------------------------------------------------------------------------
(* the ledger after the first m blocks *)
SpentAt(id, m) ==
  LET users == {n \in Rng(Names) : sched[n] # 0 /\ sched[n] <= m /\ id \in Rng(PIns[n])}
  IN IF users = {} THEN 0 ELSE sched[CHOOSE n \in users : TRUE]
CellRec(id, born, cb, m) == [id |-> id, born |-> born, cb |-> cb, spent |-> SpentAt(id, m), lock |-> LockOf(id),
                             args |-> ArgsOf(id), group |-> GroupOf(id),
                             type |-> IF id = "t1" THEN "ok" ELSE "none", targs |-> IF id = "t1" THEN 9 ELSE 0]
CbName(h) == "cb" \o ToString(h)
Ledger(m) ==
  [ts |-> SubSeq(ts, 1, m),
   cells |-> {CellRec(id, 0, FALSE, m) : id \in Genesis}
             \cup UNION {{CellRec(POuts[n][i], sched[n], FALSE, m) : i \in DOMAIN POuts[n]} :
                          n \in {k \in Rng(Names) : sched[k] # 0 /\ sched[k] <= m}}
             \cup {CellRec(CbName(h), h, TRUE, m) : h \in (WFar + 2)..m},
   side |-> {1}]

-----------------------------------------------------------------------------
V1(n) == <<n, 0, 0>>
NoSince == [m |-> "none", rel |-> FALSE, resv |-> FALSE, v |-> V1(0)]
Since(mm, rel, v) == [m |-> mm, rel |-> rel, resv |-> FALSE, v |-> v]
In(c, s) == [c |-> c, since |-> s]
Dep(c) == [c |-> c, grp |-> FALSE]
Grp(c) == [c |-> c, grp |-> TRUE]
Tx(ins, deps, hdeps) == [ins |-> ins, deps |-> deps, hdeps |-> hdeps, sum |-> "fee", occ |-> "roomy", otype |-> "none"]
Typed(tx, ty) == [tx EXCEPT !.otype = ty]
NoOv == [made |-> {}, used |-> {}]
EOv == [made |-> {"e1"}, used |-> {"g6"}]       \* helper E : g6 -> e1, placed before the probe

Pr(x, m, fam, lab, pre, tx) ==
  LET ov == IF pre = "E" THEN EOv ELSE NoOv
      be == BlockEnv(m)
      relmade == \E i \in DOMAIN tx.ins : tx.ins[i].since.rel /\ tx.ins[i].since.m # "none" /\ tx.ins[i].c \in ov.made
      pv0 == PoolVerdict(x, ov, m, tx)
  IN [fam |-> fam, lab |-> lab, pre |-> pre, tx |-> tx,
      bv |-> Verdict(x, ov, be, tx), brules |-> Must(x, ov, be, tx),
      \* a relative lock on the output of a pooled (not yet committed) ancestor has no starting block yet
      pv |-> IF relmade /\ pv0 = "accept" THEN "either" ELSE pv0,
      prules |-> Must(x, ov, PoolEnv(m), tx)]

Probes(m) ==
  LET x    == Ledger(m)
      pos  == m + 1
      pn   == m + 1 + WClose
      base == Tx(<<In("g5", NoSince)>>, <<>>, <<>>)
      S1(fam, lab, s) == Pr(x, m, fam, lab, "", Tx(<<In("g5", s)>>, <<>>, <<>>))
      bornOK == {c \in x.cells : c.born >= 1 /\ c.spent = 0 /\ c.lock = "ok" /\ ~c.cb}
      rc   == IF bornOK = {} THEN {} ELSE {CHOOSE c \in bornOK : \A d \in bornOK : c.born >= d.born}
      hi   == MedianHi(x, m)
      lo   == MedianLo(x, m)
      cbs  == {c \in x.cells : c.cb}
  IN
  \* ---- liveness of inputs
       {Pr(x, m, "input", c, "", Tx(<<In(c, NoSince)>>, <<>>, <<>>)) : c \in {"g5", "g1", "x1", "x2", "y1", "nowhere"}}
  \cup {Pr(x, m, "input", "duplicate", "", Tx(<<In("g5", NoSince), In("g5", NoSince)>>, <<>>, <<>>))}
  \cup {Pr(x, m, "input", "two", "", Tx(<<In("g5", NoSince), In("g7", NoSince)>>, <<>>, <<>>))}
  \cup {Pr(x, m, "chain", "made-earlier", "E", Tx(<<In("e1", NoSince)>>, <<>>, <<>>))}
  \cup {Pr(x, m, "chain", "used-earlier", "E", Tx(<<In("g6", NoSince)>>, <<>>, <<>>))}
  \cup {Pr(x, m, "chain", "made-later", "E-after", Tx(<<In("e1", NoSince)>>, <<>>, <<>>))}
  \* ---- deps
  \cup {Pr(x, m, "dep", c, "", Tx(<<In("g5", NoSince)>>, <<Dep(c)>>, <<>>)) : c \in {"g7", "g1", "x1", "x2", "nowhere"}}
  \cup {Pr(x, m, "dep", "made-earlier", "E", Tx(<<In("g5", NoSince)>>, <<Dep("e1")>>, <<>>))}
  \cup {Pr(x, m, "dep", "used-earlier", "E", Tx(<<In("g5", NoSince)>>, <<Dep("g6")>>, <<>>))}
  \cup {Pr(x, m, "dep", "own-input", "", Tx(<<In("g5", NoSince)>>, <<Dep("g5")>>, <<>>))}
  \cup {Pr(x, m, "depgroup", c, "", Tx(<<In("g5", NoSince)>>, <<Grp(c)>>, <<>>)) : c \in {"dg", "dgd"}}
  \* ---- header deps
  \cup {Pr(x, m, "hdep", "main", "", Tx(<<In("g5", NoSince)>>, <<>>, <<[k |-> "main", h |-> h]>>)) : h \in {y \in {1, m - 1, m} : y >= 1}}
  \cup {Pr(x, m, "hdep", k, "", Tx(<<In("g5", NoSince)>>, <<>>, <<[k |-> k, h |-> 1]>>)) : k \in {"side", "unknown"}}
  \* ---- capacity
  \cup {Pr(x, m, "capacity", s, "", [base EXCEPT !.sum = s]) : s \in {"fee", "zero", "over"}}
  \cup {Pr(x, m, "occupied", o, "", [base EXCEPT !.occ = o]) : o \in {"roomy", "exact", "short"}}
  \* ---- since: flags
  \cup {S1("since_flags", "reserved", [Since("n", FALSE, V1(0)) EXCEPT !.resv = TRUE])}
  \cup {S1("since_flags", "metric11", Since("bad", r, V1(1))) : r \in BOOLEAN}
  \cup {S1("since_flags", "epoch-index>=length", Since("e", r, <<0, L, L>>)) : r \in BOOLEAN}
  \cup {S1("since_flags", "epoch-length0", Since("e", r, <<0, 0, 0>>)) : r \in BOOLEAN}
  \* ---- since: absolute (block position pos, pool position pn)
  \cup {S1("since_abs_number", "n", Since("n", FALSE, V1(v))) : v \in {pos - 1, pos, pos + 1, pn - 1, pn, pn + 1}}
  \cup {S1("since_abs_epoch", "e", Since("e", FALSE, EpochOf(h))) : h \in {y \in (m - 1)..(pn + 1) : y >= 0}}
  \cup {S1("since_abs_epoch", "whole", Since("e", FALSE, <<n, 0, 0>>)) : n \in {EpochOf(pos)[1], EpochOf(pos)[1] + 1}}
  \cup {S1("since_abs_time", "t", Since("t", FALSE, V1(v))) : v \in {y \in {lo - 1, lo, lo + 1, hi, hi + 1} : y >= 0}}
  \* ---- since: relative to the block that created the input (genesis cell: born 0; newest context cell)
  \cup {S1("since_rel_number", "genesis", Since("n", TRUE, V1(v))) : v \in {pos - 1, pos, pos + 1, pn, pn + 1}}
  \cup {S1("since_rel_epoch", "genesis", Since("e", TRUE, <<0, d, L>>)) : d \in {y \in {pos - 1, pos, pos + 1} : y < L}}
  \cup {S1("since_rel_epoch", "genesis-whole", Since("e", TRUE, <<n, 0, 0>>)) : n \in {EpochOf(pos)[1], EpochOf(pos)[1] + 1}}
  \cup UNION {
         {Pr(x, m, "since_rel_number", "born", "", Tx(<<In(c.id, Since("n", TRUE, V1(v)))>>, <<>>, <<>>)) :
            v \in {y \in {pos - c.born - 1, pos - c.born, pos - c.born + 1, pn - c.born, pn - c.born + 1} : y >= 0}}
         \cup {Pr(x, m, "since_rel_epoch", "born", "", Tx(<<In(c.id, Since("e", TRUE, <<d \div L, d % L, L>>))>>, <<>>, <<>>)) :
            d \in {y \in {pos - c.born - 1, pos - c.born, pos - c.born + 1, m - c.born, m - c.born + 1} : y >= 0}}
         \cup {Pr(x, m, "since_rel_time", "born", "", Tx(<<In(c.id, Since("t", TRUE, V1(v)))>>, <<>>, <<>>)) :
            v \in LET b0 == IF Rfc0028 THEN TsAt(x, c.born) ELSE MedianHi(x, c.born - 1)
                      b1 == IF Rfc0028 THEN TsAt(x, c.born) ELSE MedianLo(x, c.born - 1)
                  IN {y \in {hi - b0 - 1, hi - b0, hi - b0 + 1, lo - b1, lo - b1 + 1} : y >= 0 /\ y <= hi + 2}}
         : c \in rc}
  \cup {Pr(x, m, "since_rel_number", "same-block", "E", Tx(<<In("e1", Since("n", TRUE, V1(v)))>>, <<>>, <<>>)) : v \in {0, 1}}
  \* ---- cellbase maturity (as input and as dep)
  \cup {Pr(x, m, "maturity", "input", "", Tx(<<In(c.id, NoSince)>>, <<>>, <<>>)) : c \in cbs}
  \cup {Pr(x, m, "maturity", "dep", "", Tx(<<In("g5", NoSince)>>, <<Dep(c.id)>>, <<>>)) : c \in cbs}
  \* ---- scripts and cycles
  \cup {Pr(x, m, "script", "fail", "", Tx(<<In("f1", NoSince)>>, <<Dep("dfail")>>, <<>>))}
  \cup {Pr(x, m, "script", "loop", "", Tx(<<In("l1", NoSince)>>, <<Dep("dloop")>>, <<>>))}
  \cup {Pr(x, m, "cycles", "groups", "", Tx([i \in 1..Len(s) |-> In(s[i], NoSince)], <<>>, <<>>)) :
          s \in {<<"g5">>, <<"g5", "g7">>, <<"g5", "x2">>, <<"g5", "x2", "y1">>}}
  \* ---- type scripts: of an output (always success / always failure / infinite loop), of an input (t1); a type group costs
  \*      like a lock group and never merges with one
  \cup {Pr(x, m, "typescript", "out-ok", "", Typed(Tx(<<In("g5", NoSince)>>, <<>>, <<>>), "ok"))}
  \cup {Pr(x, m, "typescript", "out-fail", "", Typed(Tx(<<In("g5", NoSince)>>, <<Dep("dfail")>>, <<>>), "fail"))}
  \cup {Pr(x, m, "typescript", "out-loop", "", Typed(Tx(<<In("g5", NoSince)>>, <<Dep("dloop")>>, <<>>), "loop"))}
  \cup {Pr(x, m, "typescript", "in-ok", "", Tx(<<In("t1", NoSince)>>, <<>>, <<>>))}
  \cup {Pr(x, m, "typecycles", "out", "", Typed(Tx([i \in 1..Len(s) |-> In(s[i], NoSince)], <<>>, <<>>), "ok")) :
          s \in {<<"g5", "g7">>, <<"g5", "x2">>}}
  \cup {Pr(x, m, "typecycles", "in", "", Tx([i \in 1..Len(s) |-> In(s[i], NoSince)], <<>>, <<>>)) :
          s \in {<<"t1", "g5">>, <<"t1", "x2">>}}
  \cup {Pr(x, m, "typecycles", "in-and-out", "", Typed(Tx(<<In("t1", NoSince)>>, <<>>, <<>>), "ok"))}

(* Staged probes (WClose = 2 only: the code's Proposed position is exact for that window): after the context, block       *)
(* NBlocks+1 PROPOSES the probes' ids and block NBlocks+2 is empty.  At tip NBlocks+1 the ids are in the gap (earliest       *)
(* commit NBlocks+1+WClose), at tip NBlocks+2 they are proposed (earliest commit NBlocks+3).  Number-based since values     *)
(* around the two positions; the ledger is the context's (the two extra blocks commit nothing).                              *)
StagedProbes ==
  LET x == Ledger(NBlocks)
      g == PoolEnvGap(NBlocks + 1)
      q == PoolEnvProposed(NBlocks + 2)
      SP(stage, lab, env, s) ==
        LET tx == Tx(<<In("g5", s)>>, <<>>, <<>>)
        IN [stage |-> stage, lab |-> lab, tx |-> tx, pv |-> Verdict(x, NoOv, env, tx), prules |-> Must(x, NoOv, env, tx)]
  IN IF WClose # 2 THEN {}
     ELSE {SP("gap", "abs", g, Since("n", FALSE, V1(v))) : v \in {g.number - 1, g.number, g.number + 1}}
     \cup {SP("gap", "rel", g, Since("n", TRUE, V1(v))) : v \in {g.number - 1, g.number, g.number + 1}}
     \cup {SP("proposed", "abs", q, Since("n", FALSE, V1(v))) : v \in {q.number - 1, q.number, q.number + 1}}
     \cup {SP("proposed", "rel", q, Since("n", TRUE, V1(v))) : v \in {q.number - 1, q.number, q.number + 1}}

AsSeq(s) == SetToSeq(s)
CtxRecord ==
  [ params |-> [L |-> L, wclose |-> WClose, wfar |-> WFar, K |-> K, maturity |-> Maturity, maxcycles |-> MaxCycles,
                groupcycles |-> GroupCycles, rfc0028 |-> Rfc0028],
    ts |-> ts,
    sched |-> [i \in 1..Len(Names) |-> [name |-> Names[i], h |-> sched[Names[i]]]],
    probes |-> [i \in 1..(NBlocks + 1) |-> AsSeq(Probes(i - 1))],
    staged |-> AsSeq(StagedProbes) ]
EmitCtx == (Emit /\ pc = "done") => PrintT(<<"CTX", ToJson(CtxRecord)>>)

-----------------------------------------------------------------------------
(* Sanity invariants (exhaustive runs) *)
\* the context's own transactions are valid where they are committed (in palette order inside a block)
OvBefore(n, h) ==
  LET earlier == {k \in Rng(Names) : sched[k] = h /\ \E i, j \in DOMAIN Names : Names[i] = k /\ Names[j] = n /\ i < j}
  IN [made |-> UNION {Rng(POuts[k]) : k \in earlier}, used |-> UNION {Rng(PIns[k]) : k \in earlier}]
ContextTxsValid ==
  \A n \in Rng(Names) : sched[n] # 0 =>
     Verdict(Ledger(sched[n] - 1), OvBefore(n, sched[n]), BlockEnv(sched[n] - 1),
             Tx([i \in DOMAIN PIns[n] |-> In(PIns[n][i], NoSince)], <<>>, <<>>)) = "accept"
\* soundness of the pool's position: whatever the pool must accept is valid in every block that can commit it,
\* i.e. at m+1+WClose and later, as long as the chain grows by valid blocks (checked one step: the earliest one)
PoolSound == pc = "ts" =>
  \A m \in 0..Len(ts) : \A p \in Probes(m) :
     (p.pv = "accept" /\ p.pre = "") =>
        \A k \in m..Len(ts) : k + 1 >= m + 1 + WClose =>
            Must(Ledger(k), NoOv, BlockEnv(k), p.tx) \subseteq {"input_live", "dep_live", "dep_group"}
=============================================================================
