------------------------------ MODULE Indexer ------------------------------
(***************************************************************************)
(* ckb-indexer (util/indexer/src/indexer.rs, service.rs) over Ledger.tla.  *)
(*                                                                         *)
(* R holds the key/value rows as coded:                                    *)
(*   cell  CellLockScript / CellTypeScript (script, bn, ti, oi) -> tx      *)
(*   txr   TxLockScript / TxTypeScript (script, bn, ti, ioi, io) -> tx     *)
(*   op    OutPoint -> (bn, ti) of the generating transaction + the cell   *)
(*   cons  ConsumedOutPoint (consuming bn, out-point) -> that cell value   *)
(*   txh   TxHash -> inputs                                                *)
(*   hdr   Header (bn, block, filtered) -> per-block transaction list      *)
(* Keys are abstract byte strings: a script is Raw[s] (code hash, hash     *)
(* type, args), numbers are big-endian; the order of rows, prefix          *)
(* iteration and the "exact" length test are those of the code.            *)
(* (Abstraction: the eight bytes of a block number are the two digits      *)
(* <<0, bn>>, a four-byte index one digit: order-faithful while no two     *)
(* STORED scripts differ by trailing zero bytes and numbers are < 256.)    *)
(*                                                                         *)
(* Actions: IdxAppend(b) (Indexer::append incl. the prune it triggers),    *)
(* IdxRollback (Indexer::rollback), SyncStep (IndexerSyncService::         *)
(* try_loop_sync: next main-chain block extends the tip => append it,      *)
(* else roll back).  Queries: QCells / QTxs evaluate get_cells /           *)
(* get_transactions on the rows; FCells / FTxs are the declarative filters *)
(* over Live(Chain(tip)) / History(Chain(tip)).                            *)
(***************************************************************************)
EXTENDS Ledger, TLC

CONSTANTS Raw,           \* [script -> Seq(Nat)] abstract raw bytes of every script (stored or only queried)
          QueryScripts,  \* scripts used as search keys
          KeepNum,       \* retention (the service hard-codes 100)
          PruneInterval, \* prune when bn % PruneInterval = 0 (the service hard-codes 1000)
          AliasBug       \* TRUE: prefix iteration as coded before the fix (self-test of AnswersAreFilters)

VARIABLES R,    \* the rows
          hw,   \* highest block number ever appended
          ok,   \* FALSE once a rollback went deeper than the retention (the property is silent from then on)
          snap  \* the answers given just before each block of the indexer's chain was appended (RollbackInverts)

ivars == <<tree, main, R, hw, ok, snap>>

EmptyRows == [cell |-> {}, txr |-> {}, op |-> {}, cons |-> {}, txh |-> {}, hdr |-> {}]

-----------------------------------------------------------------------------
(* keys *)
ScriptLen(s) == IF s = NoScript THEN 0 ELSE 32 + Len(Raw[s])       \* len of code_hash|hash_type|args
CellKey(r) == Raw[r.s] \o <<0, r.bn, r.ti, r.oi>>
TxKey(r)   == Raw[r.s] \o <<0, r.bn, r.ti, r.ioi, r.io>>
RECURSIVE LexLess(_, _)
LexLess(a, b) == IF a = <<>> THEN b # <<>>
                 ELSE IF b = <<>> THEN FALSE
                 ELSE IF a[1] # b[1] THEN a[1] < b[1]
                 ELSE LexLess(Tail(a), Tail(b))

ScriptsOf(o) == {<<"lock", o.lock>>} \cup (IF o.type # NoScript THEN {<<"type", o.type>>} ELSE {})

\* the index rows of cell `op` generated at (bn, ti)
CellRowsOf(op, bn, ti) ==
  {[st |-> p[1], s |-> p[2], bn |-> bn, ti |-> ti, oi |-> op[2], tx |-> op[1]] : p \in ScriptsOf(Out(op))}
\* the transaction rows of cell `op` seen as input/output number ioi of tx at (bn, ti)
TxRowsOf(op, bn, ti, ioi, io, tx) ==
  {[st |-> p[1], s |-> p[2], bn |-> bn, ti |-> ti, ioi |-> ioi, io |-> io, tx |-> tx] : p \in ScriptsOf(Out(op))}

\* key/value puts overwrite
PutCell(S, rows) == {x \in S : \A r \in rows : ~(x.st = r.st /\ x.s = r.s /\ x.bn = r.bn /\ x.ti = r.ti /\ x.oi = r.oi)} \cup rows
PutTxr(S, rows)  == {x \in S : \A r \in rows : ~(x.st = r.st /\ x.s = r.s /\ x.bn = r.bn /\ x.ti = r.ti /\ x.ioi = r.ioi /\ x.io = r.io)} \cup rows
DelCell(S, rows) == {x \in S : \A r \in rows : ~(x.st = r.st /\ x.s = r.s /\ x.bn = r.bn /\ x.ti = r.ti /\ x.oi = r.oi)}
DelTxr(S, rows)  == {x \in S : \A r \in rows : ~(x.st = r.st /\ x.s = r.s /\ x.bn = r.bn /\ x.ti = r.ti /\ x.ioi = r.ioi /\ x.io = r.io)}
PutOp(S, r)      == {x \in S : x.op # r.op} \cup {r}
PutCons(S, r)    == {x \in S : ~(x.cbn = r.cbn /\ x.op = r.op)} \cup {r}

HasOp(S, op) == \E x \in S : x.op = op
GetOp(S, op) == CHOOSE x \in S : x.op = op

-----------------------------------------------------------------------------
(* Indexer::append.  Reads go to the store as it was before the batch (R0); the batch (acc) is applied in order. *)

\* where the consumed cell was generated: the stored OutPoint row, else a transaction of this very block
InputStored(R0, body, bn, op) ==
  IF HasOp(R0.op, op) THEN <<GetOp(R0.op, op).bn, GetOp(R0.op, op).ti>>
  ELSE IF \E j \in DOMAIN body : body[j] = op[1]
       THEN <<bn, (CHOOSE j \in DOMAIN body : body[j] = op[1]) - 1>>
       ELSE <<>>

RECURSIVE AppIns(_, _, _, _, _, _)
AppIns(R0, body, bn, acc, ti, ii) ==
  LET tx == body[ti + 1] IN
  IF ti = 0 \/ ii >= Len(Ins(tx)) THEN acc          \* the cellbase's inputs are skipped
  ELSE LET op == Ins(tx)[ii + 1]
           g  == InputStored(R0, body, bn, op)
           nx == IF g = <<>> THEN acc
                 ELSE [acc EXCEPT !.cell = DelCell(@, CellRowsOf(op, g[1], g[2])),
                                  !.txr  = PutTxr(@, TxRowsOf(op, bn, ti, ii, 0, tx)),
                                  !.op   = {x \in @ : x.op # op},
                                  !.cons = PutCons(@, [cbn |-> bn, op |-> op, bn |-> g[1], ti |-> g[2]])]
       IN AppIns(R0, body, bn, nx, ti, ii + 1)

RECURSIVE AppOuts(_, _, _, _, _)
AppOuts(body, bn, acc, ti, oi) ==
  LET tx == body[ti + 1] IN
  IF oi >= Len(Outs(tx)) THEN acc
  ELSE LET op == <<tx, oi>> IN
       AppOuts(body, bn,
               [acc EXCEPT !.cell = PutCell(@, CellRowsOf(op, bn, ti)),
                           !.txr  = PutTxr(@, TxRowsOf(op, bn, ti, oi, 1, tx)),
                           !.op   = PutOp(@, [op |-> op, bn |-> bn, ti |-> ti])],
               ti, oi + 1)

\* tx_matched: some input resolved or some output exists (no custom cell filter)
Matched(R0, body, bn, ti) ==
  LET tx == body[ti + 1] IN
  \/ Len(Outs(tx)) > 0
  \/ ti > 0 /\ \E i \in DOMAIN Ins(tx) : InputStored(R0, body, bn, Ins(tx)[i]) # <<>>

RECURSIVE AppTxs(_, _, _, _, _)
AppTxs(R0, body, bn, acc, ti) ==
  IF ti >= Len(body) THEN acc
  ELSE LET a1 == AppIns(R0, body, bn, acc, ti, 0)
           a2 == AppOuts(body, bn, a1, ti, 0)
           a3 == IF Matched(R0, body, bn, ti) THEN [a2 EXCEPT !.txh = @ \cup {body[ti + 1]}] ELSE a2
       IN AppTxs(R0, body, bn, a3, ti + 1)

HeaderRow(R0, b) ==
  LET body == Body(b)  bn == Number(b)
      m    == {ti \in 0..(Len(body) - 1) : Matched(R0, body, bn, ti)}
      all  == Cardinality(m) = Len(body)
      list == SetToSortSeq(m, LAMBDA x, y : x < y)
  IN [bn |-> bn, blk |-> b, filtered |-> ~all,
      txs |-> [k \in DOMAIN list |-> <<body[list[k] + 1], Len(Outs(body[list[k] + 1])), list[k]>>]]

\* Indexer::prune, run on the state after the append batch
TipHdr(Rx) == CHOOSE h \in Rx.hdr : \A g \in Rx.hdr : <<g.bn, g.blk>> = <<h.bn, h.blk>> \/ g.bn < h.bn \/ (g.bn = h.bn /\ g.blk < h.blk)
PruneRows(Rx) ==
  LET t == TipHdr(Rx).bn IN
  IF t <= KeepNum + 1 THEN Rx
  ELSE LET p    == t - (KeepNum + 1)
           dead == {c \in Rx.cons : c.cbn < p}
           minb == IF dead = {} THEN -1 ELSE CHOOSE n \in {c.cbn : c \in dead} : \A c \in dead : n <= c.cbn
           hs   == IF minb = -1 THEN {} ELSE {h \in Rx.hdr : h.bn >= minb /\ h.bn <= p}
       IN [Rx EXCEPT !.cons = @ \ dead,
                     !.txh  = @ \ UNION {{h.txs[k][1] : k \in DOMAIN h.txs} : h \in hs},
                     !.hdr  = @ \ hs]

AppendRows(R0, b) ==
  LET body == Body(b)  bn == Number(b)
      a == AppTxs(R0, body, bn, R0, 0)
      c == [a EXCEPT !.hdr = @ \cup {HeaderRow(R0, b)}]
  IN IF bn % PruneInterval = 0 THEN PruneRows(c) ELSE c

-----------------------------------------------------------------------------
(* Indexer::rollback: the transactions of the tip's header row backwards; outputs, then inputs, of each. *)
RECURSIVE RbOuts(_, _, _, _, _, _, _)
RbOuts(R0, bn, acc, tx, ti, nouts, oi) ==
  IF oi >= nouts THEN acc
  ELSE LET op == <<tx, oi>>
           known == HasOp(R0.op, op) \/ \E c \in R0.cons : c.cbn = bn /\ c.op = op
           nx == IF ~known THEN acc
                 ELSE [acc EXCEPT !.cell = DelCell(@, CellRowsOf(op, bn, ti)),
                                  !.txr  = DelTxr(@, TxRowsOf(op, bn, ti, oi, 1, tx)),
                                  !.op   = {x \in @ : x.op # op}]
       IN RbOuts(R0, bn, nx, tx, ti, nouts, oi + 1)

RECURSIVE RbIns(_, _, _, _, _, _)
RbIns(R0, bn, acc, tx, ti, ii) ==
  LET ins == IF tx \in R0.txh THEN Ins(tx) ELSE <<>> IN      \* the stored TxHash row (missing = no inputs)
  IF ti = 0 \/ ii >= Len(ins) THEN acc
  ELSE LET op == ins[ii + 1]
           cs == {c \in R0.cons : c.cbn = bn /\ c.op = op}
           nx == IF cs = {} THEN acc
                 ELSE LET c == CHOOSE c \in cs : TRUE IN
                      [acc EXCEPT !.cell = PutCell(@, CellRowsOf(op, c.bn, c.ti)),
                                  !.txr  = DelTxr(@, TxRowsOf(op, bn, ti, ii, 0, tx)),
                                  !.op   = PutOp(@, [op |-> op, bn |-> c.bn, ti |-> c.ti])]
       IN RbIns(R0, bn, nx, tx, ti, ii + 1)

RECURSIVE RbTxs(_, _, _, _, _)
RbTxs(R0, bn, acc, txs, k) ==      \* k runs from Len(txs) down to 1
  IF k = 0 THEN acc
  ELSE LET e  == txs[k]
           a1 == RbOuts(R0, bn, acc, e[1], e[3], e[2], 0)
           a2 == RbIns(R0, bn, a1, e[1], e[3], 0)
       IN RbTxs(R0, bn, [a2 EXCEPT !.txh = @ \ {e[1]}], txs, k - 1)

RollbackRows(R0) ==
  IF R0.hdr = {} THEN R0
  ELSE LET h == TipHdr(R0)
           a == RbTxs(R0, h.bn, R0, h.txs, Len(h.txs))
       IN [a EXCEPT !.hdr = @ \ {h}]

-----------------------------------------------------------------------------
(* Queries.  q = [st : "lock"|"type", s : script, exact : BOOLEAN,                                   *)
(*               fs : script | NoScript (filter.script), slen, dlen, cap, blk : <<>> | <<lo, hi>>]  *)
InRange(rng, v) == rng = <<>> \/ (rng[1] <= v /\ v < rng[2])
Other(st, o) == IF st = "lock" THEN o.type ELSE o.lock

\* search-key match on a stored script, as the key iteration does it
KeyMatch(q, s, key) ==
  /\ Len(key) >= Len(Raw[q.s]) /\ SubSeq(key, 1, Len(Raw[q.s])) = Raw[q.s]     \* key.starts_with(prefix)
  /\ (AliasBug \/ Len(Raw[s]) >= Len(Raw[q.s]))                                  \* the script itself covers the prefix
  /\ (q.exact => Len(Raw[s]) = Len(Raw[q.s]))                                    \* key.len() == prefix.len() + 16 / 17

\* filters of get_cells / get_cells_capacity on a cell (output o, data length, creating block)
CellFilter(q, o, bn) ==
  LET oth == Other(q.st, o) IN
  /\ (q.fs # NoScript => oth # NoScript /\ IsPrefix(Raw[q.fs], Raw[oth]))
  /\ InRange(q.slen, ScriptLen(oth))
  /\ InRange(q.dlen, o.dlen)
  /\ InRange(q.cap, o.cap)
  /\ InRange(q.blk, bn)

\* get_cells on the rows: the matching rows as [tx, oi, bn, ti, s] (bn, ti come from the OutPoint row, as in
\* the code; s = script of the row, which fixes its place in the iteration order)
QCellSet(Rx, q) ==
  {[tx |-> r.tx, oi |-> r.oi, bn |-> GetOp(Rx.op, <<r.tx, r.oi>>).bn, ti |-> GetOp(Rx.op, <<r.tx, r.oi>>).ti,
    s |-> r.s, kbn |-> r.bn, kti |-> r.ti] :
     r \in {r \in Rx.cell : r.st = q.st /\ KeyMatch(q, r.s, CellKey(r))
                            /\ HasOp(Rx.op, <<r.tx, r.oi>>)
                            /\ CellFilter(q, Out(<<r.tx, r.oi>>), GetOp(Rx.op, <<r.tx, r.oi>>).bn)}}

\* get_transactions (ungrouped) on the rows; filter.script is an exact key lookup
QTxSet(Rx, q) ==
  LET ost == IF q.st = "lock" THEN "type" ELSE "lock" IN
  {[tx |-> r.tx, bn |-> r.bn, ti |-> r.ti, ioi |-> r.ioi, io |-> r.io, s |-> r.s] :
     r \in {r \in Rx.txr : r.st = q.st /\ KeyMatch(q, r.s, TxKey(r))
                           /\ (q.fs # NoScript =>
                                 \E x \in Rx.txr : x.st = ost /\ Raw[x.s] = Raw[q.fs] /\ x.bn = r.bn /\ x.ti = r.ti
                                                   /\ x.ioi = r.ioi /\ x.io = r.io)
                           /\ InRange(q.blk, r.bn)}}

\* the order in which the pages deliver them: by key
CellOrder(S) ==
  LET sorted == SetToSortSeq(S, LAMBDA a, b : LexLess(Raw[a.s] \o <<0, a.kbn, a.kti, a.oi>>, Raw[b.s] \o <<0, b.kbn, b.kti, b.oi>>))
  IN [k \in DOMAIN sorted |-> <<sorted[k].tx, sorted[k].oi, sorted[k].bn, sorted[k].ti>>]
TxOrder(S) ==
  LET sorted == SetToSortSeq(S, LAMBDA a, b : LexLess(Raw[a.s] \o <<0, a.bn, a.ti, a.ioi, a.io>>, Raw[b.s] \o <<0, b.bn, b.ti, b.ioi, b.io>>))
  IN [k \in DOMAIN sorted |-> <<sorted[k].tx, sorted[k].bn, sorted[k].ti, sorted[k].ioi, sorted[k].io>>]
\* get_transactions with group_by_transaction: the same rows in the same key order, consecutive rows of one transaction
\* folded into ONE object <<tx, bn, ti, cells>>, cells = the <<io, ioi>> of its rows in key order; a page holds up to `limit`
\* objects and never cuts a run of rows (service.rs: the scan stops at the first row of another transaction once the page is full)
RECURSIVE GroupRuns(_, _)
GroupRuns(s, acc) ==
  IF s = <<>> THEN acc
  ELSE LET h == Head(s) IN
       IF acc # <<>> /\ acc[Len(acc)][1] = h[1]
       THEN GroupRuns(Tail(s), [acc EXCEPT ![Len(acc)] = <<@[1], @[2], @[3], Append(@[4], <<h[5], h[4]>>)>>])
       ELSE GroupRuns(Tail(s), Append(acc, <<h[1], h[2], h[3], << <<h[5], h[4]>> >> >>))
TxGrouped(S) == GroupRuns(TxOrder(S), <<>>)
QCells(Rx, q) == CellOrder(QCellSet(Rx, q))
QTxs(Rx, q)   == TxOrder(QTxSet(Rx, q))

\* a cell row without its OutPoint row makes get_cells panic ("stored OutPoint")
NoDanglingCellRow == \A r \in R.cell : HasOp(R.op, <<r.tx, r.oi>>)

-----------------------------------------------------------------------------
(* The declarative answers: filters over the ledger of a chain *)
ScriptMatch(q, s) == /\ s # NoScript
                     /\ IF q.exact THEN Raw[s] = Raw[q.s] ELSE IsPrefix(Raw[q.s], Raw[s])
Searched(st, o) == IF st = "lock" THEN o.lock ELSE o.type

\* LC = LiveCells(chain), H = History(chain)
FCellSet(LC, q) ==
  {[tx |-> c.tx, oi |-> c.oi, bn |-> c.bn, ti |-> c.ti, s |-> Searched(q.st, c), kbn |-> c.bn, kti |-> c.ti] :
     c \in {c \in LC : ScriptMatch(q, Searched(q.st, c)) /\ CellFilter(q, c, c.bn)}}
FTxSet(H, q) ==
  {[tx |-> h.tx, bn |-> h.bn, ti |-> h.ti, ioi |-> h.ioi, io |-> h.io, s |-> Searched(q.st, h)] :
     h \in {h \in H : /\ ScriptMatch(q, Searched(q.st, h))
                      /\ (q.fs # NoScript => Other(q.st, h) # NoScript /\ Raw[Other(q.st, h)] = Raw[q.fs])
                      /\ InRange(q.blk, h.bn)}}
FCells(ch, q) == CellOrder(FCellSet(LiveCells(ch), q))
FTxs(ch, q)   == TxOrder(FTxSet(History(ch), q))

-----------------------------------------------------------------------------
(* State *)
NoFilter(st, s, exact) == [st |-> st, s |-> s, exact |-> exact, fs |-> NoScript,
                           slen |-> <<>>, dlen |-> <<>>, cap |-> <<>>, blk |-> <<>>]
BaseQueries == {NoFilter(st, s, e) : st \in {"lock", "type"}, s \in QueryScripts, e \in BOOLEAN}
AllAnswers(Rx) == [q \in BaseQueries |-> <<QCellSet(Rx, q), QTxSet(Rx, q)>>]

IdxTip == IF R.hdr = {} THEN -1 ELSE TipHdr(R).blk          \* block id of get_indexer_tip; -1 = none

IdxInit == /\ LedgerInit
           /\ R = AppendRows(EmptyRows, 0)                   \* the loop's first step: genesis
           /\ hw = 0 /\ ok = TRUE /\ snap = <<>>

Mine == /\ \E p \in DOMAIN tree : \E txs \in Bodies(Chain(p)) : MineBlock(p, txs)
        /\ UNCHANGED <<main, R, hw, ok, snap>>
Attach == (\E b \in DOMAIN tree : AttachBlock(b)) /\ UNCHANGED <<tree, R, hw, ok, snap>>
Detach == DetachBlock /\ UNCHANGED <<tree, R, hw, ok, snap>>

IdxAppend(b) ==
  /\ b \in DOMAIN tree /\ b # 0 /\ tree[b].parent = IdxTip
  /\ R' = AppendRows(R, b)
  /\ hw' = IF Number(b) > hw THEN Number(b) ELSE hw
  /\ snap' = Append(snap, AllAnswers(R))
  /\ UNCHANGED <<tree, main, ok>>

\* rolling back block number n leaves the retention when more than KeepNum blocks below the high-water mark go
IdxRollback ==
  /\ IdxTip > 0
  /\ R' = RollbackRows(R)
  /\ ok' = (ok /\ hw - Number(IdxTip) < KeepNum)
  /\ snap' = Front(snap)
  /\ UNCHANGED <<tree, main, hw>>

\* IndexerSyncService::try_loop_sync, one iteration
SyncStep ==
  /\ IdxTip >= 0
  /\ LET nxt == MainAt(Number(IdxTip) + 1) IN
     /\ nxt # -1
     /\ IF tree[nxt].parent = IdxTip THEN IdxAppend(nxt) ELSE IdxRollback

\* the component on its own: any walk over the tree
WalkNext == Mine \/ (\E b \in DOMAIN tree : IdxAppend(b)) \/ IdxRollback
\* the component driven by the loop while the main chain moves
SyncNext == Mine \/ Attach \/ Detach \/ SyncStep
SpecWalk == IdxInit /\ [][WalkNext]_ivars
SpecSync == IdxInit /\ [][SyncNext]_ivars

-----------------------------------------------------------------------------
(* Properties *)
\* (equal row sets: the delivery order is a function of the rows' keys, see CellOrder / TxOrder)
AnswersFor(Q) == LET LC == LiveCells(Chain(IdxTip))
                     H  == History(Chain(IdxTip))
                 IN \A q \in Q : /\ QCellSet(R, q) = FCellSet(LC, q)
                                 /\ QTxSet(R, q)   = FTxSet(H, q)

\* C18: tip, cells and transactions equal the filters over the chain of the indexer tip
TipOK == ok => /\ IdxTip \in DOMAIN tree
               /\ \A h \in R.hdr : \A g \in R.hdr : h.bn = g.bn => h = g
               /\ TipHdr(R).bn = Number(IdxTip)
AnswersAreFilters == ok => (NoDanglingCellRow /\ AnswersFor(BaseQueries))

\* rolling back the last appended block restores every answer given before it was appended (within the retention)
RollbackInverts == [][(IdxRollback /\ ok') => AllAnswers(R') = Last(snap)]_ivars

\* Follows: while the main chain is higher than the indexer tip the loop can act, and every act
\* strictly reduces the distance (blocks to roll back + blocks to append)
Stale    == Cardinality({k \in DOMAIN Chain(IdxTip) : ~OnChain(main, Chain(IdxTip)[k])})
Distance == Stale + (Len(main) - (Len(Chain(IdxTip)) - Stale))
FollowsEnabled == (IdxTip >= 0 /\ Len(main) - 1 > Number(IdxTip)) => ENABLED SyncStep
FollowsProgress == [][SyncStep => Distance' < Distance]_ivars
Caught == (IdxTip = Last(main)) => ~ENABLED SyncStep
=============================================================================
