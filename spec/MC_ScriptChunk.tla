---------------------------- MODULE MC_ScriptChunk ----------------------------
(* Exhaustive configurations of ScriptChunk.tla.                                                    *)
(*  - abstract cost profiles x every limit x <= MaxChunks chunks x every budget (properties)        *)
(*  - the MEASURED profile of a real transaction (file named by env C05_PROFILE) x limits around     *)
(*    every distance between two suspension points: every history is printed (HIST) and replayed on *)
(*    the real TransactionScriptsVerifier, which must reach the same state after every call.        *)
EXTENDS ScriptChunk, Json, IOUtils
CONSTANTS Emit, WithSignal
VARIABLE hist
mcvars == <<vars, hist>>

U(n) == [c |-> n, need |-> 0]
C(n) == [c |-> n, need |-> n]
X(m, n) == [c |-> n, need |-> m]
G(ch, exit) == [ch |-> ch, exit |-> exit, opaque |-> FALSE]
\* program load (unchecked) then instruction blocks; two groups
Abs1 == << G(<<U(2), C(1), C(3)>>, 0), G(<<U(1), C(2), C(2)>>, 0) >>
\* the second group fails (exit code 5) after an unchecked lump in the middle; the third is never reached
Abs2 == << G(<<U(1), C(2)>>, 0), G(<<U(1), C(1), U(3), C(1)>>, 5), G(<<C(2)>>, 0) >>
\* a compound charge (exec), and a single indivisible group (type-id system script) between two ordinary ones
Abs3 == << G(<<U(1), C(1), X(2, 3)>>, 0), G(<<C(4)>>, 0), G(<<U(2), C(1)>>, 0) >>
L12 == 0..12

Profile == JsonDeserialize(IOEnv.C05_PROFILE)
FileGroups == Profile.groups
FileLimits == {Profile.limits[i] : i \in 1..Len(Profile.limits)}
FileBudgets == {Profile.budgets[i] : i \in 1..Len(Profile.budgets)}

Rec(op, arg) == [op |-> op, arg |-> arg, phase |-> phase', cur |-> cur', done |-> done', gcons |-> gcons',
                 res |-> result']
MCInit == Init /\ hist = <<>>
MCChunk    == \E lim \in Limits : Chunk(lim) /\ hist' = Append(hist, Rec("chunk", lim))
MCBudget   == \E max \in Budgets : WithBudget(max) /\ hist' = Append(hist, Rec("budget", max))
MCSigStart == WithSignal /\ \E max \in Budgets : SigStart(max) /\ hist' = Append(hist, Rec("sigstart", max))
MCSigSeg   == WithSignal /\ \E lim \in Limits : SigSeg(lim) /\ hist' = Append(hist, Rec("sigseg", lim))
MCSigStop  == WithSignal /\ SigStop /\ hist' = Append(hist, Rec("sigstop", 0))
MCNext == MCChunk \/ MCBudget \/ MCSigStart \/ MCSigSeg \/ MCSigStop
MCSpec == MCInit /\ [][MCNext]_mcvars

\* evaluated once per distinct state (= per history); always TRUE
EmitHist == (Emit /\ phase = "end") => PrintT(<<"HIST", ToJson(hist)>>)
=============================================================================
