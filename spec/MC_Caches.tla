---------------------------- MODULE MC_Caches ----------------------------
(* Exhaustive configurations of Caches.tla + export of every complete history with the cache-free *)
(* expectation of each step (replayed on real nodes A / B / C by harness c14).                     *)
EXTENDS Caches, Json
CONSTANT Emit
EmitHist == (Emit /\ slot = 9) => PrintT(<<"HIST", ToJson(hist)>>)
=============================================================================
