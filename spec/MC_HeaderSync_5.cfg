SPECIFICATION Spec
CONSTANTS
  Peers = {1, 2}
  Blocks = {2, 3, 4, 5, 6}
  W = 2
  Timeout = 2
  PruneWindow = 20
  SlowWindow = 1
  Window = 1
  Limit = 2
  Deltas = {3}
  MaxAdv = 1
  Low0 = 1
  Depth = 0
  Trees = {}
INVARIANT TreeOK
INVARIANT StoreOK
INVARIANT PeersOK
INVARIANT InflightOK
INVARIANT RequestSafe
INVARIANT RequestLive
INVARIANT LastCommonOK
INVARIANT IBOnePeerPerBlock
INVARIANT IBListedIsInflight
INVARIANT IBInflightIsListed
INVARIANT IBStaleOK
INVARIANT IBTraceLive
PROPERTY NeverTwiceMC
PROPERTY OnlyReleasedByMC
VIEW AgeView
CHECK_DEADLOCK FALSE
