SPECIFICATION Spec
CONSTANTS
 EpochLen = 3
 InitTip = 8
 MaxTip = 12
 Limit = 2
 SideHeights <- Sides3
 LateSides <- Late3
 NoExt <- NoExt1
 MaxPasses = 3
 MaxCrashes = 2
 Bug = "none"
INVARIANT TypeOK
INVARIANT QueryUnchanged
INVARIANT SideAllOrNothing
INVARIANT NoMainChainBlockLost
INVARIANT OnlyAncientMoved
INVARIANT Contiguous
INVARIANT AtMostLimit
INVARIANT OnlySideChainRemoved
CHECK_DEADLOCK FALSE
