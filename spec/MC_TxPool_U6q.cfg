SPECIFICATION MSpec
CONSTANTS
 Txs <- U6Txs
 Ins <- U6Ins
 Deps <- U6Deps
 Fee <- U6Fee
 Size <- U6Size
 HDeps <- NoHDeps
 Cycles <- UnitCycles
 Genesis <- MGenesis
 Coded = FALSE
 KeepHist = FALSE
 MaxProps = 1
 MaxChain = 3
 MaxOps = 6
 MConf <- MConf_U6
INVARIANT NoDoubleSpend
INVARIANT LinksExact
INVARIANT AggregatesExact
INVARIANT EdgesExact
INVARIANT CountsExact
INVARIANT AncestorLimit
INVARIANT RbfRule
VIEW PoolView
CHECK_DEADLOCK FALSE
