SPECIFICATION MSpec
CONSTANTS
  CST = 2
  EHRT = 1
  MaxProtect = 1
  MaxPeers = 2
  MaxTD = 3
  Ticks = {1, 2}
  MaxNow = 9
  Flags <- FlagsAll
  WithStart = TRUE
  Mut = "nogh"
INVARIANT TypeOK
INVARIANT IdleClean
INVARIANT InboundUntouched
INVARIANT ProtectBound
INVARIANT WorkNotAboveTip
INVARIANT TimerMatchesGhost
INVARIANT OneGetHeadersPerTimer
INVARIANT NoOverdue
PROPERTY NeverEvictCaughtUp
PROPERTY OnlyOutboundUnprotected
PROPERTY GraceRespected
PROPERTY GetHeadersRight
PROPERTY PromptGetHeaders
PROPERTY PromptEviction
PROPERTY CatchUpResets
PROPERTY BestKnownMonotone
PROPERTY RecordStable
CHECK_DEADLOCK FALSE
