---------------------------- MODULE MC_Versionbits ----------------------------
(* Model-checking configuration of Versionbits.tla + export of every complete tree with, per      *)
(* period boundary, the table "state of the previous period -> allowed states" (and the answer   *)
(* of the counting loop as coded), for replay on the real Versionbits implementation.            *)
EXTENDS Versionbits, Json
CONSTANT Emit

\* threshold sets for the cfg files (tuples cannot be written in a cfg)
Thr34 == {<<3, 4>>}
Thr12 == {<<1, 2>>}
ThrAll == {<<1, 2>>, <<3, 4>>, <<1, 1>>}

StSeq == <<"defined", "started", "locked_in", "active", "failed">>
KeyRec(k) == [ k |-> k, e |-> KNum(k), prev |-> IF KNum(k) = 0 THEN -1 ELSE PrevAnchor(k),
               allowed |-> [i \in 1..5 |-> IF KNum(k) = 0 THEN {"defined"} ELSE Step(StSeq[i], k)],
               coded |-> [i \in 1..5 |-> IF KNum(k) = 0 THEN "defined" ELSE NextAs(StSeq[i], k, TRUE)],
               cnt |-> IF KNum(k) >= Period THEN Signals(Window(k)) ELSE 0,
               tot |-> IF KNum(k) >= Period THEN Cardinality(Window(k)) ELSE 0,
               shift |-> IF KNum(k) >= Period THEN EpochLenBack(k, 0) - el[KeyBack(k, Period - 1)] ELSE 0,
               sts |-> Sts(k), since |-> Since(k) ]
SetSeq(S) == LET RECURSIVE F(_)
                 F(T) == IF T = {} THEN <<>> ELSE LET x == CHOOSE y \in T : \A z \in T : y <= z IN <<x>> \o F(T \ {x})
             IN F(S)
TRecord == [ period |-> Period, start |-> start, timeout |-> timeout, minact |-> minact, num |-> Num, den |-> Den,
             glen |-> GenesisLen, n |-> N,
             parent |-> [i \in 1..N |-> parent[i]], sig |-> [i \in 1..N |-> sig[i]],
             ep |-> [i \in 1..N |-> <<en[i], ei[i], el[i]>>],
             anchor |-> [i \in 1..N |-> AnchorKey(i)], forkAt |-> forkAt,
             keys |-> [i \in 1..Cardinality(AnchorKeys) |-> KeyRec(SetSeq(AnchorKeys)[i])] ]
\* evaluated once per distinct state; always TRUE
EmitTree == (Emit /\ minted = N) => PrintT(<<"T", ToJson(TRecord)>>)
\* simulation: stop a behaviour when the tree is complete
Complete == minted = N
=============================================================================
