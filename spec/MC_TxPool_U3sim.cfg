SPECIFICATION MSpec
CONSTANTS
 Txs <- U3Txs
 Ins <- U3Ins
 Deps <- U3Deps
 Fee <- U3Fee
 Size <- U3Size
 HDeps <- NoHDeps
 Cycles <- UnitCycles
 Genesis <- MGenesis
 Coded = FALSE
 KeepHist = TRUE
 MaxProps = 1
 MaxChain = 4
 MaxOps = 7
 MConf <- MConf_U3sim
INVARIANT NoDoubleSpend
INVARIANT LinksExact
INVARIANT AggregatesExact
INVARIANT EdgesExact
INVARIANT CountsExact
INVARIANT AncestorLimit
INVARIANT RbfRule
INVARIANT EmitHist
CHECK_DEADLOCK FALSE
