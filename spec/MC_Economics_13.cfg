SPECIFICATION MCSpec
CONSTANTS
 RatioNum = 4
 RatioDen = 10
 WClose = 1
 WFar = 3
 Txs = {1, 2}
 MaxLen = 6
 MaxProposals = 3
 Emit = TRUE
 Clip = FALSE
INVARIANT Valid
INVARIANT Shares
INVARIANT Conserved
INVARIANT WalkOK
INVARIANT EmitChain
CHECK_DEADLOCK FALSE
