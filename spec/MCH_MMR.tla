---------------------------- MODULE MCH_MMR ----------------------------
(* History export for the R binding of MMR.tla: behaviours (block arrivals with work and an honest / flawed    *)
(* chain-root commitment) together with the main chain and the refused blocks the specification expects     *)
(* after each arrival.                                                                                     *)
EXTENDS MC_MMR, Json
CONSTANTS HistLen
VARIABLE hist
HInit == Init /\ hist = <<>>
HNext == /\ Len(hist) < HistLen
         /\ \E p \in DOMAIN tree, w \in Works, honest \in BOOLEAN :
              /\ Mine(p, w, honest)
              /\ hist' = Append(hist, [b |-> NextId, parent |-> p, work |-> w, honest |-> honest,
                                       main |-> main', bad |-> {x \in bad' \cup dropped' : TRUE}])
HSpec == HInit /\ [][HNext]_<<vars, hist>>
EmitHist == (Len(hist) = HistLen) => PrintT(<<"HIST", ToJson(hist)>>)
=============================================================================
