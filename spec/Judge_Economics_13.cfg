SPECIFICATION Spec
CONSTANTS
 RatioNum = 4
 RatioDen = 10
 WClose = 1
 WFar = 3
INVARIANT Emit
CHECK_DEADLOCK FALSE
