SPECIFICATION MSpec
CONSTANTS
 Txs <- U2Txs
 Ins <- U2Ins
 Deps <- U2Deps
 Fee <- U2Fee
 Size <- U2Size
 HDeps <- NoHDeps
 Cycles <- UnitCycles
 Genesis <- MGenesis
 Coded = FALSE
 KeepHist = TRUE
 MaxProps = 1
 MaxChain = 4
 MaxOps = 7
 MConf <- MConf_U2sim
INVARIANT NoDoubleSpend
INVARIANT LinksExact
INVARIANT AggregatesExact
INVARIANT EdgesExact
INVARIANT CountsExact
INVARIANT AncestorLimit
INVARIANT RbfRule
INVARIANT EmitHist
CHECK_DEADLOCK FALSE
