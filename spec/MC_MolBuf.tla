------------------------------ MODULE MC_MolBuf ------------------------------
(* Exhaustive small-buffer model (C15 canonicity, C16 decode verdicts).                                   *)
(* State = a byte string grown from the left out of 4-byte words (WordSet) and, at the end, up to three    *)
(* odd bytes.  TLC reaches EVERY such string up to MaxWords words; for every small real schema type         *)
(* (SmallTypes) it checks                                                                                   *)
(*    CanonOK   WF(t, b, strict)  =>  Enc(t, Dec(t, b)) = b      (an accepted string is THE encoding)       *)
(*    ModesOK   strict => compatible                                                                        *)
(* and writes one line per string: the string and, per type, the verdict code strict + 2 * compatible.      *)
EXTENDS Molecule, CkbSchema, TLC, IOUtils, CSV
CONSTANTS MaxWords,   \* bound on the number of words
          WordLows,   \* the words a string is built from are <<a, 0, 0, 0>> for a in WordLows ...
          HighWord,   \* ... and, if TRUE, the word 2^24 = <<0, 0, 0, 1>> (larger than any buffer)
          OddByte,    \* the value of the odd bytes at the end
          DoEmit
VARIABLES buf, odd,   \* odd: number of odd bytes appended (no word may follow them)
          codes       \* per small type: strict + 2 * compatible verdict of buf (computed once per string)
vars == <<buf, odd, codes>>

SmallTypes == <<"Bytes", "BytesOpt", "BytesVec", "BytesOptVec", "Uint32", "Uint32Vec", "BoolOpt", "PortOpt",
                "InIBD", "Ping", "Time", "GetNodes", "Address", "AddressVec", "Node", "Node2", "Nodes", "WitnessArgs",
                "PingPayload", "PingMessage", "MerkleProof", "GetBlocks", "RelayTransactionHashes", "SyncMessage",
                "BlockFilterMessage", "GetBlockTransactions", "Uint64VecOpt">>

WordSet == {<<a, 0, 0, 0>> : a \in WordLows} \cup (IF HighWord THEN {<<0, 0, 0, 1>>} ELSE {})
CodesOf(b) == Tup([i \in 1..Len(SmallTypes) |->
                 (IF WF(SmallTypes[i], b, FALSE) THEN 1 ELSE 0) + (IF WF(SmallTypes[i], b, TRUE) THEN 2 ELSE 0)])
Init == buf = <<>> /\ odd = 0 /\ codes = CodesOf(<<>>)
AddWord(w) == odd = 0 /\ Len(buf) < 4 * MaxWords /\ buf' = buf \o w /\ UNCHANGED odd /\ codes' = CodesOf(buf')
AddByte == odd < 3 /\ buf' = Append(buf, OddByte) /\ odd' = odd + 1 /\ codes' = CodesOf(buf')
Next == (\E w \in WordSet : AddWord(w)) \/ AddByte
Spec == Init /\ [][Next]_vars

CanonOK == \A i \in 1..Len(SmallTypes) : codes[i] % 2 = 1 => Enc(SmallTypes[i], Dec(SmallTypes[i], buf)) = buf
ModesOK == \A i \in 1..Len(SmallTypes) : codes[i] # 1
\* evaluated once per distinct state; one appended line per string
Emit == DoEmit => CSVWrite("%1$s;%2$s", <<buf, codes>>, IOEnv.MOLBUF_OUT)
=============================================================================
