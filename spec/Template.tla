------------------------------ MODULE Template ------------------------------
(* C13: every block template handed to miners would be accepted by the node itself.                            *)
(* A template is [parent, txs (in block order), props]; `ch` is the main chain up to the parent it names.        *)
(* TemplateValid is the part of block validity that depends on the pool's choice of content (two-phase commit,   *)
(* liveness, order, conflicts, header deps) plus the statement's own clause (no transaction without all of its    *)
(* in-pool ancestors); reward / DAO / epoch / target / chain-root / uncles / size accounting are judged by the    *)
(* node's own verifier on a judge node (the `judge` field of the recorded template).                              *)
EXTENDS TxPool

SeqSet(s) == { s[i] : i \in 1..Len(s) }
Before(s, i) == { s[j] : j \in 1..(i - 1) }
\* committable on top of ch in this order
ContentValid(txs, ch, cf) ==
  /\ \A i \in 1..Len(txs) : \A j \in 1..Len(txs) : i # j => txs[i] # txs[j]
  /\ \A i \in 1..Len(txs) :
       LET t == txs[i] IN
       /\ t \in WindowSet(ch, cf)                                   \* proposed within the window
       /\ t \notin Committed(ch)
       /\ \A o \in Ins[t] : /\ LiveOnChain(o, ch) \/ Creator(o) \in Before(txs, i)     \* parents first, nothing unresolved
                            /\ o \notin SpentBy(SeqSet(txs) \ {t})                     \* free of conflicts
       /\ \A o \in Deps[t] : /\ LiveOnChain(o, ch) \/ Creator(o) \in Before(txs, i)
                             /\ o \notin SpentBy(Before(txs, i))                       \* a dep may be spent only later
       /\ HDeps[t] \subseteq BlockIds(ch)
\* no transaction appears without all of its in-pool ancestors (and after them)
AncestorClosed(txs, P) ==
  \A i \in 1..Len(txs) : txs[i] \in P => Anc(txs[i], P) \subseteq Before(txs, i)

\* model-checked claim (MC_PoolReorg): in every state in which the C11/C12 invariants hold, EVERY ancestor-closed
\* selection of proposed entries is committable (in any parents-first order), so that whatever heuristic the
\* selector uses, an ancestor-closed proposed-only template is valid
SetValid(S, ch, cf) ==
  /\ S \subseteq WindowSet(ch, cf) \ Committed(ch)
  /\ \A t \in S : /\ \A o \in Ins[t] : (LiveOnChain(o, ch) \/ Creator(o) \in S) /\ o \notin SpentBy(S \ {t})
                  /\ \A o \in Deps[t] : LiveOnChain(o, ch) \/ Creator(o) \in S
                  /\ HDeps[t] \subseteq BlockIds(ch)
TemplateSound ==
  \A S \in SUBSET { t \in pool : st[t] = "proposed" } :
     (\A t \in S : Anc(t, pool) \subseteq S) => SetValid(S, chain, conf)
=============================================================================
