SPECIFICATION MSpec
CONSTANTS
 Txs <- U6Txs
 Ins <- U6Ins
 Deps <- U6Deps
 Fee <- U6Fee
 Size <- U6Size
 HDeps <- NoHDeps
 Cycles <- UnitCycles
 Genesis <- MGenesis
 Coded = FALSE
 KeepHist = TRUE
 MaxProps = 1
 MaxChain = 4
 MaxOps = 7
 MConf <- MConf_U6sim
INVARIANT NoDoubleSpend
INVARIANT LinksExact
INVARIANT AggregatesExact
INVARIANT EdgesExact
INVARIANT CountsExact
INVARIANT AncestorLimit
INVARIANT RbfRule
INVARIANT EmitHist
CHECK_DEADLOCK FALSE
