SPECIFICATION Spec
CONSTANTS
 MaxBlocks = 5
 Works = {1}
 LiveReads = FALSE
INVARIANT FilterComplete
INVARIANT FilterHashChained
INVARIANT NoPanic
INVARIANT CaughtUp
CHECK_DEADLOCK FALSE
