------------------------------ MODULE HeaderMap ------------------------------
(***************************************************************************)
(* The two-tier header index (shared/src/types/header_map: HeaderMapKernel, *)
(* MemoryMap, SledBackend).                                                  *)
(*                                                                         *)
(* Mathematical model: `plain`, a partial map key -> value.                  *)
(* Structure: `mem` (keys in memory, least recently used first) with their   *)
(* values `memv`, `disk` (the backend), memory limit `limit`.                *)
(*   Insert(k, v)  write to memory (a copy left on disk is shadowed)          *)
(*   Get(k)        memory first (refresh); else take it from disk and promote *)
(*   Contains(k)   memory or disk                                            *)
(*   Remove(k)     both tiers                                                *)
(*   Spill         limit_memory: the |mem| - limit least recently used        *)
(*                 entries move to disk; placed between any two operations    *)
(* Every operation records the answer the structure gives (`out.ret`) and the *)
(* answer a plain map gives (`out.exp`); the property is that they agree and  *)
(* that the two tiers together always hold exactly `plain`.                   *)
(***************************************************************************)
EXTENDS Naturals, Sequences, FiniteSets, TLC
CONSTANTS None          \* the answer "absent" (a value outside the value set)
VARIABLES plain, mem, memv, disk, limit, out
vars == <<plain, mem, memv, disk, limit, out>>

Drop(f, S) == [x \in DOMAIN f \ S |-> f[x]]
Put(f, k, v) == [x \in DOMAIN f \cup {k} |-> IF x = k THEN v ELSE f[x]]
Without(s, k) == SelectSeq(s, LAMBDA x : x # k)
Look(f, k) == IF k \in DOMAIN f THEN f[k] ELSE None
B2N(b) == IF b THEN 1 ELSE 0

Start(L) == /\ plain = <<>> /\ mem = <<>> /\ memv = <<>> /\ disk = <<>> /\ limit = L
            /\ out = [op |-> "none", ret |-> None, exp |-> None, spilled |-> FALSE]

\* the value the two tiers hold for k
Held(k) == IF k \in DOMAIN memv THEN memv[k] ELSE Look(disk, k)
Spilled(k) == k \notin DOMAIN memv /\ k \in DOMAIN disk

Insert(k, v) ==
  /\ plain' = Put(plain, k, v)
  /\ mem' = Append(Without(mem, k), k)
  /\ memv' = Put(memv, k, v)
  /\ out' = [op |-> "Insert", ret |-> B2N(k \in DOMAIN memv \/ k \in DOMAIN disk), exp |-> B2N(k \in DOMAIN plain),
             spilled |-> Spilled(k)]
  /\ UNCHANGED <<disk, limit>>

Get(k) ==
  /\ IF k \in DOMAIN memv
     THEN /\ mem' = Append(Without(mem, k), k)
          /\ UNCHANGED <<memv, disk>>
     ELSE IF k \in DOMAIN disk
     THEN /\ mem' = Append(mem, k) /\ memv' = Put(memv, k, disk[k]) /\ disk' = Drop(disk, {k})
     ELSE UNCHANGED <<mem, memv, disk>>
  /\ out' = [op |-> "Get", ret |-> Held(k), exp |-> Look(plain, k), spilled |-> Spilled(k)]
  /\ UNCHANGED <<plain, limit>>

Contains(k) ==
  /\ out' = [op |-> "Contains", ret |-> B2N(k \in DOMAIN memv \/ k \in DOMAIN disk), exp |-> B2N(k \in DOMAIN plain),
             spilled |-> Spilled(k)]
  /\ UNCHANGED <<plain, mem, memv, disk, limit>>

Remove(k) ==
  /\ plain' = Drop(plain, {k})
  /\ mem' = Without(mem, k) /\ memv' = Drop(memv, {k}) /\ disk' = Drop(disk, {k})
  /\ out' = [op |-> "Remove", ret |-> None, exp |-> None, spilled |-> Spilled(k)]
  /\ UNCHANGED limit

Spill ==
  /\ IF Len(mem) > limit
     THEN LET n == Len(mem) - limit
              front == {mem[i] : i \in 1..n}
          IN /\ disk' = [k \in DOMAIN disk \cup front |-> IF k \in front THEN memv[k] ELSE disk[k]]
             /\ mem' = SubSeq(mem, n + 1, Len(mem))
             /\ memv' = Drop(memv, front)
     ELSE UNCHANGED <<mem, memv, disk>>
  /\ out' = [op |-> "Spill", ret |-> None, exp |-> None, spilled |-> FALSE]
  /\ UNCHANGED <<plain, limit>>

-----------------------------------------------------------------------------
\* C17, header map
AnswersLikePlainMap == out.ret = out.exp
\* the same as a property of every step (lets an exhaustive run leave `out` out of its VIEW)
AnswersStep == out'.ret = out'.exp
AnswersAlways == [][AnswersStep]_vars
StateView == <<plain, mem, memv, disk, limit>>
HoldsExactlyPlain == /\ DOMAIN memv \cup DOMAIN disk = DOMAIN plain
                     /\ \A k \in DOMAIN plain : Held(k) = plain[k]
MemOK == /\ {mem[i] : i \in 1..Len(mem)} = DOMAIN memv
         /\ Len(mem) = Cardinality(DOMAIN memv)
=============================================================================
