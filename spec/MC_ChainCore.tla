---------------------------- MODULE MC_ChainCore ----------------------------
(* Model-checking configuration of ChainCore.tla + export of every quiescent state together with  *)
(* its scenario (tree, work, verdicts) and delivery order, for replay on the real node.           *)
EXTENDS ChainCore, Json
CONSTANT Emit

SeqOf(f) == [i \in 1..N |-> f[i]]
SetSeq(S) == LET RECURSIVE F(_)
                 F(T) == IF T = {} THEN <<>> ELSE LET x == CHOOSE y \in T : \A z \in T : y <= z IN <<x>> \o F(T \ {x})
             IN F(S)
QRecord == [ n |-> minted, parent |-> SeqOf(parent), work |-> SeqOf(work), ok |-> SeqOf(ok), order |-> order,
             tip |-> tip, td |-> TD(tip), stored |-> SetSeq(stored \ {0}), main |-> SetSeq(index \ {0}),
             ext |-> SeqOf(ext), invalid |-> SetSeq(status), orphans |-> SetSeq(orphans),
             replies |-> [i \in 1..N |-> <<replies[i].new, replies[i].dup, replies[i].err>>],
             lost |-> SeqOf(lost), greplies |-> replies[0].dup ]
\* evaluated once per distinct state; always TRUE
EmitQuiescent == (Emit /\ Quiescent /\ order # <<>>) => PrintT(<<"Q", ToJson(QRecord)>>)
=============================================================================
