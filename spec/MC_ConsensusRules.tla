------------------------- MODULE MC_ConsensusRules -------------------------
(* Context builder + probe enumeration for ConsensusRules.tla (property C03).                        *)
(*                                                                                                   *)
(* A behaviour grows a VALID context by valid extension steps (every dimension of a block is drawn in *)
(* its own step, so that random simulation picks each dimension uniformly) and forks side blocks      *)
(* (uncle candidates).  When NBlocks blocks exist, `Finish` ends the behaviour and `EmitCtx` prints    *)
(* the context together with, for EVERY prefix of the chain, the probe catalogue: for every rule the  *)
(* value at the boundary and one step on each side, each with the verdict the SPEC assigns.           *)
EXTENDS ConsensusRules, SequencesExt, FiniteSetsExt, Json

CONSTANTS NBlocks,    \* length of the context
          MaxSides,   \* number of side blocks
          Directed,   \* TRUE: draw per block whether it may embed uncles / commit / propose (simulation); FALSE: always may
          Emit        \* print contexts (simulation) or only check the sanity invariants (exhaustive)

VARIABLES chain, sides, pc, draft,
          wantU   \* drawn per block: [u, c, p]; only 0 lets the block embed uncles / commit / propose (keeps side blocks and
                  \* proposed transactions around, so that the far edges of the rules are reached)
vars == <<chain, sides, pc, draft, wantU>>

SortedSeqOf(s) == SetToSortSeq(s, LAMBDA a, b : a < b)
SubsetsUpTo(s, k) == {x \in SUBSET s : Cardinality(x) <= k}

RECURSIVE RootH(_, _)
RootH(S, i) == IF S[i].par.k = "m" THEN S[i].par.i ELSE RootH(S, S[i].par.i)
Avail(S, m) == {i \in DOMAIN S : RootH(S, i) <= m}

Init == chain = <<>> /\ sides = <<>> /\ pc = "mode" /\ draft = Default(<<>>) /\ wantU = [u |-> 0, c |-> 0, p |-> 0]

SidesRootedAtTip == {i \in DOMAIN sides : RootH(sides, i) = Len(chain)}

ChooseMode ==
  /\ pc = "mode"
  /\ \/ Len(chain) < NBlocks /\ pc' = "ts"
     \/ Len(chain) < NBlocks /\ Len(sides) < MaxSides /\ Cardinality(SidesRootedAtTip) < 2 /\ pc' = "fork"
     \/ Len(chain) = NBlocks /\ pc' = "done"
  /\ draft' = Default(chain) /\ UNCHANGED <<chain, sides, wantU>>

(* a side block: child of the tip (sibling of the next main block) or child of a recent first-level side block *)
Fork ==
  /\ pc = "fork"
  /\ \E p \in {MainRef(Len(chain))} \cup {SideRef(i) : i \in {x \in DOMAIN sides : sides[x].par.k = "m" /\ sides[x].number >= Len(chain)}},
        ps \in {{t} : t \in Txs} :
       LET pep == IF p.k = "m" THEN EpochAt(chain, p.i) ELSE sides[p.i].ep
           pn  == IF p.k = "m" THEN p.i ELSE sides[p.i].number
       IN sides' = Append(sides, [par |-> p, number |-> pn + 1, ep |-> SuccEpoch(pep), epn |-> SuccEpoch(pep)[1],
                                  props |-> SortedSeqOf(ps)])
  /\ pc' = "mode" /\ UNCHANGED <<chain, draft, wantU>>

ChooseTs ==
  /\ pc = "ts"
  /\ \E t \in {MedianHi(chain) + 1, MedianHi(chain) + 2, TsAt(chain, Len(chain)) + 3} :
       /\ Valid(chain, sides, [draft EXCEPT !.ts = t])
       /\ draft' = [draft EXCEPT !.ts = t]
  /\ \E u \in (IF Directed THEN 0..2 ELSE {0}), cc \in (IF Directed THEN 0..1 ELSE {0}), pp \in (IF Directed THEN 0..1 ELSE {0}) :
       wantU' = [u |-> u, c |-> cc, p |-> pp]
  /\ pc' = "props" /\ UNCHANGED <<chain, sides>>

ChooseProps ==
  /\ pc = "props"
  /\ \E ps \in (IF wantU.p = 0 THEN SubsetsUpTo(Txs \ Committed(chain), MaxProposals) ELSE {{}}) :
       draft' = [draft EXCEPT !.props = SortedSeqOf(ps)]
  /\ pc' = "commits" /\ UNCHANGED <<chain, sides, wantU>>

ChooseCommits ==
  /\ pc = "commits"
  /\ \E cs \in (IF wantU.c = 0 THEN SUBSET (Window(chain, sides, Len(chain) + 1) \ Committed(chain)) ELSE {{}}) :
       /\ Valid(chain, sides, [draft EXCEPT !.commits = SortedSeqOf(cs)])
       /\ draft' = [draft EXCEPT !.commits = SortedSeqOf(cs)]
  /\ pc' = "uncles" /\ UNCHANGED <<chain, sides, wantU>>

UncleSeqs(refs) == {<<>>} \cup {<<U(r)>> : r \in refs} \cup {<<U(r1), U(r2)>> : r1, r2 \in refs}
ChooseUncles ==
  /\ pc = "uncles"
  /\ \E us \in (IF wantU.u = 0 THEN UncleSeqs({SideRef(i) : i \in Avail(sides, Len(chain))}) ELSE {<<>>}) :
       /\ Valid(chain, sides, [draft EXCEPT !.uncles = us])
       /\ chain' = Append(chain, [draft EXCEPT !.uncles = us])
  /\ pc' = "mode" /\ UNCHANGED <<sides, draft, wantU>>

Next == ChooseMode \/ Fork \/ ChooseTs \/ ChooseProps \/ ChooseCommits \/ ChooseUncles
Spec == Init /\ [][Next]_vars

-----------------------------------------------------------------------------
(* Probe catalogue on top of the context c (a prefix of the chain), side table S.                     *)
Prefix(c, m) == SubSeq(c, 1, m)
Filler(n) == SubSeq([i \in 1..(n + 1) |-> 100 + i], 1, n)          \* proposal ids that belong to no known transaction

P(c, S, fam, lab, b) == [fam |-> fam, lab |-> lab, b |-> b, verdict |-> Verdict(c, S, b),
                         rules |-> Must(c, S, b), may |-> May(c, S, b)]

(* heights (distances) at which t is proposed, as seen from the candidate block *)
Dists(c, S, t) == {Len(c) + 1 - h : h \in {x \in DOMAIN c : t \in PropsAt(c, S, x)}}
DistLabel(c, S, t) ==
  LET d == Dists(c, S, t)
      dead == t \in Committed(c)
  IN IF dead THEN "dead"
     ELSE IF d = {} THEN "unproposed"
     ELSE IF WClose \in d THEN "d=wclose" ELSE IF WFar \in d THEN "d=wfar"
     ELSE IF \E x \in d : x > WClose /\ x < WFar THEN "d=inside"
     ELSE IF WFar + 1 \in d THEN "d=wfar+1" ELSE IF WClose - 1 \in d THEN "d=wclose-1"
     ELSE IF \E x \in d : x > WFar THEN "d>wfar" ELSE "d<wclose"

DLab(kind, d) == kind \o (IF d = 0 THEN "/par=num" ELSE IF d = 1 THEN "/par=num-1" ELSE "/par=num-2")
Probes(c, S) ==
  LET D   == Default(c)
      m   == Len(c)
      pos == m + 1
      pe  == EpochAt(c, m)
      se  == SuccEpoch(pe)
      CT  == Window(c, S, pos) \ Committed(c)
      refs == {SideRef(i) : i \in Avail(S, m)} \cup {MainRef(h) : h \in {x \in {m - 1, m} : x >= 1}}
      okrefs == {r \in refs : Valid(c, S, [D EXCEPT !.uncles = <<U(r)>>])}
      one == IF okrefs = {} THEN {} ELSE {CHOOSE r \in okrefs : TRUE}
      final == pos > WFar + 1
      three == IF Cardinality(okrefs) >= 3 THEN {SetToSeq(CHOOSE x \in SUBSET okrefs : Cardinality(x) = 3)} ELSE {}
  IN
     {P(c, S, "number", "n", [D EXCEPT !.number = n]) : n \in {m, m + 1, m + 2}}
  \cup {P(c, S, "parent", "p", [D EXCEPT !.parent = p]) : p \in {"tip", "unknown"}}
  \cup {P(c, S, "epoch", "e", [D EXCEPT !.ep = e]) :
          e \in {se, pe, <<pe[1], pe[2] + 1, pe[3]>>, <<pe[1] + 1, 0, L>>, <<pe[1], pe[2] + 2, pe[3]>>,
                 <<se[1], se[2], se[3] + 1>>, <<se[1], 0, 0>>}}
  \cup {P(c, S, "ts_median", "t", [D EXCEPT !.ts = t]) :
          t \in {MedianLo(c), MedianLo(c) + 1, MedianHi(c), MedianHi(c) + 1}}
  \cup {P(c, S, "ts_future", "t", [D EXCEPT !.ts = t]) : t \in {Now + Future - 1, Now + Future, Now + Future + 1}}
  \cup {P(c, S, "target", "t", [D EXCEPT !.target = t]) : t \in {"epoch", "other"}}
  \cup {P(c, S, "cellbase", x, [D EXCEPT !.cb = x]) :
          x \in {"ok", "missing", "second", "notfirst", "since", "twoout", "badwitness", "witnesshashtype", "nowitness", "witnessextra"}
                \cup (IF final THEN {"type", "data", "nodata"} ELSE {})}
  \cup {P(c, S, "roots", x, [D EXCEPT !.roots = x]) : x \in {"ok", "txroot", "proproot", "extrahash"}}
  \cup {P(c, S, "bytes", "b", [D EXCEPT !.bytes = x]) : x \in {MaxBytes - 1, MaxBytes, MaxBytes + 1}}
  \cup {P(c, S, "proposals", "count", [D EXCEPT !.props = Filler(n)]) : n \in {MaxProposals, MaxProposals + 1}}
  \cup {P(c, S, "proposals", "dup", [D EXCEPT !.props = <<101, 101>>])}
  \cup {P(c, S, "extension", x, [D EXCEPT !.ext = x]) :
          x \in {"root", "root64", "absent", "empty", "short31", "wrongroot", "long97"}}
  \cup {P(c, S, "commit_window", DistLabel(c, S, t), [D EXCEPT !.commits = <<t>>]) : t \in Txs}
  \cup {P(c, S, "cycles", "n", [D EXCEPT !.commits = SortedSeqOf(cs)]) :
          cs \in {x \in SUBSET CT : Cardinality(x) >= 1 /\ (Cardinality(x) - 1) * TxCycles <= MaxCycles}}
  \cup {P(c, S, "tx_valid", "dup", [D EXCEPT !.commits = <<t, t>>]) : t \in CT}
  \cup {P(c, S, "uncle_single", "u", [D EXCEPT !.uncles = <<U(r)>>]) : r \in refs}
  \cup {P(c, S, "uncle_pair", "uu", [D EXCEPT !.uncles = <<U(r1), U(r2)>>]) : r1, r2 \in {r \in refs : r.k = "s"}}
  \cup {P(c, S, "uncle_count", "uuu", [D EXCEPT !.uncles = [i \in 1..3 |-> U(tr[i])]]) : tr \in three}
  \cup {P(c, S, "uncle_count", IF n = MaxUncles THEN "max" ELSE "max+1",
           [D EXCEPT !.uncles = SubSeq([i \in 1..(n + 1) |-> [U(r) EXCEPT !.v = i - 1]], 1, n)]) :
          r \in {x \in one : x.k = "s"}, n \in {MaxUncles, MaxUncles + 1}}
  \* descent by number: a fabricated child of (a) a valid uncle embedded in the same block, (b) an uncle embedded by an
  \* ancestor, (c) a main-chain block; claiming parent.number + 0 | 1 | 2
  \cup {P(c, S, "uncle_descent_number", DLab("same-block", d), [D EXCEPT !.uncles = <<U(r), Fab("cs", r.i, d)>>]) :
          r \in {x \in okrefs : x.k = "s"}, d \in 0..2}
  \cup {P(c, S, "uncle_descent_number", DLab("fab-same-block", d), [D EXCEPT !.uncles = <<Fab("cm", h, 1), Fab("cc", h, d)>>]) :
          h \in {x \in {m - 3} : x >= 0}, d \in 0..2}
  \cup {P(c, S, "uncle_descent_number", "fab-child-first", [D EXCEPT !.uncles = <<Fab("cc", h, 1), Fab("cm", h, 1)>>]) :
          h \in {x \in {m - 3} : x >= 0}}
  \cup {P(c, S, "uncle_descent_number", "fab-child-alone", [D EXCEPT !.uncles = <<Fab("cc", h, 1)>>]) :
          h \in {x \in {m - 3} : x >= 0}}
  \cup {P(c, S, "uncle_descent_number", DLab("anc-embedded", d), [D EXCEPT !.uncles = <<Fab("cs", r.i, d)>>]) :
          r \in {x \in Embedded(c) : x.k = "s"}, d \in 0..2}
  \cup {P(c, S, "uncle_descent_number", DLab("main", d), [D EXCEPT !.uncles = <<Fab("cm", h, d)>>]) :
          h \in {x \in {m - 3, m - 2, m - 1} : x >= 0}, d \in 0..2}
  \cup {P(c, S, "uncle_target", "t", [D EXCEPT !.uncles = <<[U(r) EXCEPT !.target = t]>>]) :
          r \in one, t \in {"epoch", "other"}}
  \cup {P(c, S, "uncle_proposals", x, [D EXCEPT !.uncles = <<[U(r) EXCEPT !.pv = x]>>]) :
          r \in one, x \in {"ok", "atlimit", "over", "dup", "badhash"}}
  \cup {P(c, S, "reward", x, [D EXCEPT !.reward = x]) :
          x \in {"ok"} \cup (IF final THEN {"plus1", "minus1", "wronglock", "none"} ELSE {"extra"})}
  \cup {P(c, S, "dao", x, [D EXCEPT !.dao = x]) : x \in {"ok", "c+1", "ar+1", "s+1", "u+1"}}

(* the side branch used for the "refused as a whole" clause: a plain valid sibling of the tip, then probes on it *)
BranchBase(c) == Default(Prefix(c, Len(c) - 1))

AsSeq(s) == SetToSeq(s)
CtxRecord ==
  [ params |-> [L |-> L, wclose |-> WClose, wfar |-> WFar, K |-> K, maxuncles |-> MaxUncles,
                maxproposals |-> MaxProposals, maxbytes |-> MaxBytes, maxcycles |-> MaxCycles,
                txcycles |-> TxCycles, future |-> Future, now |-> Now, ntx |-> Cardinality(Txs)],
    chain |-> chain, sides |-> sides,
    probes |-> [i \in 1..(NBlocks + 1) |-> AsSeq(Probes(Prefix(chain, i - 1), sides))],
    branch_base |-> BranchBase(chain),
    branch_probes |-> AsSeq(Probes(Append(Prefix(chain, NBlocks - 1), BranchBase(chain)), sides)) ]

EmitCtx == (Emit /\ pc = "done") => PrintT(<<"CTX", ToJson(CtxRecord)>>)

-----------------------------------------------------------------------------
(* Sanity invariants of the specification itself (exhaustive runs) *)
\* every block of the chain is valid in the context of its prefix
ChainValid == \A h \in DOMAIN chain : Valid(Prefix(chain, h - 1), sides, chain[h])
\* no transaction is committed twice, and each commit was proposed WClose..WFar blocks earlier
CommitsOK == \A h \in DOMAIN chain : \A t \in Rng(chain[h].commits) :
               /\ \A g \in 1..(h - 1) : t \notin Rng(chain[g].commits)
               /\ \E p \in 1..h : t \in PropsAt(chain, sides, p) /\ p + WClose <= h /\ h <= p + WFar
\* the past-median never decreases along a valid chain (used by C04: a since that is met stays met)
MedianMonotone == \A h \in 1..Len(chain) : MedianHi(Prefix(chain, h - 1)) <= MedianHi(Prefix(chain, h))
\* a single-field mutation of the default block breaks rules of its own family only
FamilyRules(f) ==
  CASE f \in {"uncle_single", "uncle_pair", "uncle_descent_number"} -> {"uncle_epoch", "uncle_number", "uncle_descent", "uncle_double"}
    [] f = "commit_window" -> {"commit_window", "tx_valid"}
    [] f = "cycles" -> {"cycles"}
    [] OTHER -> {f}
ProbesFocused == pc = "mode" => \A p \in Probes(chain, sides) : p.rules \subseteq FamilyRules(p.fam) /\ p.may \subseteq FamilyRules(p.fam) \cup {"ts_median"}
\* each uncle is embedded at most once and in its own epoch
UnclesOK == \A h \in DOMAIN chain : \A j \in DOMAIN chain[h].uncles :
              /\ chain[h].uncles[j].ref.k = "s"
              /\ sides[chain[h].uncles[j].ref.i].epn = chain[h].ep[1]
              /\ sides[chain[h].uncles[j].ref.i].number < h
              /\ \A g \in DOMAIN chain : \A i \in DOMAIN chain[g].uncles :
                     (g # h \/ i # j) => chain[g].uncles[i].ref # chain[h].uncles[j].ref
=============================================================================
