SPECIFICATION Spec
CONSTANTS
  N = 2
  MaxWork = 1
  MaxDup = 1
  Verdicts = {"ok", "bad_ctx"}
  Heavy = 0
  PreFix = TRUE
  Emit = FALSE
INVARIANT TypeOK
INVARIANT TipHeaviestValid
INVARIANT OrphansConnected
INVARIANT OnlyValidAttached
INVARIANT Accounted
INVARIANT NoGhostExt
INVARIANT EmitQuiescent
PROPERTY NeverLeaveTipForNotHeavier
CHECK_DEADLOCK FALSE
