SPECIFICATION Spec
CONSTANTS
 MaxLen = 8388608
 Threshold = 1024
INVARIANT Laws
INVARIANT Emit
CHECK_DEADLOCK FALSE
