SPECIFICATION HSpec
CONSTANTS
  Ids = {1, 2, 3}
  WClose = 1
  WFar = 2
  MaxLen = 8
  Blocks <- SparseBlocks
  Steps = 30
INVARIANT TypeOK
INVARIANT ViewIsWindow
INVARIANT DroppedExact
INVARIANT VerifierAgrees
INVARIANT TableCovers
INVARIANT EmitHist
CHECK_DEADLOCK FALSE
