--------------------------- MODULE MC_SyncEvict ---------------------------
(* Exhaustive exploration of SyncEvict.tla over a small universe: sessions 1..MaxPeers open in order with every      *)
(* combination of outbound / whitelist (the first MaxProtect outbound ones are protected), total difficulties          *)
(* 1..MaxTD, scaled-down timers, ticks that land before / on / after the deadlines.                                    *)
(* Mut selects the verdict function of the round: "none" = the rule; the others are MUTANTS that must violate a        *)
(* property (self-test that the properties bite).                                                                      *)
EXTENDS SyncEvict
CONSTANTS MaxPeers, MaxTD, Ticks, MaxNow, Flags, WithStart, Mut

FlagsAll == {<<TRUE, FALSE>>, <<FALSE, FALSE>>, <<TRUE, TRUE>>, <<FALSE, TRUE>>}     \* <<outbound, whitelisted>>
FlagsQ == {<<TRUE, FALSE>>, <<FALSE, FALSE>>, <<TRUE, TRUE>>}
FlagsOut == {<<TRUE, FALSE>>, <<FALSE, FALSE>>}

MInit == /\ now = 1 /\ tipId = 0 /\ tipTD = 1 /\ peers = <<>> /\ hist = <<>> /\ gone = {} /\ out = Quiet("none")

Expired(r) == now > r.timeout
MutVerdict(r) ==
  CASE Mut = "none" -> Verdict(r)
    \* the timer is not re-armed when the peer catches up with the recorded work (only the first time)
    [] Mut = "noreset" ->
         IF ~r.out THEN "skip" ELSE IF BkTD(r) >= tipTD THEN "clear" ELSE IF r.timeout = 0 THEN "arm"
         ELSE IF Expired(r) THEN (IF r.sent THEN (IF r.prot \/ r.wl THEN (IF r.started THEN "suspend" ELSE "spare") ELSE "evict")
                                  ELSE "getheaders") ELSE "wait"
    \* protected / whitelisted peers are evicted like the others
    [] Mut = "evictprot" -> IF Verdict(r) \in {"suspend", "spare"} THEN "evict" ELSE Verdict(r)
    \* no second chance: disconnected at the first deadline
    [] Mut = "nogh" -> IF Verdict(r) = "getheaders" /\ ~r.prot /\ ~r.wl THEN "evict" ELSE Verdict(r)
    \* the timer of a peer that caught up with our tip keeps running
    [] Mut = "noclear" ->
         IF ~r.out THEN "skip" ELSE IF r.timeout = 0 THEN (IF BkTD(r) >= tipTD THEN "wait" ELSE "arm")
         ELSE IF Expired(r) THEN (IF r.sent THEN (IF r.prot \/ r.wl THEN (IF r.started THEN "suspend" ELSE "spare") ELSE "evict")
                                  ELSE "getheaders") ELSE "wait"
    \* inbound peers are judged as well
    [] Mut = "inbound" -> Verdict([r EXCEPT !.out = TRUE])
    \* the deadline is tested with >= instead of > (a round exactly at the deadline already acts)
    [] Mut = "early" ->
         IF Verdict(r) = "wait" /\ now = r.timeout THEN (IF r.sent THEN (IF r.prot \/ r.wl THEN "spare" ELSE "evict") ELSE "getheaders")
         ELSE Verdict(r)

MConnect == /\ Cardinality(Live \cup gone) < MaxPeers
            /\ \E f \in Flags : Connect(Cardinality(Live \cup gone) + 1, f[1], f[2])
MDisconnect == \E p \in Live : Disconnect(p)
MTick == \E d \in Ticks : now + d <= MaxNow /\ Tick(d)
MTip == tipTD < MaxTD /\ TipGrows(1)
MAnnounce == \E p \in Live : \E td \in 1..MaxTD : (td > BkTD(peers[p]) \/ peers[p].started) /\ Announce(p, td)
MStart == WithStart /\ \E p \in Live : ~peers[p].started /\ StartSync({p})
MEvict == \E K \in SUBSET {p \in Live : peers[p].started} : EvictWith(K, MutVerdict)
MNext == MConnect \/ MDisconnect \/ MTick \/ MTip \/ MAnnounce \/ MStart \/ MEvict
MSpec == MInit /\ [][MNext]_vars

\* reachability self-tests (each must be VIOLATED: the interesting situations occur)
VacNoEviction == out.evicted = {}
VacNoSuspend == out.susp = {}
VacNoSpare == out.spared = {}
VacNoRearm == out.rearm = {}
VacNoClear == out.clear = {}
VacNoGetHeaders == out.gh = {}
=============================================================================
