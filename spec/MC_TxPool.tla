---------------------------- MODULE MC_TxPool ----------------------------
(* Exhaustive / simulation configuration of TxPool.tla over small transaction universes (cfg files pick   *)
(* one).  Every operation draws its outcome from the relation of TxPool.tla (all outcomes the properties   *)
(* allow); the bookkeeping follows BookIntended (Coded = FALSE) or the update rules as coded before the   *)
(* repairs (Coded = TRUE, oracle self-test: AggregatesExact must fail).  `hist` records the operations for *)
(* replay on the real pool (KeepHist).  Block ids are all 0: the universes have no header deps.             *)
EXTENDS TxPool, Json
CONSTANTS Coded, KeepHist, MaxProps, MaxChain, MaxOps, MConf
VARIABLES hist
mvars == <<vars, hist>>
PoolView == <<conf, chain, pool, st, book, cnt, edges>>

G(i) == <<"g", i>>
\* ---- U1: a chain of three with a conflicting spend of the root, and an independent transaction
U1Txs == {"a", "b", "c", "x", "e"}
U1Ins == [t \in U1Txs |-> CASE t = "a" -> {G(1)} [] t = "b" -> {<<"a", 0>>} [] t = "c" -> {<<"b", 0>>}
                            [] t = "x" -> {G(1)} [] t = "e" -> {G(2)}]
U1Deps == [t \in U1Txs |-> {}]
U1Fee == [t \in U1Txs |-> CASE t = "x" -> 9 [] t = "a" -> 2 [] t = "c" -> 3 [] OTHER -> 1]
U1Size == [t \in U1Txs |-> CASE t = "b" -> 2 [] OTHER -> 1]
\* ---- U2: diamond, with a replacement of one side
U2Txs == {"a", "b", "c", "d", "y"}
U2Ins == [t \in U2Txs |-> CASE t = "a" -> {G(1)} [] t = "b" -> {<<"a", 0>>} [] t = "c" -> {<<"a", 1>>}
                            [] t = "d" -> {<<"b", 0>>, <<"c", 0>>} [] t = "y" -> {<<"a", 0>>}]
U2Deps == [t \in U2Txs |-> {}]
U2Fee == [t \in U2Txs |-> CASE t = "y" -> 5 [] t = "d" -> 2 [] OTHER -> 1]
U2Size == [t \in U2Txs |-> CASE t = "d" -> 2 [] OTHER -> 1]
\* ---- U3: conflicting spends with descendants on both sides, one replacement hitting two families
U3Txs == {"a", "b", "e", "f", "z", "x"}
U3Ins == [t \in U3Txs |-> CASE t = "a" -> {G(1)} [] t = "b" -> {<<"a", 0>>} [] t = "e" -> {G(2)} [] t = "f" -> {<<"e", 0>>}
                            [] t = "z" -> {G(1), G(2)} [] t = "x" -> {G(1)}]
U3Deps == [t \in U3Txs |-> {}]
U3Fee == [t \in U3Txs |-> CASE t = "z" -> 8 [] t = "x" -> 3 [] OTHER -> 1]
U3Size == [t \in U3Txs |-> 1]
\* ---- U4: cell-dep parents: b deps an output of a; c spends that output (b must stay before c);
\*          d deps a genesis cell that s spends (d is a parent of s)
U4Txs == {"a", "b", "c", "d", "s"}
U4Ins == [t \in U4Txs |-> CASE t = "a" -> {G(1)} [] t = "b" -> {G(2)} [] t = "c" -> {<<"a", 0>>}
                            [] t = "d" -> {G(4)} [] t = "s" -> {G(3)}]
U4Deps == [t \in U4Txs |-> CASE t = "b" -> {<<"a", 0>>} [] t = "d" -> {G(3)} [] OTHER -> {}]
U4Fee == [t \in U4Txs |-> CASE t = "c" -> 3 [] t = "s" -> 2 [] OTHER -> 1]
U4Size == [t \in U4Txs |-> 1]
\* ---- U5: the RBF fee rule at its boundaries. a <- b <- c pooled (fees 2, 1, 3; sizes 1, increment 1); four
\*          replacements of a (all spend g1): r3 pays just above the DIRECT conflict (2 + 1), r6 one short of
\*          everything it replaces plus the increment (6 + 1 - 1), r7 exactly, r8 one more
U5Txs == {"a", "b", "c", "r3", "r6", "r7", "r8"}
U5Ins == [t \in U5Txs |-> CASE t = "b" -> {<<"a", 0>>} [] t = "c" -> {<<"b", 0>>} [] OTHER -> {G(1)}]
U5Deps == [t \in U5Txs |-> {}]
U5Fee == [t \in U5Txs |-> CASE t = "a" -> 2 [] t = "b" -> 1 [] t = "c" -> 3 [] t = "r3" -> 3 [] t = "r6" -> 6 [] t = "r7" -> 7 [] t = "r8" -> 8]
U5Size == [t \in U5Txs |-> 1]
\* ---- U6: a dep group whose member is created in the pool.  k's first output is a dep-group cell listing m#0; u names
\*          k#0 as a dep group, i.e. (related_dep_out_points) u deps k#0 AND m#0: m and k are both parents of u;
\*          c spends m#0 (u must stay before c: cell-ref parent through a group member); x conflicts with m
U6Txs == {"m", "k", "u", "x", "c"}
U6Ins == [t \in U6Txs |-> CASE t = "m" -> {G(1)} [] t = "k" -> {G(2)} [] t = "u" -> {G(3)} [] t = "x" -> {G(1)} [] t = "c" -> {<<"m", 0>>}]
U6Deps == [t \in U6Txs |-> CASE t = "u" -> {<<"k", 0>>, <<"m", 0>>} [] OTHER -> {}]
U6Fee == [t \in U6Txs |-> CASE t = "x" -> 9 [] t = "c" -> 3 [] OTHER -> 1]
U6Size == [t \in U6Txs |-> 1]
NoHDeps == [t \in Txs |-> {}]
UnitCycles == [t \in Txs |-> IF Size[t] = 2 THEN 1 ELSE 2]
MGenesis == {G(1), G(2), G(3), G(4)}

MConf_U1 == [maxAnc |-> 3, maxSize |-> 4, rbf |-> TRUE, rbfRate |-> 1000, close |-> 2, far |-> 3, mine |-> TRUE]
MConf_U1sim == [maxAnc |-> 3, maxSize |-> 4, rbf |-> TRUE, rbfRate |-> 1000, close |-> 2, far |-> 3, mine |-> TRUE]
MConf_U1short == [maxAnc |-> 3, maxSize |-> 4, rbf |-> TRUE, rbfRate |-> 1000, close |-> 2, far |-> 3, mine |-> TRUE]
MConf_U2 == [maxAnc |-> 3, maxSize |-> 4, rbf |-> TRUE, rbfRate |-> 1000, close |-> 2, far |-> 3, mine |-> TRUE]
MConf_U2sim == [maxAnc |-> 3, maxSize |-> 4, rbf |-> TRUE, rbfRate |-> 1000, close |-> 2, far |-> 3, mine |-> TRUE]
MConf_U2short == [maxAnc |-> 3, maxSize |-> 4, rbf |-> TRUE, rbfRate |-> 1000, close |-> 2, far |-> 3, mine |-> TRUE]
MConf_U3 == [maxAnc |-> 3, maxSize |-> 4, rbf |-> TRUE, rbfRate |-> 1000, close |-> 2, far |-> 3, mine |-> TRUE]
MConf_U3sim == [maxAnc |-> 3, maxSize |-> 4, rbf |-> TRUE, rbfRate |-> 1000, close |-> 2, far |-> 3, mine |-> TRUE]
MConf_U3short == [maxAnc |-> 3, maxSize |-> 4, rbf |-> TRUE, rbfRate |-> 1000, close |-> 2, far |-> 3, mine |-> TRUE]
MConf_U4 == [maxAnc |-> 3, maxSize |-> 4, rbf |-> TRUE, rbfRate |-> 1000, close |-> 2, far |-> 3, mine |-> TRUE]
MConf_U4sim == [maxAnc |-> 3, maxSize |-> 4, rbf |-> TRUE, rbfRate |-> 1000, close |-> 2, far |-> 3, mine |-> TRUE]
MConf_U4short == [maxAnc |-> 3, maxSize |-> 4, rbf |-> TRUE, rbfRate |-> 1000, close |-> 2, far |-> 3, mine |-> TRUE]
MConf_U1norbf == [maxAnc |-> 3, maxSize |-> 4, rbf |-> FALSE, rbfRate |-> 1000, close |-> 2, far |-> 3, mine |-> TRUE]
MConf_U2coded == [maxAnc |-> 3, maxSize |-> 4, rbf |-> TRUE, rbfRate |-> 1000, close |-> 2, far |-> 3, mine |-> TRUE]
MConf_U1coded == [maxAnc |-> 3, maxSize |-> 4, rbf |-> TRUE, rbfRate |-> 1000, close |-> 2, far |-> 3, mine |-> TRUE]
MConf_U5 == [maxAnc |-> 3, maxSize |-> 10, rbf |-> TRUE, rbfRate |-> 1000, close |-> 2, far |-> 3, mine |-> TRUE]
MConf_U5sim == [maxAnc |-> 3, maxSize |-> 10, rbf |-> TRUE, rbfRate |-> 1000, close |-> 2, far |-> 3, mine |-> TRUE]
MConf_U5short == [maxAnc |-> 3, maxSize |-> 10, rbf |-> TRUE, rbfRate |-> 1000, close |-> 2, far |-> 3, mine |-> TRUE]
MConf_U5four == [maxAnc |-> 3, maxSize |-> 10, rbf |-> TRUE, rbfRate |-> 1000, close |-> 2, far |-> 3, mine |-> TRUE]
MConf_U6 == [maxAnc |-> 3, maxSize |-> 4, rbf |-> TRUE, rbfRate |-> 1000, close |-> 2, far |-> 3, mine |-> TRUE, strictExpire |-> TRUE]
MConf_U6sim == [maxAnc |-> 3, maxSize |-> 4, rbf |-> TRUE, rbfRate |-> 1000, close |-> 2, far |-> 3, mine |-> TRUE, strictExpire |-> TRUE]
MConf_U6short == [maxAnc |-> 3, maxSize |-> 4, rbf |-> TRUE, rbfRate |-> 1000, close |-> 2, far |-> 3, mine |-> TRUE, strictExpire |-> TRUE]
-----------------------------------------------------------------------------
Staged(P, ch) == [t \in P |-> Stage(t, ch, conf)]
Log(op) == IF KeepHist THEN Append(hist, op) ELSE hist
\* common tail of every operation: contents P2, chain ch2, entries removed one by one (Single)
Finish(P2, ch2, Single, op) ==
  /\ (KeepHist => Len(hist) < MaxOps)
  /\ pool' = P2 /\ chain' = ch2
  /\ st' = Staged(P2, ch2)
  /\ book' = IF Coded THEN CodedStep(book, pool, P2, Single) ELSE BookIntended(book, pool, P2)
  /\ cnt' = DCnt(P2, Staged(P2, ch2))
  /\ edges' = DEdges(P2)
  /\ last' = op /\ hist' = Log(op)
  /\ UNCHANGED conf

MInit == /\ conf = MConf /\ chain = <<>> /\ pool = {} /\ st = <<>> /\ book = <<>>
         /\ cnt = DCnt({}, <<>>) /\ edges = DEdges({})
         /\ last = [op |-> "init"] /\ hist = <<>>

Submit(t) ==
  \E P2 \in SUBSET (pool \cup {t}) :
     /\ SubmitRel(t, pool, chain, conf, P2)
     /\ LET repl == IF t \in P2 /\ t \notin pool THEN Replaced(t, pool) ELSE {} IN
        /\ repl # {} => Fee[t] >= SumF(Fee, repl) + RbfExtra(t, conf)      \* the replacement rule
        /\ Finish(P2, chain, {}, [op |-> "submit", t |-> t, ok |-> t \in P2 /\ t \notin pool, repl |-> repl])
Remove(t) == /\ t \in pool /\ RemoveRel(t, pool, pool \ DescOf({t}, pool))
             /\ Finish(pool \ DescOf({t}, pool), chain, {}, [op |-> "remove", t |-> t])
\* strictExpire (U6): an expiring entry always takes its descendants along, as remove_expired does since f49e5ef; the other
\* universes keep the looseness of ExpireRel (orphaned descendants may stay) - with four generations (g <- u <- c, m <- c)
\* a parent resubmitted above such orphans would exceed the ancestor limit, which is the listed finding
\* ancestor-limit/parent-readded-above-pooled-descendants reached by a path the real pool no longer has
StrictExpire == "strictExpire" \in DOMAIN conf
        Expire == \E X \in SUBSET pool : \E P2 \in (IF StrictExpire THEN {pool \ DescOf(X, pool)} ELSE {pool \ X, pool \ DescOf(X, pool)}) :
                                  /\ X # {} /\ ExpireRel(X, pool, P2)
                                  /\ Finish(P2, chain, X, [op |-> "expire", x |-> X])
                             LimitSize == \E P2 \in SUBSET pool : /\ LimitRel(pool, conf, P2) /\ Finish(P2, chain, {}, [op |-> "limit"])
                                
\* a set of transactions that can be committed together on top of ch (parents first exists: the universe is acyclic)
ValidCommits(C, ch) ==
  /\ C \subseteq WindowSet(ch, conf) \ Committed(ch)
  /\ \A t \in C : /\ \A o \in Ins[t] : (LiveOnChain(o, ch) \/ Creator(o) \in C) /\ o \notin SpentBy(C \ {t})
                  /\ \A o \in Deps[t] : (LiveOnChain(o, ch) \/ Creator(o) \in C) /\ o \notin SpentBy(C)
                  /\ HDeps[t] \subseteq BlockIds(ch)
\* one block on top of the tip, with any (small) proposal set and any valid commit set
Attach ==
  /\ Len(chain) < MaxChain
  /\ \E props \in { S \in SUBSET Txs : Cardinality(S) <= MaxProps } :
     \E C \in SUBSET (WindowSet(chain, conf) \ Committed(chain)) :
        /\ ValidCommits(C, chain)
        /\ LET blks == << [id |-> 0, props |-> props, commits |-> C] >> IN
           \E P2 \in SUBSET pool :
              /\ ReorgRel(0, blks, {}, pool, chain, conf, P2)
              /\ \A t \in P2 : AncCount(t, P2) <= conf.maxAnc      \* intended: the limit also holds after a block
              /\ Finish(P2, NewChain(chain, 0, blks), C \cap pool, [op |-> "attach", props |-> props, commits |-> C])
\* the last k blocks are replaced by k+1 empty ones
Reorg(k) ==
  /\ k \in 1..Len(chain) /\ Len(chain) + 1 <= MaxChain
  /\ LET blks == [i \in 1..(k + 1) |-> [id |-> 0, props |-> {}, commits |-> {}]] IN
     \E P2 \in SUBSET (pool \cup DetachedTxs(chain, k)) :
        /\ ReorgRel(k, blks, {}, pool, chain, conf, P2)
        /\ \A t \in P2 : AncCount(t, P2) <= conf.maxAnc         \* intended: re-admission respects the limit
        \* strict universes (U6): as C12 intends, no entry survives a reorganisation with an input or dep that exists neither on
        \* the new chain nor in the pool (the listed finding unknown-input/child-of-unreadmitted-detached-tx leaves such orphans;
        \* with four generations a parent resubmitted above them would then exceed the ancestor limit)
        /\ (StrictExpire => Purge(P2, NewChain(chain, k, blks)) = P2)
        /\ Finish(P2, NewChain(chain, k, blks), {}, [op |-> "reorg", k |-> k])

SubmitAny == \E t \in Txs : Submit(t)
RemoveAny == \E t \in Txs : Remove(t)
ReorgAny  == \E k \in 1..MaxChain : Reorg(k)
MNext == SubmitAny \/ RemoveAny \/ Expire \/ LimitSize \/ Attach \/ ReorgAny
MSpec == MInit /\ [][MNext]_mvars

\* evaluated once per distinct state; always TRUE
EmitHist == (KeepHist /\ Len(hist) = MaxOps) => PrintT(<<"HIST", ToJson(hist)>>)
EmitShort == (KeepHist /\ Len(hist) >= 1) => PrintT(<<"HIST", ToJson(hist)>>)
=============================================================================
