//! Shared by the C02 / C08 bindings (included with `#[path]`): the abstract transaction universe and its
//! concretization, the block concretizer (a pool of builder nodes, one per branch tip), and the projection of
//! the store columns of a node / snapshot to abstract ids (ChainState.tla's `db` record).
#![allow(dead_code)]
use ckb_db::IteratorMode;
use ckb_db_schema::*;
use ckb_merkle_mountain_range::{util::MemStore, MMRStore};
use ckb_store::ChainStore;
use ckb_types::prelude::*;
use ckb_types::{
    bytes::Bytes,
    core::{BlockExt, BlockView, Capacity, DepType, EpochExt, TransactionBuilder, TransactionView},
    packed::{self, Byte32, CellDep, CellInput, CellOutput, OutPoint},
    utilities::merkle_mountain_range::ChainRootMMR,
};
use ckbv::fixture::*;
use ckbv::util::Rng;
use serde_json::{json, Value};
use std::collections::{BTreeMap, HashMap, HashSet};

/// cellbase of block b has abstract tx id CB_BASE + b (CbBase in the trace cfg)
pub const CB_BASE: i64 = 1000;
pub const UNKNOWN: i64 = -9;

pub type Cell = (usize, u32);

#[derive(Clone, Debug)]
pub struct TxDef {
    pub ins: Vec<Cell>,
    pub deps: Vec<Cell>,
    pub nouts: usize,
    pub fee: u64,
}

/// Abstract transactions 1..=n (the first `ngen` are the genesis transactions) and their concrete form.
pub struct Universe {
    pub defs: Vec<TxDef>,
    pub txs: Vec<TransactionView>,
    pub ngen: usize,
    pub id_of: HashMap<Byte32, usize>,
}

fn cells_of(v: &Value) -> Vec<Cell> {
    let mut r: Vec<Cell> = v
        .as_array()
        .map(|a| a.iter().map(|c| (c[0].as_u64().unwrap() as usize, c[1].as_u64().unwrap() as u32)).collect())
        .unwrap_or_default();
    r.sort();
    r
}

impl Universe {
    pub fn defs_from_json(v: &Value) -> Vec<TxDef> {
        v.as_array()
            .expect("universe array")
            .iter()
            .map(|t| TxDef { ins: cells_of(&t["ins"]), deps: cells_of(&t["deps"]), nouts: t["nouts"].as_u64().unwrap() as usize, fee: t["fee"].as_u64().unwrap() })
            .collect()
    }

    pub fn to_json(&self) -> Value {
        Value::Array(
            self.defs
                .iter()
                .map(|d| {
                    json!({"ins": d.ins.iter().map(|c| json!([c.0, c.1])).collect::<Vec<_>>(),
                           "deps": d.deps.iter().map(|c| json!([c.0, c.1])).collect::<Vec<_>>(),
                           "nouts": d.nouts, "fee": d.fee})
                })
                .collect(),
        )
    }

    /// genesis_cells spendable cells: ids 2..=genesis_cells+1; id 1 is the always-success deployment.
    pub fn genesis_defs(genesis_cells: usize) -> Vec<TxDef> {
        (0..=genesis_cells).map(|_| TxDef { ins: vec![], deps: vec![], nouts: 1, fee: 0 }).collect()
    }

    /// A random DAG of `ntx` transactions over the genesis cells: chains, joins, conflicts (several spenders of
    /// one cell) and deps on cells that other transactions consume.
    pub fn random_defs(rng: &mut Rng, genesis_cells: usize, ntx: usize) -> Vec<TxDef> {
        let mut defs = Self::genesis_defs(genesis_cells);
        // outputs that exist (by construction), with a depth to bound capacity splitting
        let mut outs: Vec<(Cell, u32)> = (2..=genesis_cells + 1).map(|t| ((t, 0u32), 0u32)).collect();
        let mut used: Vec<Cell> = vec![];
        for _ in 0..ntx {
            let id = defs.len() + 1;
            let nin = if rng.chance(1, 4) { 2 } else { 1 };
            let mut ins: Vec<Cell> = vec![];
            let mut depth = 0;
            for _ in 0..nin {
                let pick = if !used.is_empty() && rng.chance(3, 10) {
                    used[rng.below(used.len() as u64) as usize] // conflict with an earlier spender
                } else {
                    outs[rng.below(outs.len() as u64) as usize].0
                };
                if !ins.contains(&pick) {
                    depth = depth.max(outs.iter().find(|o| o.0 == pick).map(|o| o.1).unwrap_or(0));
                    ins.push(pick);
                }
            }
            let mut deps = vec![];
            if rng.chance(1, 4) {
                let d = outs[rng.below(outs.len() as u64) as usize].0;
                if !ins.contains(&d) {
                    deps.push(d);
                }
            }
            let nouts = if depth < 6 && rng.chance(1, 2) { 2 } else { 1 };
            for i in &ins {
                if !used.contains(i) {
                    used.push(*i);
                }
            }
            for k in 0..nouts {
                outs.push(((id, k as u32), depth + 1));
            }
            ins.sort();
            defs.push(TxDef { ins, deps, nouts, fee: rng.range(1, 900) });
        }
        defs
    }

    pub fn concretize(c: &ckb_chain_spec::consensus::Consensus, defs: Vec<TxDef>) -> Universe {
        let genesis = c.genesis_block();
        let ngen = defs.iter().take_while(|d| d.ins.is_empty()).count();
        assert_eq!(ngen, genesis.transactions().len(), "universe genesis size vs consensus genesis");
        let mut txs: Vec<TransactionView> = vec![];
        let mut caps: HashMap<Cell, u64> = HashMap::new();
        for (k, d) in defs.iter().enumerate() {
            let id = k + 1;
            if k < ngen {
                let t = genesis.transactions()[k].clone();
                assert_eq!(t.outputs().len(), d.nouts);
                for (i, o) in t.outputs().into_iter().enumerate() {
                    let cap: Capacity = o.capacity().into();
                    caps.insert((id, i as u32), cap.as_u64());
                }
                txs.push(t);
                continue;
            }
            let op = |cell: &Cell, txs: &Vec<TransactionView>| OutPoint::new(txs[cell.0 - 1].hash(), cell.1);
            let in_cap: u64 = d.ins.iter().map(|i| caps[i]).sum();
            let mut b = TransactionBuilder::default().cell_dep(always_success_dep(c));
            for dep in &d.deps {
                b = b.cell_dep(CellDep::new_builder().out_point(op(dep, &txs)).dep_type(DepType::Code).build());
            }
            for i in &d.ins {
                b = b.input(CellInput::new(op(i, &txs), 0));
            }
            let per = (in_cap - d.fee) / d.nouts as u64;
            for o in 0..d.nouts {
                let cap = if o == 0 { in_cap - d.fee - per * (d.nouts as u64 - 1) } else { per };
                let data = if (id + o) % 2 == 0 { Bytes::from(vec![id as u8; 1 + o]) } else { Bytes::new() };
                assert!(cap >= 70 * 100_000_000, "output capacity too small in universe tx {id}");
                b = b.output(CellOutput::new_builder().capacity(Capacity::shannons(cap)).lock(lock()).build()).output_data(data);
                caps.insert((id, o as u32), cap);
            }
            txs.push(b.build());
        }
        let id_of = txs.iter().enumerate().map(|(k, t)| (t.hash(), k + 1)).collect();
        Universe { defs, txs, ngen, id_of }
    }
}

pub struct Blk {
    pub id: usize,
    pub parent: usize,
    pub num: u64,
    pub view: BlockView,
    pub commits: Vec<usize>,
    pub uncles: Vec<usize>,
    pub cbo: usize,
    pub ok: bool,
    pub work: u64,
}

/// hash <-> abstract id dictionary (cloneable: handed to reader threads / used after the nodes are gone)
#[derive(Clone, Default)]
pub struct Dict {
    pub block_id: HashMap<Byte32, usize>,
    pub blocks: Vec<BlockView>,
    pub tx_id: HashMap<Byte32, usize>,
}

impl Dict {
    pub fn bid(&self, h: &Byte32) -> i64 {
        if h == &Byte32::zero() {
            return -1;
        }
        self.block_id.get(h).map(|x| *x as i64).unwrap_or(UNKNOWN)
    }
    /// abstract id of tx hash `h` located (according to the row) in block `bh`
    pub fn tid(&self, h: &Byte32, bh: &Byte32) -> i64 {
        if let Some(t) = self.tx_id.get(h) {
            return *t as i64;
        }
        if let Some(b) = self.block_id.get(bh) {
            if *b > 0 && self.blocks[*b].transactions()[0].hash() == *h {
                return CB_BASE + *b as i64;
            }
        }
        UNKNOWN
    }
}

/// A node on its own scratch directory; dropping it closes the databases and then removes the directory
/// (a RocksDB directory holds ~75 MB of preallocated WAL: never leave them behind).
pub struct OwnedNode {
    pub node: Node,
    /// dropped after `node` (declaration order)
    _dir: ckbv::util::Scratch,
}
impl OwnedNode {
    pub fn start(c: &ckb_chain_spec::consensus::Consensus, tag: &str) -> OwnedNode {
        let dir = ckbv::util::Scratch::new(tag);
        let t0 = std::time::Instant::now();
        let node = Node::start(&NodeCfg { assembler: false, ..NodeCfg::at(c, dir.path()) });
        if std::env::var("VERIF_TIMING").is_ok() {
            eprintln!("[timing] node start ({tag}): {:?}", t0.elapsed());
        }
        OwnedNode { node, _dir: dir }
    }
}
/// Process-wide block factory: builder nodes (one per branch tip, LRU-bounded) and a cache of every block built so
/// far, keyed by (parent hash, commits, uncles, flaw, ordinal among identical siblings). Histories that share a
/// sub-tree (TLC-generated ones do) share the concrete blocks, so most mints need no builder node at all.
pub struct Forge {
    pub c: ckb_chain_spec::consensus::Consensus,
    builders: Vec<(OwnedNode, Byte32)>,
    /// every block built: hash -> (block, parent hash, fully valid chain)
    by_hash: HashMap<Byte32, (BlockView, Byte32, bool)>,
    cache: HashMap<(Byte32, Vec<usize>, Vec<Byte32>, bool, u32), Byte32>,
    pub max_builders: usize,
    pub builders_started: usize,
    pub cache_hits: usize,
}

impl Forge {
    pub fn new(c: &ckb_chain_spec::consensus::Consensus) -> Forge {
        let g = c.genesis_block().clone();
        let mut by_hash = HashMap::new();
        by_hash.insert(g.hash(), (g.clone(), Byte32::zero(), true));
        Forge { c: c.clone(), builders: vec![], by_hash, cache: HashMap::new(), max_builders: 5, builders_started: 0, cache_hits: 0 }
    }

    fn chain_hashes(&self, h: &Byte32) -> Vec<Byte32> {
        let g = self.c.genesis_block().hash();
        let mut v = vec![h.clone()];
        let mut x = h.clone();
        while x != g {
            x = self.by_hash[&x].1.clone();
            v.push(x.clone());
        }
        v.reverse();
        v
    }

    fn feed(&self, n: &Node, hs: &[Byte32]) -> Result<(), String> {
        for h in hs {
            let (b, _, ok) = &self.by_hash[h];
            let r = if *ok { n.process(b) } else { n.process_unchecked(b) };
            r.map_err(|e| format!("builder refuses ancestor {}: {}", hex8(h), e))?;
        }
        Ok(())
    }

    /// index of a builder node whose tip is `parent` (most recently used last)
    fn builder_for(&mut self, parent: &Byte32) -> Result<usize, String> {
        if let Some(i) = self.builders.iter().position(|b| &b.1 == parent) {
            let b = self.builders.remove(i);
            self.builders.push(b);
            return Ok(self.builders.len() - 1);
        }
        let chain = self.chain_hashes(parent);
        let mut best: Option<(usize, usize)> = None;
        for (bi, (_, tip)) in self.builders.iter().enumerate() {
            if let Some(pos) = chain.iter().position(|x| x == tip) {
                if best.map_or(true, |(_, p)| pos > p) {
                    best = Some((bi, pos));
                }
            }
        }
        // extend a builder standing on this chain when it is close; otherwise start a fresh one
        if let Some((bi, pos)) = best {
            if self.builders.len() >= self.max_builders || chain.len() - 1 - pos <= 2 {
                self.feed(&self.builders[bi].0.node, &chain[pos + 1..])?;
                let mut b = self.builders.remove(bi);
                b.1 = parent.clone();
                self.builders.push(b);
                return Ok(self.builders.len() - 1);
            }
        }
        if self.builders.len() >= self.max_builders {
            let old = self.builders.remove(0); // least recently used; dropping closes and removes its directory
            drop(old);
        }
        let n = OwnedNode::start(&self.c, "builder");
        self.builders_started += 1;
        self.feed(&n.node, &chain[1..])?;
        self.builders.push((n, parent.clone()));
        Ok(self.builders.len() - 1)
    }

    /// Build (or fetch) the block; returns (block, verdict of full verification on the builder).
    #[allow(clippy::too_many_arguments)]
    pub fn build(&mut self, parent: &Byte32, parent_ok: bool, commit_ids: &[usize], commits: Vec<TransactionView>, uncles: &[BlockView],
                 proposals: &[packed::ProposalShortId], flawed: bool, ordinal: u32) -> Result<(BlockView, bool), String> {
        let key = (parent.clone(), commit_ids.to_vec(), uncles.iter().map(|u| u.hash()).collect::<Vec<_>>(), flawed, ordinal);
        if let Some(h) = self.cache.get(&key) {
            self.cache_hits += 1;
            let (b, _, ok) = &self.by_hash[h];
            return Ok((b.clone(), *ok && !flawed));
        }
        let bi = self.builder_for(parent)?;
        let spec = BlockSpec { commits, proposals: proposals.to_vec(), uncles: uncles.iter().map(|u| u.as_uncle()).collect(), ts: 0, nonce: ordinal as u64 };
        let node = &self.builders[bi].0.node;
        let mut b = assemble(node, &spec)?;
        if flawed {
            let mut dao = b.dao().raw_data().to_vec();
            dao[24] = dao[24].wrapping_add(1);
            b = b.as_advanced_builder().dao(Byte32::from_slice(&dao).unwrap()).build();
        }
        if flawed || !parent_ok {
            node.process_unchecked(&b).map_err(|e| format!("builder (unchecked) refuses block: {}", e))?;
        } else {
            node.process(&b).map_err(|e| format!("builder refuses block (commits {:?}): {}", commit_ids, e))?;
        }
        self.builders[bi].1 = b.hash();
        self.by_hash.insert(b.hash(), (b.clone(), parent.clone(), parent_ok && !flawed));
        self.cache.insert(key, b.hash());
        Ok((b, !flawed))
    }
}

/// All blocks of one history (abstract ids <-> concrete blocks).
pub struct World {
    pub c: ckb_chain_spec::consensus::Consensus,
    pub uni: Universe,
    pub blocks: Vec<Blk>,
    pub dict: Dict,
    pub forge: Forge,
    proposals: Vec<packed::ProposalShortId>,
    used: HashMap<(Byte32, Vec<usize>, Vec<Byte32>, bool), u32>,
}

pub fn u256_to_u64(u: &ckb_types::U256) -> u64 {
    u64::from_str_radix(&format!("{:x}", u), 16).expect("difficulty fits u64")
}

impl World {
    pub fn new(uni: Universe, forge: Forge) -> World {
        let c = forge.c.clone();
        let g = c.genesis_block().clone();
        let mut dict = Dict::default();
        dict.block_id.insert(g.hash(), 0);
        dict.blocks.push(g.clone());
        dict.tx_id = uni.id_of.clone();
        let proposals = uni.txs[uni.ngen..].iter().map(|t| t.proposal_short_id()).collect();
        let work = u256_to_u64(&g.difficulty());
        let commits = (1..=uni.ngen).collect();
        World {
            c,
            blocks: vec![Blk { id: 0, parent: 0, num: 0, view: g, commits, uncles: vec![], cbo: 0, ok: true, work }],
            uni,
            dict,
            forge,
            proposals,
            used: HashMap::new(),
        }
    }

    pub fn chain_ids(&self, b: usize) -> Vec<usize> {
        let mut v = vec![b];
        let mut x = b;
        while x != 0 {
            x = self.blocks[x].parent;
            v.push(x);
        }
        v.reverse();
        v
    }

    pub fn chain_ok(&self, b: usize) -> bool {
        self.chain_ids(b).iter().all(|x| self.blocks[*x].ok)
    }

    /// Assemble block on `parent` with the production calculators. `flawed` blocks carry a wrong DAO field
    /// (occupied capacity + 1) and are refused by contextual verification.
    pub fn mint(&mut self, parent: usize, commits: &[usize], uncles: &[usize], flawed: bool) -> Result<usize, String> {
        let id = self.blocks.len();
        let ph = self.blocks[parent].view.hash();
        let uviews: Vec<BlockView> = uncles.iter().map(|u| self.blocks[*u].view.clone()).collect();
        let ukey: Vec<Byte32> = uviews.iter().map(|u| u.hash()).collect();
        let ord = self.used.entry((ph.clone(), commits.to_vec(), ukey, flawed)).or_insert(0);
        let ordinal = *ord;
        *ord += 1;
        let txs = commits.iter().map(|t| self.uni.txs[*t - 1].clone()).collect();
        let parent_ok = self.chain_ok(parent);
        let (b, ok) = self.forge.build(&ph, parent_ok, commits, txs, &uviews, &self.proposals, flawed, ordinal)?;
        self.dict.block_id.insert(b.hash(), id);
        self.dict.blocks.push(b.clone());
        let cbo = b.transactions()[0].outputs().len();
        let work = u256_to_u64(&b.difficulty());
        self.blocks.push(Blk { id, parent, num: b.number(), view: b, commits: commits.to_vec(), uncles: uncles.to_vec(), cbo, ok, work });
        Ok(id)
    }

    pub fn mint_event(&self, id: usize) -> Value {
        let b = &self.blocks[id];
        json!({"ev": "Mint", "b": id, "p": b.parent, "num": b.num, "cs": b.commits, "us": b.uncles, "cbo": b.cbo, "ok": b.ok, "work": b.work})
    }

    /// abstract live cells / committed txs after the chain ending in `b` (generator-side bookkeeping only)
    pub fn live_after(&self, b: usize) -> (HashSet<Cell>, HashSet<usize>) {
        let mut live: HashSet<Cell> = HashSet::new();
        let mut done: HashSet<usize> = HashSet::new();
        for x in self.chain_ids(b) {
            for t in &self.blocks[x].commits {
                let d = &self.uni.defs[*t - 1];
                for i in &d.ins {
                    live.remove(i);
                }
                for k in 0..d.nouts {
                    live.insert((*t, k as u32));
                }
                done.insert(*t);
            }
        }
        (live, done)
    }

    /// Hand the block factory on to the next history.
    pub fn into_forge(self) -> Forge {
        self.forge
    }
}

// ------------------------------------------------------------------------------------------------ projection

pub const DUMP_COLS: [Col; 11] = [
    COLUMN_CELL, COLUMN_CELL_DATA, COLUMN_CELL_DATA_HASH, COLUMN_INDEX, COLUMN_TRANSACTION_INFO, COLUMN_UNCLES, COLUMN_EPOCH,
    COLUMN_BLOCK_EPOCH, COLUMN_BLOCK_EXT, COLUMN_CHAIN_ROOT_MMR, COLUMN_META,
];

/// Raw content of the canonical-chain columns, read through `get_iter`.
pub type RawDump = BTreeMap<Col, BTreeMap<Vec<u8>, Vec<u8>>>;

pub fn raw_dump<S: ChainStore>(s: &S) -> RawDump {
    let mut r = RawDump::new();
    for col in DUMP_COLS {
        let mut m = BTreeMap::new();
        for (k, v) in s.get_iter(col, IteratorMode::Start) {
            m.insert(k.to_vec(), v.to_vec());
        }
        r.insert(col, m);
    }
    r
}

fn epoch_json(e: &EpochExt, d: &Dict) -> Value {
    json!({"n": e.number(), "s": e.start_number(), "l": e.length(), "p": d.bid(&e.last_block_hash_in_previous_epoch())})
}

fn decode_ext(raw: &[u8]) -> BlockExt {
    let reader = packed::BlockExtReader::from_compatible_slice_should_be_ok(raw);
    match reader.count_extra_fields() {
        0 => reader.into(),
        _ => packed::BlockExtV1Reader::from_slice_should_be_ok(raw).into(),
    }
}

/// Project a raw dump to ChainState.tla's vocabulary. Rows naming hashes the history never produced get id -9.
pub fn project(raw: &RawDump, d: &Dict) -> Value {
    let mut notes: Vec<String> = vec![];
    let empty = BTreeMap::new();
    let col = |c: Col| raw.get(c).unwrap_or(&empty);
    // ---- cells
    let mut cells = vec![];
    let cell_data = col(COLUMN_CELL_DATA);
    let cell_hash = col(COLUMN_CELL_DATA_HASH);
    for (k, v) in col(COLUMN_CELL) {
        let txh = Byte32::from_slice(&k[..32]).unwrap();
        let idx = u32::from_be_bytes(k[32..36].try_into().unwrap());
        let e = packed::CellEntryReader::from_slice_should_be_ok(v);
        let bh = e.block_hash().to_entity();
        let b = d.bid(&bh);
        let x: u32 = e.index().into();
        let t = d.tid(&txh, &bh);
        let mut ok = true;
        let mut why = String::new();
        if b >= 0 {
            let blk = &d.blocks[b as usize];
            let num: u64 = e.block_number().into();
            let ep: u64 = e.block_epoch().into();
            match blk.transactions().get(x as usize) {
                Some(tx) if tx.hash() == txh => match tx.output_with_data(idx as usize) {
                    Some((out, data)) => {
                        let ds: u64 = e.data_size().into();
                        if out.as_slice() != e.output().as_slice() { ok = false; why += "output;"; }
                        if ds != data.len() as u64 { ok = false; why += "data_size;"; }
                        let dv = cell_data.get(k);
                        let hv = cell_hash.get(k);
                        if data.is_empty() {
                            if dv.map(|x| !x.is_empty()).unwrap_or(true) { ok = false; why += "data-row;"; }
                            if hv.map(|x| !x.is_empty()).unwrap_or(true) { ok = false; why += "hash-row;"; }
                        } else {
                            let h = packed::CellOutput::calc_data_hash(&data);
                            match dv {
                                Some(x) if !x.is_empty() => {
                                    let de = packed::CellDataEntryReader::from_slice_should_be_ok(x);
                                    if de.output_data().raw_data() != &data[..] || de.output_data_hash().as_slice() != h.as_slice() { ok = false; why += "data-row;"; }
                                }
                                _ => { ok = false; why += "data-row-missing;"; }
                            }
                            if hv.map(|x| x.as_slice() != h.as_slice()).unwrap_or(true) { ok = false; why += "hash-row;"; }
                        }
                    }
                    None => { ok = false; why += "no-such-output;"; }
                },
                _ => { ok = false; why += "tx-not-at-index;"; }
            }
            if num != blk.number() { ok = false; why += "block_number;"; }
            if ep != blk.epoch().full_value() { ok = false; why += "block_epoch;"; }
        }
        if !ok {
            notes.push(format!("cell ({t},{idx}): {why}"));
        }
        cells.push(json!({"t": t, "i": idx, "b": b, "x": x, "ok": ok}));
    }
    // data rows without a cell row ("nothing else")
    for (name, m) in [("data", cell_data), ("hash", cell_hash)] {
        for k in m.keys() {
            if !col(COLUMN_CELL).contains_key(k) {
                let txh = Byte32::from_slice(&k[..32]).unwrap();
                let idx = u32::from_be_bytes(k[32..36].try_into().unwrap());
                notes.push(format!("orphan cell-{name} row"));
                cells.push(json!({"t": d.tid(&txh, &Byte32::zero()), "i": idx, "b": -8, "x": 0, "ok": false}));
            }
        }
    }
    // ---- tx-info
    let mut txi = vec![];
    for (k, v) in col(COLUMN_TRANSACTION_INFO) {
        let txh = Byte32::from_slice(k).unwrap();
        let info = packed::TransactionInfoReader::from_slice_should_be_ok(v);
        let bh = info.key().block_hash().to_entity();
        let x: u32 = info.key().index().into();
        let b = d.bid(&bh);
        let mut ok = true;
        if b >= 0 {
            let blk = &d.blocks[b as usize];
            let num: u64 = info.block_number().into();
            let ep: u64 = info.block_epoch().into();
            ok = num == blk.number() && ep == blk.epoch().full_value() && blk.transactions().get(x as usize).map(|t| t.hash() == txh).unwrap_or(false);
        }
        if !ok {
            notes.push(format!("tx-info row of {} inconsistent with block {}", d.tid(&txh, &bh), b));
        }
        txi.push(json!({"t": d.tid(&txh, &bh), "b": b, "x": x, "ok": ok}));
    }
    // ---- index
    let (mut num, mut hash) = (vec![], vec![]);
    let mut main: BTreeMap<u64, i64> = BTreeMap::new();
    for (k, v) in col(COLUMN_INDEX) {
        if k.len() == 8 {
            let n = u64::from_le_bytes(k[..8].try_into().unwrap());
            let b = d.bid(&Byte32::from_slice(v).unwrap());
            main.insert(n, b);
            num.push(json!({"n": n, "b": b}));
        } else {
            let n = u64::from_le_bytes(v[..8].try_into().unwrap());
            hash.push(json!({"b": d.bid(&Byte32::from_slice(k).unwrap()), "n": n}));
        }
    }
    // ---- uncles
    let mut unc = vec![];
    for (k, v) in col(COLUMN_UNCLES) {
        let h = Byte32::from_slice(k).unwrap();
        let mut u = d.bid(&h);
        if u >= 0 {
            let hv: packed::HeaderView = d.blocks[u as usize].header().into();
            if hv.as_slice() != &v[..] {
                notes.push(format!("uncle row {u}: stored header differs"));
                u = -7;
            }
        }
        unc.push(json!(u));
    }
    // ---- meta
    let meta = col(COLUMN_META);
    let tip = meta.get(META_TIP_HEADER_KEY).map(|v| d.bid(&Byte32::from_slice(v).unwrap())).unwrap_or(UNKNOWN);
    let epochs = col(COLUMN_EPOCH);
    let cur = match meta.get(META_CURRENT_EPOCH_KEY) {
        Some(v) => {
            let e: EpochExt = packed::EpochExtReader::from_slice_should_be_ok(v).into();
            let mut j = epoch_json(&e, d);
            // content agreement with the epoch record stored under its index
            let same = epochs.get(e.last_block_hash_in_previous_epoch().as_slice()).map(|r| r == v).unwrap_or(false);
            j["ok"] = json!(same);
            j
        }
        None => json!({"n": -9, "s": -9, "l": -9, "p": -9, "ok": false}),
    };
    // ---- epochs
    let mut bep = vec![];
    for (k, v) in col(COLUMN_BLOCK_EPOCH) {
        bep.push(json!({"b": d.bid(&Byte32::from_slice(k).unwrap()), "p": d.bid(&Byte32::from_slice(v).unwrap())}));
    }
    let (mut erec, mut enumr) = (vec![], vec![]);
    for (k, v) in epochs {
        if k.len() == 8 {
            enumr.push(json!({"n": u64::from_le_bytes(k[..8].try_into().unwrap()), "p": d.bid(&Byte32::from_slice(v).unwrap())}));
        } else {
            let e: EpochExt = packed::EpochExtReader::from_slice_should_be_ok(v).into();
            let mut j = epoch_json(&e, d);
            j["k"] = json!(d.bid(&Byte32::from_slice(k).unwrap()));
            erec.push(j);
        }
    }
    // ---- ext
    let mut ext = vec![];
    for (k, v) in col(COLUMN_BLOCK_EXT) {
        let e = decode_ext(v);
        let ver = match e.verified { None => "none", Some(true) => "ok", Some(false) => "bad" };
        ext.push(json!({"b": d.bid(&Byte32::from_slice(k).unwrap()), "td": u256_to_u64(&e.total_difficulty), "ver": ver, "unc": e.total_uncles_count,
            "fees": e.txs_fees.iter().map(|c| c.as_u64()).collect::<Vec<_>>(),
            "ncyc": e.cycles.as_ref().map(|c| c.len() as i64).unwrap_or(-1), "nsz": e.txs_sizes.as_ref().map(|c| c.len() as i64).unwrap_or(-1)}));
    }
    // ---- MMR: nodes below the size of the tip are compared with a fresh MMR over the indexed chain
    let mut mmr = vec![];
    let tipnum = if tip >= 0 { d.blocks[tip as usize].number() } else { 0 };
    let store = MemStore::default();
    let mut fresh_ok = tip >= 0;
    if fresh_ok {
        let mut m = ChainRootMMR::new(0, &store);
        for n in 0..=tipnum {
            match main.get(&n) {
                Some(b) if *b >= 0 => {
                    let _ = m.push(d.blocks[*b as usize].header().digest());
                }
                _ => {
                    fresh_ok = false;
                    break;
                }
            }
        }
        if fresh_ok {
            m.commit().expect("mem mmr");
        }
    }
    let size = ckb_merkle_mountain_range::leaf_index_to_mmr_size(tipnum);
    for (k, v) in col(COLUMN_CHAIN_ROOT_MMR) {
        let pos = u64::from_le_bytes(k[..8].try_into().unwrap());
        let dg = packed::HeaderDigestReader::from_slice_should_be_ok(v);
        let lo: u64 = dg.start_number().into();
        let hi: u64 = dg.end_number().into();
        let ok = if pos < size {
            fresh_ok && (&store).get_elem(pos).ok().flatten().map(|e| e.as_slice() == &v[..]).unwrap_or(false)
        } else {
            true
        };
        if !ok {
            notes.push(format!("mmr node {pos} [{lo},{hi}] differs from the MMR of the indexed chain"));
        }
        mmr.push(json!({"pos": pos, "lo": lo, "hi": hi, "ok": ok}));
    }
    json!({"tip": tip, "cur": cur, "cells": cells, "txi": txi, "num": num, "hash": hash, "unc": unc, "bep": bep, "erec": erec, "enum": enumr,
           "ext": ext, "mmr": mmr, "notes": notes})
}

pub fn dump_and_project<S: ChainStore>(s: &S, d: &Dict) -> Value {
    project(&raw_dump(s), d)
}
