//! A recording network context: what a protocol handler sends / whom it bans is kept for inspection (the protocol
//! handlers of ckb-sync are driven with it, without a network).
use ckb_network::{
    async_trait, bytes::Bytes as P2pBytes, Behaviour, CKBProtocolContext, Error as NetError, Peer, PeerIndex, ProtocolId, SupportProtocols, TargetSession,
};
use std::future::Future;
use std::pin::Pin;
use std::sync::{Arc, Mutex};
use std::time::Duration;

#[derive(Default)]
pub struct Recorder {
    pub sent: Mutex<Vec<P2pBytes>>,
    pub banned: Mutex<Vec<String>>,
}
pub struct RecCtx {
    pub rec: Arc<Recorder>,
    pub protocol: ProtocolId,
}
impl RecCtx {
    pub fn new(protocol: SupportProtocols) -> (Arc<dyn CKBProtocolContext + Sync>, Arc<Recorder>) {
        let rec = Arc::new(Recorder::default());
        (Arc::new(RecCtx { rec: Arc::clone(&rec), protocol: protocol.protocol_id() }), rec)
    }
}
type Task = Pin<Box<dyn Future<Output = ()> + 'static + Send>>;
#[async_trait]
impl CKBProtocolContext for RecCtx {
    async fn set_notify(&self, _interval: Duration, _token: u64) -> Result<(), NetError> { Ok(()) }
    async fn remove_notify(&self, _token: u64) -> Result<(), NetError> { Ok(()) }
    async fn async_quick_send_message(&self, _p: ProtocolId, _peer: PeerIndex, data: P2pBytes) -> Result<(), NetError> { self.rec.sent.lock().unwrap().push(data); Ok(()) }
    async fn async_quick_send_message_to(&self, _peer: PeerIndex, data: P2pBytes) -> Result<(), NetError> { self.rec.sent.lock().unwrap().push(data); Ok(()) }
    async fn async_quick_filter_broadcast(&self, _t: TargetSession, _d: P2pBytes) -> Result<(), NetError> { Ok(()) }
    async fn async_future_task(&self, _task: Task, _blocking: bool) -> Result<(), NetError> { Ok(()) }
    async fn async_send_message(&self, _p: ProtocolId, _peer: PeerIndex, data: P2pBytes) -> Result<(), NetError> { self.rec.sent.lock().unwrap().push(data); Ok(()) }
    async fn async_send_message_to(&self, _peer: PeerIndex, data: P2pBytes) -> Result<(), NetError> { self.rec.sent.lock().unwrap().push(data); Ok(()) }
    async fn async_filter_broadcast(&self, _t: TargetSession, _d: P2pBytes) -> Result<(), NetError> { Ok(()) }
    async fn async_filter_broadcast_with_proto(&self, _p: ProtocolId, _t: TargetSession, _d: P2pBytes) -> Result<(), NetError> { Ok(()) }
    async fn async_quick_filter_broadcast_with_proto(&self, _p: ProtocolId, _t: TargetSession, _d: P2pBytes) -> Result<(), NetError> { Ok(()) }
    async fn async_disconnect(&self, _peer: PeerIndex, _m: &str) -> Result<(), NetError> { Ok(()) }
    fn quick_send_message(&self, _p: ProtocolId, _peer: PeerIndex, data: P2pBytes) -> Result<(), NetError> { self.rec.sent.lock().unwrap().push(data); Ok(()) }
    fn quick_send_message_to(&self, _peer: PeerIndex, data: P2pBytes) -> Result<(), NetError> { self.rec.sent.lock().unwrap().push(data); Ok(()) }
    fn quick_filter_broadcast(&self, _t: TargetSession, _d: P2pBytes) -> Result<(), NetError> { Ok(()) }
    fn quick_filter_broadcast_with_proto(&self, _p: ProtocolId, _t: TargetSession, _d: P2pBytes) -> Result<(), NetError> { Ok(()) }
    fn future_task(&self, _task: Task, _blocking: bool) -> Result<(), NetError> { Ok(()) }
    fn send_message(&self, _p: ProtocolId, _peer: PeerIndex, data: P2pBytes) -> Result<(), NetError> { self.rec.sent.lock().unwrap().push(data); Ok(()) }
    fn send_message_to(&self, _peer: PeerIndex, data: P2pBytes) -> Result<(), NetError> { self.rec.sent.lock().unwrap().push(data); Ok(()) }
    fn filter_broadcast(&self, _t: TargetSession, _d: P2pBytes) -> Result<(), NetError> { Ok(()) }
    fn disconnect(&self, _peer: PeerIndex, _m: &str) -> Result<(), NetError> { Ok(()) }
    fn get_peer(&self, _peer: PeerIndex) -> Option<Peer> { None }
    fn with_peer_mut(&self, _peer: PeerIndex, _f: Box<dyn FnOnce(&mut Peer)>) {}
    fn connected_peers(&self) -> Vec<PeerIndex> { vec![] }
    fn full_relay_connected_peers(&self) -> Vec<PeerIndex> { vec![] }
    fn report_peer(&self, _peer: PeerIndex, _b: Behaviour) {}
    fn ban_peer(&self, _peer: PeerIndex, _d: Duration, reason: String) { self.rec.banned.lock().unwrap().push(reason); }
    fn protocol_id(&self) -> ProtocolId { self.protocol }
}
