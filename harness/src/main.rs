//! ckbv — conformance harness binding the TLA+ specification in /verif/spec to the real crates in /repo.
//! Every subcommand reads a scenario (TLC-generated states / behaviours, or a seed) and prints ndjson.
mod c09_freezer;
mod probe;
pub mod util;

/// argv with the leading "probe" sub-command removed (legacy probe code indexes argv directly)
pub fn pargs() -> impl Iterator<Item = String> {
    std::env::args().enumerate().filter(|(i, _)| *i != 1).map(|(_, a)| a)
}

fn main() {
    let args: Vec<String> = std::env::args().collect();
    let sub = args.get(1).map(|s| s.as_str()).unwrap_or("");
    let rest = &args[2.min(args.len())..];
    match sub {
        "probe" => probe::probe_main(),
        "c09-states" => c09_freezer::states(rest),
        "c09-drive" => c09_freezer::drive(rest),
        _ => {
            eprintln!("usage: ckbv <subcommand> ...");
            std::process::exit(2);
        }
    }
}
