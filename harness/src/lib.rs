//! ckbv — conformance harness binding the TLA+ specification in /verif/spec to the real crates in /repo.
//! Shared library: argument/scratch helpers (`util`) and the real-node fixture (`fixture`).
//! One binary per property lives in src/bin/cNN.rs; each reads a scenario (TLC-generated states or
//! behaviours, or a seed) and prints ndjson observations that the python check compares / hands to TLC.
pub mod fixture;
pub mod util;
pub mod poolfix;
pub mod poolhist;
pub mod netctx;
