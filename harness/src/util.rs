//! Small helpers shared by all bindings: argument parsing, scratch directories, ndjson output.
use std::path::PathBuf;

pub fn opt<'a>(args: &'a [String], name: &str) -> Option<&'a str> {
    args.iter().position(|a| a == name).and_then(|i| args.get(i + 1)).map(|s| s.as_str())
}
pub fn opt_u64(args: &[String], name: &str, default: u64) -> u64 {
    opt(args, name).and_then(|s| s.parse().ok()).unwrap_or(default)
}
pub fn flag(args: &[String], name: &str) -> bool {
    args.iter().any(|a| a == name)
}

/// Scratch directory under $TMPDIR (the driver points TMPDIR into harness/target/tmp), removed on drop.
pub struct Scratch(pub PathBuf);
impl Scratch {
    pub fn new(tag: &str) -> Scratch {
        let base = std::env::temp_dir();
        let p = base.join(format!("ckbv-{}-{}-{}", tag, std::process::id(), {
            use std::sync::atomic::{AtomicU64, Ordering};
            static N: AtomicU64 = AtomicU64::new(0);
            N.fetch_add(1, Ordering::SeqCst)
        }));
        let _ = std::fs::remove_dir_all(&p);
        std::fs::create_dir_all(&p).expect("scratch dir");
        Scratch(p)
    }
    pub fn path(&self) -> &std::path::Path {
        &self.0
    }
}
impl Drop for Scratch {
    fn drop(&mut self) {
        let _ = std::fs::remove_dir_all(&self.0);
    }
}

/// xorshift-style deterministic generator (no dependency on rand's version-specific API)
pub struct Rng(pub u64);
impl Rng {
    pub fn new(seed: u64) -> Rng {
        Rng(seed.wrapping_mul(0x9E3779B97F4A7C15) ^ 0xD1B54A32D192ED03)
    }
    pub fn next(&mut self) -> u64 {
        let mut x = self.0;
        x ^= x << 13;
        x ^= x >> 7;
        x ^= x << 17;
        self.0 = x;
        x.wrapping_mul(0x2545F4914F6CDD1D)
    }
    pub fn below(&mut self, n: u64) -> u64 {
        if n == 0 { 0 } else { self.next() % n }
    }
    pub fn range(&mut self, lo: u64, hi_incl: u64) -> u64 {
        lo + self.below(hi_incl - lo + 1)
    }
    pub fn chance(&mut self, num: u64, den: u64) -> bool {
        self.below(den) < num
    }
}
