//! C16: deep battery on accepted buffers, and replay of CompactBlock.tla cases on the real relayer
//! (included by src/bin/c16.rs; not a module of the library).
use ckb_app_config::SyncConfig;
use ckb_chain::ChainServiceScope;
use ckb_chain_spec::consensus::{Consensus, ConsensusBuilder};
use ckb_shared::{Shared, SharedBuilder};
use ckb_sync::{ReconstructionResult, Relayer, SyncShared, received_guards, relayer_verif_hooks as hooks};
use ckb_types::{
    bytes::Bytes,
    core::{self, BlockBuilder, BlockView, Capacity, TransactionBuilder, TransactionView},
    packed::{self, CellInput, CellOutput, ProposalShortId},
    prelude::*,
};
use ckb_verification::{BlockVerifier, NonContextualTransactionVerifier};
use ckb_verification_traits::Verifier;
use ckbv::fixture::{self, Params};
use ckbv::util::{opt, opt_u64};
use serde_json::{Value, json};
use ckb_network::{
    async_trait, bytes::Bytes as P2pBytes, Behaviour, CKBProtocolContext, CKBProtocolHandler, Error as NetError, Peer, PeerIndex, ProtocolId,
    SupportProtocols, TargetSession,
};
use ckb_shared::block_status::BlockStatus;
use std::collections::{HashMap, HashSet};
use std::future::Future;
use std::io::Write;
use std::pin::Pin;
use std::sync::{Arc, Mutex, OnceLock};
use std::time::Duration;

// ------------------------------------------------------------------------------------------------ recording network context
#[derive(Default)]
struct Recorder {
    sent: Mutex<Vec<P2pBytes>>,
    banned: Mutex<Vec<String>>,
}
struct Ctx {
    rec: Arc<Recorder>,
}
type Task = Pin<Box<dyn Future<Output = ()> + 'static + Send>>;
#[async_trait]
impl CKBProtocolContext for Ctx {
    async fn set_notify(&self, _interval: Duration, _token: u64) -> Result<(), NetError> { Ok(()) }
    async fn remove_notify(&self, _token: u64) -> Result<(), NetError> { Ok(()) }
    async fn async_quick_send_message(&self, _p: ProtocolId, _peer: PeerIndex, data: P2pBytes) -> Result<(), NetError> { self.rec.sent.lock().unwrap().push(data); Ok(()) }
    async fn async_quick_send_message_to(&self, _peer: PeerIndex, data: P2pBytes) -> Result<(), NetError> { self.rec.sent.lock().unwrap().push(data); Ok(()) }
    async fn async_quick_filter_broadcast(&self, _t: TargetSession, _d: P2pBytes) -> Result<(), NetError> { Ok(()) }
    async fn async_future_task(&self, _task: Task, _blocking: bool) -> Result<(), NetError> { Ok(()) }
    async fn async_send_message(&self, _p: ProtocolId, _peer: PeerIndex, data: P2pBytes) -> Result<(), NetError> { self.rec.sent.lock().unwrap().push(data); Ok(()) }
    async fn async_send_message_to(&self, _peer: PeerIndex, data: P2pBytes) -> Result<(), NetError> { self.rec.sent.lock().unwrap().push(data); Ok(()) }
    async fn async_filter_broadcast(&self, _t: TargetSession, _d: P2pBytes) -> Result<(), NetError> { Ok(()) }
    async fn async_filter_broadcast_with_proto(&self, _p: ProtocolId, _t: TargetSession, _d: P2pBytes) -> Result<(), NetError> { Ok(()) }
    async fn async_quick_filter_broadcast_with_proto(&self, _p: ProtocolId, _t: TargetSession, _d: P2pBytes) -> Result<(), NetError> { Ok(()) }
    async fn async_disconnect(&self, _peer: PeerIndex, _m: &str) -> Result<(), NetError> { Ok(()) }
    fn quick_send_message(&self, _p: ProtocolId, _peer: PeerIndex, data: P2pBytes) -> Result<(), NetError> { self.rec.sent.lock().unwrap().push(data); Ok(()) }
    fn quick_send_message_to(&self, _peer: PeerIndex, data: P2pBytes) -> Result<(), NetError> { self.rec.sent.lock().unwrap().push(data); Ok(()) }
    fn quick_filter_broadcast(&self, _t: TargetSession, _d: P2pBytes) -> Result<(), NetError> { Ok(()) }
    fn quick_filter_broadcast_with_proto(&self, _p: ProtocolId, _t: TargetSession, _d: P2pBytes) -> Result<(), NetError> { Ok(()) }
    fn future_task(&self, _task: Task, _blocking: bool) -> Result<(), NetError> { Ok(()) }
    fn send_message(&self, _p: ProtocolId, _peer: PeerIndex, data: P2pBytes) -> Result<(), NetError> { self.rec.sent.lock().unwrap().push(data); Ok(()) }
    fn send_message_to(&self, _peer: PeerIndex, data: P2pBytes) -> Result<(), NetError> { self.rec.sent.lock().unwrap().push(data); Ok(()) }
    fn filter_broadcast(&self, _t: TargetSession, _d: P2pBytes) -> Result<(), NetError> { Ok(()) }
    fn disconnect(&self, _peer: PeerIndex, _m: &str) -> Result<(), NetError> { Ok(()) }
    fn get_peer(&self, _peer: PeerIndex) -> Option<Peer> { None }
    fn with_peer_mut(&self, _peer: PeerIndex, _f: Box<dyn FnOnce(&mut Peer)>) {}
    fn connected_peers(&self) -> Vec<PeerIndex> { vec![] }
    fn full_relay_connected_peers(&self) -> Vec<PeerIndex> { vec![] }
    fn report_peer(&self, _peer: PeerIndex, _b: Behaviour) {}
    fn ban_peer(&self, _peer: PeerIndex, _d: Duration, reason: String) { self.rec.banned.lock().unwrap().push(reason); }
    fn protocol_id(&self) -> ProtocolId { SupportProtocols::RelayV3.protocol_id() }
}

// ------------------------------------------------------------------------------------------------ deep battery
fn battery_consensus() -> &'static Consensus {
    static C: OnceLock<Consensus> = OnceLock::new();
    C.get_or_init(|| ConsensusBuilder::default().build())
}

/// the indexes a peer can aim at a vector of `len` items: both ends, one and two past the end, the largest u32
fn boundary_indexes(len: usize) -> Vec<usize> {
    let mut v = vec![0, len.wrapping_sub(1), len, len + 1, u32::MAX as usize];
    v.retain(|i| *i != usize::MAX);
    v.dedup();
    v
}

/// every index-taking accessor must answer Some inside and None outside the vector, never panic
fn probe<T>(what: &str, len: usize, get: impl Fn(usize) -> Option<T>) {
    for i in boundary_indexes(len) {
        let got = get(i).is_some();
        assert_eq!(got, i < len, "{what}: index {i} of {len} answered {got}");
    }
}

fn tx_index_probes(v: &TransactionView) {
    let raw = v.data().raw();
    probe("TransactionView::output", raw.outputs().len(), |i| v.output(i));
    probe("CellOutputVec::get", raw.outputs().len(), |i| raw.outputs().get(i));
    probe("BytesVec::get(outputs_data)", raw.outputs_data().len(), |i| raw.outputs_data().get(i));
    probe("CellInputVec::get", raw.inputs().len(), |i| raw.inputs().get(i));
    probe("CellDepVec::get", raw.cell_deps().len(), |i| raw.cell_deps().get(i));
    probe("Byte32Vec::get(header_deps)", raw.header_deps().len(), |i| raw.header_deps().get(i));
    probe("BytesVec::get(witnesses)", v.data().witnesses().len(), |i| v.data().witnesses().get(i));
    if raw.outputs().len() == raw.outputs_data().len() {
        // (a transaction whose outputs and outputs_data differ in length is refused by the non-contextual verifier)
        probe("TransactionView::output_with_data", raw.outputs().len(), |i| v.output_with_data(i));
    }
    assert_eq!(v.output_pts().len(), raw.outputs().len());
    assert_eq!(v.outputs_with_data_iter().count(), raw.outputs().len().min(raw.outputs_data().len()));
}

/// what GetBlockTransactionsProcess / block queries do with peer-chosen indexes on a block view
fn block_index_probes(v: &BlockView) {
    let d = v.data();
    let (nt, nu, np) = (d.transactions().len(), d.uncles().len(), d.proposals().len());
    probe("BlockView::transaction", nt, |i| v.transaction(i));
    probe("BlockView::transactions().get (GetBlockTransactionsProcess)", nt, |i| v.transactions().get(i).cloned());
    probe("BlockView::uncles().get (GetBlockTransactionsProcess)", nu, |i| v.uncles().get(i));
    probe("TransactionVec::get", nt, |i| d.transactions().get(i));
    probe("UncleBlockVec::get", nu, |i| d.uncles().get(i));
    probe("ProposalShortIdVec::get", np, |i| d.proposals().get(i));
    probe("Byte32Vec::get(uncle_hashes)", nu, |i| v.uncle_hashes().get(i));
    probe("tx_hashes", nt, |i| v.tx_hashes().get(i).cloned());
    probe("tx_witness_hashes", nt, |i| v.tx_witness_hashes().get(i).cloned());
    for ti in boundary_indexes(nt) {
        let outs = d.transactions().get(ti).map(|t| t.raw().outputs().len()).unwrap_or(0);
        for oi in boundary_indexes(outs) {
            assert_eq!(v.output(ti, oi).is_some(), ti < nt && oi < outs, "BlockView::output({ti}, {oi})");
        }
    }
    assert_eq!(v.uncles().into_iter().count(), nu);
    for u in d.uncles().into_iter() {
        probe("UncleBlock.proposals().get", u.proposals().len(), |i| u.proposals().get(i));
    }
    for t in v.transactions() {
        tx_index_probes(&t);
    }
}

/// the expressions of GetBlockTransactionsProcess::execute evaluated with the indexes of an accepted message on a stored block
fn get_block_transactions_battery(msg: packed::GetBlockTransactions) {
    static B: OnceLock<BlockView> = OnceLock::new();
    let block = B.get_or_init(|| {
        let tx = |n: u32| TransactionBuilder::default().version(n).output(CellOutput::new_builder().build()).output_data(Bytes::new()).build();
        let uncle = BlockBuilder::default().timestamp(7u64).build();
        BlockBuilder::default().transactions(vec![tx(1), tx(2)]).uncle(uncle.as_uncle()).proposal(ProposalShortId::new([3u8; 10])).build()
    });
    let mut idx: Vec<usize> = msg.indexes().into_iter().map(|i| Into::<u32>::into(i) as usize).collect();
    let mut uidx: Vec<usize> = msg.uncle_indexes().into_iter().map(|i| Into::<u32>::into(i) as usize).collect();
    idx.extend(boundary_indexes(block.transactions().len()));
    uidx.extend(boundary_indexes(block.data().uncles().len()));
    let txs: Vec<_> = idx.iter().filter_map(|i| block.transactions().get(*i).cloned()).collect();
    let uncles: Vec<_> = uidx.iter().filter_map(|i| block.uncles().get(*i)).collect();
    assert!(txs.len() <= idx.len() && uncles.len() <= uidx.len());
    let _ = packed::BlockTransactions::new_builder()
        .block_hash(msg.block_hash())
        .transactions(txs.into_iter().map(|t| t.data()).collect::<Vec<_>>())
        .uncles(uncles.into_iter().map(|u| u.data()).collect::<Vec<_>>())
        .build();
    block_index_probes(block);
}

fn tx_battery(tx: packed::Transaction) {
    let _ = (tx.calc_tx_hash(), tx.calc_witness_hash(), tx.is_cellbase(), tx.proposal_short_id(), tx.serialized_size_in_block());
    let v = tx.into_view();
    let _ = (v.hash(), v.witness_hash(), v.outputs_capacity(), v.output_pts(), v.unique_parents(), v.is_cellbase());
    let _ = v.outputs_with_data_iter().count();
    if v.outputs().len() == v.outputs_data().len() {
        for i in 0..v.outputs().len() {
            let _ = v.output_with_data(i);
        }
    }
    tx_index_probes(&v);
    let _ = NonContextualTransactionVerifier::new(&v, battery_consensus()).verify();
}

fn header_battery(h: packed::Header) {
    header_battery_one(h.clone());
    // the numeric fields of a structurally valid header are the peer's choice: every accepted header is walked again with
    // each of them at directed extremes (compact targets whose mantissa vanishes / overflows, epoch fractions with length 0
    // or index >= length, the largest number and timestamp)
    for c in [0u32, 1, 0x00ff_ffff, 0x0080_0000, 0x0100_0001, 0x0100_ffff, 0x017f_ffff, 0x0200_00ff, 0x0200_8000, 0x0300_0001, 0x0380_0000,
              0x2000_0001, 0x20ff_ffff, 0x2100_0001, 0x21ff_ffff, 0x2200_0100, 0xff00_0001, 0xffff_ffff] {
        header_battery_one(h.clone().as_builder().raw(h.raw().as_builder().compact_target(c).build()).build());
    }
    for e in [0u64, 1, 0x0000_0100_0000_0000, 0x0000_0001_0000_0000, 0x0000_0100_0100_0000, 0x00ff_ffff_ffff_ffff, 0xff00_0000_0000_0000, u64::MAX] {
        header_battery_one(h.clone().as_builder().raw(h.raw().as_builder().epoch(e).build()).build());
    }
    for n in [0u64, 1, u64::MAX - 1, u64::MAX] {
        header_battery_one(h.clone().as_builder().raw(h.raw().as_builder().number(n).timestamp(n).build()).build());
    }
}

fn header_battery_one(h: packed::Header) {
    let _ = (h.calc_header_hash(), h.calc_pow_hash(), h.difficulty());
    let v = h.into_view();
    let _ = (v.hash(), v.epoch(), v.number(), v.difficulty(), v.is_genesis());
    let e = v.epoch();
    let _ = (e.number(), e.index(), e.length(), e.is_well_formed(), e.full_value(), e.is_successor_of(e), e.is_genesis());
    if e.length() != 0 {
        let _ = e.to_rational(); // documented to panic for a zero length (every caller sits behind the epoch verifier)
    }
}

fn block_battery(b: packed::Block) {
    let _ = (b.count_extra_fields(), b.has_extra_fields(), b.total_size(), b.field_count());
    let _ = b.extension();
    let _ = (b.calc_header_hash(), b.calc_proposals_hash(), b.calc_uncles_hash(), b.calc_extension_hash(), b.calc_tx_hashes(), b.calc_tx_witness_hashes());
    let _ = b.calc_extra_hash().extra_hash();
    let _ = (b.as_uncle(), b.serialized_size_without_uncle_proposals());
    let w = b.clone().into_view_without_reset_header();
    let _ = (w.hash(), w.calc_transactions_root(), w.calc_extra_hash().extra_hash(), w.extension());
    let v = b.into_view();
    let _ = (v.hash(), v.calc_transactions_root(), v.calc_witnesses_root(), v.calc_raw_transactions_root(), v.calc_proposals_hash(), v.calc_uncles_hash());
    let _ = (v.union_proposal_ids(), v.extension(), v.as_uncle().hash(), v.header().hash());
    for u in v.uncles().into_iter() {
        let _ = (u.hash(), u.calc_proposals_hash(), u.header().hash());
    }
    for t in v.transactions() {
        tx_battery(t.data());
    }
    block_index_probes(&v);
    block_index_probes(&w);
    let _ = BlockVerifier::new(battery_consensus()).verify(&v);
}

fn compact_battery(cb: packed::CompactBlock) {
    let _ = (cb.count_extra_fields(), cb.has_extra_fields(), cb.txs_len());
    let _ = cb.extension();
    let _ = (cb.calc_header_hash(), cb.block_short_ids(), cb.short_id_indexes());
    header_battery(cb.header());
    for pt in cb.prefilled_transactions().into_iter() {
        let _: usize = pt.index().into();
        tx_battery(pt.transaction());
    }
    let _ = hooks::compact_block_verify(&cb);
}

/// view conversions, hash functions and context-free verifiers on a buffer the decoder accepted.
/// For the message unions (and SendBlock) the REAL guards of the protocol handlers are applied first, as `received` does.
pub fn deep_battery(ty: &str, buf: &[u8], compat: bool) {
    macro_rules! ent {
        ($t:ident) => {
            if compat { packed::$t::from_compatible_slice(buf).expect("accepted") } else { packed::$t::from_slice(buf).expect("accepted") }
        };
    }
    match ty {
        "Block" => block_battery(ent!(Block)),
        "BlockV1" => block_battery(ent!(BlockV1).as_v0()),
        "Transaction" => tx_battery(ent!(Transaction)),
        "Header" => header_battery(ent!(Header)),
        "UncleBlock" => {
            let u = ent!(UncleBlock);
            let _ = (u.calc_header_hash(), u.calc_proposals_hash(), u.clone().into_view().hash());
        }
        "CompactBlock" => compact_battery(ent!(CompactBlock)),
        "CompactBlockV1" => compact_battery(ent!(CompactBlockV1).as_v0()),
        "SendBlock" => {
            let sb = ent!(SendBlock);
            if received_guards::is_malformed_send_block(&sb.as_reader()) {
                return; // Synchronizer::received bans the peer
            }
            block_battery(sb.block())
        }
        "SendHeaders" => ent!(SendHeaders).headers().into_iter().for_each(header_battery),
        "BlockTransactions" => {
            let bt = ent!(BlockTransactions);
            bt.transactions().into_iter().for_each(tx_battery);
            for u in bt.uncles().into_iter() {
                let _ = u.into_view().hash();
            }
        }
        "RelayTransactions" => ent!(RelayTransactions).transactions().into_iter().for_each(|rt| tx_battery(rt.transaction())),
        "BlockProposal" => ent!(BlockProposal).transactions().into_iter().for_each(tx_battery),
        "SyncMessage" => {
            // Synchronizer::received
            let msg = ent!(SyncMessage);
            let r = msg.as_reader();
            match r.to_enum() {
                packed::SyncMessageUnionReader::SendBlock(sb) => {
                    if received_guards::is_malformed_send_block(&sb) {
                        return; // the handler bans the peer (the REAL guard, re-exported under cfg(ckb_verif))
                    }
                    block_battery(sb.block().to_entity());
                }
                other => {
                    if packed::SyncMessageReader::from_slice(buf).is_err() {
                        return; // the handler bans the peer
                    }
                    if let packed::SyncMessageUnionReader::SendHeaders(sh) = other {
                        sh.to_entity().headers().into_iter().for_each(header_battery)
                    }
                }
            }
        }
        "RelayMessage" => {
            // Relayer::received
            let msg = ent!(RelayMessage);
            let r = msg.as_reader();
            match r.to_enum() {
                packed::RelayMessageUnionReader::CompactBlock(cb) => {
                    if received_guards::is_malformed_compact_block(&cb) {
                        return; // the REAL guard of Relayer::received
                    }
                    compact_battery(cb.to_entity());
                }
                other => {
                    if packed::RelayMessageReader::from_slice(buf).is_err() {
                        return;
                    }
                    match other {
                        packed::RelayMessageUnionReader::RelayTransactions(x) => x.to_entity().transactions().into_iter().for_each(|rt| tx_battery(rt.transaction())),
                        packed::RelayMessageUnionReader::BlockTransactions(x) => x.to_entity().transactions().into_iter().for_each(tx_battery),
                        packed::RelayMessageUnionReader::BlockProposal(x) => x.to_entity().transactions().into_iter().for_each(tx_battery),
                        packed::RelayMessageUnionReader::GetBlockTransactions(x) => get_block_transactions_battery(x.to_entity()),
                        _ => {}
                    }
                }
            }
        }
        "GetBlockTransactions" => get_block_transactions_battery(ent!(GetBlockTransactions)),
        "Alert" => {
            let a = ent!(Alert);
            let _ = a.calc_alert_hash();
        }
        _ => {}
    }
}

// ------------------------------------------------------------------------------------------------ reconstruction
struct RNode {
    _chain: ChainServiceScope,
    shared: Shared,
    relayer: Relayer,
    uncle_u: BlockView,
    uncle_w: BlockView,
}

fn start_node(c: &Consensus, know_u: bool) -> RNode {
    let (shared, mut pack) = SharedBuilder::with_temp_db().consensus(c.clone()).build().unwrap();
    let network = fixture::dummy_network(&shared);
    pack.take_tx_pool_builder().start(network);
    let chain = ChainServiceScope::new(pack.take_chain_services_builder());
    while chain.chain_controller().is_verifying_unverified_blocks_on_startup() {
        std::thread::sleep(std::time::Duration::from_millis(5));
    }
    // two blocks that can serve as uncles: "u" (the committed block's uncle) and "w" (some other known block)
    let uncle_u = BlockBuilder::default().timestamp(fixture::GENESIS_TS + 111).number(1u64).epoch(core::EpochNumberWithFraction::new(0, 1, 1000)).build();
    let uncle_w = BlockBuilder::default().timestamp(fixture::GENESIS_TS + 222).number(1u64).epoch(core::EpochNumberWithFraction::new(0, 1, 1000)).build();
    {
        let ext = packed::BlockExtBuilder::default().verified(Some(true)).build();
        let txn = shared.store().begin_transaction();
        for b in [&uncle_w].into_iter().chain(if know_u { Some(&uncle_u) } else { None }) {
            txn.insert_block(b).unwrap();
            txn.insert_block_ext(&b.hash(), &ext.clone().into()).unwrap();
        }
        txn.commit().unwrap();
    }
    shared.refresh_snapshot();
    let sync_shared = Arc::new(SyncShared::new(shared.clone(), SyncConfig::default(), pack.take_relay_tx_receiver()));
    let relayer = Relayer::new(chain.chain_controller().clone(), sync_shared);
    RNode { _chain: chain, shared, relayer, uncle_u, uncle_w }
}

struct World {
    /// txs[0] = X (not in the block), txs[1] = cellbase, txs[2..] = block transactions
    txs: Vec<TransactionView>,
}

fn world(c: &Consensus, max_tx: usize, seed: u64) -> World {
    let cap = Capacity::bytes(50_000).unwrap().as_u64();
    let mut txs = vec![fixture::spend(c, &[fixture::genesis_cell(c, 9)], cap, 1, 1_000_000, 900 + seed)];
    let cellbase = TransactionBuilder::default()
        .input(CellInput::new_cellbase_input(1))
        .output(CellOutput::new_builder().capacity(Capacity::bytes(1000).unwrap()).lock(fixture::lock()).build())
        .output_data(Bytes::new())
        .witness(fixture::lock().into_witness())
        .build();
    txs.push(cellbase);
    for i in 2..=max_tx {
        txs.push(fixture::spend(c, &[fixture::genesis_cell(c, i)], cap, 1, 1_000_000 + i as u64, 100 * i as u64 + seed));
    }
    World { txs }
}

fn ids(v: &Value) -> Vec<i64> {
    v.as_array().expect("list").iter().map(|x| x.as_i64().expect("int")).collect()
}
fn uncle_name(v: &Value) -> String {
    v.as_str().expect("uncle name").to_string()
}

fn res_json(r: &Result<ReconstructionResult, String>, compact: &packed::CompactBlock, committed: &BlockView) -> Value {
    match r {
        Err(p) => json!({"kind": "PANIC", "text": p}),
        Ok(ReconstructionResult::Block(b)) => json!({
            "kind": "Block",
            "same_hash": b.hash() == compact.calc_header_hash(),
            "same_block": b.data().as_slice() == committed.data().as_slice(),
            "header_unchanged": b.data().header().as_slice() == compact.header().as_slice(),
        }),
        Ok(ReconstructionResult::Missing(t, u)) => json!({"kind": "Missing", "txs": t.iter().map(|i| i + 1).collect::<Vec<_>>(), "uncles": u.iter().map(|i| i + 1).collect::<Vec<_>>()}),
        Ok(ReconstructionResult::Collided) => json!({"kind": "Collided"}),
        Ok(ReconstructionResult::Error(s)) => json!({"kind": "Error", "status": s.to_string()}),
    }
}

/// compares a real result with the specification's; Some(text) on disagreement
fn judge_result(spec: &Value, real: &Value) -> Option<(String, String)> {
    let sk = spec["kind"].as_str().unwrap();
    let rk = real["kind"].as_str().unwrap();
    match (sk, rk) {
        (_, "PANIC") => Some(("panic".into(), format!("reconstruct_block panicked: {}", real["text"]))),
        ("Block", "Block") => {
            if real["same_hash"] == json!(true) && real["same_block"] == json!(true) { None } else { Some(("different-block".into(), format!("reconstructed block is not the committed block: {real}"))) }
        }
        ("Missing", "Missing") => {
            let (mut a, mut b) = (ids(&spec["txs"]), ids(&real["txs"]));
            a.sort();
            b.sort();
            let (mut c, mut d) = (ids(&spec["uncles"]), ids(&real["uncles"]));
            c.sort();
            d.sort();
            if a == b && c == d { None } else { Some(("missing-imprecise".into(), format!("reported missing {real}, specification {spec}"))) }
        }
        ("Refused", "Collided") | ("Refused", "Error") => None,
        (_, "Block") => {
            if real["same_hash"] == json!(true) && real["same_block"] == json!(true) {
                Some(("unexpected-block".into(), format!("the committed block was returned where the specification expects {sk}")))
            } else {
                Some(("different-block".into(), format!("a block the header does not commit to was returned (specification: {sk}): {real}")))
            }
        }
        _ => Some(("result-kind".into(), format!("real {real}, specification {spec}"))),
    }
}

pub fn reconstruct(args: &[String]) {
    let input = opt(args, "--in").expect("--in");
    let seed = opt_u64(args, "--seed", 1);
    let text = std::fs::read_to_string(input).expect("read input");
    let mut cases: Vec<Value> = text.lines().filter(|l| !l.trim().is_empty()).map(|l| serde_json::from_str(l).expect("case")).collect();
    // group by local state so that the pool is refilled only when it changes
    cases.sort_by_key(|c| (c["known"].to_string(), c["pool"].to_string()));
    let ft = ckb_systemtime::faketime();
    ft.set_faketime(fixture::GENESIS_TS + 8_000);
    let c = fixture::consensus(&Params::default());
    let w = world(&c, 4, seed);
    let rt = ckb_async_runtime::new_background_runtime();
    if std::env::var("C16_DEBUG").is_err() {
        std::panic::set_hook(Box::new(|_| {}));
    }
    let out = std::io::stdout();
    let mut nodes: HashMap<bool, RNode> = HashMap::new();
    let mut pool_now: HashMap<bool, String> = HashMap::new();
    let mut tally: HashMap<String, u64> = HashMap::new();
    let (mut n_cases, mut bad) = (0u64, 0u64);
    let mut processed: HashSet<String> = HashSet::new();
    for case in &cases {
        n_cases += 1;
        let know_u = ids(&case["known"]).contains(&1);
        let node = nodes.entry(know_u).or_insert_with(|| start_node(&c, know_u));
        let tip = node.shared.snapshot().tip_header().clone();
        // ---- the committed block
        let n = case["n"].as_u64().unwrap() as usize;
        let mut bb = BlockBuilder::default()
            .parent_hash(tip.hash())
            .number(tip.number() + 1)
            .timestamp(tip.timestamp() + 8_000)
            .epoch(core::EpochNumberWithFraction::new(0, 1, 1000))
            .compact_target(tip.compact_target())
            .nonce(case["id"].as_u64().unwrap_or(n_cases) as u128 + 1)      // one block hash per case: block statuses never carry over
            .transactions(w.txs[1..=n].to_vec())
            .proposal(ProposalShortId::new([1u8; 10]));
        if case["uncle"] == json!(true) {
            bb = bb.uncle(node.uncle_u.as_uncle());
        }
        if case["ext"] == json!(true) {
            bb = bb.extension(Some(Bytes::from(vec![0xE0u8, 1, 2]).into()));
        }
        let committed = bb.build();
        // ---- the compact block the peer sends
        let tx_of = |t: i64| w.txs[t as usize].clone();
        let prefilled: Vec<packed::IndexTransaction> = case["pre"]
            .as_array()
            .unwrap()
            .iter()
            .map(|p| {
                let p = ids(p);
                packed::IndexTransaction::new_builder().index((p[0] - 1) as usize).transaction(tx_of(p[1]).data()).build()
            })
            .collect();
        let short_ids: Vec<ProposalShortId> = ids(&case["sids"]).into_iter().map(|t| tx_of(t).proposal_short_id()).collect();
        let uncle_hash = |name: &str| if name == "u" { node.uncle_u.hash() } else { node.uncle_w.hash() };
        let uhashes: Vec<packed::Byte32> = case["uhashes"].as_array().unwrap().iter().map(|x| uncle_hash(&uncle_name(x))).collect();
        let props = if case["props"] == json!("P") { vec![ProposalShortId::new([1u8; 10])] } else { vec![ProposalShortId::new([2u8; 10])] };
        let compact = match case["mext"].as_str().unwrap() {
            "none" => packed::CompactBlock::new_builder().header(committed.data().header()).short_ids(short_ids).prefilled_transactions(prefilled).uncles(uhashes).proposals(props).build(),
            e => packed::CompactBlockV1::new_builder()
                .header(committed.data().header())
                .short_ids(short_ids)
                .prefilled_transactions(prefilled)
                .uncles(uhashes)
                .proposals(props)
                .extension(Bytes::from(if e == "E" { vec![0xE0u8, 1, 2] } else { vec![0xF0u8] }))
                .build()
                .as_v0(),
        };
        // ---- local state
        let want_pool = case["pool"].to_string();
        if pool_now.get(&know_u) != Some(&want_pool) {
            let ctl = node.shared.tx_pool_controller();
            ctl.clear_pool(node.shared.cloned_snapshot()).expect("clear pool");
            for t in ids(&case["pool"]) {
                match ctl.submit_local_tx(tx_of(t)) {
                    Ok(Ok(_)) => {}
                    other => {
                        eprintln!("cannot pool tx {t}: {:?}", other);
                        std::process::exit(3);
                    }
                }
            }
            pool_now.insert(know_u, want_pool);
        }
        let mut found: Vec<(String, String)> = vec![];
        // ---- CompactBlockVerifier
        let verdict = match crate::guarded(|| hooks::compact_block_verify(&compact)) {
            Ok(s) => if s.is_ok() { "ok".to_string() } else { "reject".to_string() },
            Err(p) => format!("PANIC {p}"),
        };
        let spec_verdict = case["verdict"].as_str().unwrap();
        if verdict != spec_verdict {
            found.push(("verifier".into(), format!("CompactBlockVerifier says {verdict}, specification {spec_verdict}")));
        }
        *tally.entry(format!("verdict:{verdict}")).or_default() += 1;
        let mut r1j = json!(null);
        let mut r2j = json!(null);
        if verdict == "ok" && spec_verdict == "ok" {
            let active = node.relayer.shared().active_chain();
            // ---- first reconstruction: nothing from the peer
            let r1 = crate::guarded(|| rt.block_on(node.relayer.reconstruct_block(&active, &compact, vec![], &[], &[])));
            r1j = res_json(&r1, &compact, &committed);
            *tally.entry(format!("r1:{}", r1j["kind"].as_str().unwrap())).or_default() += 1;
            if let Some(f) = judge_result(&case["r1"], &r1j) {
                found.push(f);
            } else if case["ans"]["kind"] != json!("none") {
                // ---- the peer answers the request for the missing items
                let want_tx: Vec<u32> = ids(&case["r1"]["txs"]).into_iter().map(|i| (i - 1) as u32).collect();
                let want_un: Vec<u32> = ids(&case["r1"]["uncles"]).into_iter().map(|i| (i - 1) as u32).collect();
                let recv_txs: Vec<TransactionView> = ids(&case["ans"]["txs"]).into_iter().map(tx_of).collect();
                let recv_uncles: Vec<core::UncleBlockView> =
                    case["ans"]["uncles"].as_array().unwrap().iter().map(|x| if uncle_name(x) == "u" { node.uncle_u.as_uncle() } else { node.uncle_w.as_uncle() }).collect();
                let av = crate::guarded(|| {
                    let a = hooks::block_transactions_verify(&compact, &want_tx, &recv_txs);
                    if !a.is_ok() {
                        return false;
                    }
                    hooks::block_uncles_verify(&compact, &want_un, &recv_uncles).is_ok()
                });
                let averdict = match &av {
                    Ok(true) => "ok".to_string(),
                    Ok(false) => "reject".to_string(),
                    Err(p) => format!("PANIC {p}"),
                };
                let spec_av = case["averdict"].as_str().unwrap();
                *tally.entry(format!("answer:{}:{averdict}", case["ans"]["kind"].as_str().unwrap())).or_default() += 1;
                if averdict != spec_av {
                    found.push(("answer-verifier".into(), format!("BlockTransactions/BlockUncles verifiers say {averdict} on a {} answer, specification {spec_av}", case["ans"]["kind"])));
                }
                // the processor reconstructs whenever ITS verifiers pass
                if averdict == "ok" {
                    let r2 = crate::guarded(|| rt.block_on(node.relayer.reconstruct_block(&active, &compact, recv_txs.clone(), &want_un, &recv_uncles)));
                    r2j = res_json(&r2, &compact, &committed);
                    *tally.entry(format!("r2:{}", r2j["kind"].as_str().unwrap())).or_default() += 1;
                    if spec_av == "ok" {
                        if let Some(f) = judge_result(&case["r2"], &r2j) {
                            found.push(f);
                        }
                    } else if r2j["kind"] == json!("PANIC") {
                        found.push(("panic".into(), format!("after a {} answer the verifiers let pass: {}", case["ans"]["kind"], r2j["text"])));
                    } else if r2j["kind"] == json!("Block") && (r2j["same_hash"] != json!(true) || r2j["same_block"] != json!(true)) {
                        found.push(("different-block".into(), format!("after a {} answer: {r2j}", case["ans"]["kind"])));
                    }
                }
            }
        }
        // ---- the whole message through the real protocol handler (`Relayer::received` -> CompactBlockProcess::execute):
        //      what the peer is asked for and whether the block is handed to the chain, judged by the same specification case
        let pkey = json!([case["n"], case["uncle"], case["ext"], case["pre"], case["sids"], case["props"], case["uhashes"], case["mext"], case["pool"], case["known"]]).to_string();
        if found.is_empty() && processed.insert(pkey) {
            let rec = Arc::new(Recorder::default());
            let nc: Arc<dyn CKBProtocolContext + Sync> = Arc::new(Ctx { rec: Arc::clone(&rec) });
            let msg = packed::RelayMessage::new_builder().set(compact.clone()).build().as_bytes();
            let hash = compact.calc_header_hash();
            let before = node.shared.get_block_status(&hash);
            let relayer = &mut node.relayer;
            let pr = crate::guarded(|| rt.block_on(relayer.received(nc, PeerIndex::new(1 + (n_cases as usize % 7)), msg)));
            let after = node.shared.get_block_status(&hash);
            let accepted = after.contains(BlockStatus::BLOCK_RECEIVED) || after == BlockStatus::BLOCK_INVALID;
            let r1k0 = case["r1"]["kind"].as_str().unwrap_or("none");
            let expect_request = spec_verdict == "ok" && (r1k0 == "Missing" || r1k0 == "Collided");
            let collect = |rec: &Recorder| -> Vec<(Vec<u32>, Vec<u32>, bool)> {
                let mut requests = vec![];
                for d in rec.sent.lock().unwrap().iter() {
                    if let Ok(m) = packed::RelayMessage::from_slice(d) {
                        if let packed::RelayMessageUnion::GetBlockTransactions(g) = m.to_enum() {
                            requests.push((g.indexes().into_iter().map(|i| { let v: u32 = i.into(); v }).collect(), g.uncle_indexes().into_iter().map(|i| { let v: u32 = i.into(); v }).collect(), g.block_hash() == hash));
                        }
                    }
                }
                requests
            };
            // the request goes out from a task the handler SPAWNS: wait for it when the specification expects one (a missing
            // request is reported only after 3 s), give an unexpected one a moment to show up otherwise
            let mut requests = collect(&rec);
            let mut waited = 0;
            while requests.is_empty() && waited < if expect_request { 3000 } else { 4 } {
                std::thread::sleep(Duration::from_millis(2));
                waited += 2;
                requests = collect(&rec);
            }
            *tally.entry("process:run".into()).or_default() += 1;
            let r1k = case["r1"]["kind"].as_str().unwrap_or("none");
            let want_reqs: Vec<(Vec<u32>, Vec<u32>, bool)> = if spec_verdict != "ok" { vec![] } else {
                match r1k {
                    "Missing" => {
                        let mut t: Vec<u32> = ids(&case["r1"]["txs"]).into_iter().map(|i| (i - 1) as u32).collect();
                        let mut u: Vec<u32> = ids(&case["r1"]["uncles"]).into_iter().map(|i| (i - 1) as u32).collect();
                        t.sort(); u.sort();
                        vec![(t, u, true)]
                    }
                    "Collided" => {
                        let pre: HashSet<i64> = case["pre"].as_array().unwrap().iter().map(|p| ids(p)[0]).collect();
                        let slots = case["pre"].as_array().unwrap().len() + case["sids"].as_array().unwrap().len();
                        vec![((1..=slots as i64).filter(|i| !pre.contains(i)).map(|i| (i - 1) as u32).collect(), vec![], true)]
                    }
                    _ => vec![],
                }
            };
            let want_accept = spec_verdict == "ok" && r1k == "Block";
            let mut got = requests.clone();
            for g in got.iter_mut() { g.0.sort(); g.1.sort(); }
            if let Err(p) = &pr {
                found.push(("process-panic".into(), format!("Relayer::received panicked: {p}")));
            } else if before != BlockStatus::UNKNOWN {
                found.push(("harness".into(), format!("block status before the message: {:?}", before)));
            } else {
                if r1k != "Refused" || spec_verdict != "ok" {
                    // (for a tampered non-transaction field the specification leaves the kind of refusal open)
                    if got != want_reqs {
                        found.push(("process-request".into(), format!("GetBlockTransactions sent {:?}, specification {:?} (r1 = {}); status {:?}, {} messages sent, bans {:?}", got, want_reqs, r1k, after, rec.sent.lock().unwrap().len(), rec.banned.lock().unwrap())));
                    }
                }
                if accepted != want_accept {
                    found.push(("process-accept".into(), format!("block handed to the chain: {accepted} (status {:?}), specification {want_accept} (verdict {spec_verdict}, r1 = {r1k})", after)));
                }
                *tally.entry(format!("process:{}", if spec_verdict != "ok" { "rejected" } else { r1k })).or_default() += 1;
            }
        }
        for (kind, detail) in found {
            bad += 1;
            let sig = format!("tamper={},answer={}", case["tamper"].as_str().unwrap(), case["ans"]["kind"].as_str().unwrap());
            let mut o = out.lock();
            let _ = writeln!(o, "{}", json!({"mismatch": {"id": case["id"], "kind": kind, "sig": sig, "detail": detail, "r1": r1j, "r2": r2j}}));
        }
    }
    println!("{}", json!({"summary": {"cases": n_cases, "mismatches": bad, "tally": tally}}));
    let _ = std::io::stdout().flush();
    std::process::exit(0);
}
