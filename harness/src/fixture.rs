//! Real-node fixture: a full `Shared` + chain services + tx-pool (dummy network, dummy PoW, faketime),
//! small consensus parameters, and a manual block assembler that builds a block on *any* node's tip with
//! the production calculators (epoch, reward, DAO, chain root) and scenario-chosen content.
//!
//! Idioms (learned by probing, see DESIGN.md appendix):
//!  * `blocking_process_block` never returns for an orphan -> `submit_async` + `quiesce`.
//!  * the chain service does not run `HeaderVerifier` (sync/rpc do) -> `submit_like_miner`.
//!  * blocks on a side branch are built on a throw-away *builder node* that was fed the branch's ancestors.
//!  * every node directory lives under $TMPDIR (the driver points it into harness/target/tmp).
use ckb_app_config::{BlockAssemblerConfig, DBConfig, NetworkConfig, StoreConfig, TxPoolConfig};
use ckb_chain::{ChainServiceScope, LonelyBlock};
use ckb_chain_spec::consensus::{build_genesis_epoch_ext, Consensus, ConsensusBuilder, ProposalWindow};
use ckb_dao_utils::genesis_dao_data;
use ckb_jsonrpc_types::ScriptHashType;
use ckb_network::{network::TransportType, Flags, NetworkController, NetworkService, NetworkState};
use ckb_shared::{Shared, SharedBuilder};
use ckb_store::ChainStore;
use ckb_test_chain_utils::{always_success_cell, create_always_success_tx};
use ckb_types::prelude::*;
use ckb_types::{
    bytes::Bytes,
    core::{
        capacity_bytes, BlockBuilder, BlockView, Capacity, DepType, EpochNumberWithFraction, TransactionBuilder,
        TransactionView, UncleBlockView,
    },
    h256,
    packed::{self, Block, Byte32, CellDep, CellInput, CellOutput, OutPoint},
    utilities::DIFF_TWO,
};
use std::path::{Path, PathBuf};
use std::sync::atomic::{AtomicUsize, Ordering};
use std::sync::{Arc, Mutex};

pub const GENESIS_TS: u64 = 1_000_000;
pub const BLOCK_INTERVAL_MS: u64 = 8_000;

/// Small-consensus parameters of a scenario.
#[derive(Clone, Debug)]
pub struct Params {
    /// blocks per epoch (constant when `permanent_difficulty`)
    pub epoch_len: u64,
    /// tx proposal window (closest, farthest)
    pub window: (u64, u64),
    /// constant difficulty and epoch length (dummy pow); false = real adjustment
    pub permanent_difficulty: bool,
    /// number of spendable always-success cells in genesis (each 50_000 CKB), tx index 1..=n, output 0
    pub genesis_cells: usize,
    pub cellbase_maturity: EpochNumberWithFraction,
    pub median_time_block_count: usize,
    pub max_block_proposals_limit: u64,
    pub max_block_bytes: Option<u64>,
    pub max_block_cycles: Option<u64>,
    pub epoch_reward_ckb: u64,
}

impl Default for Params {
    fn default() -> Self {
        Params {
            epoch_len: 1000,
            window: (2, 10),
            permanent_difficulty: true,
            genesis_cells: 10,
            cellbase_maturity: EpochNumberWithFraction::new(0, 0, 1),
            median_time_block_count: 37,
            max_block_proposals_limit: 1500,
            max_block_bytes: None,
            max_block_cycles: None,
            epoch_reward_ckb: 1_000_000,
        }
    }
}

/// The always-success lock script used everywhere.
pub fn lock() -> packed::Script {
    always_success_cell().2.clone()
}

pub fn consensus(p: &Params) -> Consensus {
    consensus_with(p, DIFF_TWO)
}

/// Same as `consensus` with a chosen genesis (= epoch 0) compact target, i.e. per-block difficulty.
pub fn consensus_with(p: &Params, genesis_compact_target: u32) -> Consensus {
    let always_success_script = lock();
    let tx = create_always_success_tx();
    // VERIF_SATOSHI_GENESIS_CELLS (set by the C06 check only): every second spendable genesis cell is locked with args = the
    // consensus' satoshi public-key hash.  They sit in NON-cellbase genesis transactions, so the "satoshi gift" occupied
    // ratio (genesis cellbase outputs only) must not apply to them: spending one frees its plain occupied capacity.
    let satoshi_cells = std::env::var("VERIF_SATOSHI_GENESIS_CELLS").is_ok();
    let satoshi_lock = always_success_script
        .clone()
        .as_builder()
        .args(Bytes::from(ckb_types::h160!("0x62e907b15cbf27d5425399ebf6f0fb50ebb88f18").0.to_vec()).pack())
        .build();
    let transactions: Vec<TransactionView> = (0..p.genesis_cells as u64)
        .map(|i| {
            let data = Bytes::from(i.to_le_bytes().to_vec());
            let always_success_script = if satoshi_cells && i % 2 == 0 { satoshi_lock.clone() } else { always_success_script.clone() };
            TransactionBuilder::default()
                .input(CellInput::new(OutPoint::null(), 0))
                .output(CellOutput::new_builder().capacity(capacity_bytes!(50_000)).lock(always_success_script.clone()).build())
                .output_data(data)
                .build()
        })
        .collect();
    // the DAO field covers *all* genesis transactions so that U equals the occupied capacity of the live set
    let all: Vec<&TransactionView> = std::iter::once(&tx).chain(transactions.iter()).collect();
    let dao = genesis_dao_data(all).unwrap();
    let genesis_block = BlockBuilder::default()
        .dao(dao)
        .compact_target(genesis_compact_target)
        .timestamp(GENESIS_TS)
        .transaction(tx)
        .transactions(transactions)
        .build();
    let epoch_ext = build_genesis_epoch_ext(
        Capacity::shannons(p.epoch_reward_ckb * 100_000_000),
        genesis_compact_target,
        p.epoch_len,
        8 * p.epoch_len,
        (1, 40),
    );
    let mut b = ConsensusBuilder::new(genesis_block, epoch_ext)
        .cellbase_maturity(p.cellbase_maturity)
        .epoch_duration_target(8 * p.epoch_len)
        .permanent_difficulty_in_dummy(p.permanent_difficulty)
        .median_time_block_count(p.median_time_block_count)
        .max_block_proposals_limit(p.max_block_proposals_limit)
        .tx_proposal_window(ProposalWindow(p.window.0, p.window.1));
    if let Some(x) = p.max_block_bytes {
        b = b.max_block_bytes(x);
    }
    if let Some(x) = p.max_block_cycles {
        b = b.max_block_cycles(x);
    }
    b.build()
}

pub fn dummy_network(shared: &Shared) -> NetworkController {
    let tmp_dir = tempfile::Builder::new().tempdir().unwrap();
    let config = NetworkConfig {
        max_peers: 19,
        max_outbound_peers: 5,
        path: tmp_dir.path().to_path_buf(),
        ping_interval_secs: 15,
        ping_timeout_secs: 20,
        connect_outbound_interval_secs: 1,
        discovery_local_address: true,
        bootnode_mode: true,
        reuse_port_on_linux: true,
        ..Default::default()
    };
    let network_state = Arc::new(NetworkState::from_config(config).expect("Init network state failed"));
    NetworkService::new(
        network_state,
        vec![],
        vec![],
        (shared.consensus().identify_name(), "test".to_string(), Flags::COMPATIBILITY),
        TransportType::Tcp,
    )
    .start(shared.async_handle())
    .expect("Start network service failed")
}

pub fn assembler_config() -> BlockAssemblerConfig {
    BlockAssemblerConfig {
        code_hash: h256!("0x0"),
        args: Default::default(),
        hash_type: ScriptHashType::Data,
        message: Default::default(),
        use_binary_version_as_message_prefix: false,
        binary_version: "TEST".to_string(),
        update_interval_millis: 0,
        notify: vec![],
        notify_scripts: vec![],
        notify_timeout_millis: 800,
    }
}

/// How to start a node.
#[derive(Clone)]
pub struct NodeCfg {
    pub consensus: Consensus,
    /// persistent directory (needed for restart); None = temp db
    pub root: Option<PathBuf>,
    /// enable the block assembler ("mine mode" of the pool)
    pub assembler: bool,
    pub freezer: bool,
    pub store: Option<StoreConfig>,
    pub tx_pool: Option<TxPoolConfig>,
}

impl NodeCfg {
    pub fn temp(c: &Consensus) -> NodeCfg {
        NodeCfg { consensus: c.clone(), root: None, assembler: true, freezer: false, store: None, tx_pool: None }
    }
    pub fn at(c: &Consensus, root: &Path) -> NodeCfg {
        NodeCfg { consensus: c.clone(), root: Some(root.to_path_buf()), assembler: true, freezer: false, store: None, tx_pool: None }
    }
}

pub struct Node {
    pub chain: ChainServiceScope,
    pub shared: Shared,
    submitted: Arc<AtomicUsize>,
    answered: Arc<AtomicUsize>,
    /// verdicts of asynchronously submitted blocks: (hash, Ok(verified)/Err(text))
    pub verdicts: Arc<Mutex<Vec<(Byte32, Result<bool, String>)>>>,
}

/// One background runtime per process for all persistent-directory nodes (as `SharedBuilder::with_temp_db` does per
/// thread): a runtime per node leaves its worker threads spinning after the node is dropped, and a process that
/// starts dozens of nodes then burns its CPU in them.
pub fn shared_runtime() -> ckb_async_runtime::Handle {
    static RT: std::sync::OnceLock<ckb_async_runtime::Handle> = std::sync::OnceLock::new();
    RT.get_or_init(ckb_async_runtime::new_background_runtime).clone()
}

impl Node {
    pub fn start(cfg: &NodeCfg) -> Node {
        let (shared, mut pack) = match &cfg.root {
            None => {
                let mut b = SharedBuilder::with_temp_db().consensus(cfg.consensus.clone());
                if let Some(sc) = &cfg.store {
                    b = b.store_config(sc.clone());
                }
                b.tx_pool_config(cfg.tx_pool.clone().unwrap_or_default())
                    .block_assembler_config(if cfg.assembler { Some(assembler_config()) } else { None })
                    .build()
                    .unwrap()
            }
            Some(root) => {
                let mut dbc = DBConfig::default();
                dbc.path = root.join("db");
                std::fs::create_dir_all(root.join("ancient")).unwrap();
                let mut sc = cfg.store.clone().unwrap_or_default();
                sc.freezer_enable = cfg.freezer;
                let handle = shared_runtime();
                let mut tp = cfg.tx_pool.clone().unwrap_or_default();
                tp.persisted_data = root.join("tx_pool_persisted");
                tp.recent_reject = root.join("recent_reject");
                SharedBuilder::new("ckb", root, &dbc, Some(root.join("ancient")), handle, cfg.consensus.clone())
                    .unwrap()
                    .store_config(sc)
                    .tx_pool_config(tp)
                    .block_assembler_config(if cfg.assembler { Some(assembler_config()) } else { None })
                    .build()
                    .unwrap()
            }
        };
        let network = dummy_network(&shared);
        pack.take_tx_pool_builder().start(network);
        let chain = ChainServiceScope::new(pack.take_chain_services_builder());
        while chain.chain_controller().is_verifying_unverified_blocks_on_startup() {
            std::thread::sleep(std::time::Duration::from_millis(5));
        }
        Node {
            chain,
            shared,
            submitted: Arc::new(AtomicUsize::new(0)),
            answered: Arc::new(AtomicUsize::new(0)),
            verdicts: Arc::new(Mutex::new(vec![])),
        }
    }

    pub fn tip(&self) -> (u64, Byte32) {
        let s = self.shared.snapshot();
        (s.tip_number(), s.tip_hash())
    }

    pub fn total_difficulty_hex(&self) -> String {
        format!("{:x}", self.shared.snapshot().total_difficulty())
    }

    /// Block from the node's own template (waits until the template follows the tip).
    pub fn mine(&self, ts_bump: u64) -> BlockView {
        let tip = self.shared.snapshot().tip_hash();
        let mut n = 0;
        loop {
            let t = self.shared.get_block_template(None, None, None).unwrap().unwrap();
            let ph: Byte32 = t.parent_hash.clone().into();
            if ph == tip || n > 400 {
                let block: Block = t.into();
                let b = block.as_advanced_builder();
                let ts = self.shared.snapshot().tip_header().timestamp() + BLOCK_INTERVAL_MS + ts_bump;
                return b.timestamp(ts).build();
            }
            n += 1;
            std::thread::sleep(std::time::Duration::from_millis(5));
        }
    }

    /// Synchronous submission (do NOT use for a block whose parent may be unknown: it never returns).
    pub fn process(&self, b: &BlockView) -> Result<bool, String> {
        self.chain.chain_controller().blocking_process_block(Arc::new(b.clone())).map_err(|e| e.to_string())
    }

    /// Force-accept with all verification disabled (to build descendants of invalid blocks etc.).
    pub fn process_unchecked(&self, b: &BlockView) -> Result<bool, String> {
        self.chain
            .chain_controller()
            .blocking_process_block_with_switch(Arc::new(b.clone()), ckb_verification_traits::Switch::DISABLE_ALL)
            .map_err(|e| e.to_string())
    }

    /// HeaderVerifier (as sync / rpc run it) followed by the chain service.
    pub fn submit_like_miner(&self, b: &BlockView) -> Result<bool, String> {
        use ckb_verification::HeaderVerifier;
        use ckb_verification_traits::Verifier;
        let snap = self.shared.cloned_snapshot();
        if let Err(e) = HeaderVerifier::new(snap.as_ref(), snap.consensus()).verify(&b.header()) {
            return Err(format!("HeaderErr({})", e));
        }
        self.process(b)
    }

    /// Asynchronous submission; the verdict lands in `verdicts`. Orphans get no verdict until connected.
    pub fn submit_async(&self, b: &BlockView) {
        let answered = Arc::clone(&self.answered);
        let verdicts = Arc::clone(&self.verdicts);
        let hash = b.hash();
        self.submitted.fetch_add(1, Ordering::SeqCst);
        self.chain.chain_controller().asynchronous_process_lonely_block(LonelyBlock {
            block: Arc::new(b.clone()),
            switch: None,
            verify_callback: Some(Box::new(move |r| {
                verdicts.lock().unwrap().push((hash, r.map_err(|e| e.to_string())));
                answered.fetch_add(1, Ordering::SeqCst);
            })),
        });
    }

    /// Wait until every submitted block is either answered or sitting in the orphan pool.
    /// Returns false on time-out (10 s).
    pub fn quiesce(&self) -> bool {
        let mut stable = 0;
        for _ in 0..2000 {
            let pending = self.submitted.load(Ordering::SeqCst) as i64
                - self.answered.load(Ordering::SeqCst) as i64
                - self.chain.chain_controller().orphan_blocks_len() as i64;
            if pending <= 0 {
                stable += 1;
                if stable >= 3 {
                    return true;
                }
            } else {
                stable = 0;
            }
            std::thread::sleep(std::time::Duration::from_millis(5));
        }
        false
    }

    pub fn truncate_to(&self, hash: &Byte32) -> Result<(), String> {
        self.chain.chain_controller().truncate(hash.clone()).map_err(|e| e.to_string())
    }

    /// Wait until the pool's snapshot follows the chain tip (the pool processes reorg notifications asynchronously).
    pub fn wait_pool_synced(&self) -> bool {
        for _ in 0..2000 {
            let tip = self.shared.snapshot().tip_hash();
            if let Ok(info) = self.shared.tx_pool_controller().get_tx_pool_info() {
                if info.tip_hash == tip {
                    return true;
                }
            }
            std::thread::sleep(std::time::Duration::from_millis(5));
        }
        false
    }
}

/// out-point of the i-th spendable genesis cell (i in 0..genesis_cells)
pub fn genesis_cell(c: &Consensus, i: usize) -> OutPoint {
    OutPoint::new(c.genesis_block().transactions()[1 + i].hash(), 0)
}

/// cell dep on the always-success binary deployed in genesis
pub fn always_success_dep(c: &Consensus) -> CellDep {
    CellDep::new_builder().out_point(OutPoint::new(c.genesis_block().transactions()[0].hash(), 0)).dep_type(DepType::Code).build()
}

/// A transaction spending `inputs` into `n_out` always-success outputs, paying `fee` shannons in total.
/// `in_capacity` is the sum of the inputs' capacities (shannons). `salt` makes otherwise equal txs distinct.
pub fn spend(c: &Consensus, inputs: &[OutPoint], in_capacity: u64, n_out: usize, fee: u64, salt: u64) -> TransactionView {
    let per = (in_capacity - fee) / n_out as u64;
    let mut b = TransactionBuilder::default().cell_dep(always_success_dep(c));
    for i in inputs {
        b = b.input(CellInput::new(i.clone(), 0));
    }
    for k in 0..n_out {
        let cap = if k == 0 { in_capacity - fee - per * (n_out as u64 - 1) } else { per };
        b = b.output(CellOutput::new_builder().capacity(Capacity::shannons(cap)).lock(lock()).build()).output_data(Bytes::new());
    }
    if salt != 0 {
        b = b.witness(Bytes::from(salt.to_le_bytes().to_vec()).pack());
    }
    b.build()
}

/// Content of a block to assemble on a node's current tip.
#[derive(Default, Clone)]
pub struct BlockSpec {
    pub commits: Vec<TransactionView>,
    pub proposals: Vec<packed::ProposalShortId>,
    pub uncles: Vec<UncleBlockView>,
    /// absolute timestamp; 0 = parent + BLOCK_INTERVAL_MS
    pub ts: u64,
    /// message bytes in the cellbase witness (makes sibling blocks distinct)
    pub nonce: u64,
}

/// Assemble a block on `n`'s current tip with the production calculators. Returns Err when the content
/// cannot even be resolved (dead input etc.) — use `assemble_raw` to build such blocks anyway.
pub fn assemble(n: &Node, spec: &BlockSpec) -> Result<BlockView, String> {
    use ckb_types::core::cell::{resolve_transaction, BlockCellProvider, OverlayCellProvider};
    use std::collections::HashSet;
    let snap = n.shared.cloned_snapshot();
    let consensus = snap.consensus();
    let tip = snap.tip_header().clone();
    let number = tip.number() + 1;
    let epoch = consensus.next_epoch_ext(&tip, &snap.borrow_as_data_loader()).ok_or("next_epoch_ext")?.epoch();
    let (target_lock, reward) = ckb_reward_calculator::RewardCalculator::new(consensus, snap.as_ref())
        .block_reward_to_finalize(&tip)
        .map_err(|e| e.to_string())?;
    let witness = packed::CellbaseWitness::new_builder().lock(lock()).message(Bytes::from(spec.nonce.to_le_bytes().to_vec()).pack()).build();
    let mut cb = TransactionBuilder::default().input(CellInput::new_cellbase_input(number)).witness(witness.as_bytes().pack());
    let out = CellOutput::new_builder().capacity(reward.total).lock(target_lock).build();
    if number > consensus.finalization_delay_length() && !out.is_lack_of_capacity(Capacity::zero()).unwrap() {
        cb = cb.output(out).output_data(Bytes::new());
    }
    let cellbase = cb.build();
    let mut txs = vec![cellbase];
    txs.extend(spec.commits.iter().cloned());
    let draft = BlockBuilder::default().transactions(txs.clone()).build();
    let bcp = BlockCellProvider::new(&draft).map_err(|e| e.to_string())?;
    let cp = OverlayCellProvider::new(&bcp, snap.as_ref());
    let mut seen = HashSet::new();
    let mut rtxs = vec![];
    for t in txs.iter().cloned() {
        rtxs.push(resolve_transaction(t, &mut seen, &cp, snap.as_ref()).map_err(|e| format!("resolve: {e}"))?);
    }
    let dao = ckb_dao::DaoCalculator::new(consensus, &snap.borrow_as_data_loader())
        .dao_field(rtxs.iter(), &tip)
        .map_err(|e| format!("dao: {e}"))?;
    let root = snap.chain_root_mmr(tip.number()).get_root().map_err(|e| e.to_string())?.calc_mmr_hash();
    let ts = if spec.ts == 0 { tip.timestamp() + BLOCK_INTERVAL_MS } else { spec.ts };
    Ok(BlockBuilder::default()
        .parent_hash(tip.hash())
        .number(number)
        .epoch(epoch.number_with_fraction(number))
        .compact_target(epoch.compact_target())
        .timestamp(ts)
        .dao(dao)
        .transactions(txs)
        .proposals(spec.proposals.clone())
        .uncles(spec.uncles.clone())
        .extension(Some(root.as_bytes().pack()))
        .build())
}

/// A throw-away builder node that has been fed `ancestors` (in order); use it to assemble blocks of a side branch.
pub fn builder_node(c: &Consensus, ancestors: &[BlockView]) -> Node {
    let n = Node::start(&NodeCfg { assembler: false, ..NodeCfg::temp(c) });
    for b in ancestors {
        n.process(b).expect("builder node rejects an ancestor");
    }
    n
}

pub fn hex8(h: &Byte32) -> String {
    format!("{:x}", h)[..8].to_string()
}

/// Growth (tx relay): a temp-db node that keeps the receiving end of the pool's `tx_relay_sender` channel, i.e. the
/// verdicts (`TxVerificationResult`) the relayer would get.  Same start-up as `Node::start` with `root: None`.
pub fn start_with_relay(cfg: &NodeCfg) -> (Node, ckb_channel::Receiver<ckb_tx_pool::service::TxVerificationResult>) {
    assert!(cfg.root.is_none(), "start_with_relay: temp db only");
    let mut b = SharedBuilder::with_temp_db().consensus(cfg.consensus.clone());
    if let Some(sc) = &cfg.store {
        b = b.store_config(sc.clone());
    }
    let (shared, mut pack) = b
        .tx_pool_config(cfg.tx_pool.clone().unwrap_or_default())
        .block_assembler_config(if cfg.assembler { Some(assembler_config()) } else { None })
        .build()
        .unwrap();
    let relay_rx = pack.take_relay_tx_receiver();
    let network = dummy_network(&shared);
    pack.take_tx_pool_builder().start(network);
    let chain = ChainServiceScope::new(pack.take_chain_services_builder());
    while chain.chain_controller().is_verifying_unverified_blocks_on_startup() {
        std::thread::sleep(std::time::Duration::from_millis(5));
    }
    let node = Node {
        chain,
        shared,
        submitted: Arc::new(AtomicUsize::new(0)),
        answered: Arc::new(AtomicUsize::new(0)),
        verdicts: Arc::new(Mutex::new(vec![])),
    };
    (node, relay_rx)
}
