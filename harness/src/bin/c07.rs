//! C07 — epoch length, difficulty and per-block issuance arithmetic: runs the REAL functions on
//! boundary-directed and random inputs at real u64/U256 magnitude and prints (inputs, outputs) records.
//! Nothing is judged here: the python check turns the records into a TLA+ constant module and Apalache
//! evaluates the operators of spec/Epoch.tla on them (the specification is the oracle).
//!
//!   c07 records --seed S --n N     all record kinds (N scales the random part)
//!   c07 one                        reads records' inputs (ndjson, as printed before) on stdin and re-runs them
//!
//! Record kinds (all big numbers are decimal strings):
//!   next     Consensus::next_epoch_ext through a stub EpochProvider (default get_block_epoch is used)
//!   reward   EpochExt::block_reward / secondary_block_issuance at boundary blocks + sums over the whole epoch
//!   halving  Consensus::primary_epoch_reward(epoch)
//!   c2t t2c d2c   compact_to_target / compact_to_difficulty / target_to_compact / difficulty_to_compact
//!   pow      EaglesongPowEngine / EaglesongBlake2bPowEngine::verify (hash value taken from the eaglesong crate)
//!   field succ   EpochNumberWithFraction packing, is_well_formed, is_successor_of
use ckb_chain_spec::consensus::{build_genesis_epoch_ext, Consensus, ConsensusBuilder};
use ckb_pow::{EaglesongBlake2bPowEngine, EaglesongPowEngine, PowEngine};
use ckb_traits::EpochProvider;
use ckb_types::{
    core::{BlockExt, BlockNumber, Capacity, EpochExt, EpochNumberWithFraction, HeaderBuilder, HeaderView},
    packed::{self, Byte32},
    prelude::*,
    utilities::{compact_to_difficulty, compact_to_target, difficulty_to_compact, target_to_compact},
    U256,
};
use ckbv::util::{opt_u64, Rng};
use serde_json::{json, Value};
use std::io::{BufRead, Write};
use std::panic::{catch_unwind, AssertUnwindSafe};

fn dec(x: &U256) -> String {
    // decimal via repeated division (no dependency on the Display impl)
    if x.is_zero() {
        return "0".into();
    }
    let mut v = x.clone();
    let ten = U256::from(10u64);
    let mut s = vec![];
    while !v.is_zero() {
        let r = &v % &ten;
        s.push(b'0' + r.0[0] as u8);
        v = &v / &ten;
    }
    s.reverse();
    String::from_utf8(s).unwrap()
}
fn undec(s: &str) -> U256 {
    let mut v = U256::zero();
    let ten = U256::from(10u64);
    for c in s.bytes() {
        v = &v * &ten + U256::from((c - b'0') as u64);
    }
    v
}
fn ju(v: &Value) -> u64 {
    match v {
        Value::String(s) => s.parse().unwrap(),
        _ => v.as_u64().unwrap(),
    }
}
fn panic_text(e: Box<dyn std::any::Any + Send>) -> String {
    if let Some(s) = e.downcast_ref::<&str>() {
        s.to_string()
    } else if let Some(s) = e.downcast_ref::<String>() {
        s.clone()
    } else {
        "panic".into()
    }
}

// ------------------------------------------------------------------------------------------------
/// Consensus parameters of a record (everything else is ConsensusBuilder::default(): dummy PoW, dynamic difficulty).
#[derive(Clone, Debug)]
struct P {
    target_dur: u64,
    orphan: (u32, u32),
    initial: u64,
    secondary: u64,
    halving: u64,
}
impl P {
    fn default_() -> P {
        let c = ConsensusBuilder::default().build();
        P {
            target_dur: c.epoch_duration_target(),
            orphan: (1, 40),
            initial: c.initial_primary_epoch_reward().as_u64(),
            secondary: c.secondary_epoch_reward().as_u64(),
            halving: c.primary_epoch_reward_halving_interval(),
        }
    }
    fn consensus(&self) -> Consensus {
        ConsensusBuilder::default()
            .epoch_duration_target(self.target_dur)
            .orphan_rate_target(self.orphan)
            .initial_primary_epoch_reward(Capacity::shannons(self.initial))
            .secondary_epoch_reward(Capacity::shannons(self.secondary))
            .primary_epoch_reward_halving_interval(self.halving)
            .build()
    }
    fn json(&self, c: &Consensus) -> Value {
        json!({"min_len": c.min_epoch_length(), "max_len": c.max_epoch_length(), "target_dur": c.epoch_duration_target(),
               "on": self.orphan.0, "od": self.orphan.1, "initial": c.initial_primary_epoch_reward().as_u64().to_string(),
               "secondary": c.secondary_epoch_reward().as_u64().to_string(), "halving": c.primary_epoch_reward_halving_interval()})
    }
    fn from_json(v: &Value) -> P {
        P {
            target_dur: ju(&v["target_dur"]),
            orphan: (ju(&v["on"]) as u32, ju(&v["od"]) as u32),
            initial: ju(&v["initial"]),
            secondary: ju(&v["secondary"]),
            halving: ju(&v["halving"]),
        }
    }
}

/// The chain as far as `get_block_epoch` looks at it: the tail header of the closing epoch, the last block of the
/// epoch before it, their timestamps and accumulated uncle counts.
struct Stub {
    epoch: EpochExt,
    prev_last: Byte32,
    prev_last_header: HeaderView,
    prev_uncles: u64,
    tail_hash: Byte32,
    tail_uncles: u64,
}
fn ext(total_uncles_count: u64) -> BlockExt {
    BlockExt {
        received_at: 0,
        total_difficulty: U256::zero(),
        total_uncles_count,
        verified: Some(true),
        txs_fees: vec![],
        cycles: None,
        txs_sizes: None,
    }
}
impl EpochProvider for Stub {
    fn get_epoch_ext(&self, _h: &HeaderView) -> Option<EpochExt> {
        Some(self.epoch.clone())
    }
    fn get_block_hash(&self, number: BlockNumber) -> Option<Byte32> {
        if number == 0 { Some(self.prev_last.clone()) } else { None }
    }
    fn get_block_ext(&self, hash: &Byte32) -> Option<BlockExt> {
        if hash == &self.tail_hash {
            Some(ext(self.tail_uncles))
        } else if hash == &self.prev_last {
            Some(ext(self.prev_uncles))
        } else {
            None
        }
    }
    fn get_block_header(&self, hash: &Byte32) -> Option<HeaderView> {
        if hash == &self.prev_last { Some(self.prev_last_header.clone()) } else { None }
    }
}

#[derive(Clone, Debug)]
struct NextIn {
    number: u64,
    start: u64,
    len: u64,
    base: u64,
    rem: u64,
    prev_hr: U256,
    compact: u32,
    uncles: u64,
    ms: u64,
}
impl NextIn {
    fn json(&self) -> Value {
        json!({"number": self.number, "start": self.start.to_string(), "len": self.len, "base": self.base.to_string(),
               "rem": self.rem.to_string(), "prev_hr": dec(&self.prev_hr), "compact": self.compact,
               "uncles": self.uncles, "ms": self.ms.to_string()})
    }
    fn from_json(v: &Value) -> NextIn {
        NextIn {
            number: ju(&v["number"]),
            start: ju(&v["start"]),
            len: ju(&v["len"]),
            base: ju(&v["base"]),
            rem: ju(&v["rem"]),
            prev_hr: undec(v["prev_hr"].as_str().unwrap()),
            compact: ju(&v["compact"]) as u32,
            uncles: ju(&v["uncles"]),
            ms: ju(&v["ms"]),
        }
    }
    fn epoch(&self, prev_last: &Byte32) -> EpochExt {
        EpochExt::new_builder()
            .number(self.number)
            .start_number(self.start)
            .length(self.len)
            .base_block_reward(Capacity::shannons(self.base))
            .remainder_reward(Capacity::shannons(self.rem))
            .previous_epoch_hash_rate(self.prev_hr.clone())
            .last_block_hash_in_previous_epoch(prev_last.clone())
            .compact_target(self.compact)
            .build()
    }
}

fn epoch_json(e: &EpochExt) -> Value {
    json!({"number": e.number(), "start": e.start_number().to_string(), "len": e.length(),
           "base": e.base_block_reward().as_u64().to_string(), "rem": e.remainder_reward().as_u64().to_string(),
           "prev_hr": dec(e.previous_epoch_hash_rate()), "compact": e.compact_target()})
}

/// Runs the real `Consensus::next_epoch_ext` on the tail block of the epoch described by `i`.
fn run_next(c: &Consensus, i: &NextIn) -> Result<EpochExt, String> {
    let t0: u64 = 1_000;
    let uncles0: u64 = 7;
    let prev_last_header = HeaderBuilder::default().number(i.start.saturating_sub(1)).epoch(EpochNumberWithFraction::new_unchecked(0, 0, 1)).timestamp(t0).build();
    let prev_last = prev_last_header.hash();
    let tail = HeaderBuilder::default()
        .number(i.start + i.len - 1)
        .epoch(EpochNumberWithFraction::new_unchecked(i.number & 0xff_ffff, (i.len - 1) & 0xffff, i.len & 0xffff))
        .compact_target(i.compact)
        .timestamp(t0.checked_add(i.ms).ok_or("input: timestamp overflow")?)
        .build();
    let stub = Stub {
        epoch: i.epoch(&prev_last),
        prev_last,
        prev_last_header,
        prev_uncles: uncles0,
        tail_hash: tail.hash(),
        tail_uncles: uncles0 + i.uncles,
    };
    match catch_unwind(AssertUnwindSafe(|| c.next_epoch_ext(&tail, &stub))) {
        Ok(Some(n)) => {
            if !n.is_head() {
                return Err("not-head".into());
            }
            Ok(n.epoch())
        }
        Ok(None) => Err("none".into()),
        Err(e) => Err(format!("panic: {}", panic_text(e))),
    }
}

fn emit(out: &mut impl Write, v: Value) {
    writeln!(out, "{}", v).unwrap();
}

fn next_record(out: &mut impl Write, id: &mut u64, p: &P, c: &Consensus, i: &NextIn, tag: &str) -> Option<EpochExt> {
    let r = run_next(c, i);
    let o = match &r {
        Ok(e) => epoch_json(e),
        Err(t) => json!({"panic": t}),
    };
    emit(out, json!({"k": "next", "id": *id, "tag": tag, "p": p.json(c), "in": i.json(), "out": o}));
    *id += 1;
    r.ok()
}

fn pick<T: Clone>(r: &mut Rng, xs: &[T]) -> T {
    xs[r.below(xs.len() as u64) as usize].clone()
}

/// the scheduled primary reward of an epoch, used only to build well-formed INPUT epochs (the spec re-checks
/// the precondition RewardFieldsOK on every input)
fn scheduled(p: &P, number: u64) -> u64 {
    let h = number / p.halving;
    if h >= 64 { 0 } else { p.initial >> h }
}

fn gen_next(out: &mut impl Write, id: &mut u64, r: &mut Rng, n: u64, level: u64) {
    let d = P::default_();
    let variants = vec![
        d.clone(),
        P { target_dur: 8_000, ..d.clone() },
        P { orphan: (3, 100), ..d.clone() },
        P { halving: 4, initial: 1_000_000_007, secondary: 999_983, ..d.clone() },
    ];
    let lens: Vec<u64> = vec![300, 301, 449, 450, 599, 600, 601, 899, 900, 901, 1000, 1199, 1799, 1800];
    // compact targets of tail headers: difficulty 2 (dummy default), mainnet-like, random; kept below 2^192
    let compacts: Vec<u32> = vec![0x2080_0000, 0x2000_ffff, 0x1a08_a8b1, 0x1d00_ffff, 0x1c7f_ffff, 0x1901_0000, 0x1500_0001];
    // templates aimed at every branch of the rules (which branch an input really takes is decided by the spec)
    //                (len, uncles: 0 none / 1 one / 2 ideal / 3 max, duration: 0 tiny / 1 target / 2 long, prev: 0 none / 1 high / 2 low / 3 same)
    let templates: Vec<(u64, u8, u8, u8)> = vec![
        (1000, 0, 1, 3), (400, 0, 1, 0), (1000, 1, 0, 1), (400, 1, 0, 2), (500, 3, 2, 3), (1800, 3, 2, 1), (1000, 2, 1, 2),
        (300, 2, 1, 3), (1800, 2, 1, 0), (899, 3, 1, 3), (901, 1, 2, 2), (600, 2, 0, 1),
    ];
    for k in 0..n {
        let p = if k % 4 == 3 && level > 0 { variants[(k as usize / 4) % variants.len()].clone() } else { d.clone() };
        let c = p.consensus();
        let tpl = templates.get(k as usize).cloned();
        let len = if let Some(t) = tpl { t.0 } else if r.chance(2, 3) { pick(r, &lens) } else { r.range(300, 1800) };
        let uncles = match tpl.map(|t| match t.1 { 0 => 0u64, 1 => 2, 2 => 3, _ => 5 }).unwrap_or_else(|| r.below(9)) {
            0 | 1 => 0,
            2 => 1,
            3 => len / 40,
            4 => len / 40 + 1,
            5 => 2 * len,
            6 => 2 * len - 1,
            _ => r.range(1, 2 * len),
        };
        let t = p.target_dur * 1000;
        let ms = match tpl.map(|t| match t.2 { 0 => 10u64, 1 => 5, _ => 8 }).unwrap_or_else(|| r.below(16)) {
            0 => 0,
            1 => 1,
            2 => 999,
            3 => 1000,
            4 => 1999,
            5 => t,
            6 => t - 1,
            7 => t / 2,
            8 => 2 * t,
            9 => 1u64 << 62,
            10 => r.range(1, 60_000),
            11 | 12 => r.range(t / 4, 4 * t),
            _ => r.range(t / 2, 2 * t) / 1000 * 1000 + pick(r, &[0u64, 1, 999]),
        };
        let compact = if tpl.is_some() { 0x1a08_a8b1 } else if r.chance(1, 2) { pick(r, &compacts) } else { (r.range(12, 32) as u32) << 24 | (r.range(1, 0xff_ffff) as u32) };
        // previous hash-rate estimate, directed at the clamp boundaries of the estimate of this epoch
        let diff = compact_to_difficulty(compact);
        let dur = std::cmp::max(ms / 1000, 1);
        let hps = &diff * U256::from(len + uncles) / U256::from(dur);
        let two = U256::from(2u64);
        let one = U256::one();
        let prev_hr = match tpl.map(|t| match t.3 { 0 => 0u64, 1 => 7, 2 => 8, _ => 11 }).unwrap_or_else(|| r.below(12)) {
            0 => U256::zero(),
            1 => one.clone(),
            2 => &hps * &two,
            3 => &hps * &two + &one,
            4 => &hps * &two + &two,
            5 => &hps / &two,
            6 => (&hps / &two).checked_sub(&one).unwrap_or_else(U256::zero),
            7 => &hps * U256::from(r.range(3, 1000)),
            8 => &hps / U256::from(r.range(3, 1000)),
            9 => &hps + U256::from(r.range(0, 1000)),
            _ => hps.clone(),
        };
        let number = match r.below(10) {
            0 => 0,
            1 => p.halving - 1,
            2 => p.halving,
            3 => 2 * p.halving - 1,
            4 => 63 * p.halving - 1,
            5 => r.range(0, 63 * p.halving),
            _ => r.range(0, 3 * p.halving),
        };
        let rew = scheduled(&p, number);
        let i = NextIn { number, start: number * 1000 + r.range(0, 999), len, base: rew / len, rem: rew % len, prev_hr, compact, uncles, ms };
        next_record(out, id, &p, &c, &i, "directed");
    }
    // raw hash-rate estimate exactly on / one off the clamp bounds (2*prev - 1, 2*prev, 2*prev + 1; prev/2 - 1, prev/2, prev/2 + 1),
    // with a small difficulty (2^10) so that the +-1 is visible; inputs are chosen backwards from the estimate
    {
        let c = d.consensus();
        let compact = 0x1f40_0000u32; // target 2^246: difficulty 1024
        let diff = compact_to_difficulty(compact);
        for (upper, delta) in [(true, -1i64), (true, 0), (true, 1), (false, -1), (false, 0), (false, 1)] {
            let len = r.range(900, 1100);
            let dur_s = r.range(12_000, 16_000);
            let mut uncles = r.range(20, 40);
            let mut prev = None;
            for _ in 0..200 {
                let hps = (&diff * U256::from(len + uncles) / U256::from(dur_s)).0[0] as i64;
                if upper {
                    // hps = 2 * prev + delta
                    if hps - delta > 2 && (hps - delta) % 2 == 0 {
                        prev = Some(((hps - delta) / 2) as u64);
                        break;
                    }
                    uncles += 1;
                } else {
                    // hps = prev / 2 + delta (prev even)
                    if hps - delta >= 1 {
                        prev = Some((2 * (hps - delta)) as u64 + r.below(2));
                        break;
                    }
                    uncles += 1;
                }
            }
            let number = r.range(0, 100);
            let rew = scheduled(&d, number);
            let i = NextIn { number, start: number * 1000, len, base: rew / len, rem: rew % len, prev_hr: U256::from(prev.unwrap_or(1)), compact, uncles, ms: dur_s * 1000 + r.below(1000) };
            next_record(out, id, &d, &c, &i, "hr-edge");
        }
    }
    // the computed next length EXACTLY on its bounds min(max_len, 2 * len) / max(min_len, len / 2): still "not bounded" (the
    // ideal orphan rate applies), one step further it is.  The duration is searched with the real function (input
    // generation only: the verdict on every record is the specification's): the length falls as the duration grows.
    {
        let c = d.consensus();
        for (len, uncles) in [(400u64, 2u64), (700, 9), (1000, 30)] {
            for upper in [true, false] {
                let bound = if upper { std::cmp::min(1800, 2 * len) } else { std::cmp::max(300, len / 2) };
                let number = r.range(1, 100);
                let rew = scheduled(&d, number);
                let mk = |ms: u64| NextIn { number, start: number * 1000, len, base: rew / len, rem: rew % len, prev_hr: U256::zero(), compact: 0x1d00_ffff, uncles, ms };
                let out_len = |ms: u64| run_next(&c, &mk(ms)).map(|e| e.length()).unwrap_or(0);
                // upper: the LARGEST duration whose length is still >= bound; lower: the SMALLEST whose length is <= bound
                let (mut lo, mut hi) = (1_000u64, 400_000_000u64);
                while lo + 1 < hi {
                    let mid = (lo + hi) / 2;
                    let l = out_len(mid);
                    let left = if upper { l >= bound } else { l > bound };
                    if left { lo = mid } else { hi = mid }
                }
                let at = if upper { lo } else { hi };
                for (delta, tag) in [(0i64, if upper { "len-edge-upper" } else { "len-edge-lower" }), (if upper { 1 } else { -1 }, "len-edge-inside"), (if upper { -60_000 } else { 60_000 }, "len-edge-beyond")] {
                    let ms = (at as i64 + delta).max(1) as u64;
                    next_record(out, id, &d, &c, &mk(ms), tag);
                }
            }
        }
    }
    // the schedule runs out after 64 halvings
    for (p, number) in [(d.clone(), 64 * d.halving - 1), (variants[3].clone(), 64 * 4 - 1), (variants[3].clone(), 65 * 4 - 1)].into_iter().take(if level > 0 { 3 } else { 1 }) {
        let c = p.consensus();
        let rew = scheduled(&p, number);
        let i = NextIn { number, start: number * 1000, len: 1000, base: rew / 1000, rem: rew % 1000, prev_hr: U256::from(1000u64), compact: 0x2080_0000, uncles: 25, ms: p.target_dur * 1000 };
        next_record(out, id, &p, &c, &i, "halving-64");
    }
}

/// chains of epochs starting from a genesis epoch: next_epoch_ext is fed its own output (reward carried forward,
/// halving every 3 epochs), and the epoch fields of consecutive blocks across each boundary are recorded
fn gen_chains(out: &mut impl Write, id: &mut u64, r: &mut Rng, chains: u64, epochs: u64) {
    let d = P::default_();
    for ch in 0..chains {
        let p = P { halving: 3, initial: d.initial + r.below(1_000_000), ..d.clone() };
        let c = p.consensus();
        let glen = r.range(300, 1800);
        let g = build_genesis_epoch_ext(Capacity::shannons(p.initial), pick(r, &[0x2080_0000u32, 0x1e01_0000, 0x1a08_a8b1]), glen, p.target_dur, p.orphan);
        let mut cur = NextIn {
            number: 0, start: 0, len: glen, base: g.base_block_reward().as_u64(), rem: g.remainder_reward().as_u64(),
            prev_hr: g.previous_epoch_hash_rate().clone(), compact: g.compact_target(), uncles: 0, ms: 0,
        };
        for _ in 0..epochs {
            cur.uncles = match r.below(4) { 0 => 0, 1 => cur.len / 40, _ => r.range(0, 2 * cur.len) };
            cur.ms = match r.below(4) { 0 => r.range(1000, 100_000), 1 => p.target_dur * 1000, _ => r.range(p.target_dur * 250, p.target_dur * 4000) };
            let e = match next_record(out, id, &p, &c, &cur, &format!("chain{}", ch)) {
                Some(e) => e,
                None => break,
            };
            // epoch fields of the last block of the closing epoch and the first block of the next
            let old = cur.epoch(&Byte32::zero());
            let last = old.number_with_fraction(cur.start + cur.len - 1);
            let before = old.number_with_fraction(cur.start + cur.len - if cur.len > 1 { 2 } else { 1 });
            let first = e.number_with_fraction(e.start_number());
            for (pp, ss) in [(before, last), (last, first), (before, first)] {
                field_succ(out, id, pp, ss);
            }
            cur = NextIn {
                number: e.number(), start: e.start_number(), len: e.length(), base: e.base_block_reward().as_u64(),
                rem: e.remainder_reward().as_u64(), prev_hr: e.previous_epoch_hash_rate().clone(), compact: e.compact_target(),
                uncles: 0, ms: 0,
            };
        }
    }
}

fn fjson(f: EpochNumberWithFraction) -> Value {
    json!({"number": f.number(), "index": f.index(), "length": f.length()})
}
fn field_succ(out: &mut impl Write, id: &mut u64, p: EpochNumberWithFraction, s: EpochNumberWithFraction) {
    emit(out, json!({"k": "succ", "id": *id, "in": {"p": fjson(p), "s": fjson(s)}, "out": {"succ": s.is_successor_of(p)}}));
    *id += 1;
}

fn gen_fields(out: &mut impl Write, id: &mut u64, r: &mut Rng, n: u64) {
    let nums = [0u64, 1, 2, 8759, 8760, (1 << 24) - 2, (1 << 24) - 1];
    let lens = [1u64, 2, 300, 1000, 1800, 65535];
    for k in 0..n {
        let number = if k % 2 == 0 { pick(r, &nums) } else { r.below(1 << 24) };
        let length = if k % 3 == 0 { pick(r, &lens) } else { r.range(1, 65535) };
        let index = match r.below(5) { 0 => 0, 1 => length - 1, 2 => length.saturating_sub(2), _ => r.below(length) };
        let f = EpochNumberWithFraction::new_unchecked(number, index, length);
        let back = EpochNumberWithFraction::from_full_value(f.full_value());
        emit(out, json!({"k": "field", "id": *id, "in": fjson(f),
                         "out": {"full": f.full_value().to_string(), "wf": f.is_well_formed(), "back": fjson(back)}}));
        *id += 1;
        // ill-formed variants
        for (i2, l2) in [(length, length), (index, 0), (length + 1, length)] {
            if i2 < 65536 {
                let g = EpochNumberWithFraction::new_unchecked(number, i2, l2);
                emit(out, json!({"k": "field", "id": *id, "in": fjson(g),
                                 "out": {"full": g.full_value().to_string(), "wf": g.is_well_formed(), "back": fjson(EpochNumberWithFraction::from_full_value_unchecked(g.full_value()))}}));
                *id += 1;
            }
        }
        // candidate successors of the well-formed f
        let nn = if number + 1 < (1 << 24) { number + 1 } else { number };
        let cands = [
            (number, index + 1, length), (nn, 0, length), (nn, 0, r.range(1, 65535)), (number, index, length),
            (number, index + 2, length), (nn, 1, length), (number, index + 1, length + 1), (number, 0, length),
            (number + 2, 0, length), (nn, index + 1, length),
        ];
        for (a, b, cc) in cands {
            if a < (1 << 24) && b < 65536 && cc < 65536 {
                field_succ(out, id, f, EpochNumberWithFraction::new_unchecked(a, b, cc));
            }
        }
    }
}

fn gen_rewards(out: &mut impl Write, id: &mut u64, r: &mut Rng, n: u64) {
    let d = P::default_();
    for k in 0..n {
        let len = if k % 2 == 0 { pick(r, &[300u64, 1000, 1800, 1, 2, 7]) } else { r.range(300, 1800) | 1 };
        let number = r.range(0, 5 * d.halving);
        let rew = match if k < 8 { k % 4 } else { r.below(4) } { 0 => scheduled(&d, number), 1 => len * r.range(1, 1 << 40), 2 => len * r.range(1, 1 << 40) + len - 1, _ => r.range(0, 1 << 58) };
        let (base, rem) = (rew / len, rew % len);
        let start = r.range(0, 1 << 40);
        let secondary = match if k < 10 { k % 5 } else { r.below(5) } { 0 => d.secondary, 1 => 0, 2 => len - 1, 3 => len * r.range(1, 1 << 30), _ => r.range(0, 1 << 60) };
        let e = EpochExt::new_builder().number(number).start_number(start).length(len)
            .base_block_reward(Capacity::shannons(base)).remainder_reward(Capacity::shannons(rem)).build();
        let srem = secondary % len;
        let mut ns: Vec<u64> = vec![start, start + 1, start + rem.saturating_sub(1), start + rem, start + rem + 1,
                                    start + srem.saturating_sub(1), start + srem, start + srem + 1, start + len - 1, start + r.below(len)];
        ns.retain(|x| *x >= start && *x < start + len);
        ns.sort();
        ns.dedup();
        let prim: Vec<Value> = ns.iter().map(|x| match e.block_reward(*x) { Ok(c) => json!(c.as_u64().to_string()), Err(_) => json!("err") }).collect();
        let sec: Vec<Value> = ns.iter().map(|x| match e.secondary_block_issuance(*x, Capacity::shannons(secondary)) { Ok(c) => json!(c.as_u64().to_string()), Err(_) => json!("err") }).collect();
        // sums of the code's per-block values over the whole epoch (plain addition of observations)
        let (mut s1, mut s2) = (0u128, 0u128);
        for x in start..start + len {
            s1 += e.block_reward(x).map(|c| c.as_u64() as u128).unwrap_or(0);
            s2 += e.secondary_block_issuance(x, Capacity::shannons(secondary)).map(|c| c.as_u64() as u128).unwrap_or(0);
        }
        emit(out, json!({"k": "reward", "id": *id,
            "in": {"start": start.to_string(), "len": len, "base": base.to_string(), "rem": rem.to_string(), "secondary": secondary.to_string(),
                   "ns": ns.iter().map(|x| x.to_string()).collect::<Vec<_>>()},
            "out": {"primary": prim, "secondary": sec, "sum1": s1.to_string(), "sum2": s2.to_string()}}));
        *id += 1;
    }
}

fn gen_halving(out: &mut impl Write, id: &mut u64, r: &mut Rng) {
    let d = P::default_();
    for p in [d.clone(), P { halving: 4, initial: 1_000_000_007, secondary: 999_983, ..d.clone() }, P { halving: 1, initial: u64::MAX, ..d.clone() }] {
        let c = p.consensus();
        let h = p.halving;
        let mut numbers = vec![0, 1, h - 1, h, h + 1, 2 * h - 1, 2 * h, 10 * h, 62 * h, 63 * h - 1, 63 * h, 64 * h - 1, 64 * h, 65 * h, 100 * h, r.range(0, 70 * h), r.range(0, 70 * h)];
        numbers.retain(|x| *x < (1 << 24));
        for number in numbers {
            let o = match catch_unwind(AssertUnwindSafe(|| c.primary_epoch_reward(number))) {
                Ok(cap) => json!({"reward": cap.as_u64().to_string()}),
                Err(e) => json!({"panic": panic_text(e)}),
            };
            emit(out, json!({"k": "halving", "id": *id, "p": p.json(&c), "in": {"number": number}, "out": o}));
            *id += 1;
        }
    }
}

fn rand_u256(r: &mut Rng, bits: u32) -> U256 {
    let mut v = U256::zero();
    for _ in 0..4 {
        v = (v << 64u8) | U256::from(r.next());
    }
    if bits >= 256 { v } else { v >> (256 - bits) }
}

fn gen_compact(out: &mut impl Write, id: &mut u64, r: &mut Rng, n: u64, level: u64) {
    let mants = [0u32, 1, 0xff, 0x100, 0xffff, 0x1_0000, 0x7f_ffff, 0x80_0000, 0xff_ffff];
    let mut cs: Vec<u32> = vec![];
    for ex in (0u32..=40).chain([63, 64, 65, 128, 254, 255]) {
        if level == 0 && !([0, 1, 3, 4, 32, 33, 255].contains(&ex) || r.chance(1, 12)) {
            continue;
        }
        for m in mants {
            if level > 0 || [0, 1, 0x7f_ffff, 0x80_0000, 0xff_ffff].contains(&m) {
                cs.push(ex << 24 | m);
            }
        }
        cs.push(ex << 24 | (r.below(1 << 24) as u32));
    }
    for _ in 0..n {
        cs.push(r.next() as u32);
    }
    for c in cs {
        let o = match catch_unwind(|| (compact_to_target(c), compact_to_difficulty(c))) {
            Ok(((t, of), d)) => json!({"target": dec(&t), "overflow": of, "difficulty": dec(&d)}),
            Err(e) => json!({"panic": panic_text(e)}),
        };
        emit(out, json!({"k": "c2t", "id": *id, "in": {"c": c}, "out": o}));
        *id += 1;
    }
    // targets / difficulties: powers of two and neighbours, random of every bit length
    let one = U256::one();
    let mut xs: Vec<U256> = vec![one.clone(), U256::from(2u64), U256::from(3u64), U256::max_value(), U256::max_value() - &one];
    for k in 1..256u32 {
        if (level > 0 && (k % 8 <= 1 || k % 8 == 7)) || r.chance(1, if level > 0 { 6 } else { 24 }) {
            let p = &one << k;
            xs.push(&p - &one);
            xs.push(p.clone());
            xs.push(&p + &one);
        }
        if r.chance(1, if level > 0 { 2 } else { 24 }) {
            xs.push(rand_u256(r, k));
        }
    }
    for _ in 0..n {
        let b = r.range(1, 256) as u32;
        xs.push(rand_u256(r, b));
    }
    for x in xs {
        if x.is_zero() {
            continue;
        }
        let o = match catch_unwind(|| target_to_compact(x.clone())) { Ok(c) => json!({"c": c}), Err(e) => json!({"panic": panic_text(e)}) };
        emit(out, json!({"k": "t2c", "id": *id, "in": {"t": dec(&x)}, "out": o}));
        *id += 1;
        let o = match catch_unwind(|| difficulty_to_compact(x.clone())) { Ok(c) => json!({"c": c}), Err(e) => json!({"panic": panic_text(e)}) };
        emit(out, json!({"k": "d2c", "id": *id, "in": {"d": dec(&x)}, "out": o}));
        *id += 1;
    }
    let o = match catch_unwind(|| target_to_compact(U256::zero())) { Ok(c) => json!({"c": c}), Err(e) => json!({"panic": panic_text(e)}) };
    emit(out, json!({"k": "t2c", "id": *id, "in": {"t": "0"}, "out": o}));
    *id += 1;
}

fn pow_hash_value(h: &packed::Header, blake: bool) -> U256 {
    let input = ckb_pow::pow_message(&h.as_reader().calc_pow_hash(), h.nonce().unpack());
    let mut o = [0u8; 32];
    eaglesong::eaglesong(&input, &mut o);
    if blake {
        o = ckb_hash::blake2b_256(o);
    }
    U256::from_big_endian(&o[..]).unwrap()
}

fn pow_record(out: &mut impl Write, id: &mut u64, c: u32, nonce: u128, salt: u64, blake: bool) {
    let hv = HeaderBuilder::default().epoch(EpochNumberWithFraction::new_unchecked(0, 0, 1)).compact_target(c).timestamp(salt).nonce(nonce).build();
    let h = hv.data();
    let hash = pow_hash_value(&h, blake);
    let accept = if blake { EaglesongBlake2bPowEngine.verify(&h) } else { EaglesongPowEngine.verify(&h) };
    emit(out, json!({"k": "pow", "id": *id, "in": {"hash": dec(&hash), "c": c, "engine": if blake { "eaglesong_blake2b" } else { "eaglesong" }, "nonce": nonce.to_string(), "salt": salt},
                     "out": {"accept": accept}}));
    *id += 1;
}

fn gen_pow(out: &mut impl Write, id: &mut u64, r: &mut Rng, scan: u64, level: u64) {
    // usable targets with a real chance either way, tiny targets, and unusable compact values
    let cs: Vec<u32> = vec![0x2080_0000, 0x20ff_ffff, 0x2040_0000, 0x2001_0000, 0x2000_0001, 0x1fff_ffff, 0x1f80_0000, 0x1f01_0000,
                            0x1e80_0000, 0x1d00_ffff, 0x1a08_a8b1, 0x0300_0001, 0x0100_0100, 0x2100_0001, 0x2180_0000, 0xff00_0001,
                            0x2000_0000, 0x0000_0001, 0x0200_00ff, 0x2100_0000];
    for (k, c) in cs.iter().enumerate() {
        if level == 0 && r.chance(1, 2) {
            continue;
        }
        let blake = k % 2 == 1;
        let salt = r.below(1 << 40);
        let (t, of) = compact_to_target(*c);
        // scan nonces; keep those whose hash is nearest to the target from below and from above, and two arbitrary ones
        let mut below: Option<(U256, u128)> = None;
        let mut above: Option<(U256, u128)> = None;
        for nonce in 0..scan as u128 {
            let hv = HeaderBuilder::default().epoch(EpochNumberWithFraction::new_unchecked(0, 0, 1)).compact_target(*c).timestamp(salt).nonce(nonce).build();
            let hash = pow_hash_value(&hv.data(), blake);
            if !of && hash <= t {
                if below.as_ref().map(|(b, _)| &hash > b).unwrap_or(true) { below = Some((hash, nonce)); }
            } else if above.as_ref().map(|(a, _)| &hash < a).unwrap_or(true) {
                above = Some((hash, nonce));
            }
        }
        for n in [below.map(|x| x.1), above.map(|x| x.1), Some(r.below(scan) as u128), Some(r.next() as u128)].into_iter().flatten() {
            pow_record(out, id, *c, n, salt, blake);
            pow_record(out, id, *c, n, salt, !blake);
        }
    }
}

// ------------------------------------------------------------------------------------------------
fn rerun(out: &mut impl Write) {
    // re-run the inputs of given records (replay of a violation): only kinds whose inputs fully determine the call
    let stdin = std::io::stdin();
    let mut id = 0u64;
    for line in stdin.lock().lines() {
        let line = line.unwrap();
        let v: Value = match serde_json::from_str(&line) { Ok(v) => v, Err(_) => continue };
        let k = v["k"].as_str().unwrap_or("");
        match k {
            "next" => {
                let p = P::from_json(&v["p"]);
                let c = p.consensus();
                let i = NextIn::from_json(&v["in"]);
                id = ju(&v["id"]);
                next_record(out, &mut id, &p, &c, &i, v["tag"].as_str().unwrap_or("replay"));
            }
            "halving" => {
                let p = P::from_json(&v["p"]);
                let c = p.consensus();
                let number = ju(&v["in"]["number"]);
                let o = match catch_unwind(AssertUnwindSafe(|| c.primary_epoch_reward(number))) {
                    Ok(cap) => json!({"reward": cap.as_u64().to_string()}),
                    Err(e) => json!({"panic": panic_text(e)}),
                };
                emit(out, json!({"k": "halving", "id": v["id"], "p": p.json(&c), "in": {"number": number}, "out": o}));
            }
            "c2t" => {
                let c = ju(&v["in"]["c"]) as u32;
                let ((t, of), d) = (compact_to_target(c), compact_to_difficulty(c));
                emit(out, json!({"k": "c2t", "id": v["id"], "in": {"c": c}, "out": {"target": dec(&t), "overflow": of, "difficulty": dec(&d)}}));
            }
            "t2c" => {
                let t = undec(v["in"]["t"].as_str().unwrap());
                emit(out, json!({"k": "t2c", "id": v["id"], "in": v["in"], "out": {"c": target_to_compact(t)}}));
            }
            "d2c" => {
                let d = undec(v["in"]["d"].as_str().unwrap());
                emit(out, json!({"k": "d2c", "id": v["id"], "in": v["in"], "out": {"c": difficulty_to_compact(d)}}));
            }
            "pow" => {
                id = ju(&v["id"]);
                pow_record(out, &mut id, ju(&v["in"]["c"]) as u32, v["in"]["nonce"].as_str().unwrap().parse().unwrap(), ju(&v["in"]["salt"]),
                           v["in"]["engine"] == "eaglesong_blake2b");
            }
            "succ" => {
                let f = |x: &Value| EpochNumberWithFraction::new_unchecked(ju(&x["number"]), ju(&x["index"]), ju(&x["length"]));
                id = ju(&v["id"]);
                field_succ(out, &mut id, f(&v["in"]["p"]), f(&v["in"]["s"]));
            }
            "field" => {
                let f = EpochNumberWithFraction::new_unchecked(ju(&v["in"]["number"]), ju(&v["in"]["index"]), ju(&v["in"]["length"]));
                emit(out, json!({"k": "field", "id": v["id"], "in": fjson(f),
                    "out": {"full": f.full_value().to_string(), "wf": f.is_well_formed(), "back": fjson(EpochNumberWithFraction::from_full_value_unchecked(f.full_value()))}}));
            }
            "reward" => {
                let i = &v["in"];
                let (start, len, base, rem, secondary) = (ju(&i["start"]), ju(&i["len"]), ju(&i["base"]), ju(&i["rem"]), ju(&i["secondary"]));
                let e = EpochExt::new_builder().start_number(start).length(len).base_block_reward(Capacity::shannons(base)).remainder_reward(Capacity::shannons(rem)).build();
                let ns: Vec<u64> = i["ns"].as_array().unwrap().iter().map(ju).collect();
                let prim: Vec<Value> = ns.iter().map(|x| json!(e.block_reward(*x).unwrap().as_u64().to_string())).collect();
                let sec: Vec<Value> = ns.iter().map(|x| json!(e.secondary_block_issuance(*x, Capacity::shannons(secondary)).unwrap().as_u64().to_string())).collect();
                let (mut s1, mut s2) = (0u128, 0u128);
                for x in start..start + len {
                    s1 += e.block_reward(x).unwrap().as_u64() as u128;
                    s2 += e.secondary_block_issuance(x, Capacity::shannons(secondary)).unwrap().as_u64() as u128;
                }
                emit(out, json!({"k": "reward", "id": v["id"], "in": i, "out": {"primary": prim, "secondary": sec, "sum1": s1.to_string(), "sum2": s2.to_string()}}));
            }
            _ => {}
        }
    }
}

fn main() {
    let args: Vec<String> = std::env::args().collect();
    if std::env::var("C07_SHOW_PANICS").is_err() {
        std::panic::set_hook(Box::new(|_| {}));
    } // panics of the code under test are data (reported in the records)
    let stdout = std::io::stdout();
    let mut out = std::io::BufWriter::new(stdout.lock());
    match args.get(1).map(|s| s.as_str()) {
        Some("records") => {
            let seed = opt_u64(&args, "--seed", 1);
            let n = opt_u64(&args, "--n", 100);
            let level = opt_u64(&args, "--level", 0);
            let mut r = Rng::new(seed);
            let mut id = 0u64;
            gen_next(&mut out, &mut id, &mut r, n, level);
            gen_chains(&mut out, &mut id, &mut r, std::cmp::max(1, n / 20), if level > 0 { 8 } else { 2 });
            gen_rewards(&mut out, &mut id, &mut r, std::cmp::max(n / 2, 8));
            gen_halving(&mut out, &mut id, &mut r);
            gen_compact(&mut out, &mut id, &mut r, n / 2, level);
            gen_pow(&mut out, &mut id, &mut r, 512, level);
            gen_fields(&mut out, &mut id, &mut r, std::cmp::max(n / 4, 4));
            emit(&mut out, json!({"summary": {"records": id, "seed": seed}}));
        }
        Some("one") => rerun(&mut out),
        _ => {
            eprintln!("usage: c07 records --seed S --n N | c07 one < records.ndjson");
            std::process::exit(2);
        }
    }
    out.flush().unwrap();
}
