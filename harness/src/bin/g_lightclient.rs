//! Growth item "LightClient" — binding of spec/LightClient.tla to the REAL light-client protocol server
//! (util/light-client-protocol-server: `LightClientProtocol::received` -> GetBlocksProofProcess /
//! GetTransactionsProofProcess / GetLastStateProofProcess, reply_proof / reply_tip_state).
//!
//! `g_lightclient chain --in f.json --out trace.ndjson`: the histories of the C19 binding (block arrivals on any
//! branch with work 1 | 3 and an honest or flawed chain-root commitment, bodies over a transaction universe; generated
//! by TLC from MCH_MMR and at random) are delivered to a real node.  After every arrival the protocol handler is
//! driven, through its public `CKBProtocolHandler::received` entry with a recording network context, with
//!   * GetBlocksProof      last in {tip, a main-chain ancestor, genesis, a side block, an unknown hash} x hash sets mixing
//!                         main-chain blocks below / at / above `last`, detached and refused blocks, unknown hashes;
//!   * GetTransactionsProof the same for cellbases and body transactions of main / detached blocks, unknown hashes;
//!   * GetLastStateProof   start number anywhere (also above `last`), start hash right / of a detached block / unknown,
//!                         last_n 0..3, difficulty boundary and increasing difficulty lists drawn from the chain's range.
//! Every reply is decoded and VERIFIED the way a light client verifies it (VerifiableHeader::is_valid for the last
//! header and every sampled header, extra-hash of every proved header from uncles hash + extension, MMRProof::verify
//! of the header digests against last_header.parent_chain_root, CBMT proof of the transactions + witnesses root against
//! the header's transactions_root), and additionally must NOT verify when a proved header is replaced by its sibling
//! of the same height.  What was asked and what came back (proof / tip / nothing / ban / panic; proved and missing
//! items as abstract ids; verified) is written as one ndjson event per request for spec/Trace_LightClient.tla.
use ckb_light_client_protocol_server::LightClientProtocol;
use ckb_merkle_mountain_range::{leaf_index_to_mmr_size, leaf_index_to_pos};
use ckb_network::{
    async_trait, bytes::Bytes as P2pBytes, Behaviour, CKBProtocolContext, CKBProtocolHandler, Error, Peer, PeerIndex, ProtocolId, SupportProtocols,
    TargetSession,
};
use ckb_store::ChainStore;
use ckb_types::prelude::*;
use ckb_types::{
    bytes::Bytes,
    core::{BlockView, Capacity, HeaderView, TransactionBuilder, TransactionView},
    packed::{self, Byte32, CellInput, CellOutput, OutPoint},
    utilities::{
        compact_to_difficulty, difficulty_to_compact, merkle_root,
        merkle_mountain_range::{MMRProof, VerifiableHeader},
        MerkleProof,
    },
    U256,
};
use ckb_verification_traits::Switch;
use ckbv::fixture::*;
use ckbv::util::{opt, Rng};
use serde::Deserialize;
use serde_json::{json, Value};
use std::collections::{HashMap, HashSet};
use std::future::Future;
use std::io::Write;
use std::pin::Pin;
use std::sync::{Arc, Mutex};
use std::time::Duration;

// ------------------------------------------------------------------------------------------------ input (as c19 chain)
#[derive(Deserialize, Clone, Debug)]
struct Out {
    lock: String,
    #[serde(rename = "type")]
    ty: String,
    cap: u64,
    dlen: u64,
}
#[derive(Deserialize, Clone, Debug)]
struct TxD {
    ins: Vec<(usize, u32)>,
    outs: Vec<Out>,
}
#[derive(Deserialize, Clone, Debug)]
struct ScriptD {
    code: String,
    args: Vec<u8>,
}
#[derive(Deserialize, Clone, Debug)]
struct Step {
    b: usize,
    parent: usize,
    work: u64,
    honest: bool,
    #[serde(default)]
    txs: Vec<usize>,
    main: Vec<usize>,
}
#[derive(Deserialize, Clone, Debug)]
struct Hist {
    id: u64,
    steps: Vec<Step>,
}
#[derive(Deserialize)]
struct Input {
    scripts: HashMap<String, ScriptD>,
    txs: Vec<TxD>,
    genesis_txs: Vec<usize>,
    hists: Vec<Hist>,
    seed: u64,
    /// requests per kind and arrival (besides the systematic singletons on short chains)
    #[serde(default)]
    random_requests: u64,
}

const CKB: u64 = 100_000_000;

fn script_of(d: &ScriptD) -> packed::Script {
    match d.code.as_str() {
        "default" => packed::Script::default().as_builder().args(Bytes::from(d.args.clone()).pack()).build(),
        _ => lock().as_builder().args(Bytes::from(d.args.clone()).pack()).build(),
    }
}

struct World {
    consensus: ckb_chain_spec::consensus::Consensus,
    txs: Vec<Option<TransactionView>>,
}

fn world(inp: &Input) -> World {
    let p = Params { genesis_cells: inp.genesis_txs.len(), window: (1, 1), ..Default::default() };
    let consensus = consensus(&p);
    let scripts: HashMap<String, packed::Script> = inp.scripts.iter().map(|(k, v)| (k.clone(), script_of(v))).collect();
    let mut txs: Vec<Option<TransactionView>> = vec![None; inp.txs.len() + 1];
    for (pos, id) in inp.genesis_txs.iter().enumerate() {
        txs[*id] = Some(consensus.genesis_block().transactions()[1 + pos].clone());
    }
    for id in 1..=inp.txs.len() {
        if txs[id].is_some() {
            continue;
        }
        let d = &inp.txs[id - 1];
        let mut b = TransactionBuilder::default().cell_dep(always_success_dep(&consensus));
        for (t, i) in &d.ins {
            b = b.input(CellInput::new(OutPoint::new(txs[*t].as_ref().expect("earlier tx").hash(), *i), 0));
        }
        for o in &d.outs {
            let ob = CellOutput::new_builder().capacity(Capacity::shannons(o.cap * CKB)).lock(scripts[&o.lock].clone());
            let out = if o.ty != "none" { ob.type_(Some(scripts[&o.ty].clone()).pack()).build() } else { ob.build() };
            b = b.output(out).output_data(Bytes::from(vec![id as u8; o.dlen as usize]));
        }
        txs[id] = Some(b.build());
    }
    World { consensus, txs }
}

fn sw_node() -> Switch {
    Switch::DISABLE_EPOCH | Switch::DISABLE_TWO_PHASE_COMMIT
}

fn deliver(n: &Node, b: &BlockView, sw: Switch) -> Option<Result<bool, String>> {
    let (tx, rx) = std::sync::mpsc::channel();
    n.chain.chain_controller().asynchronous_process_lonely_block(ckb_chain::LonelyBlock {
        block: Arc::new(b.clone()),
        switch: Some(sw),
        verify_callback: Some(Box::new(move |r| {
            let _ = tx.send(r.map_err(|e| e.to_string()));
        })),
    });
    rx.recv_timeout(Duration::from_secs(180)).ok()
}

struct Blk {
    parent: usize,
    view: BlockView,
    honest: bool,
    body: Vec<usize>,
}
fn feed(m: &Node, b: &Blk) -> Result<bool, String> {
    if b.honest {
        m.chain.chain_controller().blocking_process_block_with_switch(Arc::new(b.view.clone()), sw_node()).map_err(|e| e.to_string())
    } else {
        m.process_unchecked(&b.view)
    }
}
fn chain_of(blocks: &HashMap<usize, Blk>, mut b: usize) -> Vec<usize> {
    let mut v = vec![b];
    while b != 0 {
        b = blocks[&b].parent;
        v.push(b);
    }
    v.reverse();
    v
}
fn tmp_entries() -> HashSet<std::path::PathBuf> {
    std::fs::read_dir(std::env::temp_dir()).map(|d| d.filter_map(|e| e.ok().map(|e| e.path())).collect()).unwrap_or_default()
}
fn sweep(base: &HashSet<std::path::PathBuf>) {
    for e in tmp_entries() {
        if !base.contains(&e) {
            let kids: Vec<std::path::PathBuf> = std::fs::read_dir(&e).map(|d| d.filter_map(|x| x.ok().map(|x| x.path())).collect()).unwrap_or_default();
            if !kids.is_empty() && kids.iter().all(|k| k.file_name().map(|f| f.to_string_lossy().starts_with("db_")).unwrap_or(false)) {
                for k in kids {
                    let _ = std::fs::remove_dir_all(&k);
                }
            } else if std::fs::remove_dir_all(&e).is_err() {
                let _ = std::fs::remove_file(&e);
            }
        }
    }
}

// ------------------------------------------------------------------------------------------------ recording network context
#[derive(Default)]
struct Recorder {
    sent: Mutex<Vec<P2pBytes>>,
    banned: Mutex<Vec<String>>,
}
struct Ctx {
    rec: Arc<Recorder>,
}
type Task = Pin<Box<dyn Future<Output = ()> + 'static + Send>>;
#[async_trait]
impl CKBProtocolContext for Ctx {
    async fn set_notify(&self, _interval: Duration, _token: u64) -> Result<(), Error> { Ok(()) }
    async fn remove_notify(&self, _token: u64) -> Result<(), Error> { Ok(()) }
    async fn async_quick_send_message(&self, _p: ProtocolId, _peer: PeerIndex, data: P2pBytes) -> Result<(), Error> { self.rec.sent.lock().unwrap().push(data); Ok(()) }
    async fn async_quick_send_message_to(&self, _peer: PeerIndex, data: P2pBytes) -> Result<(), Error> { self.rec.sent.lock().unwrap().push(data); Ok(()) }
    async fn async_quick_filter_broadcast(&self, _t: TargetSession, _d: P2pBytes) -> Result<(), Error> { Ok(()) }
    async fn async_future_task(&self, _task: Task, _blocking: bool) -> Result<(), Error> { Ok(()) }
    async fn async_send_message(&self, _p: ProtocolId, _peer: PeerIndex, data: P2pBytes) -> Result<(), Error> { self.rec.sent.lock().unwrap().push(data); Ok(()) }
    async fn async_send_message_to(&self, _peer: PeerIndex, data: P2pBytes) -> Result<(), Error> { self.rec.sent.lock().unwrap().push(data); Ok(()) }
    async fn async_filter_broadcast(&self, _t: TargetSession, _d: P2pBytes) -> Result<(), Error> { Ok(()) }
    async fn async_filter_broadcast_with_proto(&self, _p: ProtocolId, _t: TargetSession, _d: P2pBytes) -> Result<(), Error> { Ok(()) }
    async fn async_quick_filter_broadcast_with_proto(&self, _p: ProtocolId, _t: TargetSession, _d: P2pBytes) -> Result<(), Error> { Ok(()) }
    async fn async_disconnect(&self, _peer: PeerIndex, _m: &str) -> Result<(), Error> { Ok(()) }
    fn quick_send_message(&self, _p: ProtocolId, _peer: PeerIndex, data: P2pBytes) -> Result<(), Error> { self.rec.sent.lock().unwrap().push(data); Ok(()) }
    fn quick_send_message_to(&self, _peer: PeerIndex, data: P2pBytes) -> Result<(), Error> { self.rec.sent.lock().unwrap().push(data); Ok(()) }
    fn quick_filter_broadcast(&self, _t: TargetSession, _d: P2pBytes) -> Result<(), Error> { Ok(()) }
    fn quick_filter_broadcast_with_proto(&self, _p: ProtocolId, _t: TargetSession, _d: P2pBytes) -> Result<(), Error> { Ok(()) }
    fn future_task(&self, _task: Task, _blocking: bool) -> Result<(), Error> { Ok(()) }
    fn send_message(&self, _p: ProtocolId, _peer: PeerIndex, data: P2pBytes) -> Result<(), Error> { self.rec.sent.lock().unwrap().push(data); Ok(()) }
    fn send_message_to(&self, _peer: PeerIndex, data: P2pBytes) -> Result<(), Error> { self.rec.sent.lock().unwrap().push(data); Ok(()) }
    fn filter_broadcast(&self, _t: TargetSession, _d: P2pBytes) -> Result<(), Error> { Ok(()) }
    fn disconnect(&self, _peer: PeerIndex, _m: &str) -> Result<(), Error> { Ok(()) }
    fn get_peer(&self, _peer: PeerIndex) -> Option<Peer> { None }
    fn with_peer_mut(&self, _peer: PeerIndex, _f: Box<dyn FnOnce(&mut Peer)>) {}
    fn connected_peers(&self) -> Vec<PeerIndex> { vec![] }
    fn full_relay_connected_peers(&self) -> Vec<PeerIndex> { vec![] }
    fn report_peer(&self, _peer: PeerIndex, _b: Behaviour) {}
    fn ban_peer(&self, _peer: PeerIndex, _d: Duration, reason: String) { self.rec.banned.lock().unwrap().push(reason); }
    fn protocol_id(&self) -> ProtocolId { SupportProtocols::LightClient.protocol_id() }
}

enum Raw {
    Sent(P2pBytes),
    Nothing,
    Ban(String),
    Panic(String),
}

fn ask(n: &Node, msg: packed::LightClientMessage) -> Raw {
    let rec = Arc::new(Recorder::default());
    let nc: Arc<dyn CKBProtocolContext + Sync> = Arc::new(Ctx { rec: Arc::clone(&rec) });
    let mut protocol = LightClientProtocol::new(n.shared.clone());
    let handle = n.shared.async_handle().clone();
    let data = msg.as_bytes();
    let r = std::panic::catch_unwind(std::panic::AssertUnwindSafe(|| {
        handle.block_on(protocol.received(nc, PeerIndex::new(1), data));
    }));
    if let Err(e) = r {
        let text = e.downcast_ref::<String>().cloned().or_else(|| e.downcast_ref::<&str>().map(|s| s.to_string())).unwrap_or_else(|| "panic".into());
        return Raw::Panic(text);
    }
    if let Some(b) = rec.banned.lock().unwrap().first() {
        return Raw::Ban(b.clone());
    }
    match rec.sent.lock().unwrap().first() {
        Some(d) => Raw::Sent(d.clone()),
        None => Raw::Nothing,
    }
}

// ------------------------------------------------------------------------------------------------ the client's verification
fn verifiable(h: &packed::VerifiableHeader) -> VerifiableHeader {
    VerifiableHeader::new(h.header().into_view(), h.uncles_hash(), h.extension().to_opt(), h.parent_chain_root())
}
/// verify_mmr_proof of ckb-light-client: the headers' digests lead to the chain root the last header carries
fn verify_mmr(last: &VerifiableHeader, proof: &packed::HeaderDigestVec, headers: &[HeaderView]) -> bool {
    if last.header().is_genesis() {
        return proof.is_empty() && headers.is_empty();
    }
    if headers.is_empty() {
        return proof.is_empty();
    }
    let size = leaf_index_to_mmr_size(last.header().number() - 1);
    let p = MMRProof::new(size, proof.clone().into_iter().collect());
    let leaves: Vec<(u64, packed::HeaderDigest)> = headers.iter().map(|h| (leaf_index_to_pos(h.number()), h.digest())).collect();
    matches!(p.verify(last.parent_chain_root(), leaves), Ok(true))
}
fn extra_hash_ok(h: &HeaderView, uncles_hash: &Byte32, ext: Option<packed::Bytes>) -> bool {
    let eh = ext.map(|e| e.calc_raw_data_hash());
    ckb_types::core::ExtraHashView::new(uncles_hash.clone(), eh).extra_hash() == h.extra_hash()
}

struct Dictn<'a> {
    ids: &'a HashMap<Byte32, usize>,
    blocks: &'a HashMap<usize, Blk>,
    /// tx hash -> abstract name
    tx_names: &'a HashMap<Byte32, Value>,
}
impl Dictn<'_> {
    fn bid(&self, h: &Byte32) -> i64 {
        self.ids.get(h).map(|x| *x as i64).unwrap_or(-9)
    }
    /// a sibling (same number, other hash) of block id b
    fn sibling(&self, b: usize) -> Option<&Blk> {
        let n = self.blocks[&b].view.number();
        self.blocks.iter().find(|(k, v)| **k != b && v.view.number() == n).map(|(_, v)| v)
    }
}

fn unknown_hash(k: i64) -> Byte32 {
    let mut b = [0u8; 32];
    b[0] = 0xEE;
    b[31] = (-k) as u8;
    b.pack()
}

/// decode + verify a reply to GetBlocksProof / GetTransactionsProof / GetLastStateProof
fn judge(kind: &str, raw: Raw, asked_last: &Byte32, d: &Dictn) -> Value {
    let data = match raw {
        Raw::Nothing => return json!({"kind": "none"}),
        Raw::Ban(r) => return json!({"kind": "ban", "detail": r.chars().take(120).collect::<String>()}),
        Raw::Panic(r) => return json!({"kind": "panic", "detail": r.chars().take(160).collect::<String>()}),
        Raw::Sent(d) => d,
    };
    let msg = match packed::LightClientMessageReader::from_compatible_slice(&data) {
        Ok(m) => m.to_entity(),
        Err(e) => return json!({"kind": "garbled", "detail": e.to_string()}),
    };
    let mut notes: Vec<String> = vec![];
    let (last_h, proof, headers, missing, items): (packed::VerifiableHeader, packed::HeaderDigestVec, Vec<HeaderView>, Vec<Value>, Value) = match (kind, msg.to_enum()) {
        ("Blocks", packed::LightClientMessageUnion::SendBlocksProof(c)) => {
            let hs: Vec<HeaderView> = c.headers().into_iter().map(|h| h.into_view()).collect();
            // V1 fields (uncles hash + extension per header), present when anything was proved
            if let Ok(v1) = packed::SendBlocksProofV1Reader::from_compatible_slice(c.as_slice()) {
                let v1 = v1.to_entity();
                if v1.blocks_uncles_hash().len() != hs.len() || v1.blocks_extension().len() != hs.len() {
                    notes.push("v1-lengths".into());
                } else {
                    for (i, h) in hs.iter().enumerate() {
                        if !extra_hash_ok(h, &v1.blocks_uncles_hash().get(i).unwrap(), v1.blocks_extension().get(i).unwrap().to_opt()) {
                            notes.push(format!("extra-hash:{}", d.bid(&h.hash())));
                        }
                    }
                }
            } else if !hs.is_empty() {
                notes.push("no-v1-fields".into());
            }
            let miss = c.missing_block_hashes().into_iter().map(|h| json!(unk_or_id(&h, d))).collect();
            let items = json!(hs.iter().map(|h| d.bid(&h.hash())).collect::<Vec<_>>());
            (c.last_header(), c.proof(), hs, miss, items)
        }
        ("Txs", packed::LightClientMessageUnion::SendTransactionsProof(c)) => {
            let mut hs = vec![];
            let mut items = vec![];
            for fb in c.filtered_blocks().into_iter() {
                let h = fb.header().into_view();
                let leaves: Vec<Byte32> = fb.transactions().into_iter().map(|t| t.calc_tx_hash()).collect();
                let mp = MerkleProof::new(fb.proof().indices().into_iter().map(|i| i.into()).collect(), fb.proof().lemmas().into_iter().collect());
                let ok = mp.root(&leaves).map(|r| merkle_root(&[r, fb.witnesses_root()]) == h.transactions_root()).unwrap_or(false);
                if !ok {
                    notes.push(format!("tx-merkle-proof:{}", d.bid(&h.hash())));
                }
                let names: Vec<Value> = leaves.iter().map(|x| d.tx_names.get(x).cloned().unwrap_or(json!(["?", 0]))).collect();
                items.push(json!({"b": d.bid(&h.hash()), "txs": names}));
                hs.push(h);
            }
            if let Ok(v1) = packed::SendTransactionsProofV1Reader::from_compatible_slice(c.as_slice()) {
                let v1 = v1.to_entity();
                if v1.blocks_uncles_hash().len() != hs.len() || v1.blocks_extension().len() != hs.len() {
                    notes.push("v1-lengths".into());
                } else {
                    for (i, h) in hs.iter().enumerate() {
                        if !extra_hash_ok(h, &v1.blocks_uncles_hash().get(i).unwrap(), v1.blocks_extension().get(i).unwrap().to_opt()) {
                            notes.push(format!("extra-hash:{}", d.bid(&h.hash())));
                        }
                    }
                }
            } else if !hs.is_empty() {
                notes.push("no-v1-fields".into());
            }
            let miss = c.missing_tx_hashes().into_iter().map(|h| d.tx_names.get(&h).cloned().unwrap_or_else(|| json!(["cb", unk_or_id(&h, d)]))).collect();
            (c.last_header(), c.proof(), hs, miss, json!(items))
        }
        ("LastState", packed::LightClientMessageUnion::SendLastStateProof(c)) => {
            let mut hs = vec![];
            for vh in c.headers().into_iter() {
                let v = verifiable(&vh);
                if !v.is_valid(0) {
                    notes.push(format!("sampled-header-invalid:{}", d.bid(&v.header().hash())));
                }
                hs.push(v.header().clone());
            }
            let items = json!(hs.iter().map(|h| d.bid(&h.hash())).collect::<Vec<_>>());
            (c.last_header(), c.proof(), hs, vec![], items)
        }
        (_, other) => return json!({"kind": "unexpected", "detail": other.item_name()}),
    };
    let last = verifiable(&last_h);
    let last_id = d.bid(&last.header().hash());
    if last.header().hash() != *asked_last {
        // the server's tip state: nothing else may come with it
        let bare = proof.is_empty() && headers.is_empty() && missing.is_empty();
        return json!({"kind": if bare { "tip" } else { "tip-with-items" }, "last": last_id, "lastValid": last.is_valid(0)});
    }
    let mut verified = last.is_valid(0) && verify_mmr(&last, &proof, &headers) && notes.is_empty();
    // numbers the headers claim must be the numbers of the blocks they are
    for h in &headers {
        if let Some(&b) = d.ids.get(&h.hash()) {
            if d.blocks[&b].view.number() != h.number() {
                verified = false;
            }
        } else {
            notes.push("header-of-unknown-block".into());
            verified = false;
        }
    }
    // the proof must not carry over to a sibling of a proved header
    let mut sibling_rejected = Value::Null;
    for (i, h) in headers.iter().enumerate() {
        if let Some(&b) = d.ids.get(&h.hash()) {
            if let Some(s) = d.sibling(b) {
                let mut alt = headers.clone();
                alt[i] = s.view.header();
                let r = verify_mmr(&last, &proof, &alt);
                sibling_rejected = json!(sibling_rejected.as_bool().unwrap_or(true) && !r);
            }
        }
    }
    json!({"kind": "proof", "last": last_id, "items": items, "missing": missing, "verified": verified, "siblingRejected": match sibling_rejected.as_bool() { Some(true) => "yes", Some(false) => "no", None => "none" },
           "nproof": proof.len(), "notes": notes})
}

fn unk_or_id(h: &Byte32, d: &Dictn) -> i64 {
    if let Some(x) = d.ids.get(h) {
        return *x as i64;
    }
    let raw = h.raw_data();
    if raw[0] == 0xEE { -(raw[31] as i64) } else { -9 }
}

#[derive(Default)]
struct Stats {
    steps: u64,
    reorgs: u64,
    requests: u64,
    proofs: u64,
    proofs_verified: u64,
    proved_items: u64,
    missing_items: u64,
    tip_replies: u64,
    bans: u64,
    no_reply: u64,
    panics: u64,
    sibling_rejections: u64,
    last_state_with_samples: u64,
    last_state_reorg_part: u64,
    detached_items_asked: u64,
}

fn chain_cmd(inp: &Input, out: &mut dyn Write) {
    let w = world(inp);
    let c = &w.consensus;
    let mut st = Stats::default();
    let mut rng = Rng::new(inp.seed);
    let mut tool_errors: Vec<String> = vec![];
    let heavy = difficulty_to_compact(U256::from(6u64));
    let base = tmp_entries();
    let nrand = inp.random_requests.max(2);
    writeln!(out, "{}", json!({"ev": "Header", "genesisDiff": 2, "diffUnit": 2})).unwrap();
    'hist: for hist in &inp.hists {
        sweep(&base);
        let n = Node::start(&NodeCfg { assembler: false, ..NodeCfg::temp(c) });
        let mut blocks: HashMap<usize, Blk> = HashMap::new();
        blocks.insert(0, Blk { parent: 0, view: c.genesis_block().clone(), honest: true, body: vec![] });
        let mut ids: HashMap<Byte32, usize> = HashMap::new();
        ids.insert(c.genesis_block().hash(), 0);
        let mut tx_names: HashMap<Byte32, Value> = HashMap::new();
        for (k, t) in w.txs.iter().enumerate() {
            if let Some(t) = t {
                tx_names.insert(t.hash(), json!(["u", k]));
            }
        }
        tx_names.insert(c.genesis_block().transactions()[0].hash(), json!(["cb", 0]));
        let mut builders: Vec<(usize, Node)> = vec![];
        let mut evs: Vec<Value> = vec![json!({"ev": "Reset", "hist": hist.id, "genesisBody": inp.genesis_txs})];
        let mut tip = 0usize;
        for (si, s) in hist.steps.iter().enumerate() {
            let bi = match builders.iter().position(|(t, _)| *t == s.parent) {
                Some(i) => i,
                None => {
                    let m = Node::start(&NodeCfg { assembler: false, ..NodeCfg::temp(c) });
                    for b in chain_of(&blocks, s.parent).iter().skip(1) {
                        if let Err(e) = feed(&m, &blocks[b]) {
                            tool_errors.push(format!("hist {} builder rejects ancestor {}: {}", hist.id, b, e));
                            continue 'hist;
                        }
                    }
                    builders.push((s.parent, m));
                    builders.len() - 1
                }
            };
            let commits: Vec<TransactionView> = s.txs.iter().map(|t| w.txs[*t].clone().unwrap()).collect();
            let view = match assemble(&builders[bi].1, &BlockSpec { commits, nonce: s.b as u64, ..Default::default() }) {
                Ok(v) => v,
                Err(e) => {
                    tool_errors.push(format!("hist {} cannot assemble block {}: {}", hist.id, s.b, e));
                    continue 'hist;
                }
            };
            let mut bb = view.as_advanced_builder();
            if s.work > 1 {
                bb = bb.compact_target(heavy);
            }
            if !s.honest {
                bb = bb.extension(Some(Bytes::from(vec![0xABu8; 32]).pack()));
            }
            let view = bb.build();
            if let Err(e) = feed(&builders[bi].1, &Blk { parent: s.parent, view: view.clone(), honest: s.honest, body: s.txs.clone() }) {
                tool_errors.push(format!("hist {} builder rejects its own block {}: {}", hist.id, s.b, e));
                continue 'hist;
            }
            builders[bi].0 = s.b;
            ids.insert(view.hash(), s.b);
            let cbh = view.transactions()[0].hash();
            let cb_name: i64 = match tx_names.get(&cbh) {
                Some(v) => v[1].as_i64().unwrap(),
                None => { tx_names.insert(cbh.clone(), json!(["cb", s.b])); s.b as i64 }
            };
            blocks.insert(s.b, Blk { parent: s.parent, view: view.clone(), honest: s.honest, body: s.txs.clone() });
            if deliver(&n, &view, sw_node()).is_none() {
                tool_errors.push(format!("hist {} step {}: no verdict for block {}", hist.id, si, s.b));
                continue 'hist;
            }
            st.steps += 1;
            let snap = n.shared.cloned_snapshot();
            let real_main: Vec<Option<usize>> = (0..=snap.tip_number()).map(|h| snap.get_block_hash(h).and_then(|x| ids.get(&x).copied())).collect();
            let want_main: Vec<Option<usize>> = s.main.iter().map(|x| Some(*x)).collect();
            if real_main != want_main {
                // the C19 check proper reports this; here the history cannot be judged
                tool_errors.push(format!("hist {} step {}: main chain {:?}, MMR.tla expects {:?}", hist.id, si, real_main, s.main));
                continue 'hist;
            }
            let new_tip = *s.main.last().unwrap();
            if new_tip != tip && blocks[&new_tip].parent != tip {
                st.reorgs += 1;
            }
            tip = new_tip;
            let diff = u64::from_str_radix(&format!("{:x}", compact_to_difficulty(view.compact_target())), 16).unwrap_or(0);
            evs.push(json!({"ev": "Mine", "b": s.b, "parent": s.parent, "work": s.work, "honest": s.honest, "txs": s.txs, "main": s.main, "diff": diff, "cb": cb_name}));

            // ---------------------------------------------------------------- requests
            let d = Dictn { ids: &ids, blocks: &blocks, tx_names: &tx_names };
            let main = &s.main;
            let tipn = main.len() - 1;
            let known: Vec<i64> = blocks.keys().map(|k| *k as i64).collect();
            let side: Vec<i64> = known.iter().cloned().filter(|k| !main.contains(&(*k as usize))).collect();
            let hash_of = |id: i64| -> Byte32 { if id >= 0 { blocks[&(id as usize)].view.hash() } else { unknown_hash(id) } };
            let mut lasts: Vec<i64> = vec![tip as i64, 0, -1];
            if tipn >= 2 {
                lasts.push(main[rng.range(1, tipn as u64 - 1) as usize] as i64);
            }
            if let Some(&sb) = side.first() {
                lasts.push(if rng.chance(1, 2) { sb } else { side[rng.below(side.len() as u64) as usize] });
            }
            lasts.dedup();
            let pool_hashes: Vec<i64> = known.iter().cloned().chain([-1, -2]).collect();
            let mut tx_cands: Vec<(Value, Byte32)> = vec![];
            for (_id, b) in blocks.iter() {
                let h = b.view.transactions()[0].hash();
                tx_cands.push((tx_names[&h].clone(), h));
                for t in &b.body {
                    tx_cands.push((json!(["u", t]), w.txs[*t].as_ref().unwrap().hash()));
                }
            }
            tx_cands.push((json!(["cb", -1]), unknown_hash(-1)));
            tx_cands.sort_by_key(|x| x.0.to_string());
            tx_cands.dedup_by_key(|x| x.0.to_string());
            for &last in &lasts {
                let lh = hash_of(last);
                // ---- blocks
                let mut sets: Vec<Vec<i64>> = vec![];
                if last == tip as i64 || known.len() <= 6 {
                    sets.extend(pool_hashes.iter().map(|x| vec![*x]));
                }
                for _ in 0..nrand {
                    let k = rng.range(1, 4.min(pool_hashes.len() as u64));
                    let mut s2: Vec<i64> = (0..k).map(|_| pool_hashes[rng.below(pool_hashes.len() as u64) as usize]).collect();
                    s2.sort();
                    s2.dedup();
                    sets.push(s2);
                }
                if rng.chance(1, 6) {
                    sets.push(vec![]);
                }
                for hs in sets {
                    let content = packed::GetBlocksProof::new_builder().last_hash(lh.clone()).block_hashes(hs.iter().map(|x| hash_of(*x)).collect::<Vec<_>>()).build();
                    let msg = packed::LightClientMessage::new_builder().set(content).build();
                    let r = judge("Blocks", ask(&n, msg), &lh, &d);
                    account(&mut st, &r);
                    st.detached_items_asked += hs.iter().filter(|x| side.contains(x)).count() as u64;
                    evs.push(json!({"ev": "Blocks", "last": last, "hs": hs, "r": r}));
                }
                // ---- transactions
                let mut tsets: Vec<Vec<usize>> = vec![];
                if last == tip as i64 || tx_cands.len() <= 10 {
                    tsets.extend((0..tx_cands.len()).map(|i| vec![i]));
                }
                for _ in 0..nrand {
                    let k = rng.range(1, 4.min(tx_cands.len() as u64));
                    let mut s2: Vec<usize> = (0..k).map(|_| rng.below(tx_cands.len() as u64) as usize).collect();
                    s2.sort();
                    s2.dedup();
                    tsets.push(s2);
                }
                for ts in tsets {
                    let content = packed::GetTransactionsProof::new_builder().last_hash(lh.clone()).tx_hashes(ts.iter().map(|i| tx_cands[*i].1.clone()).collect::<Vec<_>>()).build();
                    let msg = packed::LightClientMessage::new_builder().set(content).build();
                    let r = judge("Txs", ask(&n, msg), &lh, &d);
                    account(&mut st, &r);
                    evs.push(json!({"ev": "Txs", "last": last, "ts": ts.iter().map(|i| tx_cands[*i].0.clone()).collect::<Vec<_>>(), "r": r}));
                }
                // ---- last state
                let mut tds: Vec<u64> = vec![];
                let mut acc = 0u64;
                for b in main.iter() {
                    acc += u64::from_str_radix(&format!("{:x}", compact_to_difficulty(blocks[b].view.compact_target())), 16).unwrap();
                    tds.push(acc);
                }
                let maxtd = *tds.last().unwrap();
                for _ in 0..(nrand + 2) {
                    // half of the requests are directed at the sampling branch: a start well below `last`, few last-n
                    // blocks, difficulties inside the range, the boundary in its upper part
                    let directed = rng.chance(1, 2) && tipn >= 3;
                    let start_num = if directed { rng.below(tipn as u64 / 2 + 1) } else if rng.chance(1, 8) { tipn as u64 + rng.range(1, 2) } else { rng.below(tipn as u64 + 1) };
                    let on_chain = if directed { rng.chance(4, 5) } else { rng.chance(2, 3) };
                    let start: i64 = if on_chain && (start_num as usize) <= tipn { main[start_num as usize] as i64 }
                        else if !side.is_empty() && rng.chance(1, 2) { side[rng.below(side.len() as u64) as usize] } else { -1 };
                    let nlast = if directed { rng.below(3) } else { rng.below(4) };
                    let lo = if directed && start_num > 0 { tds[start_num as usize - 1] + 1 } else { 1 };
                    let boundary = if directed { rng.range((lo + maxtd) / 2 + 1, maxtd + 1) } else { rng.range(1, maxtd + 2) };
                    let mut ds: Vec<u64> = if directed { (0..rng.range(1, 3)).map(|_| rng.range(lo, boundary.max(lo + 1) - 1)).collect() }
                        else { (0..rng.below(4)).map(|_| rng.range(1, maxtd + 1)).collect() };
                    if directed || rng.chance(5, 6) {
                        ds.sort();
                        ds.dedup();
                    }
                    let content = packed::GetLastStateProof::new_builder()
                        .last_hash(lh.clone())
                        .start_hash(hash_of(start))
                        .start_number(start_num)
                        .last_n_blocks(nlast)
                        .difficulty_boundary(U256::from(boundary))
                        .difficulties(ds.iter().map(|x| U256::from(*x)).collect::<Vec<_>>())
                        .build();
                    let msg = packed::LightClientMessage::new_builder().set(content).build();
                    let r = judge("LastState", ask(&n, msg), &lh, &d);
                    account(&mut st, &r);
                    if r["kind"] == "proof" {
                        let k = r["items"].as_array().map(|a| a.len()).unwrap_or(0) as u64;
                        let ln = blocks.get(&(last.max(0) as usize)).map(|b| b.view.number()).unwrap_or(0);
                        if ln > start_num && ln - start_num > nlast && k > nlast { st.last_state_with_samples += 1; }
                        if !(on_chain && (start_num as usize) <= tipn) && start_num > 0 && nlast > 0 { st.last_state_reorg_part += 1; }
                    }
                    evs.push(json!({"ev": "LastState", "last": last, "start": start, "startNum": start_num, "n": nlast, "boundary": boundary, "ds": ds, "r": r}));
                }
            }
        }
        for e in evs {
            writeln!(out, "{}", e).unwrap();
        }
        drop(builders);
        drop(n);
    }
    for e in &tool_errors {
        println!("{}", json!({"tool_error": e}));
    }
    println!("{}", json!({"summary": {"histories": inp.hists.len(), "arrivals": st.steps, "reorgs": st.reorgs, "requests": st.requests, "proof_replies": st.proofs,
        "proofs_verified_as_a_client_does": st.proofs_verified, "proved_items": st.proved_items, "missing_items": st.missing_items, "tip_replies": st.tip_replies,
        "bans": st.bans, "no_reply": st.no_reply, "panics": st.panics, "sibling_rejections": st.sibling_rejections,
        "last_state_replies_with_samples": st.last_state_with_samples, "last_state_replies_with_reorg_part": st.last_state_reorg_part,
        "detached_items_asked": st.detached_items_asked}}));
}

fn account(st: &mut Stats, r: &Value) {
    st.requests += 1;
    match r["kind"].as_str().unwrap_or("") {
        "proof" => {
            st.proofs += 1;
            if r["verified"].as_bool().unwrap_or(false) { st.proofs_verified += 1; }
            st.proved_items += r["items"].as_array().map(|a| a.len()).unwrap_or(0) as u64;
            st.missing_items += r["missing"].as_array().map(|a| a.len()).unwrap_or(0) as u64;
            if r["siblingRejected"] == "yes" { st.sibling_rejections += 1; }
        }
        "tip" => st.tip_replies += 1,
        "ban" => st.bans += 1,
        "none" => st.no_reply += 1,
        "panic" => st.panics += 1,
        _ => {}
    }
}

fn main() {
    let args: Vec<String> = std::env::args().collect();
    let rest = &args[2.min(args.len())..];
    // the handlers' panics are data here: keep the default hook quiet
    std::panic::set_hook(Box::new(|_| {}));
    match args.get(1).map(|s| s.as_str()) {
        Some("chain") => {
            let text = std::fs::read_to_string(opt(rest, "--in").expect("--in")).expect("input");
            let inp: Input = serde_json::from_str(&text).expect("input json");
            let mut out = std::io::BufWriter::new(std::fs::File::create(opt(rest, "--out").unwrap_or("/dev/null")).unwrap());
            chain_cmd(&inp, &mut out);
            out.flush().unwrap();
        }
        _ => {
            eprintln!("usage: g_lightclient chain --in f.json --out trace.ndjson");
            std::process::exit(2);
        }
    }
    std::io::stdout().flush().ok();
    std::process::exit(0);
}
