//! C09 — binding of spec/Freezer.tla to ckb-freezer's FreezerFiles.
//!
//! `c09-states`: every distinct post-crash state exported by TLC (MC_Freezer, EmitCrash) is materialised as
//!   real files (lengths scaled by K, item bytes a function of the item number), the real
//!   `FreezerFilesBuilder::build` repairs it, and number / every item / file lengths / INDEX bytes are
//!   compared with the model's `Reopen` successor; then appends, retrievals and a truncate are exercised.
//! `c09-drive`: random append / sync / truncate / crash-cut / reopen histories at real magnitudes on the
//!   real API; one ndjson event per specification action, validated by Trace_Freezer.tla.
use ckbv::util::{flag, opt, opt_u64, Rng, Scratch};
use ckb_freezer::FreezerFilesBuilder;
use serde::Deserialize;
use serde_json::json;
use std::fs;
use std::io::Write;
use std::panic::{catch_unwind, AssertUnwindSafe};
use std::path::Path;

#[derive(Deserialize, Clone, Debug)]
struct Item {
    file: u64,
    start: u64,
    end: u64,
}
#[derive(Deserialize, Clone, Debug)]
struct Exp {
    data: Vec<u64>,
    index: Vec<(u64, u64)>,
    head: u64,
    #[allow(dead_code)]
    headid: u64,
    number: u64,
}
#[derive(Deserialize, Clone, Debug)]
struct Rec {
    data: Vec<u64>,
    index: Vec<(u64, u64)>,
    torn: bool,
    items: Vec<Item>,
    fw: u64,
    exp: Exp,
}

fn pat(item: u64, len: u64) -> Vec<u8> {
    (0..len).map(|j| ((item * 37 + j * 11 + 7) % 251) as u8).collect()
}
fn fname(id: u64) -> String {
    format!("blk{:06}", id)
}
fn entry(file: u64, off: u64) -> Vec<u8> {
    let mut v = (file as u32).to_le_bytes().to_vec();
    v.extend_from_slice(&off.to_le_bytes());
    v
}
fn flen(dir: &Path, id: u64) -> u64 {
    fs::metadata(dir.join(fname(id))).map(|m| m.len()).unwrap_or(0)
}

/// `c09-states --in <ndjson> --scale K --max-size M [--jitter] [--seed S]`
fn states(args: &[String]) {
    let input = opt(args, "--in").expect("--in");
    let k = opt_u64(args, "--scale", 5);
    let max = opt_u64(args, "--max-size", 4);
    let jitter = flag(args, "--jitter");
    let mut rng = Rng::new(opt_u64(args, "--seed", 1));
    let text = fs::read_to_string(input).expect("read input");
    let (mut n, mut bad, mut walkback, mut repaired, mut torn_n) = (0u64, 0u64, 0u64, 0u64, 0u64);
    let out = std::io::stdout();
    for line in text.lines() {
        if line.trim().is_empty() {
            continue;
        }
        let rec: Rec = serde_json::from_str(line).expect("record");
        n += 1;
        if rec.exp.index != rec.index || rec.exp.data != rec.data {
            repaired += 1;
        }
        if rec.exp.head != rec.index.last().unwrap().0 {
            walkback += 1;
        }
        if rec.torn {
            torn_n += 1;
        }
        let r = catch_unwind(AssertUnwindSafe(|| one_state(&rec, k, max, jitter, &mut rng)));
        let verdict = match r {
            Ok(Ok(())) => None,
            Ok(Err((kind, detail))) => Some((kind, detail)),
            Err(_) => Some(("panic".to_string(), "panic in code under test".to_string())),
        };
        if let Some((kind, detail)) = verdict {
            bad += 1;
            let mut o = out.lock();
            let _ = writeln!(o, "{}", json!({"mismatch": {"n": n, "kind": kind, "detail": detail, "record": serde_json::from_str::<serde_json::Value>(line).unwrap()}}));
        }
    }
    println!("{}", json!({"summary": {"records": n, "mismatches": bad, "walkback_across_file": walkback, "repair_changed_files": repaired, "torn_index": torn_n}}));
}

fn one_state(rec: &Rec, k: u64, max: u64, jitter: bool, rng: &mut Rng) -> Result<(), (String, String)> {
    let scratch = Scratch::new("c09s");
    let dir = scratch.path();
    let nfiles = rec.data.len() as u64;
    // ground-truth bytes of every data file
    let mut content: Vec<Vec<u8>> = vec![vec![]; nfiles as usize];
    for (i, it) in rec.items.iter().enumerate() {
        let buf = &mut content[it.file as usize];
        let (s, e) = ((it.start * k) as usize, (it.end * k) as usize);
        if buf.len() < e {
            buf.resize(e, 0xEE);
        }
        buf[s..e].copy_from_slice(&pat(i as u64 + 1, (e - s) as u64));
    }
    let head_f = rec.index.last().unwrap().0;
    let mut init_len = vec![0u64; nfiles as usize];
    for f in 0..nfiles {
        let written = content[f as usize].len() as u64;
        let mut l = rec.data[f as usize] * k;
        if jitter && l < written && k > 1 {
            l += rng.below(k);
        }
        init_len[f as usize] = l;
        if l == 0 {
            if f == head_f && rng.chance(1, 2) {
                fs::File::create(dir.join(fname(f))).unwrap();
            }
            continue;
        }
        let mut bytes = content[f as usize].clone();
        bytes.resize(l as usize, 0xEE);
        fs::write(dir.join(fname(f)), &bytes).unwrap();
    }
    let mut idx = vec![];
    for (f, o) in &rec.index {
        idx.extend(entry(*f, *o * k));
    }
    if rec.torn {
        let t = rng.range(1, 11) as usize;
        idx.extend(&entry(rng.below(3), rng.below(100))[..t]);
    }
    fs::write(dir.join("INDEX"), &idx).unwrap();

    // ---- the step under test: re-open ----
    let mut ff = FreezerFilesBuilder::new(dir.to_path_buf())
        .max_file_size(max * k)
        .enable_compression(false)
        .build()
        .map_err(|e| ("reopen-error".to_string(), e.to_string()))?;
    ff.preopen().map_err(|e| ("reopen-error".to_string(), format!("preopen {e}")))?;
    let number = ff.number();
    if number != rec.exp.number {
        return Err(("number".into(), format!("number {} expected {}", number, rec.exp.number)));
    }
    if number - 1 < rec.fw {
        return Err(("lost-fully-written".into(), format!("n {} < fully written {}", number - 1, rec.fw)));
    }
    // order: 0 = ascending, 1 = descending (reads must not depend on what was read before)
    let check_items = |ff: &mut ckb_freezer::FreezerFiles, upto: u64, sizes: &dyn Fn(u64) -> u64, what: &str, order: u8| -> Result<(), (String, String)> {
        let ids: Vec<u64> = if order == 0 { (1..upto).collect() } else { (1..upto).rev().collect() };
        for i in ids {
            let want = pat(i, sizes(i));
            match ff.retrieve(i) {
                Ok(Some(got)) if got == want => {}
                Ok(other) => return Err(("retrieve".into(), format!("{what}: item {i} = {:?}", other.map(|v| v.len())))),
                Err(e) => return Err(("retrieve".into(), format!("{what}: item {i} error {e}"))),
            }
        }
        match ff.retrieve(upto) {
            Ok(None) => Ok(()),
            other => Err(("retrieve".into(), format!("{what}: item {upto} beyond the prefix = {:?}", other.map(|o| o.map(|v| v.len()))))),
        }
    };
    let items = rec.items.clone();
    let size_of = move |i: u64| (items[i as usize - 1].end - items[i as usize - 1].start) * k;
    check_items(&mut ff, number, &size_of, "after reopen", (rng.below(2)) as u8)?;
    for f in 0..nfiles {
        let l = flen(dir, f);
        let want = rec.exp.data[f as usize] * k;
        let untouched = rec.exp.data[f as usize] == rec.data[f as usize] && l == init_len[f as usize];
        if l != want && !untouched {
            return Err(("layout".into(), format!("file {f} length {l} expected {want}")));
        }
    }
    let mut want_idx = vec![];
    for (f, o) in &rec.exp.index {
        want_idx.extend(entry(*f, *o * k));
    }
    if fs::read(dir.join("INDEX")).unwrap() != want_idx {
        return Err(("layout".into(), "INDEX bytes differ from the model".into()));
    }
    // ---- subsequent appends / retrievals / truncate work on the prefix ----
    // (reads of older items are interleaved with the writes: a read must never disturb a later write or read)
    let mut sizes: Vec<u64> = (1..number).map(|i| size_of(i)).collect();
    let cap = max * k;
    let read_one = |ff: &mut ckb_freezer::FreezerFiles, i: u64, sizes: &[u64], what: &str| -> Result<(), (String, String)> {
        match ff.retrieve(i) {
            Ok(Some(got)) if got == pat(i, sizes[i as usize - 1]) => Ok(()),
            Ok(other) => Err(("retrieve".into(), format!("{what}: item {i} = {:?}", other.map(|v| v.len())))),
            Err(e) => Err(("retrieve".into(), format!("{what}: item {i} error {e}"))),
        }
    };
    for (n, add) in [k.max(1), k.max(1), 3 * k.min(cap / 3).max(1), 2 * k].into_iter().enumerate() {
        let add = add.min(cap);
        let no = ff.number();
        if no > 1 {
            // read an older item right before the append: the one before the last (it shares the head file with
            // the last one whenever the head file holds two items), or a random one
            let i = if no > 2 && rng.chance(2, 3) { no - 2 } else { 1 + rng.below(no - 1) };
            read_one(&mut ff, i, &sizes, "read before append")?;
        }
        ff.append(no, &pat(no, add)).map_err(|e| ("continuation".to_string(), format!("append {e}")))?;
        sizes.push(add);
        let sz = sizes.clone();
        check_items(&mut ff, no + 1, &move |i| sz[i as usize - 1], "after append", (n % 2) as u8)?;
    }
    ff.sync_all().map_err(|e| ("continuation".to_string(), format!("sync {e}")))?;
    let m = ff.number() - 1;
    read_one(&mut ff, m, &sizes, "last item before truncate")?;
    let keep = 1 + rng.below(m - 1);
    ff.truncate(keep).map_err(|e| ("continuation".to_string(), format!("truncate {e}")))?;
    if ff.number() != keep + 1 {
        return Err(("continuation".into(), format!("number {} after truncate({keep})", ff.number())));
    }
    sizes.truncate(keep as usize);
    // re-append items keep+1 ..= m+1 with sizes that differ from the discarded ones, without reading in between
    for no in (keep + 1)..=(m + 1) {
        let add = 1 + (no * 7 + keep * 3 + rng.below(5)) % cap;
        ff.append(no, &pat(no, add)).map_err(|e| ("continuation".to_string(), format!("append after truncate {e}")))?;
        sizes.push(add);
    }
    read_one(&mut ff, m + 1, &sizes, "first read after truncate+append")?;
    let sz = sizes.clone();
    check_items(&mut ff, m + 2, &move |i| sz[i as usize - 1], "after truncate+append", 1)?;
    let no = m + 1;
    drop(ff);
    // clean re-open keeps everything
    let mut ff = FreezerFilesBuilder::new(dir.to_path_buf()).max_file_size(max * k).enable_compression(false).build()
        .map_err(|e| ("continuation".to_string(), format!("clean reopen {e}")))?;
    if ff.number() != no + 1 {
        return Err(("continuation".into(), format!("clean reopen number {} expected {}", ff.number(), no + 1)));
    }
    let sz = sizes.clone();
    check_items(&mut ff, no + 1, &move |i| sz[i as usize - 1], "after clean reopen", 0)?;
    Ok(())
}

// -------------------------------------------------------------------------------------------------
// trace driver
// -------------------------------------------------------------------------------------------------

struct Obs {
    number: u64,
    hid: u64,
    hlen: u64,
    idx: u64,
    good: i64,
    beyond: bool,
}

fn head_of(dir: &Path) -> (u64, u64) {
    // the head file as the INDEX names it
    let idx = fs::read(dir.join("INDEX")).unwrap_or_default();
    let n = idx.len() / 12;
    if n == 0 {
        return (0, 0);
    }
    let e = &idx[(n - 1) * 12..n * 12];
    let f = u32::from_le_bytes(e[0..4].try_into().unwrap()) as u64;
    (f, flen(dir, f))
}

/// `mode`: 0 = no reads at all (good = -1), 1 = read every item ascending, 2 = descending
fn observe(ff: &mut ckb_freezer::FreezerFiles, dir: &Path, payloads: &[Vec<u8>], mode: u64) -> Obs {
    let number = ff.number();
    let mut good: i64 = if mode == 0 { -1 } else { 0 };
    let mut beyond = false;
    if mode != 0 {
        let ids: Vec<u64> = if mode == 1 { (1..number).collect() } else { (1..number).rev().collect() };
        for i in ids {
            if let Ok(Some(v)) = ff.retrieve(i) {
                if payloads.get(i as usize - 1).map(|p| *p == v).unwrap_or(false) {
                    good += 1;
                }
            }
        }
        beyond = !matches!(ff.retrieve(number), Ok(None));
    }
    let (hid, hlen) = head_of(dir);
    let idx = fs::metadata(dir.join("INDEX")).map(|m| m.len()).unwrap_or(0) / 12;
    Obs { number, hid, hlen, idx, good, beyond }
}

fn ev(w: &mut impl Write, name: &str, extra: serde_json::Value, o: &Obs) {
    let mut v = json!({"ev": name, "number": o.number, "hid": o.hid, "hlen": o.hlen, "idx": o.idx, "good": o.good, "beyond": o.beyond});
    if let (Some(m), Some(x)) = (v.as_object_mut(), extra.as_object()) {
        for (k, val) in x {
            m.insert(k.clone(), val.clone());
        }
    }
    writeln!(w, "{}", v).unwrap();
}

/// `c09-drive --seed S --hist N --steps M --max-size X --out <trace.ndjson>`
fn drive(args: &[String]) {
    let seed = opt_u64(args, "--seed", 1);
    let hist = opt_u64(args, "--hist", 20);
    let steps = opt_u64(args, "--steps", 30);
    let max = opt_u64(args, "--max-size", 64);
    let out_path = opt(args, "--out").expect("--out");
    let mut w = std::io::BufWriter::new(fs::File::create(out_path).unwrap());
    let mut rng = Rng::new(seed);
    let (mut appends, mut crashes, mut truncs, mut rolls, mut max_appends) = (0u64, 0u64, 0u64, 0u64, 0u64);
    for h in 0..hist {
        let compress = rng.chance(1, 3);
        let scratch = Scratch::new("c09d");
        let dir = scratch.path().to_path_buf();
        let open = |dir: &Path| FreezerFilesBuilder::new(dir.to_path_buf()).max_file_size(max).enable_compression(compress).build();
        let mut ff = Some(open(&dir).expect("fresh open"));
        ff.as_mut().unwrap().preopen().unwrap();
        writeln!(w, "{}", json!({"ev": "Reset", "hist": h, "compress": compress})).unwrap();
        let mut payloads: Vec<Vec<u8>> = vec![];
        // durable state as the driver knows it: (index entries, head file id, head length)
        let (mut s_idx, mut s_head, mut s_len) = (1u64, 0u64, 0u64);
        let mut hist_appends = 0;
        for _ in 0..steps {
            let Some(f) = ff.as_mut() else { break };
            let choice = rng.below(110);
            if choice >= 100 {
                // a single read of a random item (or one beyond the prefix); reads have no effect on the state
                let n = f.number();
                let i = rng.range(1, n);
                let r = f.retrieve(i);
                let ok = matches!(&r, Ok(Some(v)) if payloads.get(i as usize - 1).map(|p| p == v).unwrap_or(false));
                let none = matches!(&r, Ok(None));
                writeln!(w, "{}", json!({"ev": "Retrieve", "i": i, "ok": ok, "none": none})).unwrap();
            } else if choice < 55 {
                let len = if rng.chance(1, 6) { rng.range(max * 2 / 3, max) } else { rng.range(1, max / 2) } as usize;
                let p: Vec<u8> = if compress && rng.chance(1, 2) {
                    // compressible payload
                    std::iter::repeat((rng.below(250) as u8, rng.below(250) as u8)).flat_map(|(a, b)| [a, b]).take(len * 3).collect()
                } else {
                    (0..len).map(|_| rng.below(256) as u8).collect()
                };
                let (ohid, ohlen) = head_of(&dir);
                let no = f.number();
                match f.append(no, &p) {
                    Ok(()) => {
                        payloads.push(p);
                        let o = observe(f, &dir, &payloads, rng.below(4).min(2));
                        let sz = if o.hid == ohid { o.hlen - ohlen } else { rolls += 1; o.hlen };
                        ev(&mut w, "Append", json!({"sz": sz}), &o);
                        appends += 1;
                        hist_appends += 1;
                    }
                    Err(e) => {
                        writeln!(w, "{}", json!({"ev": "AppendError", "err": e.to_string()})).unwrap();
                    }
                }
            } else if choice < 65 {
                f.sync_all().unwrap();
                let o = observe(f, &dir, &payloads, rng.below(4).min(2));
                (s_idx, s_head, s_len) = (o.idx, o.hid, o.hlen);
                ev(&mut w, "Sync", json!({}), &o);
            } else if choice < 75 {
                let n = f.number();
                if n > 2 {
                    let k = rng.range(1, n - 2);
                    match f.truncate(k) {
                        Ok(()) => {
                            payloads.truncate(k as usize);
                            let o = observe(f, &dir, &payloads, rng.below(4).min(2));
                            s_idx = s_idx.min(o.idx);
                            if s_head == o.hid { s_len = s_len.min(o.hlen) } else { s_head = o.hid; s_len = o.hlen }
                            ev(&mut w, "Truncate", json!({"k": k}), &o);
                            truncs += 1;
                        }
                        Err(e) => writeln!(w, "{}", json!({"ev": "TruncateError", "err": e.to_string()})).unwrap(),
                    }
                }
            } else {
                // crash: cut the head data file and the index independently, anywhere between synced and written
                let (hid, hlen) = head_of(&dir);
                let idx_entries = fs::metadata(dir.join("INDEX")).unwrap().len() / 12;
                ff = None;
                let icut = rng.range(s_idx.min(idx_entries), idx_entries);
                let torn = icut < idx_entries && rng.chance(1, 3);
                let lo = if hid == s_head { s_len.min(hlen) } else { 0 };
                let c = match rng.below(4) { 0 => lo, 1 => hlen, _ => rng.range(lo, hlen) };
                let ixf = fs::OpenOptions::new().write(true).open(dir.join("INDEX")).unwrap();
                ixf.set_len(icut * 12 + if torn { rng.range(1, 11) } else { 0 }).unwrap();
                if c == 0 && hid != s_head && rng.chance(1, 2) {
                    let _ = fs::remove_file(dir.join(fname(hid)));
                } else if let Ok(df) = fs::OpenOptions::new().write(true).open(dir.join(fname(hid))) {
                    df.set_len(c).unwrap();
                }
                writeln!(w, "{}", json!({"ev": "Crash", "icut": icut, "torn": torn, "c": c})).unwrap();
                crashes += 1;
                let r = catch_unwind(AssertUnwindSafe(|| open(&dir)));
                match r {
                    Ok(Ok(mut nf)) => {
                        let _ = nf.preopen();
                        payloads.truncate((nf.number() - 1) as usize);
                        let o = observe(&mut nf, &dir, &payloads, rng.below(3));
                        (s_idx, s_head, s_len) = (o.idx, o.hid, o.hlen);
                        ev(&mut w, "Reopen", json!({}), &o);
                        ff = Some(nf);
                    }
                    Ok(Err(e)) => writeln!(w, "{}", json!({"ev": "ReopenError", "err": e.to_string()})).unwrap(),
                    Err(_) => writeln!(w, "{}", json!({"ev": "ReopenError", "err": "panic"})).unwrap(),
                }
            }
        }
        max_appends = max_appends.max(hist_appends);
    }
    w.flush().unwrap();
    println!("{}", json!({"summary": {"histories": hist, "appends": appends, "crashes": crashes, "truncates": truncs, "rollovers": rolls, "max_appends_per_history": max_appends, "max_size": max}}));
}

fn main() {
    let args: Vec<String> = std::env::args().collect();
    let rest = &args[2.min(args.len())..];
    match args.get(1).map(|s| s.as_str()) {
        Some("states") => states(rest),
        Some("drive") => drive(rest),
        _ => {
            eprintln!("usage: c09 states|drive ...");
            std::process::exit(2);
        }
    }
}
